(* Props/C26.v -- Forwarded DNS messages keep their meaning.
   forward_udp (Model/DnsMessage.v) is the layer path with no addon change: DNSMessage.unpack
   then pack_message; ref_canon (Model/DnsRef.v) is the independent RFC 1035 reference
   decoder: two byte strings mean the same iff their ref_canon values are equal.
   Statements only; proofs in Proofs/DnsC26.v and Proofs/DnsMessageRT.v. *)
From Coq Require Import List Bool Arith NArith.
From MV Require Import Base.Bytes Model.DnsNames Model.DnsMessage Model.DnsRef
  Proofs.DnsNamesRT Proofs.DnsMessageRT Proofs.DnsC25 Proofs.DnsC26.
Import ListNotations.

(* The property as stated is FALSE of the faithful model: a response with a compressed owner
   name and TXT data 02 c0 0c is forwarded as a message the reference decoder reads
   differently (TXT is not forwarded byte-for-byte).  Finding raw-rdata-rewritten. *)
Theorem C26_meaning_preserved_refuted : exists b w b',
  ref_canon b = Some w /\ forward_udp b = Ok b' /\ ref_canon b' <> Some w.
Proof. exact meaning_refuted. Qed.
Print Assumptions C26_meaning_preserved_refuted.

(* Every well-formed message in plain wire form (full field ranges, arbitrary record data
   except bytes >= 0xC0 in the data of the record types of record_data_can_have_compression:
   the complement of the finding) is forwarded byte-for-byte, so every decoder, the reference
   decoder included, reads it identically, all record data unchanged. *)
Theorem C26_plain_forward_identical_partial : forall m : message,
  wf_msg m -> Forall rdata_guard (all_rrs m) -> forward_udp (msgwire m) = Ok (msgwire m).
Proof. exact forward_plain. Qed.
Print Assumptions C26_plain_forward_identical_partial.

(* For ARBITRARY input bytes (compressed names, pointer chains included): whatever is sent
   on is the encoding of the decoded message; if that message is well-formed and passes
   the guard, the bytes sent are its plain wire form, decode to the same message again,
   and a second forwarding hop changes nothing. *)
Theorem C26_forward_decoded_partial : forall b b' : bytes, forward_udp b = Ok b' ->
  exists m, DnsMessage.unpack b = Ok m /\ packed m = Ok b' /\
    (wf_msg m -> Forall rdata_guard (all_rrs m) ->
     b' = msgwire m /\ DnsMessage.unpack b' = Ok m /\ forward_udp b' = Ok b').
Proof. exact forward_decoded. Qed.
Print Assumptions C26_forward_decoded_partial.

(* Non-vacuous: a response with a compressed owner name, a CNAME whose data ends in a
   pointer and an MX with an upper-case label is forwarded as different bytes (72 -> 108)
   with the same meaning under the reference decoder. *)
Theorem C26_nonvacuous : exists w b',
  ref_canon cname_mx_compressed = Some w /\ forward_udp cname_mx_compressed = Ok b'
  /\ b' <> cname_mx_compressed /\ ref_canon b' = Some w /\ length b' = 108.
Proof. exact meaning_kept_example. Qed.
Print Assumptions C26_nonvacuous.

(* A pointer inside RDATA may target an earlier name of the SAME rdata (SOA RNAME compressed against
   the MNAME, as BIND emits it): such a record is expanded and keeps its meaning (101 -> 133 bytes). *)
Theorem C26_intra_rdata_pointer_example : exists w b',
  ref_canon soa_intra_rdata = Some w /\ forward_udp soa_intra_rdata = Ok b'
  /\ ref_canon b' = Some w /\ length b' = 133.
Proof. exact intra_rdata_example. Qed.
Print Assumptions C26_intra_rdata_pointer_example.

(* Over TCP every forwarded frame is the UDP forwarding of the same message behind its 2-byte length
   prefix (the message is decoded on its own: pointers are relative to the message, not to the stream
   buffer), and a pipelined stream is forwarded frame by frame, independently of how it is split. *)
Theorem C26_tcp_frame_is_udp : forall msg f : bytes, forward_tcp_frame msg = Ok f ->
  exists b, forward_udp msg = Ok b /\ f = put_u16be (N.of_nat (length b)) ++ b.
Proof. exact tcp_frame_is_udp. Qed.
Print Assumptions C26_tcp_frame_is_udp.

Theorem C26_tcp_stream_compositional : forall a b : list bytes, forward_tcp_stream (a ++ b) =
  match forward_tcp_stream a, forward_tcp_stream b with Some x, Some y => Some (x ++ y) | _, _ => None end.
Proof. exact tcp_stream_app. Qed.
Print Assumptions C26_tcp_stream_compositional.
