(* placeholder while the correspondence is brought up; replaced by the real statements *)
From Coq Require Import List.
From MV Require Import Base.Bytes Model.Tnet.
Theorem C36_placeholder : dumps TNull = (x30 :: x3a :: x7e :: nil).
Proof. reflexivity. Qed.
Print Assumptions C36_placeholder.
