(* Props/C36.v -- Flow files round-trip every flow type and reading never fails unexpectedly.
   Statements only; each is closed by [exact] of a lemma proved in Proofs/Tnet*.v.
   Model: Model/Tnet.v (tnetstring dumps/load/parse/pop, FlowReader.stream exception mapping).
   float() and Flow.from_state(compat.migrate_flow(.)) are parameters: every theorem holds for
   all of their behaviours. Flow get_state/from_state are not modelled (oracle only). *)
From Coq Require Import List Bool Arith NArith ZArith.
From MV Require Import Base.Bytes Model.Tnet Proofs.TnetBase Proofs.TnetRoundtrip Proofs.TnetReader Proofs.TnetTrunc Proofs.TnetExamples Model.ConnLiterals Gen.ConnectionLiterals Proofs.ConnLiterals.
Import ListNotations.

(* Codec round trip, all value trees: what dumps writes, load reads back as the same tree with
   the item order of every dict reversed (mirror), and leaves the rest of the file untouched.
   wf = representable Python value (canonical float tokens, valid UTF-8 strs, hashable pairwise
   different dict keys, at most 4300 digits per int and length prefix); top_ok = at most 12 length
   digits (load rejects longer prefixes); height v <= depth = the interpreter stack suffices. *)
Theorem C36_roundtrip : forall pyfloat (v : tv) (depth : nat) (rest : bytes),
  wf pyfloat v -> top_ok v -> (height v <= depth)%nat ->
  load pyfloat depth (dumps v ++ rest) = LValue (mirror v) rest.
Proof. exact load_dumps. Qed.
Print Assumptions C36_roundtrip.

(* mirror v is the same Python value (dicts compare as unordered item collections), and a second
   save/load restores the original item order *)
Theorem C36_mirror_is_python_equal : forall v, tv_equiv v (mirror v) /\ mirror (mirror v) = v.
Proof. exact (fun v => conj (mirror_equiv v) (mirror_involutive v)). Qed.
Print Assumptions C36_mirror_is_python_equal.

(* The length-prefixed framing is prefix-free, hence injective: no encoding is the beginning of
   another one. *)
Theorem C36_prefix_free : forall pyfloat v1 v2 rest,
  wf pyfloat v1 -> wf pyfloat v2 -> dumps v2 = dumps v1 ++ rest -> v1 = v2 /\ rest = [].
Proof. exact dumps_prefix_free. Qed.
Print Assumptions C36_prefix_free.

(* Whole files: the records written are read back in order and the reader ends cleanly, for any
   handler pair naming ValueError and IndexError (in particular the current one). *)
Theorem C36_file_roundtrip : forall pyfloat outer inner from_state depth,
  outer ValueError = true -> outer IndexError = true -> forall vs : list tv,
  Forall (loadable pyfloat from_state depth) vs ->
  stream pyfloat outer inner from_state depth (file_of vs) = (map mirror vs, Clean).
Proof. exact stream_whole. Qed.
Print Assumptions C36_file_roundtrip.

(* Reading arbitrary bytes. Full totality (only Clean / ReadError) is FALSE of the code as it is:
   refuted by nesting one level beyond the stack budget, and by a well-formed dict on which
   from_state raises KeyError. *)
Theorem C36_reader_total_refuted :
  (exists pyfloat from_state depth file,
     snd (stream pyfloat outer_current inner_current from_state depth file) = Other RecursionError)
  /\ (exists pyfloat from_state depth file,
     snd (stream pyfloat outer_current inner_current from_state depth file) = Other KeyError).
Proof.
  exact (conj (ex_intro _ _ (ex_intro _ _ (ex_intro _ _ (ex_intro _ _ (proj1 recursion_error_escapes)))))
              (ex_intro _ _ (ex_intro _ _ (ex_intro _ _ (ex_intro _ _ key_error_escapes))))).
Qed.
Print Assumptions C36_reader_total_refuted.

(* ... and these are the ONLY ways (exact complement of the finding): for all bytes, all float()
   and from_state behaviours and every stack budget, the reader ends cleanly, with a read error,
   in the HAR branch, or with RecursionError, or with an exception class that from_state raised
   and that is not ValueError/TypeError/IndexError. It never runs out of model fuel. *)
Theorem C36_reader_total_partial : forall pyfloat from_state depth file,
  let fin := snd (stream pyfloat outer_current inner_current from_state depth file) in
  fin = Clean \/ fin = ReadError \/ fin = HarBranch
  \/ fin = Other RecursionError
  \/ (exists v e, from_state v = Some e /\ outer_current e = false /\ fin = Other e).
Proof. exact stream_current_outcomes. Qed.
Print Assumptions C36_reader_total_partial.

(* Sufficient guard: from_state raises only the named classes and the file is too short to
   exhaust the stack (every nesting level costs at least two bytes). *)
Theorem C36_reader_total_guarded : forall pyfloat from_state depth file,
  (forall v e, from_state v = Some e -> outer_current e = true) ->
  (length file <= 2 * depth)%nat ->
  let fin := snd (stream pyfloat outer_current inner_current from_state depth file) in
  fin = Clean \/ fin = ReadError \/ fin = HarBranch.
Proof. exact stream_current_total_guarded. Qed.
Print Assumptions C36_reader_total_guarded.

(* The repair (fixes/C36-reader-exception-mapping.diff): handlers that also name RecursionError
   and convert everything from_state raises make the reader total on all inputs. *)
Theorem C36_reader_total_if_handled : forall pyfloat outer inner from_state depth file,
  outer ValueError = true -> outer TypeError = true -> outer IndexError = true ->
  outer RecursionError = true -> (forall e, inner e = true) ->
  let fin := snd (stream pyfloat outer inner from_state depth file) in
  fin = Clean \/ fin = ReadError \/ fin = HarBranch.
Proof. exact stream_total_if_handled. Qed.
Print Assumptions C36_reader_total_if_handled.

(* tnetstring level: pop raises only ValueError / TypeError / RecursionError and load additionally
   IndexError, for all inputs. *)
Theorem C36_load_exceptions : forall pyfloat depth file e,
  load pyfloat depth file = LExc e ->
  e = ValueError \/ e = TypeError \/ e = IndexError \/ e = RecursionError.
Proof. exact (fun pf d f e H => proj1 (proj2 (load_facts pf d f)) e H). Qed.
Print Assumptions C36_load_exceptions.

Theorem C36_nonvacuous :
  wf pf_sample sample /\ top_ok sample /\ (height sample <= 2)%nat
  /\ load pf_sample 2 (dumps sample) = LValue (mirror sample) []
  /\ mirror sample <> sample
  /\ load pf_sample 2 (dumps (mirror sample)) = LValue sample [].
Proof. exact sample_roundtrips. Qed.
Print Assumptions C36_nonvacuous.

(* ---- typed connection fields (coretypes/serializable._process Literal check, Model/ConnLiterals.v).
   The domains are the ones spelled in mitmproxy/connection.py (translated: Gen/ConnectionLiterals.v);
   the values are pinned independently: everything OpenSSL / aioquic report as TLS version and both
   transports pass get_state/set_state, so such a connection never makes FlowWriter.add raise. *)
Theorem C36_reported_tls_versions_serialisable :
  forall v, In v reported_tls_versions -> opt_literal_ok tls_version_src (Some v) = true.
Proof. exact reported_tls_versions_accepted. Qed.
Print Assumptions C36_reported_tls_versions_serialisable.

Theorem C36_reported_transports_serialisable :
  forall v, In v reported_transports -> literal_ok transport_protocol_src v = true.
Proof. exact reported_transports_accepted. Qed.
Print Assumptions C36_reported_transports_serialisable.

(* the annotation and the pinned lists coincide: a drift in either direction breaks this proof *)
Theorem C36_typed_domains_pinned :
  tls_version_src = reported_tls_versions /\ transport_protocol_src = reported_transports.
Proof. exact typed_domains_pinned. Qed.
Print Assumptions C36_typed_domains_pinned.
