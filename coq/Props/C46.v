(* Props/C46.v -- mitmweb requires authentication and blocks cross-site state changes.
   Statements only. [mitmweb] is the route x method x wrapper table generated from the real
   Application (Gen/WebRoutes.v); [handle] is the model of tornado _execute with the
   mitmproxy overrides (Model/WebAuth.v). All theorems quantify over the state type, the
   handler bodies [inner], the argon2 verifier, the stored password and the whole request
   (route index, method, signed-cookie value, Authorization header, token arguments,
   XSRF verdict, Sec-Fetch-Site value).
   Vocabulary (Proofs/WebAuth.v): creds_invalid = no valid session cookie and the password the
   wrapper would check is not valid; not_static = the matched rule is not a tornado static
   file rule; implemented = the handler class defines the method; cross_site = a
   Sec-Fetch-Site value other than same-origin / none is present. *)
From Coq Require Import List Bool NArith.
From MV Require Import Base.Bytes Model.WebAuth Gen.WebRoutes Proofs.WebAuth.
Import ListNotations.

(* Every implemented method of every mitmproxy handler class in the table sits under at
   least one _require_auth wrapper. *)
Theorem C46_every_handler_wrapped_partial :
  forall r, In r (a_routes mitmweb) -> rt_kind r = Mitm ->
  forall m n, In (m, Some n) (rt_methods r) -> (1 <= n)%nat.
Proof. exact all_wrapped_partial. Qed.
Print Assumptions C46_every_handler_wrapped_partial.

(* The full statement (every endpoint of the application) is false: the table also holds
   the static file rules tornado adds for static_path, whose GET/HEAD are not wrapped
   (finding static-unauthenticated).  The guard rt_kind r = Mitm above is exactly the complement. *)
Theorem C46_every_handler_wrapped_refuted :
  exists r m, In r (a_routes mitmweb) /\ In (m, Some O) (rt_methods r).
Proof. exact all_wrapped_refuted. Qed.
Print Assumptions C46_every_handler_wrapped_refuted.

(* A request without valid credentials, to any route that is not a static file rule (also to
   no route at all) and with any method: the state is unchanged, no auth cookie is set, the
   response carries nothing a handler body wrote, and the status is 400, 403, 404 or 405. *)
Theorem C46_unauthenticated_refused :
  forall (St D : Type) (inner : nat -> meth -> St -> request -> St * (N * D))
         (av : bytes -> bytes -> bool) (stored : bytes) (s : St) (q : request),
  not_static mitmweb q -> creds_invalid av stored q ->
  let out := handle St D inner av stored mitmweb s q in
  fst out = s /\ rs_cookie (snd out) = false /\ (forall d, rs_body (snd out) <> BInner d)
  /\ (rs_status (snd out) = 400 \/ rs_status (snd out) = 403 \/
      rs_status (snd out) = 404 \/ rs_status (snd out) = 405)%N.
Proof. exact unauthenticated_refused. Qed.
Print Assumptions C46_unauthenticated_refused.

(* Non-disclosure as non-interference: the complete response to such a request is the same
   for any two server states and any two behaviours of the handler bodies. *)
Theorem C46_unauthenticated_no_disclosure :
  forall (St D : Type) (inner1 inner2 : nat -> meth -> St -> request -> St * (N * D))
         (av : bytes -> bytes -> bool) (stored : bytes) (s1 s2 : St) (q : request),
  not_static mitmweb q -> creds_invalid av stored q ->
  snd (handle St D inner1 av stored mitmweb s1 q) = snd (handle St D inner2 av stored mitmweb s2 q).
Proof. exact unauthenticated_no_disclosure. Qed.
Print Assumptions C46_unauthenticated_no_disclosure.

(* The status is exactly 403 whenever the route implements the method and every token
   argument is decodable. *)
Theorem C46_unauthenticated_status_403_partial :
  forall (St D : Type) (inner : nat -> meth -> St -> request -> St * (N * D))
         (av : bytes -> bytes -> bool) (stored : bytes) (s : St) (q : request),
  not_static mitmweb q -> creds_invalid av stored q -> implemented mitmweb q ->
  decode_all (q_token q) <> None ->
  rs_status (snd (handle St D inner av stored mitmweb s q)) = 403%N.
Proof. exact unauthenticated_403. Qed.
Print Assumptions C46_unauthenticated_status_403_partial.

(* Without the decodability guard the status claim is false: a token argument that is not
   UTF-8 is answered 400 by tornado get_argument (finding undecodable-token-400); still refused
   by C46_unauthenticated_refused. *)
Theorem C46_unauthenticated_status_403_refuted :
  exists q, not_static mitmweb q /\ creds_invalid no_argon secret q /\ implemented mitmweb q /\
    rs_status (snd (handle nat unit unit_inner no_argon secret mitmweb O q)) = 400%N.
Proof. exact status_403_refuted. Qed.
Print Assumptions C46_unauthenticated_status_403_refuted.

(* Any request whose method is not GET/HEAD/OPTIONS is refused (state unchanged, no cookie,
   no handler output) when tornado's XSRF check does not pass or when the browser marks it
   cross-site -- whatever the credentials, on every rule of the table including the static ones. *)
Theorem C46_state_change_needs_xsrf_and_same_site :
  forall (St D : Type) (inner : nat -> meth -> St -> request -> St * (N * D))
         (av : bytes -> bytes -> bool) (stored : bytes) (s : St) (q : request),
  tornado_safe (q_meth q) = false -> (q_xsrf_ok q = false \/ cross_site q) ->
  let out := handle St D inner av stored mitmweb s q in
  fst out = s /\ rs_cookie (snd out) = false /\ (forall d, rs_body (snd out) <> BInner d).
Proof. exact unsafe_refused. Qed.
Print Assumptions C46_state_change_needs_xsrf_and_same_site.

(* The refusals are not vacuous: a valid session cookie or a valid password/token reaches the
   handler body on every implemented GET/HEAD/OPTIONS. *)
Theorem C46_valid_credentials_admitted :
  forall (St D : Type) (inner : nat -> meth -> St -> request -> St * (N * D))
         (av : bytes -> bytes -> bool) (stored : bytes) (s : St) (q : request),
  implemented mitmweb q -> tornado_safe (q_meth q) = true ->
  (current_user q = true \/
   exists pw, effective_password q = Some pw /\ is_valid_password av stored pw = true) ->
  exists d, rs_body (snd (handle St D inner av stored mitmweb s q)) = BInner d.
Proof. exact valid_admitted. Qed.
Print Assumptions C46_valid_credentials_admitted.

(* Concrete instances: anonymous GET /flows satisfies the hypotheses and gets 403 with the
   state untouched; the same request with the right token runs the handler and sets the cookie;
   a cookie-authenticated POST /clear with a passing XSRF check but Sec-Fetch-Site: cross-site
   is refused. *)
Theorem C46_nonvacuous :
  creds_invalid no_argon secret q_anon_flows /\ not_static mitmweb q_anon_flows /\ implemented mitmweb q_anon_flows
  /\ handle nat unit unit_inner no_argon secret mitmweb O q_anon_flows = (O, Build_response 403%N BEmpty false)
  /\ handle nat unit unit_inner no_argon secret mitmweb O q_token_flows = (1%nat, Build_response 200%N (BInner tt) true)
  /\ tornado_safe (q_meth q_cookie_clear_cross) = false /\ cross_site q_cookie_clear_cross
  /\ handle nat unit unit_inner no_argon secret mitmweb O q_cookie_clear_cross = (O, Build_response 403%N BError false).
Proof. exact nonvacuous. Qed.
Print Assumptions C46_nonvacuous.

(* Histories (round 2): option changes of web_password interleaved with requests.  The response
   to a request is the single-request response for the password configured by the option
   changes before it -- it does not depend on which requests (successful logins included)
   came earlier.  [st] is the WebAuth configuration (option empty?, _password); password_after folds
   WebAuth.configure over the option changes of h1 only.  The session cookie is the only carrier of earlier logins, and it is an
   input of the request (q_cookie). *)
Theorem C46_history_stateless :
  forall (St D : Type) (inner : nat -> meth -> St -> request -> St * (N * D))
         (av : bytes -> bytes -> bool) (hash_ok : bytes -> bool) (a : app)
         (h1 : list step) (st : bool * bytes) (s : St) (q : request) (h2 : list step),
  exists s1, nth_error (run_history St D inner av hash_ok a st s (h1 ++ Request q :: h2)) (requests_in h1)
             = Some (snd (handle St D inner av (password_after hash_ok st h1) a s1 q)).
Proof. exact history_stateless. Qed.
Print Assumptions C46_history_stateless.

(* A request whose credentials are not valid for the CURRENT password is refused wherever it
   occurs in a history: a revoked password stops working at the option change. *)
Theorem C46_history_revoked_refused :
  forall (St D : Type) (inner : nat -> meth -> St -> request -> St * (N * D))
         (av : bytes -> bytes -> bool) (hash_ok : bytes -> bool) (st : bool * bytes) (s : St)
         (h1 : list step) (q : request) (h2 : list step),
  not_static mitmweb q -> creds_invalid av (password_after hash_ok st h1) q ->
  exists rs, nth_error (run_history St D inner av hash_ok mitmweb st s (h1 ++ Request q :: h2)) (requests_in h1) = Some rs
    /\ rs_cookie rs = false /\ (forall d, rs_body rs <> BInner d)
    /\ (rs_status rs = 400 \/ rs_status rs = 403 \/ rs_status rs = 404 \/ rs_status rs = 405)%N.
Proof. exact history_revoked_refused. Qed.
Print Assumptions C46_history_revoked_refused.

Theorem C46_history_nonvacuous :
  map rs_status (run_history nat unit unit_inner no_argon (fun _ => true) mitmweb (false, secret) O rotate_history)
  = [200; 403; 200]%N.
Proof. exact history_nonvacuous. Qed.
Print Assumptions C46_history_nonvacuous.
