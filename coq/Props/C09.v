From Coq Require Import List Bool Arith.
From MV Require Import Model.ConnHandler.
Import ListNotations.
Theorem C09_stub : mainpc (init []) = M0.
Proof. reflexivity. Qed.
Print Assumptions C09_stub.
