(* Props/C09.v -- Connection lifecycle events pair up and per-destination concurrency is bounded.
   Model: Model/ConnHandler.v (mitmproxy/proxy/server.py ConnectionHandler as tasks at their await
   points).  All theorems quantify over every layer script sc (what the top layer answers to its
   n-th event) and every schedule l (hook/read/connect completions with any result, idle timeout,
   broken writers, and ANY ready task chosen to run next; an item that is not enabled is a no-op).
   client_hooks / server_hooks are the hook calls in call order.
   The full-strength property is FALSE of the faithful model (and of the real class: known findings
   cancel-at-semaphore, cancel-in-server-connect-hook, cancel-in-server-connected-hook,
   open-after-teardown): see the _refuted theorems; each _partial theorem has as its guard exactly
   the complement of those findings. *)
From Coq Require Import List Bool Arith.
From MV Require Import Model.ConnHandler Proofs.ConnHandlerPair Proofs.ConnHandlerSem Proofs.ConnHandlerTeardown
                       Proofs.ConnHandlerWitness Proofs.ConnHandlerMain.
Import ListNotations.

(* client_connected fires once, first; client_disconnected once, afterwards; both have fired when
   handle_client has returned (full strength, no guard) *)
Theorem C09_client_hooks_paired : forall sc l, let s := run (init sc) l in
  (client_hooks s = [] \/ client_hooks s = [HClientConnected] \/
   client_hooks s = [HClientConnected; HClientDisconnected]) /\
  (main_done s -> client_hooks s = [HClientConnected; HClientDisconnected]).
Proof. exact client_hooks_paired. Qed.
Print Assumptions C09_client_hooks_paired.

(* at every moment the hooks fired for an upstream connection are a prefix of
   server_connect (server_connect_error | server_connected server_disconnected), and they are a
   function of where its task stands (full strength, no guard) *)
Theorem C09_server_hooks_grammar : forall sc l c, 1 <= c -> let s := run (init sc) l in
  grammar_prefix (server_hooks s c) /\ server_hooks s c = rev (rword (c_pc (getc s c))).
Proof. exact server_hooks_grammar_pc. Qed.
Print Assumptions C09_server_hooks_grammar.

(* REFUTED: a finished attempt whose word is incomplete (six connections to one address, the sixth
   is cancelled while it waits for the semaphore: server_connect and nothing else) *)
Theorem C09_server_pairing_refuted : exists sc l c x, 1 <= c /\ let s := run (init sc) l in
  task_exit s c x /\ ~ complete_word (server_hooks s c).
Proof. exact server_pairing_refuted. Qed.
Print Assumptions C09_server_pairing_refuted.

(* REFUTED: server_connected without server_disconnected although handle_client returned *)
Theorem C09_connected_without_disconnected_refuted : exists sc l c x, 1 <= c /\ let s := run (init sc) l in
  main_done s /\ task_exit s c x /\ server_hooks s c = [HServerConnect; HServerConnected].
Proof. exact connected_without_disconnected. Qed.
Print Assumptions C09_connected_without_disconnected_refuted.

(* PARTIAL: unless the task was cancelled at one of the three unprotected await points
   (server_connect hook, semaphore, server_connected hook), a finished attempt fired nothing, or
   connect + connect_error, or connect + connected + disconnected *)
Theorem C09_server_pairing_partial : forall sc l c x, 1 <= c -> let s := run (init sc) l in
  task_exit s c x -> ~ lost x -> complete_word (server_hooks s c).
Proof. exact server_pairing_partial. Qed.
Print Assumptions C09_server_pairing_partial.

(* at most five tasks per address are inside the async-with body (connecting, connected, or
   waiting for their disconnect hook), in every reachable state (full strength, no guard);
   and value + inside + woken waiters = 5 *)
Theorem C09_at_most_five : forall sc l b, open_count b (run (init sc) l) <= 5.
Proof. exact at_most_five. Qed.
Print Assumptions C09_at_most_five.

Theorem C09_semaphore_accounting : forall sc l b, SS b (run (init sc) l) = 5.
Proof. exact sem_invariant. Qed.
Print Assumptions C09_semaphore_accounting.

(* REFUTED / PARTIAL: open sockets per address.  Six writers to one address can be open at once
   when a socket was leaked by a cancelled server_connected hook; without such a leak at most five *)
Theorem C09_open_sockets_refuted : exists sc l b, let s := run (init sc) l in open_writers b s = 6.
Proof. exact open_sockets_refuted. Qed.
Print Assumptions C09_open_sockets_refuted.

Theorem C09_open_sockets_partial : forall sc l b, let s := run (init sc) l in
  leaked b s = 0 -> open_writers b s <= 5.
Proof. exact open_sockets_partial. Qed.
Print Assumptions C09_open_sockets_partial.

Theorem C09_open_sockets_bound : forall sc l b, let s := run (init sc) l in open_writers b s <= 5 + leaked b s.
Proof. exact open_writers_bound. Qed.
Print Assumptions C09_open_sockets_bound.

(* REFUTED: an open writer remains after handle_client returned -- (a) a connection that existed
   at the final snapshot (c < n), leaked by the server_connected-hook cancellation; (b) a
   connection opened by the layer after the snapshot (n <= c), never cancelled nor awaited *)
Theorem C09_cleanup_refuted_leak : exists sc l n c, let s := run (init sc) l in
  main_done s /\ teardown_n s = Some n /\ 1 <= c /\ c < n /\ c_writer (getc s c) = WOpen.
Proof. exact cleanup_refuted_leak. Qed.
Print Assumptions C09_cleanup_refuted_leak.

Theorem C09_cleanup_refuted_late : exists sc l n c, let s := run (init sc) l in
  main_done s /\ teardown_n s = Some n /\ n <= c /\ c_writer (getc s c) = WOpen.
Proof. exact cleanup_refuted_late. Qed.
Print Assumptions C09_cleanup_refuted_late.

(* PARTIAL: once handle_client has returned, no upstream connection that existed at its final
   snapshot of transports has an open writer, unless its server_connected hook was cancelled;
   and each such connection is past handle_connection *)
Theorem C09_cleanup_partial : forall sc l n c, let s := run (init sc) l in
  main_done s -> teardown_n s = Some n -> 1 <= c -> c < n ->
  ~ task_exit s c XLostConnectedHook -> c_writer (getc s c) <> WOpen.
Proof. exact cleanup_partial. Qed.
Print Assumptions C09_cleanup_partial.

(* non-vacuity: one refused and one successful connection, data, EOF, idle timeout, clean shutdown *)
Theorem C09_nonvacuous :
  let s := run (init [[COpen (Some 0); COpen (Some 1)]]) w_clean in
  mainpc s = MDone 0 /\ rev (cproj (trace s)) = [HClientConnected; HClientDisconnected] /\
  rev (proj 1 (trace s)) = [HServerConnect; HServerConnectError] /\
  rev (proj 2 (trace s)) = [HServerConnect; HServerConnected; HServerDisconnected] /\
  c_pc (getc s 1) = PDone (XErr false) /\ c_pc (getc s 2) = PDone (XClosed true) /\
  c_writer (getc s 2) = WClosed /\ semval s 0 = 5 /\ semval s 1 = 5.
Proof. exact w_clean_ok. Qed.
Print Assumptions C09_nonvacuous.
