(* Props/C51.v — Escaped binary text converts back to the same bytes.
   Statements only; each is closed by [exact] of a lemma proved elsewhere. *)
From Coq Require Import List Bool NArith.
From MV Require Import Base.Bytes Model.Strutils Proofs.StrutilsC51.

(* For every byte string and both flags, the escaped text decodes (with the model of
   codecs.escape_decode) to exactly the same bytes. *)
Theorem C51_roundtrip : forall (data : bytes) (keep_spacing escape_single_quotes : bool),
  escaped_str_to_bytes (bytes_to_escaped_str data keep_spacing escape_single_quotes) = Some data.
Proof. exact roundtrip. Qed.
Print Assumptions C51_roundtrip.

(* The escaped text contains no C0/DEL/C1 control character, except TAB/LF/CR when
   keep_spacing is set. *)
Theorem C51_no_control : forall (data : bytes) (keep_spacing escape_single_quotes : bool) (c : byte),
  In c (bytes_to_escaped_str data keep_spacing escape_single_quotes) ->
  is_cc (bN c) = false \/ (keep_spacing = true /\ is_spacing (bN c) = true).
Proof. exact no_control. Qed.
Print Assumptions C51_no_control.

Theorem C51_nonvacuous :
  escaped_str_to_bytes (bytes_to_escaped_str sample true false) = Some sample
  /\ bytes_to_escaped_str sample true false <> sample.
Proof. exact sample_roundtrips. Qed.
Print Assumptions C51_nonvacuous.
