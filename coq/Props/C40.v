(* Props/C40.v -- Backup, revert and copy behave exactly.  Statements only; each is closed by
   [exact] of a lemma of Proofs/FlowBackup.v.  Every theorem quantifies over the content lens
   (get_c, set_c, new_o: the content part of get_state / set_state / a fresh flow, for any flow
   type) under the contract get_c (set_c c o) = c, over a decidable content equality, and over
   arbitrary edit functions on the live content.  The model describes the REPAIRED modified
   (fixes/C40-modified-ignores-embedded-backup.diff). *)
From Coq Require Import List Bool NArith.
From MV Require Import Base.Bytes Model.FlowBackup Proofs.FlowBackup.
Import ListNotations.
Open Scope N_scope.

(* Backup, then ANY revert-free history of edits, live toggles, repeated backups and
   set_state(get_state()) round trips, then revert: get_state is exactly the backed-up state and
   the backup is cleared (live is left alone).  With a backup already pending, backup is a no-op
   and the state saved first is the one restored. *)
Theorem C40_revert_restores :
  forall (Obj C : Type) (get_c : Obj -> C) (set_c : C -> Obj -> Obj),
  (forall c o, get_c (set_c c o) = c) ->
  forall (f : flow Obj C) (h : list (fop Obj)), no_revert Obj h ->
  let g := frun Obj C get_c set_c (backup Obj C get_c f) h in
  get_state Obj C get_c (revert Obj C set_c g) =
    match fbackup f with
    | Some b => St (sid b) (sc b) None
    | None => get_state Obj C get_c f
    end
  /\ fbackup (revert Obj C set_c g) = None
  /\ flive (revert Obj C set_c g) = flive g.
Proof. exact revert_restores. Qed.
Print Assumptions C40_revert_restores.

(* The same inside any longer history: h1 is arbitrary (reverts included) and leaves no backup
   pending; the segment backup / revert-free h2 / revert brings the state back to what it was
   after h1 and again leaves no backup pending, so segments compose. *)
Theorem C40_revert_restores_in_history :
  forall (Obj C : Type) (get_c : Obj -> C) (set_c : C -> Obj -> Obj),
  (forall c o, get_c (set_c c o) = c) ->
  forall (f0 : flow Obj C) (h1 h2 : list (fop Obj)),
  fbackup (frun Obj C get_c set_c f0 h1) = None -> no_revert Obj h2 ->
  let g := frun Obj C get_c set_c f0 (h1 ++ [FBackup] ++ h2 ++ [FRevert]) in
  get_state Obj C get_c g = get_state Obj C get_c (frun Obj C get_c set_c f0 h1)
  /\ fbackup g = None.
Proof. exact revert_restores_in_history. Qed.
Print Assumptions C40_revert_restores_in_history.

(* Through ALL histories of one flow the id never changes and the saved state is flat (contains
   no backup of its own) and carries that id. *)
Theorem C40_history_flat :
  forall (Obj C : Type) (get_c : Obj -> C) (set_c : C -> Obj -> Obj)
         (h : list (fop Obj)) (f : flow Obj C),
  flat Obj C f ->
  flat Obj C (frun Obj C get_c set_c f h) /\ fid (frun Obj C get_c set_c f h) = fid f.
Proof. exact history_flat. Qed.
Print Assumptions C40_history_flat.

(* modified() is True exactly when a backup is pending and the current (id, content) differs
   from the saved one. *)
Theorem C40_modified_iff :
  forall (Obj C : Type) (get_c : Obj -> C) (C_eqb : C -> C -> bool),
  (forall a b, C_eqb a b = true <-> a = b) ->
  forall f : flow Obj C,
  modified Obj C get_c C_eqb f = true <->
  exists b, fbackup f = Some b /\ (sid b, sc b) <> (fid f, get_c (fo f)).
Proof. exact modified_iff. Qed.
Print Assumptions C40_modified_iff.

(* ... in particular False right after a backup (this is what the unrepaired code got wrong),
   after a revert, and, after backup and any revert-free history, True iff the content now
   differs from the content at backup time (edit and edit back gives False again). *)
Theorem C40_modified_after_backup :
  forall (Obj C : Type) (get_c : Obj -> C) (C_eqb : C -> C -> bool),
  (forall a b, C_eqb a b = true <-> a = b) ->
  forall f : flow Obj C, fbackup f = None ->
  modified Obj C get_c C_eqb (backup Obj C get_c f) = false.
Proof. exact modified_after_backup. Qed.
Print Assumptions C40_modified_after_backup.

Theorem C40_modified_after_revert :
  forall (Obj C : Type) (get_c : Obj -> C) (set_c : C -> Obj -> Obj) (C_eqb : C -> C -> bool)
         (f : flow Obj C),
  modified Obj C get_c C_eqb (revert Obj C set_c f) = false.
Proof. exact modified_after_revert. Qed.
Print Assumptions C40_modified_after_revert.

Theorem C40_modified_in_history :
  forall (Obj C : Type) (get_c : Obj -> C) (set_c : C -> Obj -> Obj) (C_eqb : C -> C -> bool),
  (forall a b, C_eqb a b = true <-> a = b) ->
  forall (f : flow Obj C) (h : list (fop Obj)),
  fbackup f = None -> no_revert Obj h ->
  (modified Obj C get_c C_eqb (frun Obj C get_c set_c (backup Obj C get_c f) h) = true <->
   get_c (fo (frun Obj C get_c set_c (backup Obj C get_c f) h)) <> get_c (fo f)).
Proof. exact modified_in_history. Qed.
Print Assumptions C40_modified_in_history.

(* The defect that was repaired (finding modified-without-change): the comparison
   self._backup != self.get_state() is True for EVERY flow with a backup, edited or not, because
   get_state embeds the backup and no state equals a state that contains it. *)
Theorem C40_unrepaired_modified_constant :
  forall (Obj C : Type) (get_c : Obj -> C) (C_eqb : C -> C -> bool) (f : flow Obj C) (b : state C),
  fbackup f = Some b -> modified_unrepaired Obj C get_c C_eqb f = true.
Proof. exact unrepaired_modified_constant. Qed.
Print Assumptions C40_unrepaired_modified_constant.

(* A copy has the id it was given (a fresh uuid4), equal content and an equal pending backup,
   and is not live. *)
Theorem C40_copy_spec :
  forall (Obj C : Type) (get_c : Obj -> C) (set_c : C -> Obj -> Obj) (new_o : Obj),
  (forall c o, get_c (set_c c o) = c) ->
  forall (nid : ident) (f : flow Obj C),
  get_state Obj C get_c (copy Obj C get_c set_c new_o nid f) = St nid (get_c (fo f)) (fbackup f)
  /\ fid (copy Obj C get_c set_c new_o nid f) = nid
  /\ flive (copy Obj C get_c set_c new_o nid f) = false.
Proof. exact copy_spec. Qed.
Print Assumptions C40_copy_spec.

(* Editing either one never changes the other: in a store of flows, over any history, a flow
   that no operation targets is unchanged, whatever is done to the other flows and however often
   it is copied (copies are appended at the end of the store). *)
Theorem C40_independent :
  forall (Obj C : Type) (get_c : Obj -> C) (set_c : C -> Obj -> Obj) (new_o : Obj)
         (h : list (op Obj)) (s : list (flow Obj C)) (j : nat),
  (j < length s)%nat ->
  (forall o i p, In o h -> fop_of Obj o = Some (i, p) -> i <> j) ->
  nth_error (run Obj C get_c set_c new_o s h) j = nth_error s j.
Proof. exact run_independent. Qed.
Print Assumptions C40_independent.

Theorem C40_copy_appends :
  forall (Obj C : Type) (get_c : Obj -> C) (set_c : C -> Obj -> Obj) (new_o : Obj)
         (s : list (flow Obj C)) (i : nat) (nid : ident) (f : flow Obj C),
  nth_error s i = Some f ->
  step Obj C get_c set_c new_o s (Copy i nid) = s ++ [copy Obj C get_c set_c new_o nid f].
Proof. exact step_copy. Qed.
Print Assumptions C40_copy_appends.

(* Does the fresh id stay fresh?  At full strength (every copy receives an unused id, any
   history) NO -- known finding copy-revert-restores-original-id: backup flow 0, copy it, revert
   the copy: the copy now has the id of flow 0 (stated at the token instance the correspondence
   check runs). *)
Theorem C40_ids_distinct_refuted :
  exists (s : list tflow) (h : list (op N)),
    NoDup (map fid s)
    /\ hist_ok N N tget tset 0 (fun s o => fresh_op N N s o) s h
    /\ ~ NoDup (map fid (run N N tget tset 0 s h)).
Proof. exact ids_distinct_refuted. Qed.
Print Assumptions C40_ids_distinct_refuted.

(* Partial: the guard is exactly the complement of the finding -- no flow is reverted to a saved
   state that carries another id (which only a copy made while a backup was pending has).  Then
   ids stay pairwise distinct through every history. *)
Theorem C40_ids_distinct_partial :
  forall (Obj C : Type) (get_c : Obj -> C) (set_c : C -> Obj -> Obj) (new_o : Obj),
  (forall c o, get_c (set_c c o) = c) ->
  forall (h : list (op Obj)) (s : list (flow Obj C)),
  NoDup (map fid s) ->
  hist_ok Obj C get_c set_c new_o (fun s0 o => fresh_op Obj C s0 o /\ guard_op Obj C s0 o) s h ->
  NoDup (map fid (run Obj C get_c set_c new_o s h)).
Proof. exact ids_distinct_partial. Qed.
Print Assumptions C40_ids_distinct_partial.

(* The contract is satisfiable (token instance) and the hypotheses of C40_revert_restores hold on
   a history that really edits: before the revert the state differs and modified is True, after
   it the state is back and modified is False; right after the backup modified is False. *)
Theorem C40_nonvacuous :
  (forall c o, tget (tset c o) = c)
  /\ no_revert N sample_hist /\ fbackup sample_flow = None
  /\ let g := frun N N tget tset (backup N N tget sample_flow) (tl sample_hist) in
     tget_state g <> tget_state sample_flow
     /\ tmodified g = true
     /\ tget_state (revert N N tset g) = tget_state sample_flow
     /\ tmodified (revert N N tset g) = false
     /\ tmodified (backup N N tget sample_flow) = false.
Proof. exact (conj token_contract sample_nonvacuous). Qed.
Print Assumptions C40_nonvacuous.
