(* Props/C40.v -- Backup, revert and copy behave exactly.  Statements only; each is closed by
   [exact] of a lemma of Proofs/FlowBackup.v.  Every theorem quantifies over the content lens
   (get_c, set_c, new_o: the content part of get_state / set_state / a fresh flow, for any flow
   type) under the contract get_c (set_c c o) = c, over a decidable content equality, and over
   arbitrary edit functions on the live content.  The model describes the REPAIRED modified
   (fixes/C40-modified-ignores-embedded-backup.diff) and the REPAIRED copy
   (fixes/C40-copy-backup-id.diff). *)
From Coq Require Import List Bool NArith.
From MV Require Import Base.Bytes Model.FlowBackup Proofs.FlowBackup.
Import ListNotations.
Open Scope N_scope.

(* Backup, then ANY revert-free history of edits, live toggles, repeated backups and
   set_state(get_state()) round trips, then revert: get_state is exactly the backed-up state and
   the backup is cleared (live is left alone).  With a backup already pending, backup is a no-op
   and the state saved first is the one restored. *)
Theorem C40_revert_restores :
  forall (Obj C : Type) (get_c : Obj -> C) (set_c : C -> Obj -> Obj),
  (forall c o, get_c (set_c c o) = c) ->
  forall (f : flow Obj C) (h : list (fop Obj)), no_revert Obj h ->
  let g := frun Obj C get_c set_c (backup Obj C get_c f) h in
  get_state Obj C get_c (revert Obj C set_c g) =
    match fbackup f with
    | Some b => St (sid b) (sc b) None
    | None => get_state Obj C get_c f
    end
  /\ fbackup (revert Obj C set_c g) = None
  /\ flive (revert Obj C set_c g) = flive g.
Proof. exact revert_restores. Qed.
Print Assumptions C40_revert_restores.

(* The same inside any longer history: h1 is arbitrary (reverts included) and leaves no backup
   pending; the segment backup / revert-free h2 / revert brings the state back to what it was
   after h1 and again leaves no backup pending, so segments compose. *)
Theorem C40_revert_restores_in_history :
  forall (Obj C : Type) (get_c : Obj -> C) (set_c : C -> Obj -> Obj),
  (forall c o, get_c (set_c c o) = c) ->
  forall (f0 : flow Obj C) (h1 h2 : list (fop Obj)),
  fbackup (frun Obj C get_c set_c f0 h1) = None -> no_revert Obj h2 ->
  let g := frun Obj C get_c set_c f0 (h1 ++ [FBackup] ++ h2 ++ [FRevert]) in
  get_state Obj C get_c g = get_state Obj C get_c (frun Obj C get_c set_c f0 h1)
  /\ fbackup g = None.
Proof. exact revert_restores_in_history. Qed.
Print Assumptions C40_revert_restores_in_history.

(* Through ALL histories of one flow the id never changes and the saved state is flat (contains
   no backup of its own) and carries that id. *)
Theorem C40_history_flat :
  forall (Obj C : Type) (get_c : Obj -> C) (set_c : C -> Obj -> Obj)
         (h : list (fop Obj)) (f : flow Obj C),
  flat Obj C f ->
  flat Obj C (frun Obj C get_c set_c f h) /\ fid (frun Obj C get_c set_c f h) = fid f.
Proof. exact history_flat. Qed.
Print Assumptions C40_history_flat.

(* modified() is True exactly when a backup is pending and the current (id, content) differs
   from the saved one. *)
Theorem C40_modified_iff :
  forall (Obj C : Type) (get_c : Obj -> C) (C_eqb : C -> C -> bool),
  (forall a b, C_eqb a b = true <-> a = b) ->
  forall f : flow Obj C,
  modified Obj C get_c C_eqb f = true <->
  exists b, fbackup f = Some b /\ (sid b, sc b) <> (fid f, get_c (fo f)).
Proof. exact modified_iff. Qed.
Print Assumptions C40_modified_iff.

(* ... in particular False right after a backup (this is what the unrepaired code got wrong),
   after a revert, and, after backup and any revert-free history, True iff the content now
   differs from the content at backup time (edit and edit back gives False again). *)
Theorem C40_modified_after_backup :
  forall (Obj C : Type) (get_c : Obj -> C) (C_eqb : C -> C -> bool),
  (forall a b, C_eqb a b = true <-> a = b) ->
  forall f : flow Obj C, fbackup f = None ->
  modified Obj C get_c C_eqb (backup Obj C get_c f) = false.
Proof. exact modified_after_backup. Qed.
Print Assumptions C40_modified_after_backup.

Theorem C40_modified_after_revert :
  forall (Obj C : Type) (get_c : Obj -> C) (set_c : C -> Obj -> Obj) (C_eqb : C -> C -> bool)
         (f : flow Obj C),
  modified Obj C get_c C_eqb (revert Obj C set_c f) = false.
Proof. exact modified_after_revert. Qed.
Print Assumptions C40_modified_after_revert.

Theorem C40_modified_in_history :
  forall (Obj C : Type) (get_c : Obj -> C) (set_c : C -> Obj -> Obj) (C_eqb : C -> C -> bool),
  (forall a b, C_eqb a b = true <-> a = b) ->
  forall (f : flow Obj C) (h : list (fop Obj)),
  fbackup f = None -> no_revert Obj h ->
  (modified Obj C get_c C_eqb (frun Obj C get_c set_c (backup Obj C get_c f) h) = true <->
   get_c (fo (frun Obj C get_c set_c (backup Obj C get_c f) h)) <> get_c (fo f)).
Proof. exact modified_in_history. Qed.
Print Assumptions C40_modified_in_history.

(* The defect that was repaired (finding modified-without-change): the comparison
   self._backup != self.get_state() is True for EVERY flow with a backup, edited or not, because
   get_state embeds the backup and no state equals a state that contains it. *)
Theorem C40_unrepaired_modified_constant :
  forall (Obj C : Type) (get_c : Obj -> C) (C_eqb : C -> C -> bool) (f : flow Obj C) (b : state C),
  fbackup f = Some b -> modified_unrepaired Obj C get_c C_eqb f = true.
Proof. exact unrepaired_modified_constant. Qed.
Print Assumptions C40_unrepaired_modified_constant.

(* A copy has the id it was given (a fresh uuid4), equal content and an equal pending backup
   that carries the id of the copy, and is not live. *)
Theorem C40_copy_spec :
  forall (Obj C : Type) (get_c : Obj -> C) (set_c : C -> Obj -> Obj) (new_o : Obj),
  (forall c o, get_c (set_c c o) = c) ->
  forall (nid : ident) (f : flow Obj C),
  get_state Obj C get_c (copy Obj C get_c set_c new_o nid f) =
    St nid (get_c (fo f)) (option_map (reid C nid) (fbackup f))
  /\ fid (copy Obj C get_c set_c new_o nid f) = nid
  /\ flive (copy Obj C get_c set_c new_o nid f) = false.
Proof. exact copy_spec. Qed.
Print Assumptions C40_copy_spec.

(* Reverting a copy keeps the fresh id, whatever backup was pending in the original. *)
Theorem C40_copy_revert_keeps_id :
  forall (Obj C : Type) (get_c : Obj -> C) (set_c : C -> Obj -> Obj) (new_o : Obj),
  (forall c o, get_c (set_c c o) = c) ->
  forall (nid : ident) (f : flow Obj C),
  fid (revert Obj C set_c (copy Obj C get_c set_c new_o nid f)) = nid.
Proof. exact copy_revert_keeps_id. Qed.
Print Assumptions C40_copy_revert_keeps_id.

(* The defect that was repaired (finding copy-revert-restores-original-id): with the shipped copy,
   backup / copy / revert-the-copy gave the copy the id of the original, for every flow. *)
Theorem C40_unrepaired_copy_revert_collides :
  forall (Obj C : Type) (get_c : Obj -> C) (set_c : C -> Obj -> Obj) (new_o : Obj)
         (nid : ident) (f : flow Obj C),
  fbackup f = None ->
  fid (revert Obj C set_c (copy_unrepaired Obj C get_c set_c new_o nid (backup Obj C get_c f))) = fid f.
Proof. exact unrepaired_copy_revert_collides. Qed.
Print Assumptions C40_unrepaired_copy_revert_collides.

(* Editing either one never changes the other: in a store of flows, over any history, a flow
   that no operation targets is unchanged, whatever is done to the other flows and however often
   it is copied (copies are appended at the end of the store). *)
Theorem C40_independent :
  forall (Obj C : Type) (get_c : Obj -> C) (set_c : C -> Obj -> Obj) (new_o : Obj)
         (h : list (op Obj)) (s : list (flow Obj C)) (j : nat),
  (j < length s)%nat ->
  (forall o i p, In o h -> fop_of Obj o = Some (i, p) -> i <> j) ->
  nth_error (run Obj C get_c set_c new_o s h) j = nth_error s j.
Proof. exact run_independent. Qed.
Print Assumptions C40_independent.

Theorem C40_copy_appends :
  forall (Obj C : Type) (get_c : Obj -> C) (set_c : C -> Obj -> Obj) (new_o : Obj)
         (s : list (flow Obj C)) (i : nat) (nid : ident) (f : flow Obj C),
  nth_error s i = Some f ->
  step Obj C get_c set_c new_o s (Copy i nid) = s ++ [copy Obj C get_c set_c new_o nid f].
Proof. exact step_copy. Qed.
Print Assumptions C40_copy_appends.

(* The fresh id stays fresh: if every copy receives an unused id, ids stay pairwise distinct, and
   every saved state keeps carrying the id of its own flow, through EVERY history of edits,
   backups, reverts, reloads and copies, from any store in which that holds (in particular any
   store of flows without a pending backup). *)
Theorem C40_ids_distinct :
  forall (Obj C : Type) (get_c : Obj -> C) (set_c : C -> Obj -> Obj) (new_o : Obj),
  (forall c o, get_c (set_c c o) = c) ->
  forall (h : list (op Obj)) (s : list (flow Obj C)),
  NoDup (map fid s) -> Forall (own Obj C) s ->
  hist_ok Obj C get_c set_c new_o (fresh_op Obj C) s h ->
  NoDup (map fid (run Obj C get_c set_c new_o s h))
  /\ Forall (own Obj C) (run Obj C get_c set_c new_o s h).
Proof. exact ids_distinct. Qed.
Print Assumptions C40_ids_distinct.

(* The history of the former finding, at the token instance the correspondence check runs. *)
Theorem C40_former_collision_distinct :
  map fid (run N N tget tset 0 collide_store collide_hist) = [0; 1]
  /\ fid (revert N N tset (copy_unrepaired N N tget tset 0 1 (backup N N tget (Flow 0 0 true None)))) = 0.
Proof. exact collide_hist_now_distinct. Qed.
Print Assumptions C40_former_collision_distinct.

(* The contract is satisfiable (token instance) and the hypotheses of C40_revert_restores hold on
   a history that really edits: before the revert the state differs and modified is True, after
   it the state is back and modified is False; right after the backup modified is False. *)
Theorem C40_nonvacuous :
  (forall c o, tget (tset c o) = c)
  /\ no_revert N sample_hist /\ fbackup sample_flow = None
  /\ let g := frun N N tget tset (backup N N tget sample_flow) (tl sample_hist) in
     tget_state g <> tget_state sample_flow
     /\ tmodified g = true
     /\ tget_state (revert N N tset g) = tget_state sample_flow
     /\ tmodified (revert N N tset g) = false
     /\ tmodified (backup N N tget sample_flow) = false.
Proof. exact (conj token_contract sample_nonvacuous). Qed.
Print Assumptions C40_nonvacuous.
