(* Props/C50.v -- Content views always render safely; the DNS view re-encodes faithfully.
   Statements only; each is closed by [exact] of a lemma proved elsewhere.
   Views are arbitrary partial functions; M is the (abstract) type of Metadata. *)
From Coq Require Import List Bool NArith ZArith.
From MV Require Import Base.Bytes Model.Strutils Model.DnsNames Model.DnsMessage Model.Contentviews
  Model.ContentviewsDns Proofs.DnsMessageRT Proofs.ContentviewsSafe Proofs.ContentviewsDns.
Import ListNotations.
Local Open Scope N_scope.

(* Rendering never raises: for ANY registry of views (render_priority and prettify arbitrary,
   failing wherever they like), any data, metadata and view name (auto, registered, unknown),
   prettify_message returns a result provided the raw view does not fail on this input and at
   least one registered view has a working render_priority (both hold of the shipped registry:
   C50_raw_total; RawContentview.render_priority is the constant 0.1). *)
Theorem C50_render_total : forall (M : Type) c1 (rawv : view M) (reg : list (view M)) data enc m name,
  (forall d, data = Some d -> exists t, v_prettify rawv d m = inl t) ->
  (forall d, data = Some d -> exists v, In v reg /\ v_prio v d m <> None) ->
  exists r, prettify_message c1 rawv reg data enc m name = Some r.
Proof. exact prettify_message_total. Qed.
Print Assumptions C50_render_total.

(* the raw view (bytes.decode(utf-8, backslashreplace)) is total: it is a function *)
Theorem C50_raw_total : forall (M : Type) p d (m : M), exists t, v_prettify (raw_view p) d m = inl t.
Proof. intros M p d m. eexists. reflexivity. Qed.
Print Assumptions C50_raw_total.

(* and these are the only ways out *)
Theorem C50_render_raises_only_if : forall (M : Type) c1 (rawv : view M) reg d enc m name,
  prettify_message c1 rawv reg (Some d) enc m name = None ->
  (forall v, In v reg -> v_prio v d m = None)
  \/ (text_eqb name AUTO = true /\ exists e, v_prettify rawv d m = inr e).
Proof. exact prettify_message_none_inv. Qed.
Print Assumptions C50_render_raises_only_if.

(* The rendered text has no control character other than TAB / LF / CR.
   As stated (Cc includes the C1 controls U+0080-U+009F) this is FALSE of the unchanged code
   (c1 = false is what the live escape_control_characters does): finding c1-control-passthrough. *)
Theorem C50_filtered_refuted_c1 :
  exists r, prettify_message false (raw_view (M:=unit) 1) [raw_view 1] (Some c1_body) [] tt AUTO = Some r
            /\ In 155 (r_text r) /\ is_c1 155 = true.
Proof. exact c1_passes. Qed.
Print Assumptions C50_filtered_refuted_c1.

(* On the complement (C0 controls and DEL), and in full once the filter replaces C1 controls
   (c1 = true): whatever the views return or raise, no such character is in the result. *)
Theorem C50_filtered_partial : forall (M : Type) c1 (rawv : view M) reg data enc m name r,
  prettify_message c1 rawv reg data enc m name = Some r ->
  forall c, In c (r_text r) -> bad0 c = false /\ (c1 = true -> is_c1 c = false).
Proof. exact prettify_message_filtered. Qed.
Print Assumptions C50_filtered_partial.

(* the parametric filter with c1 = false is the model of escape_control_characters of C51/C49 *)
Theorem C50_filter_is_strutils : forall t, ecc false t = escape_control_characters t true.
Proof. exact ecc_strutils. Qed.
Print Assumptions C50_filter_is_strutils.

(* View choice: automatic (or unknown name) picks a registered view of maximal working priority;
   an explicit registered name picks exactly that view. *)
Theorem C50_auto_picks_max : forall (M : Type) (reg : list (view M)) d m name v,
  (text_eqb name AUTO = true \/ getitem reg (lower_text name) = None) ->
  get_view reg d m name = Some v ->
  In v reg /\ exists p, v_prio v d m = Some p /\
    forall w q, In w reg -> v_prio w d m = Some q -> (q <= p)%Z.
Proof. exact get_view_auto_max. Qed.
Print Assumptions C50_auto_picks_max.

Theorem C50_explicit_picks_named : forall (M : Type) (reg : list (view M)) d m name v,
  text_eqb name AUTO = false -> getitem reg (lower_text name) = Some v ->
  get_view reg d m name = Some v.
Proof. exact get_view_explicit. Qed.
Print Assumptions C50_explicit_picks_named.

(* what is shown when the chosen view fails: raw with a note (auto) or the filtered error (explicit) *)
Theorem C50_fallback_to_raw : forall (M : Type) c1 (rawv : view M) reg d enc m v err t,
  get_view reg d m AUTO = Some v -> v_prettify v d m = inr err -> v_prettify rawv d m = inl t ->
  prettify_message c1 rawv reg (Some d) enc m AUTO
  = Some (mkRes (ecc c1 t) (v_syntax rawv) (Some (v_name rawv)) (enc ++ FAILED_PREFIX ++ v_name v ++ [93])).
Proof. exact prettify_message_fallback. Qed.
Print Assumptions C50_fallback_to_raw.

Theorem C50_explicit_error_display : forall (M : Type) c1 (rawv : view M) reg d enc m name v err,
  text_eqb name AUTO = false -> get_view reg d m name = Some v -> v_prettify v d m = inr err ->
  prettify_message c1 rawv reg (Some d) enc m name
  = Some (mkRes (ecc c1 (COULDNT_PREFIX ++ v_name v ++ [58; 10] ++ err)) S_ERROR (Some (v_name v)) enc).
Proof. exact prettify_message_error. Qed.
Print Assumptions C50_explicit_error_display.

(* ---- the DNS view ---- *)
(* As stated (same header fields, questions and records for every DNS message) the property is
   FALSE of the faithful model, for every library codec:
   - the reserved header bits (Z, AD, CD) are not in the JSON: finding dns-reserved-bits-dropped; *)
Theorem C50_dns_refuted_reserved : forall lib_enc lib_dec,
  exists m', m_from_json lib_dec (m_to_json lib_enc 0 ad_query) = Some m' /\ m' <> ad_query
    /\ wf_msg ad_query /\ Forall (rr_ok lib_enc lib_dec) (all_rrs ad_query).
Proof. exact reserved_lost. Qed.
Print Assumptions C50_dns_refuted_reserved.

(* - TXT data that is not UTF-8 is printed as a marker string that from_json takes for the text:
     finding dns-txt-not-utf8-garbled; *)
Theorem C50_dns_refuted_txt : forall lib_enc lib_dec,
  exists r', rr_from_json lib_dec (rr_to_json lib_enc txt_bad) = Some r' /\ r_data r' <> r_data txt_bad
    /\ r_data r' = invalid_str 16 [x01; xff].
Proof. exact txt_garbled. Qed.
Print Assumptions C50_dns_refuted_txt.

(* - NS / CNAME / PTR data that is not a complete name likewise becomes a name made of the marker:
     finding dns-name-rdata-garbled. *)
Theorem C50_dns_refuted_name_rdata : forall lib_enc lib_dec,
  exists r', rr_from_json lib_dec (rr_to_json lib_enc cname_bad) = Some r' /\ r_data r' <> r_data cname_bad.
Proof. exact name_rdata_garbled. Qed.
Print Assumptions C50_dns_refuted_name_rdata.

(* In general from_json (to_json m) is m with the reserved bits cleared, given rr_ok (the
   complement of the record findings; the library contract for A / AAAA / HTTPS data). *)
Theorem C50_dns_json_roundtrip : forall lib_enc lib_dec sz m,
  Forall (rr_ok lib_enc lib_dec) (all_rrs m) ->
  m_from_json lib_dec (m_to_json lib_enc sz m) = Some (clear_reserved m).
Proof. exact message_json_roundtrip. Qed.
Print Assumptions C50_dns_json_roundtrip.

(* On the complement of the findings (and within the guards of the wire round trip proved for
   C25: wf_msg, rdata_guard), for UDP framing and for the 2-byte length framing, with the filter
   of prettify_message applied to the rendering (either C1 behaviour): data that decodes to m
   renders, the unedited rendering re-encodes, and the result decodes to exactly m.
   yaml_ok is the contract of the YAML library for the rendered document. *)
Theorem C50_dns_reencode_partial : forall lib_enc lib_dec yaml_dumps yaml_loads c1 tcp data m,
  DnsMessage.unpack (strip tcp data) = Ok m ->
  m_reserved m = 0 -> Forall (rr_ok lib_enc lib_dec) (all_rrs m) ->
  yaml_ok yaml_dumps yaml_loads (m_to_json lib_enc (msg_size m) m) ->
  wf_msg m -> Forall rdata_guard (all_rrs m) ->
  (tcp = true -> forall b, packed m = Ok b -> N.of_nat (length b) < 65536) ->
  exists t out, dns_prettify lib_enc yaml_dumps tcp data = inl t
    /\ dns_reencode lib_dec yaml_loads tcp (ecc c1 t) = Some out
    /\ DnsMessage.unpack (strip tcp out) = Ok m.
Proof. exact dns_view_roundtrip. Qed.
Print Assumptions C50_dns_reencode_partial.

(* The hypotheses are satisfiable: a registry of three views (one without a working priority,
   the raw view, one that fails with ESC in its message) on a body with NUL, and a real DNS
   query with a toy library / YAML instance meeting every hypothesis of the theorem above. *)
Theorem C50_nonvacuous :
  ((forall d, exists t, v_prettify (raw_view (M:=unit) 1) d tt = inl t)
   /\ (exists v, In v sample_reg /\ v_prio v [x41] tt <> None) /\ length sample_reg = 3%nat)
  /\ prettify_message false (raw_view 1) sample_reg (Some [x41; x00; x09]) [] tt AUTO
     = Some (mkRes [65; 46; 9] S_NONE (Some RAW_NAME) (FAILED_PREFIX ++ T [x4a; x53; x4f; x4e] ++ [93]))
  /\ (DnsMessage.unpack good_query = Ok good_msg /\ m_reserved good_msg = 0
      /\ Forall (rr_ok toy_enc toy_dec) (all_rrs good_msg)
      /\ yaml_ok toy_dumps toy_loads (m_to_json toy_enc (msg_size good_msg) good_msg)
      /\ wf_msg good_msg /\ Forall rdata_guard (all_rrs good_msg)
      /\ (forall b, packed good_msg = Ok b -> N.of_nat (length b) < 65536)
      /\ dns_reencode toy_dec toy_loads false (ecc false (toy_dumps (m_to_json toy_enc 0 good_msg))) = Some good_query).
Proof. exact (conj sample_total_hyps (conj sample_auto good_query_instance)). Qed.
Print Assumptions C50_nonvacuous.
