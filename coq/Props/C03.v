(* placeholder while the model is being tied; replaced by the real theorems *)
From Coq Require Import List Bool NArith.
From MV Require Import Base.Bytes Model.HttpStream Model.HttpSys.
Theorem C03_placeholder : True. Proof. exact I. Qed.
Print Assumptions C03_placeholder.
