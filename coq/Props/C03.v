(* Props/C03.v -- Every HTTP flow has an ordered hook lifecycle and exactly one outcome.
   Objects: Model/HttpStream.v (HttpStream as a state machine with explicit await states) and Model/HttpSys.v
   (Http1Server / Http1Client / HttpLayer routing / driver).  sreach o s: s is reached from a new stream by any
   sequence of HTTP events, completions and addon actions (all sizes, all orders).  hooks s is the list of hooks
   the stream fired, oldest first; rule h pre says whether h may fire after the hooks pre:
     requestheaders / http_connect only first; request after requestheaders and once; responseheaders after
     requestheaders and once; response after requestheaders and responseheaders and once; error after requestheaders.
   venv s = false: every handled event is one the connection layers deliver (first event is the request headers;
   response-side events only after the request went upstream; nothing from the client after its protocol error;
   no empty data events).  The system model checks this flag on every correspondence case.
   The model describes the code with the two repairs of findings both-outcomes and crash-AssertionError@_handle_event
   (check_killed after the request hook of a streamed request, abort marks server_state errored; Http1Client waits
   after an early complete response).  gap_run is the schedule on which the unrepaired code fired both hooks. *)
From Coq Require Import List Bool NArith.
From MV Require Import Base.Bytes Model.HttpStream Model.HttpSys Proofs.HttpStreamAbs Proofs.HttpStreamSound
  Proofs.HttpStreamInv Proofs.HttpStreamHooks Proofs.HookSeq Proofs.HttpStreamMain.
Import ListNotations.

(* requestheaders first; request / responseheaders / response at most once and in order *)
Theorem C03_hook_order : forall o s, sreach o s -> venv s = false ->
  forall pre h post, hooks s = pre ++ h :: post -> rule h pre = true.
Proof. exact T_order. Qed.
Print Assumptions C03_hook_order.

(* not streamed => request precedes responseheaders *)
Theorem C03_request_before_responseheaders : forall o s, sreach o s -> venv s = false -> req_stream s = false ->
  forall pre post, hooks s = pre ++ HkRespHeaders :: post -> mem HkRequest pre = true.
Proof. exact T_request_first. Qed.
Print Assumptions C03_request_before_responseheaders.

(* never both response and error; error at most once *)
Theorem C03_not_both : forall o s, sreach o s -> venv s = false ->
  mem HkResponse (hooks s) && mem HkError (hooks s) = false
  /\ (forall pre post, hooks s = pre ++ HkError :: post -> mem HkError pre = false).
Proof. exact T_not_both. Qed.
Print Assumptions C03_not_both.

(* the schedule that broke the unrepaired code now ends with the error outcome only *)
Theorem C03_former_gap_closed :
  let s := run_stream gap_opts gap_run in
  venv s = false /\ hooks s = [HkReqHeaders; HkRequest; HkError] /\ live s = false.
Proof. exact T_gap_closed. Qed.
Print Assumptions C03_former_gap_closed.

(* exactly one outcome and not live, for an idle stream that fired requestheaders and whose two sides are finished:
   the client side delivered its end of message / protocol error (or the stream is errored), and if the request
   went upstream the server side delivered its end / error (or the flow was aborted towards the server) *)
(* fws s = flow.websocket is set.  Among idle, non-tunnel streams that happens only when an addon replaced the 101
   response of a WebSocket handshake in the response hook (finding still-live-replaced-101): C03_one_outcome_refuted
   is that run, C03_one_outcome_partial the statement under the complement. *)
Theorem C03_one_outcome_partial : forall o s, sreach o s ->
  pc s = None -> tunnel s = false -> crashed s = false -> venv s = false -> fws s = false ->
  mem HkReqHeaders (hooks s) = true -> closed_s s = true ->
  xorb (mem HkResponse (hooks s)) (mem HkError (hooks s)) = true /\ live s = false.
Proof. exact T_outcome. Qed.
Print Assumptions C03_one_outcome_partial.

Theorem C03_one_outcome_refuted :
  let s := run_stream gap_opts ws_run in
  pc s = None /\ tunnel s = false /\ crashed s = false /\ venv s = false /\ closed_s s = true
  /\ hooks s = [HkReqHeaders; HkRequest; HkRespHeaders; HkResponse] /\ fws s = true /\ live s = true.
Proof. exact T_live_refuted. Qed.
Print Assumptions C03_one_outcome_refuted.

(* the streams of the system model (any options, policy, connect outcomes, schedule) are such streams *)
Theorem C03_system_streams : forall e ops, Forall (fun p => sreach (e_opts e) (fst p)) (streams (run_ops e ops)).
Proof. exact run_ops_reach. Qed.
Print Assumptions C03_system_streams.

(* hypotheses are satisfiable: a plain GET exchange ends idle, closed, with exactly the response outcome *)
Definition nv_req : head := mkHead [] MGet HNone 0 true true false false 0 false.
Definition nv_resp : head := mkHead [] MGet (HLen 2) 0 true true false false 200 false.
Definition nv_run : list sstep :=
  [SIn (IEvent (EReqHeaders nv_req true)); SIn IHookDone; SIn (IEvent EReqEOM); SIn IHookDone; SIn (IConnDone (Some 1%N));
   SIn (IEvent (ERespHeaders nv_resp false)); SIn IHookDone; SIn (IEvent (ERespData [x6f; x6b])); SIn (IEvent ERespEOM); SIn IHookDone].
Theorem C03_nonvacuous :
  let s := run_stream gap_opts nv_run in
  sreach gap_opts s /\ pc s = None /\ tunnel s = false /\ crashed s = false /\ venv s = false /\ fws s = false
  /\ closed_s s = true /\ hooks s = [HkReqHeaders; HkRequest; HkRespHeaders; HkResponse] /\ live s = false.
Proof. split; [apply run_stream_reach | vm_compute; repeat split]. Qed.
Print Assumptions C03_nonvacuous.
