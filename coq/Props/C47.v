(* Props/C47.v -- Flow edits through mitmweb are atomic.
   Statements only; each is closed by [exact] of a lemma proved in Proofs/WebFlowEdit.v.
   [put vx vb body f] is the model of FlowHandler.put run by the correspondence check; vx/vb select the code
   variant (false/false = the code as found: except APIError + flow.revert(); true/true = the repair in
   fixes/C47-restore-on-any-error.diff: except Exception + restore of a snapshot taken before backup()).
   [invalid_document] = the submitted body has an unknown field at any level, a port or status code that int()
   refuses, a malformed header/trailer list, a non-object where an object is expected, or is not readable JSON. *)
From Coq Require Import Strings.String.
From Coq Require Import List Bool NArith ZArith.
Import ListNotations.
From MV Require Import Base.Bytes Model.WebFlowEdit Proofs.WebFlowEdit Proofs.WebFlowEditApply.

(* Full strength, repaired code: for every body and every flow (with or without an earlier backup) the handler
   either accepts and returns the completely edited flow, or returns the flow exactly as it was. *)
Theorem C47_all_or_nothing_repaired : forall (body : option jv) (f : flow),
  (exists c', put_body body (f_cur (backup f)) = Ok c'
              /\ put true true body f = (mkFlow c' (f_backup (backup f)), Done))
  \/ (fst (put true true body f) = f /\ snd (put true true body f) <> Done).
Proof. exact put_all_or_nothing_repaired. Qed.
Print Assumptions C47_all_or_nothing_repaired.

Theorem C47_rejected_unchanged_repaired : forall body f f' e,
  put true true body f = (f', Failed e) -> f' = f.
Proof. exact put_failed_restores_repaired. Qed.
Print Assumptions C47_rejected_unchanged_repaired.

(* Every invalid part named by the property is refused by every variant on every flow ... *)
Theorem C47_invalid_never_accepted : forall vx vb body f,
  invalid_document body -> snd (put vx vb body f) <> Done.
Proof. exact put_invalid_not_done. Qed.
Print Assumptions C47_invalid_never_accepted.

(* ... and the repaired handler then leaves the flow exactly as it was. *)
Theorem C47_invalid_unchanged_repaired : forall body f,
  invalid_document body -> fst (put true true body f) = f /\ snd (put true true body f) <> Done.
Proof. exact put_invalid_unchanged_repaired. Qed.
Print Assumptions C47_invalid_unchanged_repaired.

(* The full statement is FALSE of the code as found (findings non-apierror-not-reverted and
   failed-edit-reverts-earlier-edits). Two counterexamples: *)
Theorem C47_rejected_unchanged_refuted_uncaught : exists body f f' e,
  f_backup f = None /\ invalid_document body /\ put false false body f = (f', Failed e) /\ e <> EApi
  /\ f_cur f' <> f_cur f.
Proof. exact refuted_uncaught. Qed.
Print Assumptions C47_rejected_unchanged_refuted_uncaught.

Theorem C47_rejected_unchanged_refuted_earlier_backup : exists body1 body2 f0 f1 f2,
  f_backup f0 = None /\ put false false body1 f0 = (f1, Done)
  /\ invalid_document body2 /\ put false false body2 f1 = (f2, Failed EApi) /\ f2 = f0 /\ f2 <> f1.
Proof. exact refuted_earlier_backup. Qed.
Print Assumptions C47_rejected_unchanged_refuted_earlier_backup.

(* Partial statement for any variant; the guard is exactly the complement of the two findings:
   (the handler catches everything, or the exception is APIError) and
   (the handler restores a snapshot, or the flow had no earlier backup). *)
Theorem C47_rejected_unchanged_partial : forall vx vb body f f' e,
  put vx vb body f = (f', Failed e) ->
  (vx = true \/ e = EApi) /\ (vb = true \/ f_backup f = None) ->
  f' = f.
Proof. exact put_failed_restores. Qed.
Print Assumptions C47_rejected_unchanged_partial.

(* An accepted edit keeps the original for undo: the backup afterwards is the older backup if there was one,
   else the state before this edit; reverting an accepted edit of an unedited flow gives back that flow. *)
Theorem C47_accepted_keeps_original : forall vx vb body f f',
  put vx vb body f = (f', Done) ->
  f_backup f' = Some (match f_backup f with Some b => b | None => f_cur f end).
Proof. exact put_done_backup. Qed.
Print Assumptions C47_accepted_keeps_original.

Theorem C47_accepted_then_revert : forall vx vb body f f',
  f_backup f = None -> put vx vb body f = (f', Done) -> revert f' = f.
Proof. exact put_done_revert. Qed.
Print Assumptions C47_accepted_then_revert.

(* Applies completely: after an accepted edit the request port and method, the comment and the marker are
   exactly what the document says -- [expected] walks the document in order, the last submitted value of a field
   wins (int() of it for the port, str() encoded as utf-8/surrogateescape for the method), and a field the
   document does not mention keeps its old value. Holds for every variant. *)
Theorem C47_accepted_applies : forall vx vb body f f', put vx vb body f = (f', Done) ->
  exists items, body = Some (JDict items)
  /\ q_port (c_request (f_cur f')) = expected (in_request upd_port) items (q_port (c_request (f_cur f)))
  /\ q_method (c_request (f_cur f')) = expected (in_request upd_method) items (q_method (c_request (f_cur f)))
  /\ c_comment (f_cur f') = expected upd_comment items (c_comment (f_cur f))
  /\ c_marked (f_cur f') = expected upd_marked items (c_marked (f_cur f)).
Proof. exact accepted_applies. Qed.
Print Assumptions C47_accepted_applies.

(* ... and so is the status code of a flow that has a response. *)
Theorem C47_accepted_applies_code : forall vx vb body f f' p, put vx vb body f = (f', Done) ->
  c_response (f_cur f) = Some p ->
  exists items, body = Some (JDict items)
  /\ code_of (f_cur f') = Some (expected (in_response upd_code) items (p_code p)).
Proof. exact accepted_applies_code. Qed.
Print Assumptions C47_accepted_applies_code.

(* the specification functions read the document: port from a padded underscore literal, last comment wins *)
Theorem C47_expected_example :
  expected (in_request upd_port)
    [(k_comment, JNull); (k_request, JDict [(k_port, JStr (lit " 8_0 ")); (k_method, JStr (lit "PATCH"))])] 22%Z = 80%Z
  /\ expected upd_comment [(k_comment, JInt 1); (k_marked, JNull); (k_comment, JStr (lit "last"))] JNull = JStr (lit "last").
Proof. exact expected_example. Qed.
Print Assumptions C47_expected_example.

(* Whether an edit is accepted, and with which exception it is refused, does not depend on the variant. *)
Theorem C47_outcome_variant_independent : forall vx vb vx' vb' body f,
  snd (put vx vb body f) = snd (put vx' vb' body f).
Proof. exact put_outcome_variant_independent. Qed.
Print Assumptions C47_outcome_variant_independent.

(* The partial theorem is not vacuous: on the code as found, {request: {method: PATCH, foo: 1}} assigns the
   method, then raises APIError on foo, and the handler restores the flow. *)
Theorem C47_nonvacuous : exists c',
  put_body (Some doc_unknown_after_valid) (f_cur (backup sample_flow)) = Raise EApi c'
  /\ c' <> f_cur sample_flow
  /\ put false false (Some doc_unknown_after_valid) sample_flow = (sample_flow, Failed EApi)
  /\ guard false false sample_flow EApi
  /\ invalid_document (Some doc_unknown_after_valid).
Proof. exact nonvacuous. Qed.
Print Assumptions C47_nonvacuous.
