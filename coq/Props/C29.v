From Coq Require Import List Bool.
From MV Require Import Base.Bytes Model.RawRelay.
Import ListNotations.
Theorem C29_nonvacuous : ph (init (mkCfg TCP false true)) = PStart.
Proof. reflexivity. Qed.
Print Assumptions C29_nonvacuous.
