(* Props/C29.v -- Raw TCP and UDP relaying is exact and each flow ends once.
   The model describes tcp.py WITH fixes/C29-track-handled-closes.diff (finding close-while-paused-drops-data,
   fixed): all_done is decided from the closes the layer has handled (_eof_handled), not from
   connection.state.
   Model: Model/RawRelay.v (TCPLayer and UDPLayer as one state machine with a proto switch, the
   pause/queue discipline of Layer.handle_event, and the state bits kept by server.py).
   Every theorem quantifies over every addon policy pol, every configuration (TCP or UDP, server
   pre-connected or opened by the layer) and every event list (data, closes, injections, replies
   carrying addon actions, connect failures, in any order), unless a guard is stated. *)
From Coq Require Import List Bool Arith.
From MV Require Import Base.Bytes Model.RawRelay Proofs.RawRelay Proofs.RawRelayEnd Proofs.RawRelayLoss Proofs.RawRelayTcpLoss.
Import ListNotations.

(* (1) Exactness.  Per direction, the chunks sent to the peer are exactly the contents of the
   recorded messages of that direction whose hook has completed (after the addon edit; injected
   messages included), in order, chunk by chunk.  When no message hook is outstanding that is the
   whole recorded list. *)
Theorem C29_exact_relay :
  forall (pol : policy) (c : cfg) (evs : list event),
  ignore c = false ->
  let '(st, out) := run pol (init c) evs in
  forall from_client : bool,
    sends (side_of (negb from_client)) out = rec_of from_client (sent_msgs st) /\
    ((forall to, wait st <> WMsgHook to) ->
     sends (side_of (negb from_client)) out = recorded from_client (fl st)).
Proof. exact exact_relay_full. Qed.
Print Assumptions C29_exact_relay.

(* (2) Exactly one of the end/error hooks, nothing relayed after it.  end_once scans the command
   trace: it yields None on a second end/error hook or on any SendData, message hook or start hook
   after the first one, and otherwise tells whether the hook has fired.  It has fired iff a flow
   exists and the layer is done or awaits the reply to the error hook. *)
Theorem C29_end_once :
  forall (pol : policy) (c : cfg) (evs : list event),
  let '(st, out) := run pol (init c) evs in
  end_once false out = Some (ended st) /\ wait_ph_ok st.
Proof. exact end_once_run. Qed.
Print Assumptions C29_end_once.

(* (2b) ... and the flow does end: whenever the layer is idle and not done, at least one peer
   can still send.  So once both peers have closed and the hooks are answered the layer is done,
   which by (2) means the end hook has fired exactly once. *)
Theorem C29_both_closed_ends :
  forall (pol : policy) (c : cfg) (evs : list event),
  let '(st, out) := run pol (init c) evs in
  crashed st = false -> wait st = NoWait -> ph st <> PDone ->
  can_read (client st) || can_read (server st) = true.
Proof. exact both_closed_ends. Qed.
Print Assumptions C29_both_closed_ends.

(* (3) Half-close.  In any idle relaying TCP state in which the close of the other peer has not been
   handled, a ConnectionClosed is answered by exactly one command, CloseTcpConnection(other,
   half_close=True); the layer keeps relaying, and the next chunk from the other peer is recorded,
   passed through the message hook and sent (with the addon edit) to the peer that closed. *)
Theorem C29_half_close_propagated :
  forall (pol : policy) (st : state) (from : side),
  crashed st = false -> pr (cf st) = TCP -> ph st = PRelay -> wait st = NoWait -> queue st = [] ->
  eof_of st (other from) = false ->
  let '(st1, o1) := arrive pol st (EClosed from) in
  o1 = [HalfClose (other from)] /\ ph st1 = PRelay /\ wait st1 = NoWait /\ crashed st1 = false /\
  can_read (conn_of st1 from) = false /\ eof_of st1 from = true /\ eof_of st1 (other from) = false /\
  can_write (conn_of st1 (other from)) = false /\
  forall d, let '(st2, o2) := arrive pol st1 (EData (other from) d) in
    if ignore (cf st) then o2 = [SendData from d]
    else o2 = [MessageHook] /\
         forall a err, snd (arrive pol st2 (EReply a err)) =
           [SendData from (match edit (pol (messages (fl st2)) a) with Some c => c | None => d end)].
Proof. exact half_close_step. Qed.
Print Assumptions C29_half_close_propagated.

(* (4) No loss: every chunk received from a peer is recorded (or still queued).  For the repaired
   TCPLayer this holds under the plain transport contract respects false (Start first and once, data
   and closes only from a peer that is still readable, connect succeeds): closes may arrive while the
   layer is paused, in any order, with data queued between them.  (Before the repair this was the
   finding close-while-paused-drops-data; C29_queued_closes_relayed replays its schedule.) *)
Theorem C29_no_loss :
  forall (pol : policy) (c : cfg) (evs : list event) (X : side),
  pr c = TCP -> ignore c = false -> respects false pol (init c) evs = true ->
  let '(st, out) := run pol (init c) evs in
  count_data X evs <= length (recorded (is_client X) (fl st)) + count_data X (queue st).
Proof. exact no_loss_tcp. Qed.
Print Assumptions C29_no_loss.

Theorem C29_queued_closes_relayed :
  let c := mkCfg TCP false true false in
  respects false pol_id (init c) queued_closes = true /\
  let '(st, out) := run pol_id (init c) queued_closes in
  out = [StartHook; HalfClose Server; MessageHook; SendData Client [x6c; x61; x74; x65];
         CloseConnection Client; EndHook] /\
  ph st = PDone /\ wait st = NoWait /\ recorded false (fl st) = [[x6c; x61; x74; x65]].
Proof. exact queued_closes_run. Qed.
Print Assumptions C29_queued_closes_relayed.

(* UDP has no half-close: the first close handled ends the flow (udp.py), so a chunk queued behind a
   close is dropped by design.  Under respects true (no close delivered while the layer is paused)
   nothing is lost. *)
Theorem C29_no_loss_udp :
  forall (pol : policy) (c : cfg) (evs : list event) (X : side),
  pr c = UDP -> ignore c = false -> respects true pol (init c) evs = true ->
  let '(st, out) := run pol (init c) evs in
  count_data X evs <= length (recorded (is_client X) (fl st)) + count_data X (queue st).
Proof. exact no_loss_udp. Qed.
Print Assumptions C29_no_loss_udp.

(* (5) Nothing is sent to a connection after the layer closed or half-closed it.
   FALSE at full strength -- finding send-after-half-close: a message injected on behalf of a peer
   that already closed is recorded and sent to the other connection after that connection was
   half-closed (server.py then writes after write_eof). *)
Theorem C29_no_send_after_close_refuted :
  exists pol c evs,
    respects true pol (init c) evs = true /\ late_send (snd (run pol (init c) evs)) = true.
Proof. exact no_late_send_refuted. Qed.
Print Assumptions C29_no_send_after_close_refuted.

(* Guard: injects_live = injections are made only on behalf of a peer that has not closed, which is
   the complement of the finding; respects true is kept as well (proof economy: the statement is
   expected to hold without the calm clause, this is not proved). *)
Theorem C29_no_send_after_close_partial :
  forall (pol : policy) (c : cfg) (evs : list event),
  respects true pol (init c) evs = true -> injects_live pol (init c) evs = true ->
  late_send (snd (run pol (init c) evs)) = false.
Proof. exact no_late_send. Qed.
Print Assumptions C29_no_send_after_close_partial.

(* non-vacuity: a TCP flow with connect, both directions, a queued chunk, an edit, a kill, a
   half-close, an injection and the final close satisfies both guards; its exact trace. *)
Theorem C29_nonvacuous :
  let c := mkCfg TCP false false false in
  respects true pol_id (init c) demo = true /\ injects_live pol_id (init c) demo = true /\
  let '(st, out) := run pol_id (init c) demo in
  out = [StartHook; OpenConnection; MessageHook; SendData Server [x41; x42]; MessageHook; SendData Client [x62];
         HalfClose Server; MessageHook; SendData Client [x63]; MessageHook; SendData Client [x64];
         CloseConnection Client; EndHook] /\
  ph st = PDone /\ wait st = NoWait /\ f_live (fl st) = false /\ f_error (fl st) = true /\
  recorded true (fl st) = [[x41; x42]] /\ recorded false (fl st) = [[x62]; [x63]; [x64]].
Proof. exact demo_run. Qed.
Print Assumptions C29_nonvacuous.
