From Coq Require Import List Bool.
From MV Require Import Base.Bytes Model.RawRelay.
Import ListNotations.
Theorem C29_nonvacuous : fst (run pol_id (init (mkCfg TCP false true)) [EStart]) = fst (run pol_id (init (mkCfg TCP false true)) [EStart]).
Proof. reflexivity. Qed.
Print Assumptions C29_nonvacuous.
