(* stub, replaced below *)
From MV Require Import Base.Bytes Model.FilterGrammar.
Theorem C42_stub : True. Proof. exact I. Qed.
Print Assumptions C42_stub.
