(* Props/C42.v -- Filter expressions mean what the documented grammar says.
   Statements only; each is closed by [exact] of a lemma proved elsewhere.

   expr / style / render: expression trees over the documented operators and their surface syntax (explicit
   op_and or juxtaposition, redundant parentheses, whitespace of every kind, naked or coded regexes, bare /
   raw-quoted / escape-quoted arguments), parenthesised by the documented precedence (not > and > or,
   juxtaposition = and).  parse_grammar / parse_filter: the model of flowfilter.parse (pyparsing grammar). *)
From Coq Require Import List Bool NArith.
From MV Require Import Base.Bytes Gen.FlowFilterAtoms Model.FilterGrammar Model.FilterBody Model.FilterHeader
  Proofs.FilterGrammarExpr Proofs.FilterGrammarC42 Proofs.FilterBody Proofs.FilterHeader.
Import ListNotations.

(* The full statement (every rendering of every tree over table atoms is accepted with the documented meaning)
   is false of the faithful model: *)
Theorem C42_full_refuted :
  ~ (forall e st, atoms_ok e = true ->
       exists t, parse_grammar (render_top e st [] []) = Ok t /\ forall rho, eval rho t = evalE rho e).
Proof. exact full_statement_false. Qed.
Print Assumptions C42_full_refuted.

(* Finding juxtaposition-in-group-rejected: !(~q ~s) is rejected (juxtaposition exists only at top level). *)
Theorem C42_juxt_in_group_refuted :
  atoms_ok e_group = true /\ quoting_ok e_group st_group = true
  /\ render_top e_group st_group [] [] = [x21; x28; x7e; x71; x20; x7e; x73; x29]
  /\ parse_grammar (render_top e_group st_group [] []) = Fail.
Proof. exact juxt_in_group. Qed.
Print Assumptions C42_juxt_in_group_refuted.

(* Finding juxtaposition-binds-looser-than-or: ~q |~s ~a is read as (~q | ~s) & ~a. *)
Theorem C42_juxt_or_refuted :
  atoms_ok e_or = true /\ quoting_ok e_or st_or = true
  /\ parse_grammar (render_top e_or st_or [] [])
     = Ok (And [Or [Atom (AUnary [x71]); Atom (AUnary [x73])]; Atom (AUnary [x61])])
  /\ eval rho_q (And [Or [Atom (AUnary [x71]); Atom (AUnary [x73])]; Atom (AUnary [x61])]) <> evalE rho_q e_or.
Proof. exact juxt_or. Qed.
Print Assumptions C42_juxt_or_refuted.

(* Finding quoted-backslash-consumed: ~u followed by a quoted backslash-d yields the regex d. *)
Theorem C42_raw_backslash_refuted :
  atoms_ok e_raw = true /\ juxt_top e_raw st_raw = true
  /\ parse_grammar (render_top e_raw st_raw [] []) = Ok (Atom (ARex [x75] [x64]))
  /\ eval rho_d (Atom (ARex [x75] [x64])) <> evalE rho_d e_raw.
Proof. exact raw_backslash. Qed.
Print Assumptions C42_raw_backslash_refuted.

(* Main theorem (unbounded depth, every style, every valuation).  Guard = complement of the findings:
   juxt_top  -- juxtaposition only along the top-level spine (the two juxtaposition findings violate it; the
                harmless mixed form  a b & c  is also outside and covered by correspondence only);
   quoting_ok -- bare arguments contain no reserved character (as the documentation demands), raw-quoted ones no
                backslash (third finding), own quote, LF or CR; escape-quoted arguments are unrestricted;
   atoms_ok  -- codes come from the generated tables, integer arguments are digit strings.
   The returned tree has the same atoms in the same order and the same value under every valuation. *)
Theorem C42_partial : forall e st lead trail,
  atoms_ok e = true -> quoting_ok e st = true -> juxt_top e st = true ->
  exists t, parse_grammar (render_top e st lead trail) = Ok t
            /\ (forall rho, eval rho t = evalE rho e) /\ atoms t = atomsE e.
Proof. exact parse_render. Qed.
Print Assumptions C42_partial.

(* The same for flowfilter.parse including regex compilation, for every regex engine verdict rex_ok. *)
Theorem C42_partial_filter : forall rex_ok e st lead trail,
  atoms_ok e = true -> quoting_ok e st = true -> juxt_top e st = true ->
  forallb (fun a => match a with ARex c x => rex_ok c x | _ => true end) (atomsE e) = true ->
  exists t, parse_filter rex_ok (render_top e st lead trail) = Ok t
            /\ (forall rho, eval rho t = evalE rho e) /\ atoms t = atomsE e.
Proof. exact parse_filter_render. Qed.
Print Assumptions C42_partial_filter.

Theorem C42_nonvacuous :
  atoms_ok e_ok = true /\ quoting_ok e_ok st_ok = true /\ juxt_top e_ok st_ok = true
  /\ parse_grammar (render_top e_ok st_ok [WSp] [WCr])
     = Ok (And [Or [Not (Atom (AUnary [x71])); Atom (ARex [x75] [x61; x20; x62])]; Atom (AInt [x63] 200%N)]).
Proof. exact sample_ok. Qed.
Print Assumptions C42_nonvacuous.

(* Body operators (codes b / bq / bs), for every regex engine [search] and every flow shape: the verdict is the
   regex search over exactly the bodies that are present -- request body, response body, websocket / TCP / UDP
   messages of the named direction, DNS message text.  A body that is present and empty is searched; only an
   absent body (None) is not. *)
Theorem C42_body_any : forall search f, fbod search f = existsb search (parts_any f).
Proof. exact fbod_spec. Qed.
Print Assumptions C42_body_any.
Theorem C42_body_request : forall search f, fbod_request search f = existsb search (parts_request f).
Proof. exact fbod_request_spec. Qed.
Print Assumptions C42_body_request.
Theorem C42_body_response : forall search f, fbod_response search f = existsb search (parts_response f).
Proof. exact fbod_response_spec. Qed.
Print Assumptions C42_body_response.
Theorem C42_body_empty_request_searched : forall search rs ws, search [] = true ->
  fbod search (HttpB (Some []) rs ws) = true /\ fbod_request search (HttpB (Some []) rs ws) = true.
Proof. exact empty_request_body_searched. Qed.
Print Assumptions C42_body_empty_request_searched.
Theorem C42_body_empty_response_searched : forall search rq ws, search [] = true ->
  fbod search (HttpB rq (Some (Some [])) ws) = true /\ fbod_response search (HttpB rq (Some (Some [])) ws) = true.
Proof. exact empty_response_body_searched. Qed.
Print Assumptions C42_body_empty_response_searched.
Theorem C42_body_absent_not_searched : forall search, fbod search (HttpB None (Some None) None) = false
  /\ fbod_request search (HttpB None (Some None) None) = false /\ fbod_response search (HttpB None (Some None) None) = false.
Proof. exact absent_bodies_not_searched. Qed.
Print Assumptions C42_body_absent_not_searched.

(* Header operators, for every regex engine and every list of header fields (absent, once, repeated, any case of
   the name).  Content-type operators (t tq ts, and a with the asset patterns): some Content-Type field VALUE is
   matched, each value searched on its own; with no such field nothing is searched and the verdict is false even
   for a regex matching the empty string.  Header operators (h hq hs): the serialised header block of each
   message that is present is searched. *)
Theorem C42_content_type_each_value : forall search fields,
  check_content_type search fields = existsb search (ct_values fields).
Proof. exact check_ct_spec. Qed.
Print Assumptions C42_content_type_each_value.
Theorem C42_content_type_absent : forall search fields, ct_values fields = [] -> check_content_type search fields = false.
Proof. exact check_ct_absent. Qed.
Print Assumptions C42_content_type_absent.
Theorem C42_content_type_some_value : forall search fields v,
  In v (ct_values fields) -> search v = true -> check_content_type search fields = true.
Proof. exact check_ct_some_value. Qed.
Print Assumptions C42_content_type_some_value.
Theorem C42_t : forall search f,
  fcontent_type search f = existsb search (ct_values (req_fields f) ++ ct_values (resp_fields f)).
Proof. exact fct_spec. Qed.
Print Assumptions C42_t.
Theorem C42_tq : forall search f, fcontent_type_request search f = existsb search (ct_values (req_fields f)).
Proof. exact fctq_spec. Qed.
Print Assumptions C42_tq.
Theorem C42_ts : forall search f, fcontent_type_response search f = existsb search (ct_values (resp_fields f)).
Proof. exact fcts_spec. Qed.
Print Assumptions C42_ts.
Theorem C42_a : forall types f,
  fasset types f = existsb (fun v => existsb (fun i => i v) types) (ct_values (resp_fields f)).
Proof. exact fasset_spec. Qed.
Print Assumptions C42_a.
Theorem C42_h : forall search f, fhead search f = existsb search (present_blocks f).
Proof. exact fhead_spec. Qed.
Print Assumptions C42_h.
Theorem C42_hq : forall search f,
  fhead_request search f = existsb search (match f with HttpH rq _ => [headers_bytes rq] | OtherH => [] end).
Proof. exact fhead_request_spec. Qed.
Print Assumptions C42_hq.
Theorem C42_hs : forall search f,
  fhead_response search f = existsb search (match f with HttpH _ (Some r) => [headers_bytes r] | _ => [] end).
Proof. exact fhead_response_spec. Qed.
Print Assumptions C42_hs.
