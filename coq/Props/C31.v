(* Props/C31.v -- Content-Encoding round-trips and the codec cache is transparent.
   Statements only; each is closed by [exact] of a lemma proved in Proofs/Encoding*.v.

   C : codecs is the family of library primitives (zlib, gzip, brotli, zstd, Python codecs);
   [contract C] is the library contract: decompress (compress x) = x and compress x is not empty.
   [run C lenient h] is the cache state after the arbitrary history h of encode / decode calls and
   message operations, starting from the empty cache.  [lenient] is the revision of http.py
   (false: the code as it stands; true: with fixes/C31-str-codec-typeerror.diff). *)
From Coq Require Import List Bool NArith.
From MV Require Import Base.Bytes Model.Encoding Proofs.EncodingCache Proofs.EncodingMsg Proofs.EncodingToy Proofs.EncodingC31.
Import ListNotations.


(* After ANY history, decode returns exactly what it returns on an empty cache (value or error). *)
Theorem C31_cache_transparent_decode :
  forall (C : codecs) (lenient : bool) (h : list call) (e : option bytes) (n err : bytes),
    contract C ->
    fst (decode C (run C lenient h) e n err) = fst (decode C None e n err).
Proof. exact hist_cache_transparent_decode. Qed.
Print Assumptions C31_cache_transparent_decode.

(* After ANY history, encode returns what it returns on an empty cache, or -- for the five cached
   codings only -- another stream, and then both streams decode (cache-free) to the input. *)
Theorem C31_cache_transparent_encode :
  forall (C : codecs) (lenient : bool) (h : list call) (d n err : bytes),
    contract C ->
    enc_equiv C d n err (fst (encode C (run C lenient h) (Some d) n err)) (fst (encode C None (Some d) n err)).
Proof. exact hist_cache_transparent_encode. Qed.
Print Assumptions C31_cache_transparent_encode.

(* Equality cannot be claimed for encode: by design the cache hands back the stream it decoded.
   (This is also how a stream that only mitmproxy's lenient decoders accept gets replayed:
   findings cache-replays-lenient-gzip-stream, cache-replays-deflate-trailing-data.) *)
Theorem C31_cache_transparent_encode_exact_refuted :
  exists (C : codecs) (h : list call) (d n err : bytes),
    contract C /\
    fst (encode C (run C false h) (Some d) n err) <> fst (encode C None (Some d) n err).
Proof. exact encode_exact_refuted. Qed.
Print Assumptions C31_cache_transparent_encode_exact_refuted.

(* Message.get_content (content) after any history = on an empty cache, for every message. *)
Theorem C31_get_content_transparent :
  forall (C : codecs) (lenient : bool) (h : list call) (m : msg) (strict : bool),
    contract C ->
    fst (get_content C lenient (run C lenient h) m strict) = fst (get_content C lenient None m strict).
Proof. exact hist_get_content_transparent. Qed.
Print Assumptions C31_get_content_transparent.

(* Assigning content under a supported coding (any case; absent or empty header = identity), after
   any history h: succeeds, keeps the headers, the raw body decodes cache-free to the value, and
   reading it back after any further history h2 yields the value. *)
Theorem C31_set_get_roundtrip :
  forall (C : codecs) (lenient : bool) (h h2 : list call) (m : msg) (v : bytes) o m' st' (strict : bool),
    contract C ->
    supported (lower (coding_of m)) = true ->
    set_content C lenient (run C lenient h) m (Some v) = (o, m', st') ->
    o = Done /\ m_ce m' = m_ce m /\ m_te m' = m_te m
    /\ (exists e, m_raw m' = Some e /\ pure_decode C (lower (coding_of m)) s_strict e = PBytes v)
    /\ fst (get_content C lenient (run_from C lenient st' h2) m' strict) = GBytes v.
Proof. exact hist_set_get_roundtrip. Qed.
Print Assumptions C31_set_get_roundtrip.

(* Content-Length rule, for every coding (supported or not) and every cache state: without
   Transfer-Encoding it is the decimal length of the raw body, with it the header is untouched. *)
Theorem C31_content_length :
  forall (C : codecs) (lenient : bool) (st : cstate) (m : msg) (v : bytes) o m' st',
    set_content C lenient st m (Some v) = (o, m', st') -> o = Done ->
    m_te m' = m_te m
    /\ (m_te m = true -> m_cl m' = m_cl m)
    /\ (m_te m = false -> exists r, m_raw m' = Some r /\ m_cl m' = Some (dec_of_N (N.of_nat (length r)))).
Proof. exact content_length. Qed.
Print Assumptions C31_content_length.

(* A coding the encoder rejects: the header is removed and the body stored and read back as is.
   Guard = exactly the complement of finding str-codec-typeerror: the rejection is a ValueError,
   or it is a TypeError and the repaired http.py is in use. *)
Theorem C31_invalid_coding_partial :
  forall (C : codecs) (lenient : bool) (st : cstate) (m : msg) (v : bytes) (r : res),
    fst (encode C st (Some v) (coding_of m) s_strict) = r ->
    r = RValueError \/ (r = RTypeError /\ lenient = true) ->
    exists cl' st',
      set_content C lenient st m (Some v) = (Done, Build_msg None (m_te m) cl' (Some v), st')
      /\ forall st2 s, fst (get_content C lenient st2 (Build_msg None (m_te m) cl' (Some v)) s) = GBytes v.
Proof. exact invalid_coding. Qed.
Print Assumptions C31_invalid_coding_partial.

(* ... and the unguarded statement is false for the code as it stands: a str codec (utf8) as
   Content-Encoding makes the assignment raise TypeError and leaves the message unchanged. *)
Theorem C31_invalid_coding_refuted :
  exists (C : codecs) (m : msg) (v : bytes),
    fst (encode C None (Some v) (coding_of m) s_strict) = RTypeError /\
    set_content C false None m (Some v) = (RaisedTypeError, m, None).
Proof. exact invalid_coding_refuted. Qed.
Print Assumptions C31_invalid_coding_refuted.

(* Message.encode with a str codec: TypeError, and the new Content-Encoding header stays on the
   unchanged body (the message now claims a coding it does not have). Code as it stands. *)
Theorem C31_message_encode_typeerror_refuted :
  exists (C : codecs) (m : msg),
    msg_encode C false None m s_utf8 = (RaisedTypeError, Build_msg (Some s_utf8) (m_te m) (m_cl m) (m_raw m), None)
    /\ m_ce m = None.
Proof. exact msg_encode_typeerror_refuted. Qed.
Print Assumptions C31_message_encode_typeerror_refuted.

(* Message.decode followed (after any other calls) by Message.encode with a supported coding
   preserves the content; h0 .. h3 are arbitrary histories before the read, the decode, the encode
   and the final read. Non-empty body, any original coding whose strict read succeeded. *)
Theorem C31_decode_encode_preserves :
  forall (C : codecs) (lenient : bool) (h0 h1 h2 h3 : list call) (m : msg) (c : bytes) (s s3 : bool) (n : bytes)
         (b0 : byte) (r0 : bytes) o1 m1 st1' o2 m2 st2',
    contract C ->
    m_raw m = Some (b0 :: r0) ->
    fst (get_content C lenient (run C lenient h0) m true) = GBytes c ->
    msg_decode C lenient (run C lenient h1) m s = (o1, m1, st1') ->
    supported (lower (match n with [] => s_identity | _ => n end)) = true ->
    msg_encode C lenient (run C lenient h2) m1 n = (o2, m2, st2') ->
    o1 = Done /\ o2 = Done /\ m_ce m1 = None /\ m_raw m1 = Some c /\ m_ce m2 = Some n
    /\ fst (get_content C lenient (run C lenient h3) m2 s3) = GBytes c.
Proof. exact hist_decode_encode_preserves. Qed.
Print Assumptions C31_decode_encode_preserves.

(* Same with an empty or missing body (Message.decode is a no-op there), original coding supported. *)
Theorem C31_decode_encode_preserves_empty :
  forall (C : codecs) (lenient : bool) (h0 h1 h2 h3 : list call) (m : msg) (g : gres) (s s3 : bool) (n : bytes)
         o1 m1 st1' o2 m2 st2',
    contract C ->
    m_raw m = None \/ m_raw m = Some [] ->
    supported (lower (coding_of m)) = true ->
    fst (get_content C lenient (run C lenient h0) m true) = g ->
    msg_decode C lenient (run C lenient h1) m s = (o1, m1, st1') ->
    supported (lower (match n with [] => s_identity | _ => n end)) = true ->
    msg_encode C lenient (run C lenient h2) m1 n = (o2, m2, st2') ->
    o1 = Done /\ m1 = m /\ o2 = Done /\ m_ce m2 = Some n
    /\ fst (get_content C lenient (run C lenient h3) m2 s3) = g.
Proof. exact hist_decode_encode_preserves_empty. Qed.
Print Assumptions C31_decode_encode_preserves_empty.

(* The contract is satisfiable by a family whose decoders are lenient like the real ones, a history
   really hits the cache in both directions, and a message round trip goes through a compressed body. *)
Theorem C31_nonvacuous :
  contract toy
  /\ run toy false [CDecode (Some lenient_stream) s_gzip s_strict] <> None
  /\ fst (encode toy (run toy false [CDecode (Some lenient_stream) s_gzip s_strict]) (Some body) s_gzip s_strict)
     = RBytes lenient_stream
  /\ fst (decode toy (run toy false [CEncode (Some body) s_gzip s_strict]) (Some (x01 :: body)) s_gzip s_strict)
     = RBytes body
  /\ set_content toy false None m_gzip (Some body)
     = (Done, Build_msg (m_ce m_gzip) false (Some [x33]) (Some (x01 :: body)),
        Some (Build_centry (x01 :: body) s_gzip s_strict body)).
Proof. exact nonvacuous. Qed.
Print Assumptions C31_nonvacuous.
