From Coq Require Import List Bool NArith.
From MV Require Import Base.Bytes Model.Headers.
Import ListNotations.
Theorem C35_tmp : iter [([x41],[x31])] = [[x41]].
Proof. reflexivity. Qed.
Print Assumptions C35_tmp.
