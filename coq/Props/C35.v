(* Props/C35.v -- Header collections behave as a case-insensitive ordered multimap; serialising
   valid header fields as HTTP/1 and parsing them back yields the same fields.
   Statements only; each is closed by [exact] of a lemma proved elsewhere. The model functions
   (get_all, set_all, delitem, insert, iter, len, eq, copy, run_ops, headers_bytes, _read_headers, ...)
   are the ones executed against the real code by Corr/C35.v. No refuted part: the code satisfies the
   property as stated (fields outside valid_field are characterised in design/C35.md). *)
From Coq Require Import List Bool NArith ZArith.
From MV Require Import Base.Bytes Model.Headers Model.MultimapSpec
  Proofs.HeadersRefine Proofs.HeadersLaws Proofs.HeadersViews Proofs.HeadersRoundtrip Proofs.HeadersRoundtripExact Proofs.HeadersSample.
Import ListNotations.

(* For every initial pair of header objects and every history of operations (lookup, membership,
   assignment, delete, get_all, set_all, add, insert at any integer index, iteration, length, equality,
   copy) the model of the Python code returns, at every step, the result of the abstract ordered
   multimap with canonical (lower-cased) names and the same fields tuple (spelling, values, order);
   the final states are related by the abstraction. *)
Theorem C35_refinement : forall (ops : list op) (st : state),
  s_run (abs_state st) ops = (fst (run_ops st ops), abs_state (snd (run_ops st ops))).
Proof. exact run_refines. Qed.
Print Assumptions C35_refinement.

(* Case-insensitivity of whole histories: two histories that differ only in the case of names
   (in the initial fields and in the operations' arguments) produce the same results (iteration
   results up to case) and the same fields up to the case of names, at every step and at the end.
   Equality of two objects compares spelling and is therefore excluded here (no_eq). *)
Theorem C35_case_insensitive_histories : forall (ops ops' : list op) (st st' : state),
  lf2 st = lf2 st' -> map lop ops = map lop ops' ->
  forallb no_eq ops = true -> forallb no_eq ops' = true ->
  map ci_obs (fst (run_ops st ops)) = map ci_obs (fst (run_ops st' ops'))
  /\ lf2 (snd (run_ops st ops)) = lf2 (snd (run_ops st' ops')).
Proof. exact histories_case_insensitive. Qed.
Print Assumptions C35_case_insensitive_histories.

(* Lookups depend on the name only through its lower-cased form. *)
Theorem C35_lookup_case_insensitive : forall (fs : list field) (k k' : bytes),
  lower k = lower k' ->
  get_all fs k = get_all fs k' /\ getitem fs k = getitem fs k'
  /\ contains fs k = contains fs k' /\ delitem fs k = delitem fs k'.
Proof. exact lookup_case_insensitive. Qed.
Print Assumptions C35_lookup_case_insensitive.

(* set_all / __setitem__: afterwards the name holds exactly the new values in order, every other
   name is unaffected ... *)
Theorem C35_set_all_get_all : forall (fs : list field) (k : bytes) (vs : list bytes) (k' : bytes),
  get_all (set_all fs k vs) k' = if bytes_eqb (lower k') (lower k) then vs else get_all fs k'.
Proof. exact set_all_get_all. Qed.
Print Assumptions C35_set_all_get_all.

(* ... the untouched fields keep spelling, value and relative order ... *)
Theorem C35_set_all_untouched : forall (fs : list field) (k : bytes) (vs : list bytes),
  others k (set_all fs k vs) = others k fs.
Proof. exact set_all_untouched. Qed.
Print Assumptions C35_set_all_untouched.

(* ... with at least as many values as existing fields of that name no field moves or is respelled
   (the names at the old positions are unchanged; surplus values follow at the end) ... *)
Theorem C35_set_all_keeps_spelling : forall (fs : list field) (k : bytes) (vs : list bytes),
  length (get_all fs k) <= length vs ->
  exists tail, map fst (set_all fs k vs) = map fst fs ++ tail.
Proof. exact set_all_keeps_spelling. Qed.
Print Assumptions C35_set_all_keeps_spelling.

(* ... and assigning an absent name appends the fields at the end under the given spelling. *)
Theorem C35_set_all_absent_appends : forall (fs : list field) (k : bytes) (vs : list bytes),
  contains fs k = false -> set_all fs k vs = fs ++ map (fun v => (k, v)) vs.
Proof. exact set_all_absent_appends. Qed.
Print Assumptions C35_set_all_absent_appends.

(* __delitem__: KeyError (None) exactly when the name is absent; otherwise the name is gone, the
   other fields keep spelling, value and order, and lookups of other names are unchanged. *)
Theorem C35_delitem : forall (fs : list field) (k : bytes),
  match delitem fs k with
  | None => contains fs k = false
  | Some fs' => contains fs k = true /\ contains fs' k = false /\ others k fs' = others k fs
                /\ forall k', lower k' <> lower k -> get_all fs' k' = get_all fs k'
  end.
Proof. exact delitem_law. Qed.
Print Assumptions C35_delitem.

(* insert at any integer index (Python slice semantics) and add: one new field, all old fields
   keep their relative order. *)
Theorem C35_insert : forall (fs : list field) (i : Z) (k v : bytes),
  exists p, p <= length fs
    /\ insert fs i k v = firstn p fs ++ (k, v) :: skipn p fs
    /\ ((0 <= i <= Z.of_nat (length fs))%Z -> p = Z.to_nat i)
    /\ ((- Z.of_nat (length fs) <= i < 0)%Z -> p = Z.to_nat (i + Z.of_nat (length fs))).
Proof. exact insert_law. Qed.
Print Assumptions C35_insert.

Theorem C35_add : forall (fs : list field) (k v : bytes), add fs k v = fs ++ [(k, v)].
Proof. exact add_eq. Qed.
Print Assumptions C35_add.

(* iteration yields every name present exactly once (ignoring case), each as spelled in some
   field; len is the number of names iterated. *)
Theorem C35_iter_len : forall (fs : list field),
  NoDup (map lower (iter fs))
  /\ (forall k, In (lower k) (map lower (iter fs)) <-> contains fs k = true)
  /\ len fs = N.of_nat (length (iter fs))
  /\ (forall k, In k (iter fs) -> In k (map fst fs)).
Proof. exact iter_law. Qed.
Print Assumptions C35_iter_len.

(* read views of Headers: items()/keys()/values() never fail and list every name once, in the order
   and FIRST spelling of iteration, with the folded (comma-space joined) values; the multi=True views
   are the fields tuple and its projections. *)
Theorem C35_views : forall (fs : list field),
  items fs = Some (map (fun k => (k, _reduce_values (get_all fs k))) (iter fs))
  /\ keys fs = Some (iter fs)
  /\ values fs = Some (map (fun k => _reduce_values (get_all fs k)) (iter fs))
  /\ items_multi fs = fs /\ keys_multi fs = map fst fs /\ values_multi fs = map snd fs.
Proof. exact views_law. Qed.
Print Assumptions C35_views.

(* HTTP/1 round trip: for every list of valid fields, bytes(headers) followed by the blank line,
   cut into lines (h11) and parsed by _read_headers, is exactly the original list of fields. *)
Theorem C35_roundtrip : forall (fs : list field),
  forallb valid_field fs = true -> read_back fs = Some (RhOk fs).
Proof. exact roundtrip. Qed.
Print Assumptions C35_roundtrip.

(* valid_field is exact for fields without LF: if no name or value contains LF, the round trip
   returns the same fields if and only if every field is valid (empty name, leading SP/TAB or a
   colon in the name, leading/trailing whitespace in the value are exactly what breaks it). *)
Theorem C35_roundtrip_exact : forall (fs : list field),
  forallb lf_free fs = true ->
  (read_back fs = Some (RhOk fs) <-> forallb valid_field fs = true).
Proof. exact roundtrip_exact. Qed.
Print Assumptions C35_roundtrip_exact.

(* The hypotheses are satisfiable on non-trivial values: three valid fields with a repeated name in
   two spellings round-trip; two different states/histories that agree up to case satisfy the
   hypotheses of C35_case_insensitive_histories while their raw observations differ. *)
Theorem C35_nonvacuous :
  forallb valid_field sample_fields = true
  /\ read_back sample_fields = Some (RhOk sample_fields)
  /\ get_all sample_fields ACCEPT = [[x61]; [x62]]
  /\ getitem sample_fields ACCEPT = Some [x61; x2c; x20; x62]
  /\ lf2 (sample_fields, []) = lf2 (sample_fields', [])
  /\ (sample_fields, @nil field) <> (sample_fields', [])
  /\ map lop sample_ops = map lop sample_ops' /\ sample_ops <> sample_ops'
  /\ forallb no_eq sample_ops = true /\ forallb no_eq sample_ops' = true
  /\ fst (run_ops (sample_fields, []) sample_ops) <> fst (run_ops (sample_fields', []) sample_ops').
Proof. exact sample_nonvacuous. Qed.
Print Assumptions C35_nonvacuous.
