(* Props/C23.v -- mitmproxy never proxies a connection back to its own listening sockets.
   Statements only; each is closed by [exact] of a lemma proved in Proofs/SelfConnectC23.v.

   Subject: Gen/SelfConnect.v, regenerated on every run from Proxyserver.server_connect; the
   statements describe the code AFTER fixes/C23-transport-both.diff (servers listening on both
   transports are covered by the guard).  Specification: Model/SelfSpec.v.
   [server_connect servers host port transport] is data.server.error after the hook.

   The full-strength statement
     forall servers srv la host port tr, In srv servers -> In la (listen_addrs srv) ->
       denotes_listener srv la host port tr -> server_connect servers host port tr = Some error_message
   is FALSE of the faithful model: the guard compares the host string with three literals and
   the listen host.  C23_refuted gives one counterexample per spelling family (known findings),
   C23_partial proves the statement under the guard [recognised], and
   C23_unrecognised_not_flagged / C23_exact show that this guard is exactly the complement of
   the finding.  The three _missed theorems quantify over whole families. *)
From Coq Require Import List Bool NArith String.
From MV Require Import Base.Bytes Model.SelfConnectBase Model.SelfSpec Gen.SelfConnect Model.ServersUpdate Proofs.SelfConnectC23 Proofs.ServersUpdateC23.
Import ListNotations.

Theorem C23_refuted :
  counterexample (dotted 2130706434)                          (* 127.0.0.2 *)
  /\ counterexample (b "LOCALHOST")
  /\ counterexample (b "localhost.")
  /\ counterexample s_wild6                                   (* :: *)
  /\ counterexample (s_mapped_prefix ++ dotted 2130706433)    (* ::ffff:127.0.0.1 *)
  /\ counterexample s_v6_loop_short                           (* 0:0:0:0:0:0:0:1 *)
  /\ (denotes_listener {| mode_transport := TCP; listen_addrs := [(s_127_0_0_1, 8080%N)] |} (s_127_0_0_1, 8080%N) s_wild4 8080%N TCP
      /\ server_connect [{| mode_transport := TCP; listen_addrs := [(s_127_0_0_1, 8080%N)] |}] s_wild4 8080%N TCP = None).
Proof. exact refuted. Qed.
Print Assumptions C23_refuted.

(* For every configuration: a destination that denotes a listener and is spelled in one of the
   recognised ways (the listen host itself, localhost, 127.0.0.1, ::1) gets the destination-unknown
   error -- for every transport the server listens on, servers of transport both included. *)
Theorem C23_partial : forall servers srv la ch cp ct,
  In srv servers -> In la (listen_addrs srv) ->
  denotes_listener srv la ch cp ct -> recognised ch (fst la) ->
  server_connect servers ch cp ct = Some error_message.
Proof. exact partial. Qed.
Print Assumptions C23_partial.

Theorem C23_explicit_listen_address : forall servers srv la cp ct,
  In srv servers -> In la (listen_addrs srv) -> cp = snd la ->
  transport_compatible (mode_transport srv) ct ->
  server_connect servers (fst la) cp ct = Some error_message.
Proof. exact explicit_listen_address. Qed.
Print Assumptions C23_explicit_listen_address.

(* exactly which requests are stopped *)
Theorem C23_exact : forall servers ch cp ct,
  server_connect servers ch cp ct = Some error_message <->
  exists srv la, In srv servers /\ In la (listen_addrs srv)
    /\ cp = snd la /\ recognised ch (fst la) /\ transport_compatible (mode_transport srv) ct.
Proof. exact exact. Qed.
Print Assumptions C23_exact.

Theorem C23_unrecognised_not_flagged : forall mt la ch cp ct,
  ~ recognised ch (fst la) ->
  server_connect [{| mode_transport := mt; listen_addrs := [la] |}] ch cp ct = None.
Proof. exact unrecognised_not_flagged. Qed.
Print Assumptions C23_unrecognised_not_flagged.

(* whole families of missed destinations *)
Theorem C23_loopback_v4_missed : forall n mt lh p ct,
  in_loop4 n = true -> n <> 2130706433%N -> dotted n <> lh ->
  local_dest (dotted n)
  /\ server_connect [{| mode_transport := mt; listen_addrs := [(lh, p)] |}] (dotted n) p ct = None.
Proof. exact loopback_v4_missed. Qed.
Print Assumptions C23_loopback_v4_missed.

Theorem C23_mapped_loopback_missed : forall n mt lh p ct,
  in_loop4 n = true -> s_mapped_prefix ++ dotted n <> lh ->
  local_dest (s_mapped_prefix ++ dotted n)
  /\ server_connect [{| mode_transport := mt; listen_addrs := [(lh, p)] |}] (s_mapped_prefix ++ dotted n) p ct = None.
Proof. exact mapped_loopback_missed. Qed.
Print Assumptions C23_mapped_loopback_missed.

Theorem C23_localhost_names_missed : forall s mt lh p ct,
  is_localhost_name s = true -> s <> s_localhost -> s <> lh ->
  local_dest s /\ server_connect [{| mode_transport := mt; listen_addrs := [(lh, p)] |}] s p ct = None.
Proof. exact localhost_names_missed. Qed.
Print Assumptions C23_localhost_names_missed.

(* ---- the guard's input: the registry of listeners under histories of runtime mode updates
   (Model/ServersUpdate.v, hand model of Servers.update, tied to the real Proxyserver on the same histories) *)

(* a registered instance whose spec is in the new mode list stays registered -- the same instance --
   whatever happens to the instances added next to it (including starts that fail) *)
Theorem C23_kept_stays : forall reg modes n mk fails spec i,
  lookup spec reg = Some i -> In spec modes ->
  lookup spec (r_reg (update reg true modes n mk fails)) = Some i.
Proof. exact kept_stays. Qed.
Print Assumptions C23_kept_stays.

Theorem C23_never_replaced : forall reg on modes n mk fails spec i j,
  lookup spec reg = Some i -> lookup spec (r_reg (update reg on modes n mk fails)) = Some j -> j = i.
Proof. exact never_replaced. Qed.
Print Assumptions C23_never_replaced.

(* only stopped instances leave, and only when their spec was removed or the server option is off *)
Theorem C23_only_stopped_leave : forall reg on modes n mk fails spec i,
  lookup spec reg = Some i -> lookup spec (r_reg (update reg on modes n mk fails)) = None ->
  In i (r_stopped (update reg on modes n mk fails)) /\ (on = false \/ ~ In spec modes).
Proof. exact only_stopped_leave. Qed.
Print Assumptions C23_only_stopped_leave.

Theorem C23_kept_through_history : forall h reg n spec i,
  lookup spec reg = Some i ->
  (forall s, In s h -> s_server_on s = true /\ In spec (s_modes s)) ->
  forall res, In res (run_updates reg n h) -> lookup spec (r_reg res) = Some i.
Proof. exact kept_through_history. Qed.
Print Assumptions C23_kept_through_history.

(* hence a recognised destination on a kept listener is still refused after any such update *)
Theorem C23_kept_listener_guarded : forall reg modes n mk fails spec i la ch ct,
  lookup spec reg = Some i -> In spec modes ->
  In la (listen_addrs (i_server i)) -> recognised ch (fst la) ->
  transport_compatible (mode_transport (i_server i)) ct ->
  server_connect (servers_of (r_reg (update reg true modes n mk fails))) ch (snd la) ct = Some error_message.
Proof. exact kept_listener_guarded. Qed.
Print Assumptions C23_kept_listener_guarded.

Theorem C23_update_nonvacuous :
  let res := update reg0 true [1; 2]%N 1%N (fun _ => sv 9090%N) (fun s => N.eqb s 2%N) in
  lookup 1%N reg0 = Some {| i_id := 0%N; i_running := true; i_server := sv 8080%N |}
  /\ lookup 1%N (r_reg res) = lookup 1%N reg0
  /\ option_map i_running (lookup 2%N (r_reg res)) = Some false
  /\ r_ok res = false /\ r_stopped res = []
  /\ server_connect (servers_of (r_reg res)) s_localhost 8080%N TCP = Some error_message
  /\ server_connect (servers_of (r_reg res)) s_localhost 9090%N TCP = None
  /\ r_stopped (update (r_reg res) true [2]%N 2%N (fun _ => sv 9090%N) (fun _ => false))
     = [{| i_id := 0%N; i_running := true; i_server := sv 8080%N |}].
Proof. exact update_nonvacuous. Qed.
Print Assumptions C23_update_nonvacuous.

Theorem C23_nonvacuous :
  denotes_listener srv_dns (s_wild6, 53%N) s_localhost 53%N UDP
  /\ recognised s_localhost (fst (s_wild6, 53%N))
  /\ server_connect [srv_all; srv_dns] s_localhost 53%N UDP = Some error_message
  /\ server_connect [srv_all; srv_dns] s_localhost 8080%N UDP = None
  /\ server_connect [srv_all; srv_dns] (b "example.com") 8080%N TCP = None
  /\ server_connect [srv_all; srv_dns] s_v6_loop 8080%N TCP = Some error_message.
Proof. exact nonvacuous. Qed.
Print Assumptions C23_nonvacuous.
