(* Props/C34.v -- Query, cookie, form and path views are lossless.
   Statements only; each is closed by [exact] of a lemma proved in Proofs/Mv*.v.
   str values are represented by their UTF-8/surrogateescape bytes (see Model/MvCommon.v).
   Findings (kind known): the multipart encoder/decoder pair loses CR/LF inside values, names with a
   double quote or a line break, parts with an empty name, and everything when the boundary contains a
   byte that urllib quote rewrites; url.encode with similar_to loses the pair of two empty strings.
   The multipart and form theorems are therefore _refuted + _partial; the guards of the partial theorems
   are the complements of those findings (plus: the delimiter itself must not occur in a part, which
   no encoder using that boundary can represent). *)
From Coq Require Import List Bool NArith.
From MV Require Import Base.Bytes Model.MvCommon Model.MvUrl Model.MvCookie Model.MvMultipart Model.MvViews Model.MvForm Proofs.MvFormProofs
  Proofs.MvUrlQuote Proofs.MvUrlMain Proofs.MvCookieProofs Proofs.MvMultipartProofs Proofs.MvMultipartMain Proofs.MvC34.
Import ListNotations.

(* ---- Request.query: every path (origin form), every list of pairs ---- *)
Theorem C34_query_roundtrip : forall (path : bytes) (l : pairs), get_query (set_query path l) = l.
Proof. exact query_roundtrip. Qed.
Print Assumptions C34_query_roundtrip.

Theorem C34_query_writeback : forall path : bytes, get_query (set_query path (get_query path)) = get_query path.
Proof. exact query_writeback. Qed.
Print Assumptions C34_query_writeback.

(* item assignment, set_all, add, insert, del through the MultiDictView act on the pair list as on a MultiDict *)
Theorem C34_query_view_ops : forall (path : bytes) (o : md_op),
  get_query (view_op get_query set_query path o)
  = match apply_op o (get_query path) with Some f => f | None => get_query path end.
Proof. exact query_view_ops. Qed.
Print Assumptions C34_query_view_ops.

(* ---- percent-encoding ---- *)
Theorem C34_unquote_quote : forall safe s : bytes, memb PCT safe = false -> unquote (quote safe s) = s.
Proof. exact unquote_quote. Qed.
Print Assumptions C34_unquote_quote.

Theorem C34_url_decode_encode : forall l : pairs, url_decode (url_encode l None) = l.
Proof. exact url_decode_encode. Qed.
Print Assumptions C34_url_decode_encode.

(* ---- Request.urlencoded_form ---- *)
(* full statement (every old body, every list) is false: *)
Theorem C34_form_refuted :
  exists old l, plain_mode old = false /\ get_urlencoded_form (set_urlencoded_form old l) <> l.
Proof. exact form_similar_refuted. Qed.
Print Assumptions C34_form_refuted.

(* old body empty/absent or every old field has an equals sign: every list of pairs *)
Theorem C34_form_partial : forall (old : option bytes) (l : pairs),
  plain_mode old = true -> get_urlencoded_form (set_urlencoded_form old l) = l.
Proof. exact form_roundtrip. Qed.
Print Assumptions C34_form_partial.

(* the same on a whole message: ANY prior header list (content-type with any charset parameter, other
   types, duplicates, none); the setter's header write is part of the round trip. get_text is abstract
   with the contract that under the plain form content-type an ASCII body is its own text. *)
Theorem C34_form_msg_partial : forall (get_text : bytes -> bytes -> bytes),
  (forall body, forallb is_ascii body = true -> get_text FORM_CT body = body) ->
  forall (h : fields) (old_text : option bytes) (l : pairs),
  plain_mode old_text = true ->
  let m := set_form_msg h old_text l in
  get_form_msg (fst m) (get_text (ct_of (fst m)) (snd m)) = l.
Proof. exact form_msg_roundtrip. Qed.
Print Assumptions C34_form_msg_partial.

Theorem C34_form_msg_header : forall (h : fields) (old_text : option bytes) (l : pairs),
  ct_of (fst (set_form_msg h old_text l)) = FORM_CT.
Proof. exact ct_after_set. Qed.
Print Assumptions C34_form_msg_header.

(* ---- Request.path_components: every path, every list of non-empty components ---- *)
Theorem C34_path_components_roundtrip : forall (path : bytes) (comps : list bytes),
  forallb nonempty comps = true -> get_path_components (set_path_components path comps) = comps.
Proof. exact path_components_roundtrip. Qed.
Print Assumptions C34_path_components_roundtrip.

Theorem C34_path_components_writeback : forall path : bytes,
  get_path_components (set_path_components path (get_path_components path)) = get_path_components path.
Proof. exact path_components_writeback. Qed.
Print Assumptions C34_path_components_writeback.

(* an empty component is not representable (the getter drops empty segments by design) *)
Theorem C34_path_components_empty_dropped :
  exists path comps, get_path_components (set_path_components path comps) <> comps.
Proof. exact path_components_empty_dropped. Qed.
Print Assumptions C34_path_components_empty_dropped.

(* ---- Request.cookies: every header list, every representable list (names without semicolon, equals
   sign and leading white space; not the pair of two empty strings); values are arbitrary bytes ---- *)
Theorem C34_cookies_roundtrip : forall (h : fields) (l : pairs),
  ck_repr l = true -> get_cookies (set_cookies h l) = Ok l.
Proof. exact cookies_roundtrip. Qed.
Print Assumptions C34_cookies_roundtrip.

Theorem C34_cookies_guard_needed : exists l, ck_repr l = false /\ get_cookies (set_cookies [] l) <> Ok l.
Proof. exact cookies_guard_needed. Qed.
Print Assumptions C34_cookies_guard_needed.

(* ---- Request.multipart_form ---- *)
Theorem C34_multipart_refuted_value_newline :
  exists b k v, boundary_ok b = true /\ key_ok b k = true /\ mp_lossy b [(k, v)].
Proof. exact multipart_value_newline_refuted. Qed.
Print Assumptions C34_multipart_refuted_value_newline.

Theorem C34_multipart_refuted_name_quote :
  exists b k v, boundary_ok b = true /\ val_ok b v = true /\ mp_lossy b [(k, v)].
Proof. exact multipart_name_quote_refuted. Qed.
Print Assumptions C34_multipart_refuted_name_quote.

Theorem C34_multipart_refuted_empty_name :
  exists b v, boundary_ok b = true /\ val_ok b v = true /\ mp_lossy b [([], v)].
Proof. exact multipart_empty_name_refuted. Qed.
Print Assumptions C34_multipart_refuted_empty_name.

Theorem C34_multipart_refuted_boundary_quoted :
  exists b k v, nonempty b = true /\ key_ok b k = true /\ val_ok b v = true /\ mp_lossy b [(k, v)].
Proof. exact multipart_boundary_quoted_refuted. Qed.
Print Assumptions C34_multipart_refuted_boundary_quoted.

(* boundary of unreserved bytes and slashes (what _set_multipart_form generates itself); names non-empty,
   without double quote, CR, LF; values without CR, LF; the delimiter --boundary in neither *)
Theorem C34_multipart_partial : forall (b : bytes) (parts : pairs),
  boundary_ok b = true -> parts_ok b parts = true ->
  exists content, set_multipart_form b parts = Some content /\ get_multipart_form b content = parts.
Proof. exact multipart_roundtrip. Qed.
Print Assumptions C34_multipart_partial.

Theorem C34_multipart_functions_partial : forall (b : bytes) (parts : pairs),
  boundary_ok b = true -> parts_ok b parts = true ->
  exists content, encode_multipart (Some b) parts = Some content /\ decode_multipart (Some b) content = Some parts.
Proof. exact multipart_functions_roundtrip. Qed.
Print Assumptions C34_multipart_functions_partial.

(* ---- the guards are satisfiable on non-trivial values ---- *)
Theorem C34_nonvacuous :
  (boundary_ok bnd = true /\ parts_ok bnd [([x6b; x31], [x61; x20; x2d; x2d; xff]); ([x6b; x31], [])] = true
   /\ view bnd [([x6b; x31], [x61; x20; x2d; x2d; xff]); ([x6b; x31], [])]
      = Some [([x6b; x31], [x61; x20; x2d; x2d; xff]); ([x6b; x31], [])])
  /\ (ck_repr [([x61], [x22; x5c; MvCookie.SEMI; MvCookie.SP; xc3]); ([], [x3d]); ([x62; MvCookie.SP], [])] = true
      /\ get_cookies (set_cookies [([x43; x6f; x6f; x6b; x69; x65], [x7a]); ([x63; x6f; x6f; x6b; x69; x65], [x79])]
           [([x61], [x22; x5c; MvCookie.SEMI; MvCookie.SP; xc3]); ([], [x3d]); ([x62; MvCookie.SP], [])])
         = Ok [([x61], [x22; x5c; MvCookie.SEMI; MvCookie.SP; xc3]); ([], [x3d]); ([x62; MvCookie.SP], [])]).
Proof. exact (conj nonvacuous_sample cookies_nonvacuous). Qed.
Print Assumptions C34_nonvacuous.
