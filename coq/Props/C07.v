(* Props/C07.v -- Body size limits are enforced and streamed bodies are relayed exactly.
   Statements only; each is closed by [exact] of a lemma proved in Proofs/HttpBody*.v.
   All theorems are about Model/HttpBody.v, the model the correspondence check runs: S, fq, fs are the state and the
   two stream callables (arbitrary state-passing functions), cfg the options / addon policy / connectability.
   The model describes the code with fixes/C07-empty-chunk.diff applied.
   Findings: (fixed) a zero-length data event on a chunked message was written as the last-chunk
   -- C07_empty_chunk_unrepaired_refuted is the witness on the unrepaired encoding, C07_wire_chunked_decodes the
   theorem for the repaired one; (known) no error response after 100 Continue -- C07_client_error_refuted +
   C07_client_error_partial, whose guard (no response recorded on the client connection) is the complement. *)
From Coq Require Import List Bool NArith ZArith.
From MV Require Import Base.Bytes Model.Http1Msg Model.Rfc9112 Model.HttpBody.
From MV Require Import Proofs.HttpBodyBase Proofs.HttpBodyLimit Proofs.HttpBodySteps Proofs.HttpBodyBound.
From MV Require Import Proofs.HttpBodyForward Proofs.HttpBodyRelay Proofs.HttpBodyWire.
From MV Require Import Model.H2SendBuf Proofs.H2SendBufFlat.
Import ListNotations.
Open Scope Z_scope.

(* ---- (1) memory bound.  For every history of events from the initial state (every prefix of a history is a
   history, so this is every reachable state): with body_size_limit = L >= 0, a body that is being buffered never
   exceeds L after the event has been handled; no buffer ever exceeds L plus the largest chunk received; a streamed
   body is not buffered at all.  The only bytes outside the bound are those kept on request by
   store_streamed_bodies, hence the hypothesis o_store = false on those clauses. *)
Theorem C07_buffer_bound :
  forall (S : Type) (fq fs : S -> bytes -> S * sres) (cfg : config) (L : Z),
  parse_size (o_limit cfg) = PVal L -> 0 <= L ->
  forall (q0 s0 : S) (evs : list event) (s : st S) (out : list cmd) (cr : bool),
  run S fq fs cfg (init S q0 s0) evs = (s, out, cr) ->
  (client_state s = Consume -> blen (request_body_buf s) <= L)
  /\ (server_state s = Consume -> blen (response_body_buf s) <= L)
  /\ (o_store cfg = false ->
      blen (request_body_buf s) <= L + max_req evs /\ blen (response_body_buf s) <= L + max_resp evs)
  /\ (o_store cfg = false -> client_state s = Streaming -> request_body_buf s = [])
  /\ (o_store cfg = false -> server_state s = Streaming -> response_body_buf s = [])
  /\ (client_state s = WaitHeaders \/ client_state s = Done -> request_body_buf s = [])
  /\ (server_state s = WaitHeaders \/ server_state s = Done -> response_body_buf s = []).
Proof. exact buffer_bound. Qed.
Print Assumptions C07_buffer_bound.

(* ---- (2) a body known to exceed the limit is rejected: error hook, error to the client, stream errored *)
Theorem C07_early_reject_request :
  forall (S : Type) (fq fs : S -> bytes -> S * sres) (cfg : config) (L : Z),
  parse_size (o_limit cfg) = PVal L ->
  forall (s : st S) (n : Z) (e100 : bool),
  client_state s = WaitHeaders -> request_body_buf s = [] -> 0 < n -> L < n ->
  exists s', handle_event S fq fs cfg s (ReqHeaders (FLen n) e100)
             = Some (s', [CHook HRequestHeaders; CHook HError; CSend Client (MErr ReqTooLarge)])
    /\ client_state s' = Errored /\ flow_error s' = true /\ flow_live s' = false
    /\ request_body_buf s' = [].
Proof. exact early_reject_request. Qed.
Print Assumptions C07_early_reject_request.

Theorem C07_late_reject_request :
  forall (S : Type) (fq fs : S -> bytes -> S * sres) (cfg : config) (L : Z),
  parse_size (o_limit cfg) = PVal L ->
  forall (s : st S) (d : bytes),
  client_state s = Consume -> 0 <= L -> L < blen (request_body_buf s ++ d) ->
  exists s', handle_event S fq fs cfg s (ReqData d) = Some (s', [CHook HError; CSend Client (MErr ReqTooLarge)])
    /\ client_state s' = Errored /\ flow_error s' = true /\ flow_live s' = false
    /\ request_body_buf s' = request_body_buf s ++ d.
Proof. exact late_reject_request. Qed.
Print Assumptions C07_late_reject_request.

Theorem C07_early_reject_response :
  forall (S : Type) (fq fs : S -> bytes -> S * sres) (cfg : config) (L : Z),
  parse_size (o_limit cfg) = PVal L ->
  forall (s : st S) (n : Z),
  server_state s = WaitHeaders -> response_body_buf s = [] -> 0 < n -> L < n ->
  exists s', handle_event S fq fs cfg s (RespHeaders (FLen n))
             = Some (s', [CHook HResponseHeaders; CHook HError; CSend Client (MErr RespTooLarge);
                          CSend Server (MErr RespTooLarge)])
    /\ client_state s' = Errored /\ server_state s' = Errored
    /\ flow_error s' = true /\ flow_live s' = false.
Proof. exact early_reject_response. Qed.
Print Assumptions C07_early_reject_response.

Theorem C07_late_reject_response :
  forall (S : Type) (fq fs : S -> bytes -> S * sres) (cfg : config) (L : Z),
  parse_size (o_limit cfg) = PVal L ->
  forall (s : st S) (d : bytes),
  server_state s = Consume -> 0 <= L -> L < blen (response_body_buf s ++ d) ->
  exists s', handle_event S fq fs cfg s (RespData d)
             = Some (s', [CHook HError; CSend Client (MErr RespTooLarge); CSend Server (MErr RespTooLarge)])
    /\ client_state s' = Errored /\ server_state s' = Errored
    /\ flow_error s' = true /\ flow_live s' = false
    /\ response_body_buf s' = response_body_buf s ++ d.
Proof. exact late_reject_response. Qed.
Print Assumptions C07_late_reject_response.

(* after the decision the request side swallows every event: no RequestData is forwarded *)
Theorem C07_rejected_stream_silent :
  forall (S : Type) (fq fs : S -> bytes -> S * sres) (cfg : config) (s : st S) (e : event),
  client_state s = Errored -> is_request_event e = true -> handle_event S fq fs cfg s e = Some (s, []).
Proof. exact step_request_errored. Qed.
Print Assumptions C07_rejected_stream_silent.

(* in every history, with any options: if the request was rejected for its size then no request head, data or
   end-of-message was sent to the server at any time, before or after the decision *)
Theorem C07_rejected_request_never_forwarded :
  forall (S : Type) (fq fs : S -> bytes -> S * sres) (cfg : config) (q0 s0 : S) (evs : list event)
         (s : st S) (out : list cmd) (cr : bool),
  run S fq fs cfg (init S q0 s0) evs = (s, out, cr) ->
  In (CSend Client (MErr ReqTooLarge)) out -> server_content out = [] /\ client_state s = Errored.
Proof. exact rejected_request_never_forwarded. Qed.
Print Assumptions C07_rejected_request_never_forwarded.

Theorem C07_rejected_response_never_forwarded :
  forall (S : Type) (fq fs : S -> bytes -> S * sres) (cfg : config) (q0 s0 : S) (evs : list event)
         (s : st S) (out : list cmd) (cr : bool),
  run S fq fs cfg (init S q0 s0) evs = (s, out, cr) ->
  In (CSend Client (MErr RespTooLarge)) out ->
  client_content out = [] /\ server_state s = Errored /\ client_state s = Errored.
Proof. exact rejected_response_never_forwarded. Qed.
Print Assumptions C07_rejected_response_never_forwarded.

Theorem C07_buffering_forwards_nothing :
  forall (S : Type) (fq fs : S -> bytes -> S * sres) (cfg : config) (q0 s0 : S) (evs : list event)
         (s : st S) (out : list cmd) (cr : bool),
  run S fq fs cfg (init S q0 s0) evs = (s, out, cr) ->
  (client_state s = Consume -> server_content out = [])
  /\ (server_state s = Consume -> client_content out = []).
Proof. exact buffering_forwards_nothing. Qed.
Print Assumptions C07_buffering_forwards_nothing.

(* ---- (3) streamed bodies.  From any state in which the request is being streamed, for every list of received
   chunks: the data events sent to the server are, in order, the chunks the callable returns for each received
   chunk and for the final b"" (or the received chunks themselves when stream is True); the end of message follows
   them; the flow keeps exactly those bytes iff store_streamed_bodies. *)
Theorem C07_stream_request_relay :
  forall (S : Type) (fq fs : S -> bytes -> S * sres) (cfg : config) (ds : list bytes)
         ss qb sb qf sf qs rs q1 q2 qc sc er lv,
  let s := mkSt Streaming ss qb sb qf sf qs rs q1 q2 qc sc er lv in
  let pieces := expected_pieces S qs fq q1 ds in
  exists s' out,
    run S fq fs cfg s (map ReqData ds ++ [ReqEom]) = (s', out, false)
    /\ data_to Server out = pieces
    /\ server_content out = map (fun c => CSend Server (MData c)) pieces ++ [CSend Server MEom]
    /\ client_state s' = Done
    /\ req_content s' = (if o_store cfg then Some (qb ++ concat pieces) else qc)
    /\ request_body_buf s' = (if o_store cfg then [] else qb).
Proof. exact stream_request_relay. Qed.
Print Assumptions C07_stream_request_relay.

Theorem C07_stream_response_relay :
  forall (S : Type) (fq fs : S -> bytes -> S * sres) (cfg : config) (ds : list bytes)
         cs qb sb qf sf qs rs q1 q2 qc sc er lv,
  let s := mkSt cs Streaming qb sb qf sf qs rs q1 q2 qc sc er lv in
  let pieces := expected_pieces S rs fs q2 ds in
  exists s' out,
    run S fq fs cfg s (map RespData ds ++ [RespEom]) = (s', out, false)
    /\ data_to Client out = pieces
    /\ client_content out = map (fun c => CSend Client (MData c)) pieces
                             ++ (if hstate_eqb cs Done then [CSend Client MEom] else [])
    /\ server_state s' = Done
    /\ resp_content s' = (if o_store cfg then Some (sb ++ concat pieces) else sc)
    /\ response_body_buf s' = (if o_store cfg then [] else sb).
Proof. exact stream_response_relay. Qed.
Print Assumptions C07_stream_response_relay.

(* relayed without buffering: the commands of one data event are exactly the callable's chunks for that event *)
Theorem C07_stream_request_immediate :
  forall (S : Type) (fq fs : S -> bytes -> S * sres) (cfg : config) (s : st S) (d : bytes),
  client_state s = Streaming ->
  let pieces := match req_stream s with SCall => data_chunks (snd (fq (fq_st s) d)) | _ => [d] end in
  exists s', handle_event S fq fs cfg s (ReqData d) = Some (s', map (fun c => CSend Server (MData c)) pieces)
    /\ client_state s' = Streaming
    /\ request_body_buf s' = (if o_store cfg then request_body_buf s ++ concat pieces else request_body_buf s).
Proof. exact stream_request_immediate. Qed.
Print Assumptions C07_stream_request_immediate.

Theorem C07_stream_response_immediate :
  forall (S : Type) (fq fs : S -> bytes -> S * sres) (cfg : config) (s : st S) (d : bytes),
  server_state s = Streaming ->
  let pieces := match resp_stream s with SCall => data_chunks (snd (fs (fs_st s) d)) | _ => [d] end in
  exists s', handle_event S fq fs cfg s (RespData d) = Some (s', map (fun c => CSend Client (MData c)) pieces)
    /\ server_state s' = Streaming
    /\ response_body_buf s' = (if o_store cfg then response_body_buf s ++ concat pieces else response_body_buf s).
Proof. exact stream_response_immediate. Qed.
Print Assumptions C07_stream_response_immediate.

(* the late switch (stream_large_bodies exceeded while buffering): connect, head, then everything buffered as one
   data event; the buffer is cleared first, so nothing is duplicated *)
Theorem C07_late_switch_request :
  forall (S : Type) (fq fs : S -> bytes -> S * sres) (cfg : config) (s : st S) (d : bytes) (T : Z),
  client_state s = Consume -> c_ok cfg = true ->
  parse_size (o_stream cfg) = PVal T -> 0 <= T -> T < blen (request_body_buf s ++ d) ->
  parse_size (o_limit cfg) <> PErr -> over (parse_size (o_limit cfg)) (blen (request_body_buf s ++ d)) = false ->
  exists s', handle_event S fq fs cfg s (ReqData d)
             = Some (s', [CGetConn; CSend Server (MHeaders false); CSend Server (MData (request_body_buf s ++ d))])
    /\ client_state s' = Streaming /\ req_stream s' = STrue
    /\ request_body_buf s' = (if o_store cfg then request_body_buf s ++ d else []).
Proof. exact late_switch_request. Qed.
Print Assumptions C07_late_switch_request.

(* a whole chunked request from the initial state with an addon installing a callable, any size options *)
Theorem C07_stream_request_end_to_end :
  forall (S : Type) (fq fs : S -> bytes -> S * sres) (cfg : config) (q0 s0 : S) (e100 : bool) (ds : list bytes),
  p_req cfg = Some SCall -> c_ok cfg = true ->
  let pieces := transformed S fq q0 ds in
  exists s' out,
    run S fq fs cfg (init S q0 s0) (ReqHeaders FChunked e100 :: map ReqData ds ++ [ReqEom]) = (s', out, false)
    /\ data_to Server out = pieces
    /\ server_content out = CSend Server (MHeaders false)
                             :: map (fun c => CSend Server (MData c)) pieces ++ [CSend Server MEom]
    /\ client_state s' = Done
    /\ req_content s' = (if o_store cfg then Some (concat pieces) else None)
    /\ request_body_buf s' = [].
Proof. exact stream_request_end_to_end. Qed.
Print Assumptions C07_stream_request_end_to_end.

(* ---- on the wire (Http1Client.send / Http1Server.send).  For every list of data events, empty ones included, what
   is written for a chunked message is read back by the RFC 9112 reference decoder as the concatenation of the data,
   with nothing left over *)
Theorem C07_wire_chunked_decodes :
  forall (o : ref_opts) (pieces : list bytes) (rest : bytes),
  read_body o BLChunked (wire_chunks HttpBody.send_data pieces ++ rest) = POk (concat pieces, [], rest).
Proof. exact wire_chunked_decodes. Qed.
Print Assumptions C07_wire_chunked_decodes.

Theorem C07_wire_request_stream_decodes :
  forall (S : Type) (cfg : config) (w : wst S) (pieces : list bytes) (o : ref_opts) (rest : bytes),
  req_framing (hs S w) = FChunked ->
  let '(w1, t1) := exec_cmds S cfg w (map (fun c => CSend Server (MData c)) pieces) in
  let '(w2, t2) := exec_cmd S cfg w1 (CSend Server MEom) in
  read_body o BLChunked (sent_to Server (t1 ++ t2) ++ rest) = POk (concat pieces, [], rest).
Proof. exact wire_request_stream_decodes. Qed.
Print Assumptions C07_wire_request_stream_decodes.

Theorem C07_wire_response_stream_decodes :
  forall (S : Type) (cfg : config) (w : wst S) (pieces : list bytes) (o : ref_opts) (rest : bytes),
  resp_fr S w = FChunked ->
  let '(w1, t1) := exec_cmds S cfg w (map (fun c => CSend Client (MData c)) pieces) in
  let '(w2, t2) := exec_cmd S cfg w1 (CSend Client MEom) in
  read_body o BLChunked (sent_to Client (t1 ++ t2) ++ rest) = POk (concat pieces, [], rest).
Proof. exact wire_response_stream_decodes. Qed.
Print Assumptions C07_wire_response_stream_decodes.

(* the defect repaired by fixes/C07-empty-chunk.diff, on the unrepaired encoding: the data events [b""; b"defg"]
   are read back as an empty body and the second chunk is left over as the start of another message *)
Theorem C07_empty_chunk_unrepaired_refuted :
  exists pieces body rest,
    read_body (mkOpts false false false) BLChunked (wire_chunks HttpBody.send_data_unrepaired pieces) = POk (body, [], rest)
    /\ body <> concat pieces /\ rest <> [].
Proof. exact wire_unrepaired_empty_chunk. Qed.
Print Assumptions C07_empty_chunk_unrepaired_refuted.

(* ---- the client receives an error.  Full statement is false (known finding no-error-response-after-100-continue):
   a chunked request with Expect: 100-continue that outgrows the limit is closed without any error response *)
Theorem C07_client_error_refuted :
  exists cfg steps trace bufs w,
    wrun unit (fun q _ => (q, RB [])) (fun q _ => (q, RB [])) cfg (winit unit tt tt) steps = (trace, bufs, w, false)
    /\ In (THook HError) trace /\ flow_error (hs unit w) = true
    /\ In (TClose Client) trace
    /\ (forall z, ~ In (TErrPage z) trace).
Proof. exact client_error_after_continue_refuted. Qed.
Print Assumptions C07_client_error_refuted.

(* ... and holds whenever no response is recorded on the client connection (no 100 Continue, no response head) *)
Theorem C07_client_error_partial :
  forall (S : Type) (cfg : config) (w : wst S) (code : errcode),
  client_open S w = true -> srv_response S w = SrNone ->
  exists w', exec_cmd S cfg w (CSend Client (MErr code)) = (w', [TErrPage (status_of code); TClose Client])
             /\ client_open S w' = false.
Proof. exact client_error_response. Qed.
Print Assumptions C07_client_error_partial.

(* end to end, early case, on the wire: 413 and close, nothing opened towards the server *)
Theorem C07_wire_early_reject :
  forall (S : Type) (fq fs : S -> bytes -> S * sres) (cfg : config) (q0 s0 : S) (L n : Z) (e100 : bool),
  parse_size (o_limit cfg) = PVal L -> 0 < n -> L < n ->
  exists w', wstep S fq fs cfg (winit S q0 s0) (WReqHead (FLen n) e100)
             = Some (w', [THook HRequestHeaders; THook HError; TErrPage 413; TClose Client])
    /\ client_open S w' = false /\ server_conn S w' = None
    /\ flow_error (hs S w') = true /\ flow_live (hs S w') = false.
Proof. exact wire_early_reject. Qed.
Print Assumptions C07_wire_early_reject.

(* ---- bodies relayed over an HTTP/2 leg: BufferedH2Connection's per-stream send buffer (Model/H2SendBuf.v) is a
   queue.  Each stream's traffic is read as tokens: the bytes of every chunk, then an END marker if the chunk carries
   END_STREAM.  For EVERY sequence of send_data / end_stream / stream and connection WINDOW_UPDATE operations, of
   any sizes, on any streams, from any state: tokens written ++ tokens still buffered = tokens buffered before ++
   tokens handed to send_data. *)
Theorem C07_h2_send_buffer_is_a_queue :
  forall (ops : list op) (s s' : sb) (fss : list (list frame)) (sid : N),
  run_ops ops s = Some (s', fss) ->
  flat (frames_of sid (concat fss)) ++ flat (buf_of sid s')
  = flat (buf_of sid s) ++ flat (flat_map (uchunks (maxf s) sid) ops).
Proof. exact send_buffer_is_a_queue. Qed.
Print Assumptions C07_h2_send_buffer_is_a_queue.

(* the DATA payloads written for a stream are a prefix of the data queued for it, in order; what is missing is
   exactly what is still buffered (uchunks_send_bytes: cutting over-long frames does not change the bytes) *)
Theorem C07_h2_written_is_prefix_of_queued :
  forall (ops : list op) (sids : list N) (w0 c0 mf : Z) (s' : sb) (fss : list (list frame)) (sid : N),
  run_ops ops (init_sb sids w0 c0 mf) = Some (s', fss) ->
  bytes_of (frames_of sid (concat fss)) ++ bytes_of (buf_of sid s') = bytes_of (flat_map (uchunks mf sid) ops).
Proof. exact written_is_prefix_of_queued. Qed.
Print Assumptions C07_h2_written_is_prefix_of_queued.

Theorem C07_h2_queued_bytes :
  forall (mf : Z) (k : N) (d : bytes) (es : bool), bytes_of (uchunks mf k (OSend k d es)) = d.
Proof. exact uchunks_send_bytes. Qed.
Print Assumptions C07_h2_queued_bytes.

(* END_STREAM last: if END_STREAM is the last thing queued for a stream and a frame carrying END_STREAM has been
   written, every queued byte was written before it, in order, and nothing is left *)
Theorem C07_h2_end_stream_is_last :
  forall (ops : list op) (sids : list N) (w0 c0 mf : Z) (s' : sb) (fss : list (list frame)) (sid : N) (body : bytes),
  run_ops ops (init_sb sids w0 c0 mf) = Some (s', fss) ->
  flat (flat_map (uchunks mf sid) ops) = map Some body ++ [None] ->
  (exists d, In (d, true) (frames_of sid (concat fss))) ->
  bytes_of (frames_of sid (concat fss)) = body /\ flat (buf_of sid s') = []
  /\ flat (frames_of sid (concat fss)) = map Some body ++ [None].
Proof. exact end_stream_is_last. Qed.
Print Assumptions C07_h2_end_stream_is_last.

(* a concrete run: window 4, two chunks and END_STREAM queued, the window re-opened by 3, 3 and 9: the first chunk is
   cut twice and its remainder goes back to the HEAD of the buffer *)
Theorem C07_h2_nonvacuous :
  exists s fss,
    run_ops [OSend 1 [x61; x62; x63; x64; x65; x66; x67; x68] false; OSend 1 [x58; x59] false; OEnd 1;
             OWinS 1 3; OWinS 1 3; OWinS 1 9] (init_sb [1%N] 4 65535 16384) = Some (s, fss)
    /\ fss = [[Frame 1 [x61; x62; x63; x64] false]; []; []; [Frame 1 [x65; x66; x67] false];
              [Frame 1 [x68] false; Frame 1 [x58; x59] false]; [Frame 1 [] true]]
    /\ bufs s = [].
Proof. exact h2_example. Qed.
Print Assumptions C07_h2_nonvacuous.

(* ---- the hypotheses are satisfiable on concrete, non-trivial values *)
Theorem C07_nonvacuous :
  parse_size (Some [x31; x6b]) = PVal 1024
  /\ parse_size (Some [x20; x2d; x33; x6d]) = PVal (-3145728)
  /\ parse_size (Some [x31; x4b]) = PErr
  /\ (let cfg := mkConfig (Some [x33]) None false None None true in
      exists s out,
        run unit (fun q d => (q, RB d)) (fun q d => (q, RB d)) cfg (init unit tt tt)
            [ReqHeaders FChunked false; ReqData [x61; x62]; ReqData [x63; x64]; ReqData [x65]] = (s, out, false)
        /\ In (CSend Client (MErr ReqTooLarge)) out /\ blen (request_body_buf s) = 4)
  /\ (let cfg := mkConfig None (Some [x32]) true None None true in
      exists s out,
        run unit (fun q d => (q, RB d)) (fun q d => (q, RB d)) cfg (init unit tt tt)
            [ReqHeaders FChunked false; ReqData [x61; x62]; ReqData [x63]; ReqData [x64]; ReqEom] = (s, out, false)
        /\ data_to Server out = [[x61; x62; x63]; [x64]] /\ req_content s = Some [x61; x62; x63; x64]).
Proof. exact nonvacuous_examples. Qed.
Print Assumptions C07_nonvacuous.
