(* Props/C07.v -- placeholder while the correspondence is being brought up *)
From Coq Require Import List Bool NArith ZArith.
From MV Require Import Base.Bytes Model.HttpBody.
Import ListNotations.

Theorem C07_nonvacuous : parse_size (Some [x31; x6b]) = PVal 1024%Z.
Proof. reflexivity. Qed.
Print Assumptions C07_nonvacuous.
