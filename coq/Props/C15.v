(* Props/C15.v -- Upstream certificates are verified unless verification is disabled.
   Statements only; each is closed by [exact] of a lemma proved in Proofs/.
   Models: Model/TlsStartServer.v (tls_start_server decision, ipaddress.ip_address, idna ASCII path),
   Model/ServerTlsLayer.v (TunnelLayer/TLSLayer/ServerTLSLayer over an abstract OpenSSL connection),
   Model/X509Verify.v (what verified means).  OpenSSL itself is the contract openssl_verifies. *)
From Coq Require Import List Bool NArith ZArith.
From MV Require Import Base.Bytes Model.X509Verify Model.TlsStartServer Model.ServerTlsLayer.
From MV Require Import Proofs.X509VerifyLemmas Proofs.ServerTlsLayerInv Proofs.UpstreamVerifyC15 Corr.C15.
Import ListNotations.

(* MAIN.  For every option/name input, trust set, server chain, time, every OpenSSL connection object
   satisfying the contract, every child layer and every history of events: if ssl_insecure is off and
   anything at all indicates a usable upstream connection (tls_established_server hook, application
   plaintext sent, child told the connection is up, child observing tls_established, tunnel OPEN), then
   the chain leads over CA-signed, currently valid links to a self-issued member of the trust set, the
   leaf is currently valid, and a SAN of the leaf matches the target derived from the SNI (IP: packed
   address; DNS: the idna-encoded name). *)
Theorem C15_verified_unless_disabled :
  forall i trust chain now eng seg hs_step send_app recv_app got_shutdown start_conn cst child_step c b es,
  openssl_verifies i trust chain now eng seg hs_step send_app recv_app start_conn ->
  ssl_insecure i = false ->
  usable eng seg hs_step send_app recv_app got_shutdown start_conn cst child_step c b es ->
  exists t leaf extra n,
    target_of i t /\ chain = leaf :: extra
    /\ valid_path trust extra now n leaf 0%N /\ time_ok now leaf = true /\ name_ok leaf t = true.
Proof. exact verified_unless_disabled. Qed.
Print Assumptions C15_verified_unless_disabled.

(* MAIN with the trust-store selection of create_proxy_server_context: the root the chain ends in is a
   CONFIGURED trusted CA -- a member of the CA file or of the CA directory when either option is set, a
   member of the bundled default file only when neither is. *)
Theorem C15_verified_by_configured_ca :
  forall i tc chain now eng seg hs_step send_app recv_app got_shutdown start_conn cst child_step c b es,
  openssl_verifies i (loaded_trust tc) chain now eng seg hs_step send_app recv_app start_conn ->
  ssl_insecure i = false ->
  usable eng seg hs_step send_app recv_app got_shutdown start_conn cst child_step c b es ->
  exists t leaf extra n r,
    target_of i t /\ chain = leaf :: extra
    /\ valid_path (loaded_trust tc) extra now n leaf 0%N /\ time_ok now leaf = true /\ name_ok leaf t = true
    /\ configured_root tc r /\ self_issued r = true /\ time_ok now r = true.
Proof. exact verified_by_configured_ca. Qed.
Print Assumptions C15_verified_by_configured_ca.

Theorem C15_loaded_trust_configured : forall tc r, In r (loaded_trust tc) <-> configured_root tc r.
Proof. exact loaded_trust_configured. Qed.
Print Assumptions C15_loaded_trust_configured.

Theorem C15_default_bundle_ignored : forall f d def1 def2,
  (f <> None \/ d <> None) -> loaded_trust (mkTc f d def1) = loaded_trust (mkTc f d def2).
Proof. exact default_bundle_ignored. Qed.
Print Assumptions C15_default_bundle_ignored.

(* contrapositive, in the form of the statement: a chain that does not verify is never usable, so no
   application data is ever sent to that server *)
Theorem C15_unverifiable_never_usable :
  forall i trust chain now eng seg hs_step send_app recv_app got_shutdown start_conn cst child_step c b es,
  openssl_verifies i trust chain now eng seg hs_step send_app recv_app start_conn ->
  ssl_insecure i = false ->
  (forall t, target_of i t -> x509_ok trust chain now t = false) ->
  ~ usable eng seg hs_step send_app recv_app got_shutdown start_conn cst child_step c b es.
Proof. exact unverifiable_never_usable. Qed.
Print Assumptions C15_unverifiable_never_usable.

(* tls_start_server raised (no name to verify, un-encodable or invalid name): with the repair
   fixes/C15-assign-ssl-conn-last.diff no connection object reaches the layer, and then nothing usable
   ever happens, for every server, child and history, without any assumption about OpenSSL *)
Theorem C15_hook_exception_never_usable :
  forall (eng seg : Type) hs_step send_app recv_app got_shutdown cst child_step c b es,
  ~ usable eng seg hs_step send_app recv_app got_shutdown None cst child_step c b es.
Proof. exact no_context_never_usable. Qed.
Print Assumptions C15_hook_exception_never_usable.

(* the failure is signalled: OpenSSL error during the handshake *)
Theorem C15_handshake_error_is_signalled :
  forall eng seg hs_step send_app recv_app got_shutdown start_conn cst child_step
         (s : st eng seg cst) e e' d,
  crashed _ _ _ s = false -> awaiting_open _ _ _ s = false ->
  tunnel_state _ _ _ s = ESTABLISHING -> reply_to _ _ _ s = true ->
  tls _ _ _ s = Some e -> hs_step e (Some d) = (e', HsError) ->
  exists rest,
    snd (step eng seg hs_step send_app recv_app got_shutdown start_conn cst child_step s (EData _ d))
    = [CLogWarn; CHook HFailed; CClose] ++ CChild (CevOpenReply true) (established _ _ _ s) :: rest.
Proof. exact handshake_error_is_signalled. Qed.
Print Assumptions C15_handshake_error_is_signalled.

(* ... the server closing during the handshake *)
Theorem C15_close_during_handshake_is_signalled :
  forall eng seg hs_step send_app recv_app got_shutdown start_conn cst child_step (s : st eng seg cst),
  crashed _ _ _ s = false -> awaiting_open _ _ _ s = false ->
  tunnel_state _ _ _ s = ESTABLISHING -> reply_to _ _ _ s = true ->
  exists rest,
    snd (step eng seg hs_step send_app recv_app got_shutdown start_conn cst child_step s (EClosed _))
    = [CLogWarn; CHook HFailed; CClose] ++ CChild (CevOpenReply true) (established _ _ _ s) :: rest.
Proof. exact close_during_handshake_is_signalled. Qed.
Print Assumptions C15_close_during_handshake_is_signalled.

(* ... and the hook leaving no connection object: error log and CloseConnection (whose ConnectionClosed
   event then takes the branch above) *)
Theorem C15_no_context_closes :
  forall (eng seg : Type) (start_conn : option eng) (cst : Type) (s : st eng seg cst),
  start_conn = None -> tls _ _ _ s = None ->
  snd (start_tls eng seg start_conn cst s) = [CHook HStart; CLogError; CClose].
Proof. exact no_context_closes. Qed.
Print Assumptions C15_no_context_closes.

(* the decision of tls_start_server: verify mode is NONE iff ssl_insecure, and with verification on
   every configuration carries a target that is the SNI (preset, else client SNI, else address) *)
Theorem C15_verify_mode : forall i cf,
  o_res (tls_start_server i) = inr cf ->
  cf_verify cf = if ssl_insecure i then VERIFY_NONE else VERIFY_PEER.
Proof. exact verify_mode. Qed.
Print Assumptions C15_verify_mode.

Theorem C15_peer_has_target : forall i cf,
  ssl_insecure i = false -> o_res (tls_start_server i) = inr cf ->
  cf_verify cf = VERIFY_PEER /\ exists t, cf_target cf = Some t /\ target_of i t.
Proof. exact peer_has_target. Qed.
Print Assumptions C15_peer_has_target.

Theorem C15_sni_source : forall i,
  o_sni (tls_start_server i)
  = match preset_sni i with Some s => s | None => py_or (client_sni i) (address_host i) end.
Proof. exact sni_source. Qed.
Print Assumptions C15_sni_source.

(* ssl_insecure on: every chain is acceptable ...  The full statement (handshakes with such servers
   succeed) is FALSE of the faithful model: the hook still insists on configuring the name and raises
   for names it cannot configure.  _refuted gives the witness (address example.com. with a trailing
   dot, known finding insecure-unverifiable-name-fails); _partial holds under the exact complement:
   the hook returns a configuration. *)
Theorem C15_insecure_succeeds_refuted :
  exists i, ssl_insecure i = true /\ o_res (tls_start_server i) = inl SslError.
Proof. exact insecure_still_raises. Qed.
Print Assumptions C15_insecure_succeeds_refuted.

Theorem C15_insecure_succeeds_partial : forall i cf trust chain now,
  ssl_insecure i = true -> o_res (tls_start_server i) = inr cf ->
  peer_acceptable cf trust chain now = true.
Proof. exact insecure_accepts_everything. Qed.
Print Assumptions C15_insecure_succeeds_partial.

(* what verified means: no Common Name fallback *)
Theorem C15_no_cn_fallback : forall s i k sk nb na ca pl dns ips cn1 cn2 t,
  name_ok (mkCert s i k sk nb na ca pl dns ips cn1) t = name_ok (mkCert s i k sk nb na ca pl dns ips cn2) t.
Proof. exact name_ok_ignores_cn. Qed.
Print Assumptions C15_no_cn_fallback.

(* no partial wildcards: a SAN that is not star-dot-rest only matches literally *)
Theorem C15_no_partial_wildcards : forall pat host,
  (forall rest, pat <> x2a :: x2e :: rest) ->
  dns_match pat host = true -> eq_nocase pat host = true.
Proof. exact non_leftmost_star_is_literal. Qed.
Print Assumptions C15_no_partial_wildcards.

(* a wildcard stands for exactly one whole, non-empty, dot-free left-most label *)
Theorem C15_wildcard_one_label : forall pat host,
  dns_match pat host = true ->
  eq_nocase pat host = true
  \/ exists rest l hr, pat = x2a :: x2e :: rest /\ host = l ++ hr /\ l <> [] /\ ~ In x2e l
                       /\ eq_nocase hr (x2e :: rest) = true.
Proof. exact dns_match_cases. Qed.
Print Assumptions C15_wildcard_one_label.

Theorem C15_ip_exact : forall c ip, name_ok c (TIp ip) = true <-> In ip (c_ips c).
Proof. exact name_ok_ip. Qed.
Print Assumptions C15_ip_exact.

(* the executable chain search decides the path relation (soundness; completeness within the fuel) *)
Theorem C15_chain_sound : forall trust pool now leaf,
  chain_ok trust pool now leaf = true -> exists n, valid_path trust pool now n leaf 0%N.
Proof. exact chain_ok_sound. Qed.
Print Assumptions C15_chain_sound.

Theorem C15_chain_complete : forall trust pool now leaf n,
  valid_path trust pool now n leaf 0%N -> (n <= search_fuel trust pool)%nat -> chain_ok trust pool now leaf = true.
Proof. exact chain_ok_complete. Qed.
Print Assumptions C15_chain_complete.

Theorem C15_path_ends_in_trusted_root : forall trust pool now n c d,
  valid_path trust pool now n c d ->
  exists r, In r trust /\ self_issued r = true /\ time_ok now r = true.
Proof. exact valid_path_ends_in_trusted_root. Qed.
Print Assumptions C15_path_ends_in_trusted_root.

(* the contract is satisfiable: the specification engine the correspondence check runs meets it *)
Theorem C15_contract_satisfiable : forall (a : bool) (conn : option phase),
  (forall e, conn = Some e -> e = Fresh) ->
  exists (live : phase -> Prop) (ok_eng : phase -> bool),
    (forall e, conn = Some e -> live e /\ ok_eng e = false)
    /\ (forall e d e' r, live e -> spec_hs a e d = (e', r) ->
          live e' /\ (r = HsDone -> a = true) /\ (ok_eng e' = true -> r = HsDone \/ ok_eng e = true))
    /\ (forall e d e' r, live e -> spec_send e d = (e', r) ->
          live e' /\ (ok_eng e' = true -> ok_eng e = true) /\ (forall p, r = Sent p -> ok_eng e = true))
    /\ (forall e d e' x, live e -> spec_recv e d = (e', x) ->
          live e' /\ (ok_eng e' = true -> ok_eng e = true)).
Proof. exact spec_engine_contract. Qed.
Print Assumptions C15_contract_satisfiable.

(* hypotheses are satisfiable on a concrete, non-trivial value: a matching leaf under a trusted root is
   accepted and the modelled layer establishes and sends; expired, untrusted or misnamed it is not *)
Theorem C15_nonvacuous :
  x509_ok [sample_root] [sample_leaf] 500 (THost s_example) = true
  /\ In (CHook HEstablished) sample_trace /\ In (CSendApp appdata) sample_trace
  /\ x509_ok [sample_root] [sample_leaf] 2000 (THost s_example) = false
  /\ x509_ok [] [sample_leaf] 500 (THost s_example) = false
  /\ x509_ok [sample_root] [sample_leaf] 500 (THost (x78 :: s_example)) = false.
Proof. exact sample_established. Qed.
Print Assumptions C15_nonvacuous.
