From Coq Require Import List Bool Arith.
From MV Require Import Base.Bytes Model.CertStore.
Theorem C17_placeholder : gen_count (certs empty_store) = 0.
Proof. reflexivity. Qed.
Print Assumptions C17_placeholder.
