From Coq Require Import List Bool NArith.
From MV Require Import Base.Bytes Model.ServerPlayback.
