(* Props/C52.v -- Server replay serves recorded responses only to matching requests, in order.
   Statements only; each is closed by [exact] of a lemma proved in Proofs/ServerPlayback*.v.
   Conventions: [after o0 h] is the state reached from an empty replay list under options o0 by
   the history h of load / add / clear / request / option-update operations (any history, any
   options); [pending m] lists the recordings still held by flowmap; [same_key] is the matching
   key of the statement, field by field; rec_id is the recording sequence number. *)
From Coq Require Import ZArith List Bool Permutation Sorted.
From MV Require Import Base.Bytes Model.ServerPlayback Proofs.ServerPlaybackKey Proofs.ServerPlaybackMap
  Proofs.ServerPlaybackMain Proofs.ServerPlaybackC52.
Import ListNotations.

(* [after] is the last state of the trace that the correspondence check executes with [run]. *)
Theorem C52_after_is_run_last : forall o0 h,
  after o0 h = last (map fst (run (init o0) h)) (init o0).
Proof. exact after_is_run_last. Qed.
Print Assumptions C52_after_is_run_last.

(* Two requests get the same _hash key exactly when method, scheme, path, non-ignored query
   parameters, and unless ignored host, port, body or non-ignored form fields, plus the
   configured headers are equal. *)
Theorem C52_key_is_matching_key : forall o a b, _hash o a = _hash o b <-> same_key o a b.
Proof. exact hash_eq_iff. Qed.
Print Assumptions C52_key_is_matching_key.

(* After any history flowmap is a correct index under the CURRENT options: each bucket key is
   the key of every recording in it, keys are distinct, no bucket is empty. *)
Theorem C52_index_invariant : forall o0 h, Inv (st_opts (after o0 h)) (st_map (after o0 h)).
Proof. exact index_invariant. Qed.
Print Assumptions C52_index_invariant.

(* A served response comes from a pending recording that has a response and whose matching key
   equals the request key under the current options. *)
Theorem C52_served_only_matching : forall o0 h rq r m2,
  request_hook (st_opts (after o0 h)) rq (st_map (after o0 h)) = (Served r, m2) ->
  In r (pending (st_map (after o0 h))) /\ rec_has_resp r = true
  /\ same_key (st_opts (after o0 h)) (rec_req r) rq.
Proof. exact served_only_matching. Qed.
Print Assumptions C52_served_only_matching.

(* The decision of the request hook: replay inactive (nothing pending) forwards; otherwise a
   request is served iff some pending recording with a response matches, and an unmatched
   request is killed / answered with the configured status / forwarded as configured. *)
Theorem C52_decision : forall o0 h rq,
  let s := after o0 h in
  let out := fst (request_hook (st_opts s) rq (st_map s)) in
  (st_map s = [] -> out = Forward) /\
  (st_map s <> [] ->
     (live (st_opts s) rq (st_map s) -> exists r, out = Served r) /\
     (~ live (st_opts s) rq (st_map s) -> out = unmatched_action (st_opts s))).
Proof. exact decision. Qed.
Print Assumptions C52_decision.

(* pop(0) never hits an empty bucket *)
Theorem C52_no_index_error : forall o0 h rq,
  fst (request_hook (st_opts (after o0 h)) rq (st_map (after o0 h))) <> Raised.
Proof. exact never_index_error. Qed.
Print Assumptions C52_no_index_error.

(* Without reuse a request removes from the pending recordings exactly the served one and the
   response-less recordings of the same key that were skipped; nothing else is lost or added. *)
Theorem C52_pop_conserves : forall o0 h rq,
  let s := after o0 h in
  reuse_on (st_opts s) = false ->
  exists skipped, Forall (fun x => noresp x /\ matches (st_opts s) rq x) skipped /\
    Permutation (pending (st_map s))
      (skipped ++ served_list (fst (request_hook (st_opts s) rq (st_map s)))
               ++ pending (snd (request_hook (st_opts s) rq (st_map s)))).
Proof. exact pop_conserves. Qed.
Print Assumptions C52_pop_conserves.

(* Over a whole history (reuse may be switched on and off): everything loaded is, as a multiset,
   what was served while reuse was off + skipped response-less recordings + what replay.server /
   replay.server.stop discarded + what is still pending. *)
Theorem C52_history_accounting : forall o0 h,
  exists skipped, Forall noresp skipped /\
    Permutation (loaded h)
      (served_pop (init o0) h ++ skipped ++ discarded (init o0) h ++ pending (st_map (after o0 h))).
Proof. exact history_accounting. Qed.
Print Assumptions C52_history_accounting.

(* Hence, without reuse, each recording is served at most once. *)
Theorem C52_served_at_most_once : forall o0 h,
  NoDup (ids (loaded h)) -> NoDup (ids (served_pop (init o0) h)).
Proof. exact served_at_most_once. Qed.
Print Assumptions C52_served_at_most_once.

(* With reuse the same request gets the same answer every time and the state never changes
   (which recording that is: C52_order_partial / C52_served_only_matching). *)
Theorem C52_reuse_first_every_time : forall o0 h rq n,
  let s := after o0 h in
  reuse_on (st_opts s) = true ->
  run s (repeat (ORequest rq) n)
  = repeat (s, Some (fst (request_hook (st_opts s) rq (st_map s)))) n.
Proof. exact reuse_first_every_time. Qed.
Print Assumptions C52_reuse_first_every_time.

(* Changing options (re-indexing included) neither loses nor duplicates a pending recording;
   that the new index is right for the new options is C52_index_invariant. *)
Theorem C52_reindex_conserves : forall o0 h upd,
  let s := after o0 h in
  Permutation (pending (st_map (fst (step s (OConfigure upd))))) (pending (st_map s)).
Proof. exact reindex_conserves. Qed.
Print Assumptions C52_reindex_conserves.

(* FULL-STRENGTH ORDER STATEMENT IS FALSE (known finding reindex-order): with recording numbers
   increasing along the history, the served recording is not always the earliest pending
   matching recording with a response.  Witness: recordings for hosts a, b, a; then
   server_replay_ignore_host=true re-indexes by concatenating the old buckets (0 2 | 1); after
   one request the next one is served recording 2 while recording 1 is pending. *)
Theorem C52_order_refuted :
  exists o0 h rq, recorded_in_order h /\ ~ earliest_served (after o0 h) rq.
Proof. exact order_refuted. Qed.
Print Assumptions C52_order_refuted.

(* Partial: the guard reindex_sorted is the complement of the finding -- every update naming a
   hash option starts from a flowmap whose buckets, concatenated in dict order, are in recording
   order.  Then, with or without reuse, the served recording is the earliest-recorded pending
   recording with a response whose key matches. *)
Theorem C52_order_partial : forall o0 h rq,
  recorded_in_order h -> reindex_sorted (init o0) h -> earliest_served (after o0 h) rq.
Proof. exact order_partial. Qed.
Print Assumptions C52_order_partial.

(* in particular for every history in which no update names a hash option *)
Theorem C52_order_no_reindex : forall o0 h rq,
  recorded_in_order h -> no_reindex h -> earliest_served (after o0 h) rq.
Proof. exact order_no_reindex. Qed.
Print Assumptions C52_order_no_reindex.

(* The hypotheses are satisfiable on a history with a two-bucket re-index, two served requests
   and one forwarded request; the key relation distinguishes the option sets. *)
Theorem C52_nonvacuous :
  recorded_in_order h_good /\ reindex_sorted (init opts0) h_good
  /\ length (st_map (final (init opts0) [OLoad [FHttp (mkrec 0 host_a); FHttp (mkrec 1 host_b)]])) = 2%nat
  /\ map snd (run (init opts0) h_good)
     = [None; None; Some (Served (mkrec 0 host_a)); Some (Served (mkrec 1 host_b)); Some Forward]
  /\ same_key (st_opts (after opts0 h_good)) (mkreq host_a) (mkreq host_z)
  /\ ~ same_key opts0 (mkreq host_a) (mkreq host_z).
Proof. exact nonvacuous. Qed.
Print Assumptions C52_nonvacuous.
