(* placeholder while the correspondence is brought up *)
From Coq Require Import List.
From MV Require Import Model.QuicDemux.
Theorem C30_placeholder : True. Proof. exact I. Qed.
Print Assumptions C30_placeholder.
