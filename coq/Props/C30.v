(* Props/C30.v -- QUIC streams are demultiplexed onto correctly paired streams.
   Subject: the model of RawQuicLayer in Model/QuicDemux.v (the one the correspondence check runs)
   with the translated stream-id arithmetic of Gen/QuicIds.v.  Every theorem below holds for EVERY
   stream child (arbitrary state type C, arbitrary step function, arbitrary spawn function) and for
   EVERY schedule evs of stream data / FIN / reset / stop-sending / connection-close events from both
   sides, including schedules that end in a failed assertion. *)
From Coq Require Import NArith List Bool.
From MV Require Import Base.Bytes Model.QuicIdsPrelude Gen.QuicIds Model.QuicDemux
  Proofs.QuicIds Proofs.QuicAlloc Proofs.QuicDemuxWrite Proofs.QuicDemuxLocal Proofs.QuicDemuxMain.
Import ListNotations.
Open Scope N_scope.

(* (1) Pairing.  In every reachable state client_stream_ids / server_stream_ids are exactly the
   graphs of layer -> client id / layer -> server id: each layer owns one id per side, no id is
   owned by two layers, and the two ids of a layer have the same direction and initiator bits. *)
Theorem C30_pairing :
  forall (C : Type) (child_step : C -> connst * connst -> cevent -> C * list ccmd) (new_child : nat -> C) evs,
  let st := run C child_step new_child evs in
  (forall k L, dict_get k (client_ids st) = Some L <-> exists l, nth_error (layers st) L = Some l /\ cid l = k) /\
  (forall k L, dict_get k (server_ids st) = Some L <-> exists l, nth_error (layers st) L = Some l /\ sid l = Some k) /\
  (forall L l s, nth_error (layers st) L = Some l -> sid l = Some s ->
     stream_is_unidirectional s = stream_is_unidirectional (cid l) /\
     stream_is_client_initiated s = stream_is_client_initiated (cid l)) /\
  (forall L1 L2 l1 l2, nth_error (layers st) L1 = Some l1 -> nth_error (layers st) L2 = Some l2 ->
     cid l1 = cid l2 \/ (exists s, sid l1 = Some s /\ sid l2 = Some s) -> L1 = L2).
Proof. exact pairing. Qed.
Print Assumptions C30_pairing.

(* (2) Ids chosen by mitmproxy.  The two bit predicates are bit 0 clear / bit 1 set, and any sequence of
   get_next_available_stream_id calls (translated source) never fails, returns ids with exactly the
   requested initiator and direction bits, pairwise distinct, strictly increasing within a class. *)
Theorem C30_id_bits :
  forall id, stream_is_client_initiated id = (id mod 2 =? 0) /\ stream_is_unidirectional id = (2 <=? id mod 4).
Proof. exact (fun id => conj (client_initiated_spec id) (unidirectional_spec id)). Qed.
Print Assumptions C30_id_bits.

Theorem C30_allocated_ids :
  forall calls, exists ids final, alloc_seq NEXT_STREAM_ID_INIT calls = Some (ids, final) /\
    Forall2 bits_ok calls ids /\ NoDup ids /\ ForallOrdPairs fresh_pair ids.
Proof. exact alloc_seq_correct. Qed.
Print Assumptions C30_allocated_ids.

(* (3) Every SendQuicStreamData / ResetQuicStream / StopSendingQuicStream ever emitted carries the id
   that the causing stream layer holds on the addressed side, and that id is registered for it. *)
Theorem C30_commands_target_paired_id :
  forall (C : Type) (child_step : C -> connst * connst -> cevent -> C * list ccmd) (new_child : nat -> C) evs,
  let st := run C child_step new_child evs in
  forall o to id, In o (outs st) -> targets o to id ->
  exists L l, nth_error (layers st) L = Some l /\ stream_id l to = Some id /\ dict_get id (ids_of to st) = Some L.
Proof. exact commands_target_registered_ids. Qed.
Print Assumptions C30_commands_target_paired_id.

(* (4) Data, end-of-stream and reset signals reach only the paired stream: whatever is emitted while a
   stream event on (from, id) is handled addresses an id of the one layer that owns (from, id). *)
Theorem C30_signals_reach_only_paired_stream :
  forall (C : Type) (child_step : C -> connst * connst -> cevent -> C * list ccmd) (new_child : nat -> C) evs from id k,
  let st := run C child_step new_child evs in
  let st' := step C child_step new_child st (SStream from id k) in
  exists new, outs st' = new ++ outs st /\
    forall o to id', In o new -> targets o to id' ->
      exists L l, nth_error (layers st') L = Some l /\ stream_id l from = Some id /\ stream_id l to = Some id'.
Proof. exact signals_reach_only_paired_stream. Qed.
Print Assumptions C30_signals_reach_only_paired_stream.

(* (5) After a FIN or a reset was sent on a stream nothing more is written to that stream. *)
Theorem C30_nothing_after_fin_or_reset :
  forall (C : Type) (child_step : C -> connst * connst -> cevent -> C * list ccmd) (new_child : nat -> C) evs pre o post to id,
  rev (outs (run C child_step new_child evs)) = pre ++ o :: post ->
  ends_stream o to id = true ->
  forall o', In o' post -> on_stream o' to id = false.
Proof. exact no_write_after_fin. Qed.
Print Assumptions C30_nothing_after_fin_or_reset.

(* (6) Stop-sending.  The full statement `every stream event of a peer is relayed` is FALSE of the faithful
   model and of the code: a QuicStreamStopSending event hits `raise AssertionError(Unexpected stream event)`
   (finding stop-sending-crash); nothing is emitted for it.  The partial theorem has exactly the complementary
   guard: without stop-sending events that failure is unreachable, for every child and schedule. *)
Theorem C30_stop_sending_relayed_refuted :
  exists evs, err (tcp_run evs) = Some UnexpectedStreamEvent /\
              err (tcp_run (removelast evs)) = None /\
              outs (tcp_run evs) = outs (tcp_run (removelast evs)).
Proof. exact stop_sending_fails. Qed.
Print Assumptions C30_stop_sending_relayed_refuted.

Theorem C30_stop_sending_partial :
  forall (C : Type) (child_step : C -> connst * connst -> cevent -> C * list ccmd) (new_child : nat -> C) evs,
  forallb (fun ev => negb (is_stop ev)) evs = true ->
  err (run C child_step new_child evs) <> Some UnexpectedStreamEvent.
Proof. exact stop_sending_only_cause. Qed.
Print Assumptions C30_stop_sending_partial.

(* non-vacuity: a concrete schedule over three streams (bidirectional client, unidirectional server,
   reset) with the TCP relay child runs without error, emits paired commands, preserves the reset and
   drops data that arrives after the client FIN. *)
Theorem C30_nonvacuous :
  err (tcp_run demo_evs) = None /\
  rev (outs (tcp_run demo_evs)) =
    [OSend 0 Sv 0 [x61] false; OSend 0 Sv 0 [] true; OSend 1 Cl 3 [x62] false; OSend 2 Sv 4 [x63] false;
     OReset 2 Sv 4 7; OSend 0 Cl 0 [x64] false] /\
  client_ids (tcp_run demo_evs) = [(0, 0%nat); (3, 1%nat); (4, 2%nat)] /\
  server_ids (tcp_run demo_evs) = [(0, 0%nat); (3, 1%nat); (4, 2%nat)].
Proof. exact demo_run. Qed.
Print Assumptions C30_nonvacuous.
