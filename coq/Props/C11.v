(* Props/C11.v — Intercepted flows are held until resumed, killed flows are never forwarded. *)
From Coq Require Import List Bool Arith.
From MV Require Import Model.LayerCore Model.FlowControl Proofs.LayerCore Proofs.FlowControl.
From MV Require Import Gen.WatchdogCond Model.Watchdog Proofs.Watchdog Proofs.FlowHold.
From Coq Require Import ZArith.
Import ListNotations.

(* In every reachable state of a flow (any sequence of intercept / resume / kill / hook-wait /
   event-loop steps) a hook suspended in wait_for_resume belongs to an intercepted flow; it is
   never stuck: Resume completes it at the next loop step, and so does Kill on a killable flow,
   which also leaves the flow killed and not live. *)
Theorem C11_waiting_is_resumable : forall ops : list fop,
  let f := frun fl0 ops in
  hp f = HWaiting ->
  intercepted f = true /\
  hp (fstep (fstep f Resume) LoopStep) = HDone /\
  (live f = true -> killed f = false ->
     let f' := fstep (fstep f Kill) LoopStep in hp f' = HDone /\ killed f' = true /\ live f' = false).
Proof. exact waiting_is_resumable. Qed.
Print Assumptions C11_waiting_is_resumable.

(* Held: while the hook waits, no operation other than Resume or Kill moves it. *)
Theorem C11_held_until_resumed : forall (f : fl) (o : fop),
  hp f = HWaiting -> o <> Resume -> o <> Kill -> hp (fstep f o) = HWaiting.
Proof. exact held. Qed.
Print Assumptions C11_held_until_resumed.

(* The hook completes only by the event loop running a released waiter, or by a hook that did
   not have to wait at all; a release is always caused by Resume or Kill and is counted once. *)
Theorem C11_completes_only_released : forall (f : fl) (o : fop),
  hook_done f = false -> hook_done (fstep f o) = true ->
  (o = LoopStep /\ hp f = HReleased) \/
  (o = HookWait /\ hp f = HNotStarted /\ (intercepted f = false \/ rev f = Ev true)).
Proof. exact completes_only_released. Qed.
Print Assumptions C11_completes_only_released.

Theorem C11_release_is_resume_or_kill : forall (f : fl) (o : fop),
  hp f <> HReleased -> hp (fstep f o) = HReleased ->
  releases (fstep f o) = S (releases f) /\ (o = Resume \/ o = Kill).
Proof. exact released_counted. Qed.
Print Assumptions C11_release_is_resume_or_kill.

Theorem C11_done_once : forall (f : fl) (o : fop), hp f = HDone -> hp (fstep f o) = HDone.
Proof. exact done_absorbing. Qed.
Print Assumptions C11_done_once.

(* The relay skeleton of a protocol layer: on a message it emits only the (blocking) message
   hook and pauses; when that hook completes for a killed flow it emits the error hook and never
   a send; otherwise exactly the one send.  Together with C04 (a paused layer handles nothing
   else, is resumed exactly once with its own completion, and does not block its parent, so other
   streams keep making progress) this is the layer-level statement. *)
Theorem C11_relay_skeleton : forall (me ctr k i : nat),
  exists kont, process me (relay_handler ctr (Ext k i))
  = (Waiting ctr kont, [mkCmd ctr TAG_MSG_HOOK (Owned me)], [TPause ctr]) /\
  (forall v, Nat.odd v = true ->
     let '(_, out, _) := process me (kont (Some v)) in has_tag TAG_SEND out = false /\ has_tag TAG_ERR_HOOK out = true) /\
  (forall v, Nat.odd v = false ->
     let '(_, out, _) := process me (kont (Some v)) in out = [mkCmd (ctr + 1) TAG_SEND NotBlocking]).
Proof. exact relay_holds. Qed.
Print Assumptions C11_relay_skeleton.

(* Connection level: the hooks of all flows of a connection run concurrently inside the idle watchdog's
   disarm(); on every schedule of activity, hook starts and ends in any order, clock advances and watcher
   wake-ups, the connection is not timed out while some hook (an intercepted flow) is still pending.
   The watcher's sleep argument and firing test are regenerated from proxy/server.py on every run. *)
Theorem C11_held_connection_not_timed_out : forall (T t0 : Z) (evs : list wevent) (e : wevent),
  let s := run (init T t0) evs in
  let p := spec_run (spec_init t0) evs in
  is_fired s = false -> (0 < s_pending p)%Z -> is_fired (step s e) = false.
Proof. exact held_connection_not_timed_out. Qed.
Print Assumptions C11_held_connection_not_timed_out.

Theorem C11_held_beside_other_nonvacuous :
  is_fired (run (init 10 0) held_beside_other) = false /\
  s_pending (spec_run (spec_init 0) held_beside_other) = 1%Z.
Proof. exact held_beside_other_ok. Qed.
Print Assumptions C11_held_beside_other_nonvacuous.

Theorem C11_nonvacuous :
  hp (frun fl0 [Intercept; HookWait; LoopStep; Intercept]) = HWaiting /\
  hp (frun fl0 [Intercept; HookWait; Kill; LoopStep]) = HDone /\
  killed (frun fl0 [Intercept; HookWait; Kill; LoopStep]) = true.
Proof. vm_compute. repeat split. Qed.
Print Assumptions C11_nonvacuous.
