(* Props/C04.v — Blocked layers process events exactly once, in order.
   All theorems hold for EVERY handler (arbitrary resumption program, arbitrary state),
   every layer identity and every schedule of events and completions. *)
From Coq Require Import List Bool Arith.
From MV Require Import Model.LayerCore Proofs.LayerCore Proofs.NextLayer.
Import ListNotations.

(* (1) Each incoming event that is not consumed as the awaited completion is passed to the
   handler exactly once, in arrival order (or is still queued, which is only possible while
   the layer waits); the consumed events are exactly the resumptions, in order. *)
Theorem C04_exactly_once_in_order :
  forall (S : Type) (h : S -> event -> prog S) (me : nat) (s0 : S) (evs : list event),
  let '(st, out, tr, fs) := run_events h me (init s0) evs in
  handled tr ++ queue st = select negb evs fs /\
  resumed tr = select (fun b => b) evs fs /\
  length fs = length evs /\
  (match run st with Idle _ => handled tr = select negb evs fs | Waiting _ _ => True end).
Proof. exact exactly_once_in_order. Qed.
Print Assumptions C04_exactly_once_in_order.

(* (2)+(3) The trace is well bracketed: after a pause on command c the next thing the layer
   does is resume with a completion of that same c; no handler starts while waiting. *)
Theorem C04_no_handling_while_waiting :
  forall (S : Type) (h : S -> event -> prog S) (me : nat) (s0 : S) (evs : list event),
  let '(st, out, tr, fs) := run_events h me (init s0) evs in
  bracketed None tr = true /\ pending_after None tr = pend S (run st).
Proof. exact no_handling_while_waiting. Qed.
Print Assumptions C04_no_handling_while_waiting.

(* (4) No command leaves a layer marked blocking=True, hence a parent that relays the
   commands of its child runs to the end of its own program: it is never paused by them. *)
Theorem C04_parent_not_blocked :
  forall (S PS : Type) (h : S -> event -> prog S) (me parent : nat) (s0 : S)
         (evs : list event) (fin : prog PS),
  let '(st, out, tr, fs) := run_events h me (init s0) evs in
  process parent (relay out fin) = let '(r, o, t) := process parent fin in (r, out ++ o, t).
Proof. exact parent_not_blocked. Qed.
Print Assumptions C04_parent_not_blocked.

(* (5) NextLayer: whenever the decision is made, the chosen layer has received exactly the
   non-consumed arrivals, each once, in arrival order, and its state equals the state it
   would have had it received those events directly. *)
Theorem C04_nextlayer_in_order :
  forall (CS : Type) (ch : CS -> event -> prog CS) (child_id me : nat) (ask_on_start : bool)
         (c0 : CS) (ctr0 : nat) (evs : list event),
  let '(s, out, fs) := nl_run ch child_id me ask_on_start (nl_init c0 ctr0) evs in
  nl_delivered s ++ nl_events s ++ nl_pq s = select negb evs fs /\
  (nl_chosen s = true -> nl_delivered s = select negb evs fs) /\
  nl_child s = fst (feed_child ch child_id (init c0) (nl_delivered s)) /\
  length fs = length evs.
Proof. exact nextlayer_delivers_in_order. Qed.
Print Assumptions C04_nextlayer_in_order.

(* non-vacuity: a handler with two nested blocking yields, three events interleaved with
   the completions; everything is handled, in order, and the layer ends idle *)
Definition demo_table : list ast :=
  [AYield 1 true (AYield 2 false (AYield 3 true ARet)); AYield 4 false ARet; ARet].
Definition demo_evs : list event :=
  [Ext 0 10; Ext 1 11; Completed 0 5; Ext 1 12; Completed 7 0; Completed 2 1].
Theorem C04_nonvacuous :
  let '(st, out, tr, fs) := run_events (table_handler demo_table) 7 (init (0, 0)) demo_evs in
  handled tr = [Ext 0 10; Ext 1 11; Ext 1 12; Completed 7 0] /\
  fs = [false; false; true; false; false; true] /\
  queue st = [] /\ length out = 5.
Proof. vm_compute. repeat split. Qed.
Print Assumptions C04_nonvacuous.

(* non-vacuity for handler replacement: the first handler blocks, then installs handler 1 (self._handle_event = ...);
   the event queued meanwhile is replayed with the NEW handler (table entry 1, command tag 9), not the one that was
   installed when it arrived *)
Definition switch_table : list ast := [AYield 1 true (ASwitch 1 ARet); AYield 9 false ARet].
Theorem C04_replay_uses_installed_handler :
  let '(st, out, tr, fs) := run_events (table_handler switch_table) 7 (init (0, 0)) [Ext 0 10; Ext 0 11; Completed 0 2] in
  map ctag out = [1; 9] /\ handled tr = [Ext 0 10; Ext 0 11] /\ queue st = [].
Proof. vm_compute. repeat split. Qed.
Print Assumptions C04_replay_uses_installed_handler.
