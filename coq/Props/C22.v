(* Props/C22.v -- Client connections from blocked address classes are refused.
   Statements only; each is closed by [exact] of a lemma proved in Proofs/BlockC22.v.

   Subject: Gen/Block.v, regenerated on every run from mitmproxy/addons/block.py, from the source of
   the ipaddress properties of the running CPython and from its run-time network tables.
   Specification: Model/Iana.v (IANA special-purpose registries, hand-entered).
   [refused bp bg m a] is: client.error is set after the client_connected hook.
   [ip_wf a] is: a < 2^32 (IPv4) or a < 2^128 (IPv6).  Every notation of an address (plain, exploded,
   zone-scoped) is the same (family, integer); the IPv4-mapped form is IPv6 (0xffff * 2^32 + v4).

   The full-strength statement (refused = spec_refused for ALL addresses) is FALSE of the faithful
   model: the CPython tables differ from the registry.  The set of addresses where they differ is
   computed in Coq ([in_diff], 3 IPv4 and 8 IPv6 maximal intervals with CPython 3.12.1) and
     C22_refuted            exhibits a counterexample (first address of the difference),
     C22_partial            proves the statement for every address outside the difference,
     C22_difference_exact   proves that every address inside the difference is a counterexample,
   so the guard of C22_partial is exactly the complement of the finding. *)
From Coq Require Import List Bool NArith String.
From MV Require Import Model.Ipaddr Model.Iana Gen.Block Model.Pexp Model.BlockDiff Proofs.BlockC22.

Theorem C22_refuted : exists bp bg m a,
  ip_wf a = true /\ refused bp bg m a <> spec_refused bp bg (spec_local m) a.
Proof. exact refuted. Qed.
Print Assumptions C22_refuted.

(* also in plain IPv6 and through the IPv4-mapped notation of the IPv4 counterexample *)
Theorem C22_refuted_v6_and_mapped :
  (exists bp bg, refused bp bg RegularMode (IPv6 witness6) <> spec_refused bp bg false (IPv6 witness6))
  /\ (exists bp bg, refused bp bg RegularMode (IPv6 (mapped_base + witness4))
                    <> spec_refused bp bg false (IPv6 (mapped_base + witness4))).
Proof. exact refuted_v6_and_mapped. Qed.
Print Assumptions C22_refuted_v6_and_mapped.

(* For both options, every proxy mode and every address (plain or IPv4-mapped) outside the computed
   table difference: the connection is refused iff the registry says the peer is global (resp. private)
   and the corresponding option is on, and the peer is not loopback and the mode is not local. *)
Theorem C22_partial : forall (block_private block_global : bool) (m : proxy_mode) (a : ip),
  ip_wf a = true -> in_diff a = false ->
  refused block_private block_global m a = spec_refused block_private block_global (spec_local m) a.
Proof. exact partial. Qed.
Print Assumptions C22_partial.

Theorem C22_difference_exact : forall a : ip, in_diff a = true ->
  exists bp bg, refused bp bg RegularMode a <> spec_refused bp bg false a.
Proof. exact difference_exact. Qed.
Print Assumptions C22_difference_exact.

(* On the WHOLE address space (difference included): loopback peers and local-redirect mode are
   never refused, whatever the options. *)
Theorem C22_exempt : forall (block_private block_global : bool) (m : proxy_mode) (a : ip),
  spec_loopback a = true \/ m = LocalMode -> client_connected block_private block_global m a = None.
Proof. exact exempt. Qed.
Print Assumptions C22_exempt.

(* HISTORIES: one Block instance serves any sequence of connections (any peers, any proxy modes, local
   included, options changing in between).  The verdict on each connection is the per-connection
   decision for the options current at that moment -- nothing is remembered from earlier connections
   (the translator fails closed on any instance or module state, see stateless_class). *)
Theorem C22_history_stateless : forall (st : addon_state) (h : list conn),
  run_history st h = map (fun c => client_connected (c_bp c) (c_bg c) (c_mode c) (c_addr c)) h.
Proof. exact history_stateless. Qed.
Print Assumptions C22_history_stateless.

(* ... hence C22_partial and C22_exempt hold for every connection of every history *)
Theorem C22_history_partial : forall (st : addon_state) (h : list conn),
  Forall2 (fun c e => ip_wf (c_addr c) = true -> in_diff (c_addr c) = false ->
                      is_some e = spec_refused (c_bp c) (c_bg c) (spec_local (c_mode c)) (c_addr c))
          h (run_history st h).
Proof. exact history_partial. Qed.
Print Assumptions C22_history_partial.

Theorem C22_history_exempt : forall (st : addon_state) (h : list conn),
  Forall2 (fun c e => spec_loopback (c_addr c) = true \/ c_mode c = LocalMode -> e = None) h (run_history st h).
Proof. exact history_exempt. Qed.
Print Assumptions C22_history_exempt.

(* A refused connection is closed right after the hook; no Start event, no connection handler. *)
Theorem C22_refused_before_processing : forall bp bg m a,
  refused bp bg m a = true ->
  ~ In StartEvent (handle_client_after_hook (refused bp bg m a))
  /\ ~ In HandleConnection (handle_client_after_hook (refused bp bg m a))
  /\ In CloseWriter (handle_client_after_hook (refused bp bg m a)).
Proof. exact refused_before_processing. Qed.
Print Assumptions C22_refused_before_processing.

(* The registry tables are listed general -> specific, so last match = most specific entry. *)
Theorem C22_registry_ordered : ordered iana_v4 = true /\ ordered iana_v6 = true.
Proof. exact iana_tables_ordered. Qed.
Print Assumptions C22_registry_ordered.

Theorem C22_nonvacuous :
  ip_wf (IPv4 134744072) = true /\ in_diff (IPv4 134744072) = false /\ refused false true RegularMode (IPv4 134744072) = true
  /\ in_diff (IPv6 (mapped_base + 134744072)) = false /\ refused false true Socks5Mode (IPv6 (mapped_base + 134744072)) = true
  /\ in_diff (IPv4 167772161) = false /\ refused false true RegularMode (IPv4 167772161) = false
  /\ refused true false RegularMode (IPv4 167772161) = true
  /\ refused true true LocalMode (IPv4 134744072) = false /\ refused true true RegularMode (IPv6 1) = false
  /\ diff4 <> nil /\ diff6 <> nil.
Proof. exact nonvacuous. Qed.
Print Assumptions C22_nonvacuous.
