From Coq Require Import List Bool NArith.
From MV Require Import Base.Bytes Model.Command.
Theorem C45_nonvacuous : True. Proof. exact I. Qed.
Print Assumptions C45_nonvacuous.
