(* Props/C45.v -- Command-line arguments reach commands unchanged.
   Statements only; each is closed by [exact] of a lemma proved in Proofs/Command*.v.
   Model: Model/Command.v (command_lexer.expr / quote / unquote, CommandManager.parse_partial /
   execute / call_strings, Command.prepare_args, parsearg, types._StrType.parse).
   kt is pyparsing keepTabs of command_lexer.expr (False on the unrepaired tree).

   THE FULL STATEMENT IS FALSE OF THE FAITHFUL MODEL (and of the code); five families:
     both-quotes-x22, tab-expanded, unicode-space-dropped   (first half, any parameter type)
     str-escape-interpreted                                  (first half, str-typed parameters)
     adjacent-tokens-split, unicode-space-dropped            (second half)
   Each has a _refuted theorem; the _partial / _exact theorems hold on the complement.

   Guards (boolean, defined in Proofs/CommandRoundtrip.v, CommandExec.v, CommandSplit.v):
     cmd_ok cmd   = cmd is a non-empty bare word: no quote, no lexer white space, not isspace
     has_both s   = s contains both quote characters
     uspace_only s= s is non-empty, all characters Unicode white space, none of SP CR LF TAB
     no_tab s     = s contains no TAB
     good kt s    = not has_both s, not uspace_only s, and (kt or no_tab s)
     good_str kt s= no backslash in s, not uspace_only s, and (kt or no_tab s)
     cmd_line cmd ss = cmd followed by (SP quote(s)) for every s in ss   (what the console builds)
     line_ok lead a0 rest trail = lead/trail are lexer white space (maybe empty), separators are
        non-empty lexer white space, every atom is a bare word (as cmd_ok) or q body q with q not in body *)
From Coq Require Import List Bool NArith.
From MV Require Import Base.Bytes Model.Command Proofs.CommandLex Proofs.CommandExec
  Proofs.CommandRoundtrip Proofs.CommandSplit Proofs.CommandSession.
Import ListNotations.

(* The lexer accepts every string (never ParseException, never out of fuel) and is lossless:
   the tokens concatenate to the (tab-expanded unless kt) input and none is empty. *)
Theorem C45_lexer_total : forall (kt : bool) (s : str),
  exists ts, parse_string kt s = LexOk ts
             /\ concat ts = (if kt then s else expandtabs s)
             /\ Forall (fun t => t <> []) ts.
Proof. exact parse_string_total. Qed.
Print Assumptions C45_lexer_total.

(* First half, partial: any number of good strings, quoted and joined as the console does,
   reach a command with identity-typed (types.CmdArgs) parameters unchanged. *)
Theorem C45_roundtrip_partial : forall (kt : bool) (commands : str -> option signature) (cmd : str) (ss : list str),
  cmd_ok cmd = true -> commands cmd = Some (SigVar TArg) ->
  forallb (good kt) ss = true ->
  execute kt commands (cmd_line cmd ss) = Received cmd ss.
Proof. exact roundtrip_arg. Qed.
Print Assumptions C45_roundtrip_partial.

(* The guard is exact: a single quoted argument reaches call_strings unchanged if and only if
   it is good.  So every string with both quotes, every bare Unicode-space string and (without
   keepTabs) every string with a TAB is altered or lost. *)
Theorem C45_roundtrip_exact : forall (kt : bool) (cmd s : str),
  cmd_ok cmd = true ->
  (execute_call kt (cmd_line cmd [s]) = CallStrings cmd [s] <-> good kt s = true).
Proof. exact roundtrip_exact. Qed.
Print Assumptions C45_roundtrip_exact.

Theorem C45_roundtrip_refuted_both_quotes :
  exists kt cmd s, cmd_ok cmd = true /\ execute_call kt (cmd_line cmd [s]) <> CallStrings cmd [s].
Proof. exact refuted_both_quotes. Qed.
Print Assumptions C45_roundtrip_refuted_both_quotes.

Theorem C45_roundtrip_refuted_tab :
  exists cmd s, cmd_ok cmd = true /\ has_both s = false
    /\ execute_call false (cmd_line cmd [s]) <> CallStrings cmd [s].
Proof. exact refuted_tab. Qed.
Print Assumptions C45_roundtrip_refuted_tab.

Theorem C45_roundtrip_refuted_unicode_space :
  exists kt cmd s, cmd_ok cmd = true /\ has_both s = false /\ no_tab s = true
    /\ execute_call kt (cmd_line cmd [s]) = CallStrings cmd [].
Proof. exact refuted_unicode_space. Qed.
Print Assumptions C45_roundtrip_refuted_unicode_space.

(* str-typed parameters: strings without backslash (both quotes allowed: escape parsing undoes
   the x22 rewriting) arrive unchanged ... *)
Theorem C45_str_roundtrip_partial : forall (kt : bool) (commands : str -> option signature) (cmd : str) (ss : list str),
  cmd_ok cmd = true -> commands cmd = Some (SigVar TStr) ->
  forallb (good_str kt) ss = true ->
  execute kt commands (cmd_line cmd ss) = Received cmd ss.
Proof. exact roundtrip_str. Qed.
Print Assumptions C45_str_roundtrip_partial.

(* ... but a good string containing a backslash escape does not. *)
Theorem C45_str_roundtrip_refuted :
  exists kt commands cmd s, cmd_ok cmd = true /\ commands cmd = Some (SigVar TStr) /\ good kt s = true
    /\ execute kt commands (cmd_line cmd [s]) <> Received cmd [s].
Proof. exact refuted_str_escape. Qed.
Print Assumptions C45_str_roundtrip_refuted.

(* Second half, partial: on lines made of atoms separated by lexer white space the non-Space
   parts of parse_partial are exactly the words of the character-level specification spec_words
   (Model/Command.v: split at white space outside quotes, nowhere else), they are the atoms, and
   execute passes their unquoted values on. *)
Theorem C45_split_partial : forall (kt : bool) (lead : str) (a0 : atom) (rest : list (str * atom)) (trail : str),
  line_ok lead a0 rest trail = true ->
  kt = true \/ no_tab (line_text lead a0 rest trail) = true ->
  exists parts,
    parse_partial kt (line_text lead a0 rest trail) = PPOk parts
    /\ nonspace_values parts = spec_words (line_text lead a0 rest trail)
    /\ nonspace_values parts = atom_text a0 :: map (fun it => atom_text (snd it)) rest
    /\ execute_call kt (line_text lead a0 rest trail)
       = CallStrings (atom_value a0) (map (fun it => atom_value (snd it)) rest).
Proof. exact split_partial. Qed.
Print Assumptions C45_split_partial.

(* Same for a line ending in an unclosed quote: everything after the opening quote, white space
   included, is one part (passed on with its quote character, unquote does not strip it). *)
Theorem C45_split_partial_unclosed : forall (kt : bool) (lead : str) (a0 : atom) (rest : list (str * atom))
    (sep : str) (q : char) (body : str),
  line_ok lead a0 rest [] = true -> sep_ok sep = true -> is_quote q = true -> in_chars q body = false ->
  let line := lead ++ atom_text a0 ++ tail_text rest (sep ++ q :: body) in
  kt = true \/ no_tab line = true ->
  exists parts,
    parse_partial kt line = PPOk parts
    /\ nonspace_values parts = spec_words line
    /\ nonspace_values parts = atom_text a0 :: map (fun it => atom_text (snd it)) rest ++ [q :: body]
    /\ execute_call kt line
       = CallStrings (atom_value a0) (map (fun it => atom_value (snd it)) rest ++ [q :: body]).
Proof. exact split_unclosed. Qed.
Print Assumptions C45_split_partial_unclosed.

(* Arguments are also split where there is no white space (quote boundaries) ... *)
Theorem C45_split_refuted_adjacent :
  exists line parts, no_tab line = true
    /\ parse_partial true line = PPOk parts
    /\ spec_words line = [[116; 46; 114; 97; 119]; [97; 34; 98; 34; 99]]%N
    /\ nonspace_values parts = [[116; 46; 114; 97; 119]; [97]; [34; 98; 34]; [99]]%N.
Proof. exact split_refuted_adjacent. Qed.
Print Assumptions C45_split_refuted_adjacent.

(* ... and a word of Unicode white space is not an argument at all. *)
Theorem C45_split_refuted_unicode_space :
  exists line parts, no_tab line = true
    /\ parse_partial true line = PPOk parts
    /\ spec_words line = [[116; 46; 114; 97; 119]; [11]]%N
    /\ nonspace_values parts = [[116; 46; 114; 97; 119]]%N.
Proof. exact split_refuted_unicode_space. Qed.
Print Assumptions C45_split_refuted_unicode_space.

(* Purity of the cached parse: in any session of parses and executes on one manager, each step
   is answered exactly as a stand-alone parse_partial / execute of its line (the correspondence
   check runs such sessions around the real console commander: type, Tab, Shift-Tab, Enter). *)
Theorem C45_session_history_independent :
  forall (kt : bool) (commands : str -> option signature) (pre : list step) (st : step) (post : list step),
  nth_error (run_session kt commands (pre ++ st :: post)) (length pre) = Some (run_step kt commands st).
Proof. exact session_history_independent. Qed.
Print Assumptions C45_session_history_independent.

(* The hypotheses are satisfiable on non-trivial values: a good string that needs quoting, two
   arguments, and a both-quotes string through a str-typed command, all with kt = false. *)
Theorem C45_nonvacuous :
  good false w_ok = true /\ quote w_ok <> w_ok
  /\ execute false w_commands (cmd_line w_cmd [w_ok; w_cmd]) = Received w_cmd [w_ok; w_cmd]
  /\ good_str false w_both = true
  /\ execute false w_commands (cmd_line [116; 46; 115; 116; 114]%N [w_both])
     = Received [116; 46; 115; 116; 114]%N [w_both].
Proof. exact sample_roundtrips. Qed.
Print Assumptions C45_nonvacuous.

Theorem C45_split_nonvacuous :
  line_ok w_line_lead w_line_a0 w_line_rest w_line_trail = true
  /\ no_tab (line_text w_line_lead w_line_a0 w_line_rest w_line_trail) = true
  /\ length (spec_words (line_text w_line_lead w_line_a0 w_line_rest w_line_trail)) = 4%nat.
Proof. exact split_sample. Qed.
Print Assumptions C45_split_nonvacuous.
