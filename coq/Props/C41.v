(* Props/C41.v -- HAR export followed by HAR import preserves the exchange.
   Statements only; each is closed by [exact] of a lemma proved in Proofs/Har*.v.

   The full statement (every HTTP flow comes back with the same method, URL, version, request headers apart from
   Content-Length, POST/PUT/PATCH body, status, response headers and decoded body) is FALSE of the faithful model:
   see the C41_refuted theorems (each is a finding in findings/C41.jsonl, reproduced on the real code).  What holds
   is C41_roundtrip_partial / C41_roundtrip_file_partial under the guard [flow_ok], whose conjuncts are the complements
   of the findings, for every codec library satisfying [contracts] (identity coding, base64 and surrogateescape
   round-trip).  The version mapping is characterised exactly (the two C41_version_exact theorems). *)
From Coq Require Import List Bool NArith.
From MV Require Import Base.Bytes Model.Headers Proofs.HeadersLaws Gen.HarTables Model.Har
                       Proofs.HarBase Proofs.HarRoundtrip Proofs.HarMain.
Import ListNotations.

(* The importer's version tables (translated from har.py) give back the version they are given exactly for
   HTTP/1.1, HTTP/2 and HTTP/3 -- and for no other spelling. *)
Theorem C41_version_exact_req : forall v : bytes,
  match_version req_version_table req_version_default v = v <-> (v = V11 \/ v = V2 \/ v = V3).
Proof. exact req_version_exact. Qed.
Print Assumptions C41_version_exact_req.

Theorem C41_version_exact_resp : forall v : bytes,
  match_version resp_version_table resp_version_default v = v <-> (v = V11 \/ v = V2 \/ v = V3).
Proof. exact resp_version_exact. Qed.
Print Assumptions C41_version_exact_resp.

(* mitmproxy spells HTTP/2 as HTTP/2.0 (Message.is_http2); that spelling falls through to the default. *)
Theorem C41_refuted_http2_table :
  import_req_version V20 = V11 /\ import_resp_version V20 = V11 /\ ~ version_kept V20.
Proof. exact refuted_http2_table. Qed.
Print Assumptions C41_refuted_http2_table.

(* ... and through the whole pipeline: an HTTP/2.0 exchange is exported, imported, and is HTTP/1.1 afterwards. *)
Theorem C41_refuted_http2 :
  exists e i, flow_entry toy (sample_rq V20) (Some (sample_resp V20 [SERVER; CL2])) = Ok e
              /\ request_to_flow false toy e = Ok i
              /\ rq_version (sample_rq V20) = V20 /\ i_version i = V11 /\ i_sversion i = V11.
Proof. exact refuted_http2. Qed.
Print Assumptions C41_refuted_http2.

(* One flow.  For every library satisfying the contracts, with or without the header repair [se], and every
   request/response pair inside the guard, export succeeds, import of the entry succeeds, and the imported flow has
   the same method, URL, version, request headers apart from Content-Length, request body (POST/PUT/PATCH), status,
   response version, response headers (exactly) and body. *)
Theorem C41_roundtrip_partial : forall (L : lib) (se : bool) (rq : request) (r : response),
  contracts L -> flow_ok L se rq r ->
  exists e i, flow_entry L rq (Some r) = Ok e /\ request_to_flow se L e = Ok i /\ same_exchange L rq r i.
Proof. exact roundtrip_flow_c. Qed.
Print Assumptions C41_roundtrip_partial.

(* The whole file: any list of flows (non-HTTP flows are skipped by the exporter), all exchanges inside the guard:
   the reader yields exactly one flow per exchange, in order, without raising. *)
Theorem C41_roundtrip_file_partial : forall (L : lib) (se : bool) (flows : list flow),
  contracts L -> Forall (flow_okF L se) flows ->
  exists es imported,
    make_har L flows = Ok es
    /\ import_har se L es = (imported, Clean)
    /\ Forall2 (fun x i => same_exchange L (fst x) (snd x) i) (exchanges flows) imported.
Proof. exact roundtrip_har. Qed.
Print Assumptions C41_roundtrip_file_partial.

(* Outside the guard (findings; each reproduced on the real code). *)
Theorem C41_refuted_non_utf8_header :
  exists es, make_har toy [HttpFlow (sample_rq V11) (Some (sample_resp V11 [H [x58] [xff]; CL2]))] = Ok es
             /\ import_har false toy es = ([], Raised).
Proof. exact refuted_non_utf8_header. Qed.
Print Assumptions C41_refuted_non_utf8_header.

Theorem C41_refuted_content_length_added :
  exists e i, flow_entry toy (sample_rq V11) (Some (sample_resp V11 [SERVER])) = Ok e
              /\ request_to_flow false toy e = Ok i
              /\ i_sh i = [SERVER; CL2].
Proof. exact refuted_content_length_added. Qed.
Print Assumptions C41_refuted_content_length_added.

Theorem C41_refuted_content_encoding_dropped :
  exists e i, flow_entry toy (sample_rq V11) (Some (sample_resp V11 [H K_CE GZIP; CL2])) = Ok e
              /\ request_to_flow false toy e = Ok i
              /\ i_sh i = [CL2].
Proof. exact refuted_content_encoding_dropped. Qed.
Print Assumptions C41_refuted_content_encoding_dropped.

(* With fixes/C41-header-surrogateescape.diff (se = true) the same file is read and the header comes back. *)
Theorem C41_header_fix_effective :
  exists es i, make_har toy [HttpFlow (sample_rq V11) (Some (sample_resp V11 [H [x58] [xff]; CL2]))] = Ok es
               /\ import_har true toy es = ([i], Clean) /\ i_sh i = [H [x58] [xff]; CL2].
Proof. exact header_fix_effective. Qed.
Print Assumptions C41_header_fix_effective.

(* The contracts are satisfiable and the guard is satisfiable by a non-trivial exchange (POST with body, several
   headers, text response; the request Content-Length is really rewritten, postData really carries the text). *)
Theorem C41_nonvacuous :
  contracts toy /\ flow_ok toy false (sample_rq V11) (sample_resp V3 [SERVER; CL2])
  /\ exists e i, flow_entry toy (sample_rq V11) (Some (sample_resp V3 [SERVER; CL2])) = Ok e
                 /\ request_to_flow false toy e = Ok i
                 /\ i_rh i <> rq_headers (sample_rq V11)
                 /\ e_post e = Some (Some [123;125]%N).
Proof. exact sample_roundtrips. Qed.
Print Assumptions C41_nonvacuous.

(* "in the same order", for ANY list of flows (no guard, no contracts; the model of make_har takes no creation or
   start time as input, so the statement holds whatever those are): if the export succeeds, entry number i is the
   entry of the i-th HTTP flow of the list handed to the exporter ... *)
Theorem C41_entry_order : forall (L : lib) (flows : list flow) (es : list entry),
  make_har L flows = Ok es ->
  Forall2 (fun x e => flow_entry L (fst x) (snd x) = Ok e) (http_flows flows) es.
Proof. exact entry_order. Qed.
Print Assumptions C41_entry_order.

(* ... exporting a concatenation gives the concatenation of the exports ... *)
Theorem C41_export_app : forall (L : lib) (fs1 fs2 : list flow) (es1 es2 : list entry),
  make_har L fs1 = Ok es1 -> make_har L fs2 = Ok es2 -> make_har L (fs1 ++ fs2) = Ok (es1 ++ es2).
Proof. exact make_har_app. Qed.
Print Assumptions C41_export_app.

(* ... and the reader yields the import of entry i at position i (up to the first entry it fails on). *)
Theorem C41_import_order : forall (se : bool) (L : lib) (es : list entry) (imported : list iflow) (st : stop),
  import_har se L es = (imported, st) ->
  Forall2 (fun e i => request_to_flow se L e = Ok i) (firstn (length imported) es) imported.
Proof. exact import_order. Qed.
Print Assumptions C41_import_order.
