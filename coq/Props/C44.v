(* Props/C44.v -- placeholder while the correspondence is brought up *)
From Coq Require Import List Bool NArith ZArith.
From MV Require Import Base.Bytes Model.OptManager.
Theorem C44_placeholder : check_option_type (VBool true) (TBase BInt) = true.
Proof. reflexivity. Qed.
Print Assumptions C44_placeholder.
