(* Props/C44.v -- Option updates are transactional, typed and survive a config round-trip.
   Statements only; each is closed by [exact] of a lemma proved in Proofs/OptManager*.v.
   Model: Model/OptManager.v (OptManager.add_option / update_known + rollback / update / update_defer /
   __setattr__ / reset / subscribe / changed.connect / set / process_deferred, _Option incl. __deepcopy__,
   typecheck.check_option_type, _parse_setval).  Every theorem quantifies over
     behave : listener id -> state (options, deferred, whole notification log) -> updated set -> reaction
              i.e. ALL listener behaviours, stateful ones included: a listener returns (Accept), raises OptionsError
              (Reject) or re-enters the manager with a nested self.update(kw) (Nested kw, as addons do from
              configure; [nested] is that call, [nested_update .. fuel] the real one with a recursion-depth bound).
              C44_always_typed and C44_rejected_restores_reentrant hold for every behave; the theorems that
              describe the exact notifications assume [non_reentrant behave] (no Nested reaction), and then hold
              for every [nested];
     vt, vu : the code variant (false/false = unchanged code; true = fixes/C44-validate-before-assign.diff);
     ops    : ALL histories of calls, failed calls included ([run] goes on after an exception).
   Definitions used: [restored d1 d2] = same option names in the same order, same types and defaults, and every
   current value is == (Python equality, [py_eq]) to the previous one; [C44_py_eq_meaning] says what == allows.
   [shows sn U e] = e is a notification in which the listener saw the option values sn and the updated-set U.
   [last_seen l log] = the option values listener l saw in its most recent notification.
   [updateish] = update_known, update, update_defer, __setattr__, set, process_deferred.

   Three findings make the full statement false for the unchanged code (each has _refuted + _partial):
   - typeerror-partial-assign: a TypeError raised for a later kwarg leaves the earlier kwargs assigned;
   - unknown-option-partial-assign: update() raises KeyError for an unknown name after assigning the known ones;
     guard [atomic_guard vt vu e]: the error is not a TypeError (unless vt) and not a KeyError (unless vu), i.e.
     exactly the errors that remain once the two findings are excluded (OptionsError, NotImplementedError);
   - renotify-aborted: a listener that refuses the re-notification of a rollback cuts the signal short, so later
     listeners keep the rejected values; guard: every notification newer than the .errored marker was accepted.
   The config round-trip clause (ruamel.yaml) is not modelled; it is checked on the real code by the oracle. *)
From Coq Require Import List Bool NArith ZArith.
From MV Require Import Base.Bytes Model.OptManager Proofs.OptManagerBase Proofs.OptManagerMain.
Import ListNotations.

(* Typed: after any history, every option holds a value (and a default) of its declared type. *)
Theorem C44_always_typed : forall behave vt vu fuel ops n o,
  dget n (options (trun behave vt vu fuel ops init)) = Some o ->
  check_option_type (current o) (otype o) = true /\ check_option_type (odefault o) (otype o) = true.
Proof. exact always_typed. Qed.
Print Assumptions C44_always_typed.

(* Transactional (partial, guard = complement of the two partial-assign findings): a rejected update-like
   call leaves every option at its previous value, from ANY well-typed-or-not state s. *)
Theorem C44_rejected_restores_partial : forall behave vt vu nested (NR : non_reentrant behave) o s s' e,
  updateish o = true -> step behave vt vu nested o s = (s', RErr e) -> atomic_guard vt vu e ->
  restored (options s) (options s').
Proof. exact rejected_restores. Qed.
Print Assumptions C44_rejected_restores_partial.

(* With the repair (vt = vu = true) the guard is vacuous: every rejected update restores. *)
Theorem C44_rejected_restores_repaired : forall behave nested o s s' e, non_reentrant behave ->
  updateish o = true -> step behave true true nested o s = (s', RErr e) -> restored (options s) (options s').
Proof. exact rejected_restores_repaired. Qed.
Print Assumptions C44_rejected_restores_repaired.

(* Re-entrant listeners (ANY behave, ANY nested): when update_known is rejected with OptionsError, the FULL option
   set is restored -- also the options that listeners changed by nested updates during the aborted transaction --
   provided no listener answers the re-notification (options = the restored ones, updated = the assigned names)
   with yet another nested update (complement of finding renotify-nested-update). *)
Theorem C44_rejected_restores_reentrant : forall behave vt nested kw s s',
  update_known behave vt nested kw s = (s', UErr EOptionsError) ->
  (forall l st kw', options st = dmap deepcopy_opt (options s) ->
      behave l st (set_of (map fst (filter (is_known (options s)) kw))) <> Nested kw') ->
  restored (options s) (options s').
Proof. exact update_known_rejected_general. Qed.
Print Assumptions C44_rejected_restores_reentrant.

(* Non-vacuity of the above: listener 0 answers o0 = 9 with a nested update(o1 = 1080), which is accepted and
   seen by listener 1; listener 1 then refuses o0 = 9; afterwards o0 AND o1 are back and both listeners last saw
   the restored values. *)
Theorem C44_reentrant_nonvacuous :
  exists s', let s := trun dependent false false 5
       [AddOption 0%N (TBase BInt) (VInt 0); AddOption 1%N (TBase BInt) (VInt 8080); Connect 0%N; Connect 1%N] init in
    update_known dependent false (nested_update dependent false false 5) [(0%N, VInt 9)] s = (s', UErr EOptionsError)
    /\ snapshot (options s) = [(0%N, VInt 0); (1%N, VInt 8080)]
    /\ snapshot (options s') = [(0%N, VInt 0); (1%N, VInt 8080)]
    /\ In (Notified 1%N [(0%N, VInt 9); (1%N, VInt 1080)] [1%N] KAccept) (log s')
    /\ last_seen 0%N (log s') = Some [(0%N, VInt 0); (1%N, VInt 8080)]
    /\ last_seen 1%N (log s') = Some [(0%N, VInt 0); (1%N, VInt 8080)].
Proof. exact nested_nonvacuous. Qed.
Print Assumptions C44_reentrant_nonvacuous.

(* FINDING typeerror-partial-assign (unchanged code): update(o0=5, o1=7) with o1 a str option raises TypeError
   and o0 went from 0 to 5. *)
Theorem C44_rejected_restores_refuted_typeerror :
  exists kw s', let s := trun always_ok false false 5 two_options init in
    tstep always_ok false false 5 (Update kw) s = (s', RErr ETypeError)
    /\ lookup (options s) 0%N = Some (VInt 0) /\ lookup (options s') 0%N = Some (VInt 5).
Proof. exact typeerror_refuted. Qed.
Print Assumptions C44_rejected_restores_refuted_typeerror.

(* FINDING unknown-option-partial-assign (unchanged code): update(o0=5, o9=1) raises KeyError, o0 is 5. *)
Theorem C44_rejected_restores_refuted_keyerror :
  exists kw s', let s := trun always_ok false false 5 two_options init in
    tstep always_ok false false 5 (Update kw) s = (s', RErr EKeyError)
    /\ lookup (options s) 0%N = Some (VInt 0) /\ lookup (options s') 0%N = Some (VInt 5).
Proof. exact keyerror_refuted. Qed.
Print Assumptions C44_rejected_restores_refuted_keyerror.

(* What == between the previous and the restored value means: identical, or True/False versus 1/0
   (_Option.__deepcopy__ drops a value that == the default, so True stored in an int option with default 1
   comes back as 1). *)
Theorem C44_py_eq_meaning : forall a b, py_eq a b = true -> a = b \/ bool_int_mix a b.
Proof. exact py_eq_spec. Qed.
Print Assumptions C44_py_eq_meaning.

(* A failed process_deferred keeps the deferred values. *)
Theorem C44_deferred_kept_partial : forall behave vt vu nested (NR : non_reentrant behave) s s' e,
  process_deferred behave vt vu nested s = (s', RErr e) -> atomic_guard vt vu e -> deferred s' = deferred s.
Proof. exact process_deferred_failed_keeps_deferred. Qed.
Print Assumptions C44_deferred_kept_partial.

(* Listeners (partial, guard = complement of renotify-aborted): when an update-like call is rejected by a
   listener, and every re-notification (the events newer than the .errored marker) was accepted, then every
   listener that was notified during the call has last seen exactly the restored values. *)
Theorem C44_renotified_partial : forall behave vt vu nested (NR : non_reentrant behave) o s s',
  updateish o = true -> step behave vt vu nested o s = (s', RErr EOptionsError) ->
  exists delta, log s' = delta ++ log s /\
    (forallb ev_ok (newer_than_errored delta) = true ->
     forall l, In l (listeners delta) -> last_seen l (log s') = Some (snapshot (options s'))).
Proof. exact rejected_renotifies. Qed.
Print Assumptions C44_renotified_partial.

(* FINDING renotify-aborted: receivers 0 and 1; update(o0=9) is accepted by 0, refused by 1; on the
   re-notification 0 refuses, so 1 has last seen o0 = 9 although o0 is 0 again. *)
Theorem C44_renotified_refuted :
  exists kw s' sn, let s := trun fussy false false 5 fussy_setup init in
    tstep fussy false false 5 (Update kw) s = (s', RErr EOptionsError)
    /\ last_seen 1%N (log s') = Some sn
    /\ sn = [(0%N, VInt 9)] /\ snapshot (options s') = [(0%N, VInt 0)].
Proof. exact renotify_refuted. Qed.
Print Assumptions C44_renotified_refuted.

(* Accepted: update_known that returns normally (a) returns exactly the unknown kwargs, (b) changes nothing if no
   kwarg is known, otherwise (c) notifies every interested listener (subscribers whose option set meets U, then the
   direct receivers) exactly once, in order, all accepting, each seeing the NEW values and exactly the set U of
   assigned names, (d) every option named in kwargs holds the (last) value given, all others are untouched,
   (e) U is exactly the set of known kwarg names, without duplicates. *)
Theorem C44_accepted_notifies : forall behave vt nested (NR : non_reentrant behave) kw s s' unknown,
  update_known behave vt nested kw s = (s', UOk unknown) ->
  let known := filter (is_known (options s)) kw in
  let U := set_of (map fst known) in
  unknown = filter (fun p => negb (is_known (options s) p)) kw
  /\ (known = [] -> s' = s)
  /\ (known <> [] -> exists evs, log s' = evs ++ log s
        /\ rev (listeners evs) = targets s U
        /\ forallb ev_ok evs = true
        /\ Forall (shows (snapshot (options s')) U) evs)
  /\ (forall n, lookup (options s') n =
        match dget n (rev known) with Some v => Some v | None => lookup (options s) n end)
  /\ (forall n, In n U <-> In n (map fst known)) /\ NoDup U.
Proof. exact accepted_notifies. Qed.
Print Assumptions C44_accepted_notifies.

(* Non-vacuity: a listener that refuses o0 = 9; update(o0=9) from o0 = 3 is rejected, o0 is 3 afterwards, four
   events were logged (accept of 3 earlier, refusal, .errored, re-notification) and the listener last saw 3. *)
Theorem C44_nonvacuous :
  exists s', let s := trun picky false false 5
                        [AddOption 0%N (TBase BInt) (VInt 0); Connect 7%N; Update [(0%N, VInt 3)]] init in
    tstep picky false false 5 (Update [(0%N, VInt 9)]) s = (s', RErr EOptionsError)
    /\ lookup (options s) 0%N = Some (VInt 3) /\ lookup (options s') 0%N = Some (VInt 3)
    /\ length (log s') = 4%nat
    /\ last_seen 7%N (log s') = Some [(0%N, VInt 3)].
Proof. exact nonvacuous. Qed.
Print Assumptions C44_nonvacuous.

(* the listener of C44_nonvacuous satisfies the non_reentrant hypothesis of the notification theorems *)
Theorem C44_nonvacuous_nr : non_reentrant picky.
Proof. exact picky_nr. Qed.
Print Assumptions C44_nonvacuous_nr.

(* Listener lifetimes.  subscriptions / receivers hold weak references; [Drop l] garbage-collects the callables of
   listener l (their entries become None).  [targets s U] -- the exact list of listeners that every theorem above
   says is called, once each and in order, by a send with updated-set U -- is a filter-then-map over the LIVE
   entries: dead entries, wherever they sit, change nothing; a listener is a target iff it has a live interested
   subscription or a live receiver entry; and dropping l removes exactly the calls of l, every other live callable
   keeps its place and multiplicity (so no live listener is ever skipped because a neighbour died). *)
Theorem C44_dead_entries_ignored : forall s u, targets (purge s) u = targets s u.
Proof. exact targets_ignore_dead. Qed.
Print Assumptions C44_dead_entries_ignored.

Theorem C44_targets_are_the_live_listeners : forall s u l,
  In l (targets s u) <->
  (exists o, In (Some l, o) (subscriptions s) /\ intersects o u = true) \/ In (Some l) (receivers s).
Proof. exact targets_live_iff. Qed.
Print Assumptions C44_targets_are_the_live_listeners.

Theorem C44_drop_removes_only_its_own_calls : forall l s u,
  targets (fst (drop l s)) u = filter (fun x => negb (N.eqb x l)) (targets s u).
Proof. exact drop_targets. Qed.
Print Assumptions C44_drop_removes_only_its_own_calls.
