From Coq Require Import List Bool NArith.
From MV Require Import Base.Bytes Model.ProxyAuth.
Theorem C20_placeholder : a2b_base64 [] = Some [].
Proof. reflexivity. Qed.
Print Assumptions C20_placeholder.
