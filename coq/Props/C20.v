(* Props/C20.v -- Proxy authentication is enforced on every entry path.
   Statements only; each is closed by [exact] of a lemma proved in Proofs/ProxyAuth*.v.
   V is any validator (SingleUser, AcceptAll, Htpasswd, Ldap: any function of user and password);
   ip = is_http_proxy (regular/upstream: Proxy-Authorization + 407; reverse/transparent/socks5:
   Authorization + 401); ms1 = false is parse_http_basic_auth as found (split on every colon),
   ms1 = true the repaired one (fixes/C20-colon-password.diff). Theorems with ms1 universally
   quantified hold for both. *)
From Coq Require Import List Bool NArith.
From MV Require Import Base.Bytes Model.ProxyAuth Proofs.ProxyAuthCodec Proofs.ProxyAuthHooks Proofs.ProxyAuthComplete.
Import ListNotations.
Local Open Scope N_scope.

(* ---- soundness: no valid credentials => authentication-required answer, nothing to the server side *)

(* a plain request (absolute-form, reverse, transparent, tunnelled) on a connection that has not
   authenticated and that carries no credentials the validator accepts: flow.response is 407/401,
   the state is unchanged and the core sends that answer -- or, if stream_large_bodies had already
   switched the request body to streaming, raises instead (finding stream-large-bodies-no-answer) *)
Theorem C20_unauthenticated_request_denied : forall ms1 (V : validator) st c ip sm hs,
  lookup c st = None -> ~ valid_creds ms1 V (new_flow c ip false sm hs) ->
  step ms1 (Some V) st (EReq c ip false false sm hs) =
    (st, OHttp (deny_flow c ip false sm hs) (if sm then [Crash] else [ToClient (auth_required_status ip)])).
Proof. exact unauth_request_denied. Qed.
Print Assumptions C20_unauthenticated_request_denied.

(* the answer part of the property is false when the body is streamed ... *)
Theorem C20_denied_answer_refuted :
  exists ms1 (V : validator) st c ip hs,
    lookup c st = None /\ ~ valid_creds ms1 V (new_flow c ip false true hs) /\
    step ms1 (Some V) st (EReq c ip false false true hs) = (st, OHttp (deny_flow c ip false true hs) [Crash]).
Proof. exact unauth_streaming_no_answer. Qed.
Print Assumptions C20_denied_answer_refuted.

(* ... and holds exactly outside that case *)
Theorem C20_denied_answer_partial : forall ms1 (V : validator) st c ip hs,
  lookup c st = None -> ~ valid_creds ms1 V (new_flow c ip false false hs) ->
  step ms1 (Some V) st (EReq c ip false false false hs) =
    (st, OHttp (deny_flow c ip false false hs) [ToClient (auth_required_status ip)]).
Proof. exact unauth_request_answered. Qed.
Print Assumptions C20_denied_answer_partial.

(* CONNECT (regular and upstream mode) without acceptable credentials: 407/401, no tunnel, no connection *)
Theorem C20_unauthenticated_connect_denied : forall ms1 (V : validator) st c ip rp sm hs,
  ~ valid_creds ms1 V (new_flow c ip rp sm hs) ->
  step ms1 (Some V) st (EReq c ip true rp sm hs) =
    (st, OHttp (deny_flow c ip rp sm hs) [ToClient (auth_required_status ip)]).
Proof. exact unauth_connect_denied. Qed.
Print Assumptions C20_unauthenticated_connect_denied.

(* in all denial cases, streaming or not: state unchanged, no OpenConnection, no request, no tunnel *)
Theorem C20_unauthenticated_nothing_forwarded : forall ms1 (V : validator) st c ip ic rp sm hs,
  (ic = true \/ (rp = false /\ lookup c st = None)) -> ~ valid_creds ms1 V (new_flow c ip rp sm hs) ->
  fst (step ms1 (Some V) st (EReq c ip ic rp sm hs)) = st /\
  ~ reaches_server (snd (step ms1 (Some V) st (EReq c ip ic rp sm hs))).
Proof. exact unauth_nothing_forwarded. Qed.
Print Assumptions C20_unauthenticated_nothing_forwarded.

(* SOCKS5: credentials the validator rejects get the RFC 1929 failure 01 01 and the connection is closed *)
Theorem C20_socks_invalid_rejected : forall (V : validator) st c buf ub pb rest,
  state_auth_parse buf = AuthMsg ub pb rest ->
  V (decode_with h_backslashreplace ub) (decode_with h_backslashreplace pb) = false ->
  state_auth (Some V) st c buf = (st, SFail [x01; x01]).
Proof. exact socks_invalid_rejected. Qed.
Print Assumptions C20_socks_invalid_rejected.

(* for EVERY history of events on any number of connections: whatever reaches the server side is
   covered by accepted credentials in the request itself, or by an accepted CONNECT / SOCKS5
   negotiation earlier on the same connection (or is an operator-initiated replay) *)
Theorem C20_history_sound : forall ms1 (V : validator) hist e,
  reaches_server (snd (step ms1 (Some V) (final_state ms1 (Some V) [] hist) e)) ->
  match e with
  | EReq c ip true rp sm hs => valid_creds ms1 V (new_flow c ip rp sm hs)
  | EReq c ip false rp sm hs =>
      valid_creds ms1 V (new_flow c ip rp sm hs) \/ rp = true \/ justified ms1 V hist c
  | ESocks c u p => V u p = true
  end.
Proof. exact history_sound. Qed.
Print Assumptions C20_history_sound.

Theorem C20_authenticated_only_by_credentials : forall ms1 (V : validator) hist c,
  lookup c (final_state ms1 (Some V) [] hist) <> None -> justified ms1 V hist c.
Proof. exact authenticated_only_by_credentials. Qed.
Print Assumptions C20_authenticated_only_by_credentials.

Theorem C20_other_connection_no_effect : forall ms1 (V : validator) st e c,
  ev_conn e <> c -> lookup c (fst (step ms1 (Some V) st e)) = lookup c st.
Proof. exact other_connection_no_effect. Qed.
Print Assumptions C20_other_connection_no_effect.

(* ---- authenticated on the connection => later requests pass, headers untouched *)
Theorem C20_authenticated_later_pass : forall ms1 (V : validator) pre e0 mid c ip rp sm hs,
  ev_conn e0 = c -> ev_authenticates ms1 V e0 ->
  exists m,
    step ms1 (Some V) (final_state ms1 (Some V) [] (pre ++ e0 :: mid)) (EReq c ip false rp sm hs) =
      (final_state ms1 (Some V) [] (pre ++ e0 :: mid),
       OHttp (mkFlow c ip rp sm hs None (Some m)) [OpenServer; ToServer hs]).
Proof. exact authenticated_later_pass. Qed.
Print Assumptions C20_authenticated_later_pass.

(* ---- accepted credentials: forwarded without the credential header, all other headers kept in order *)
Theorem C20_valid_request_forwarded : forall ms1 (V : validator) st c ip sm hs u p,
  lookup c st = None -> creds_of ms1 (new_flow c ip false sm hs) = Some (u, p) -> V u p = true ->
  step ms1 (Some V) st (EReq c ip false false sm hs) =
    (st, OHttp (pass_flow c ip false sm hs u p) [OpenServer; ToServer (headers_del (http_auth_header ip) hs)]).
Proof. exact valid_request_forwarded. Qed.
Print Assumptions C20_valid_request_forwarded.

Theorem C20_credential_header_removed : forall k hs h,
  In h (headers_del k hs) <-> In h hs /\ name_is k h = false.
Proof. exact headers_del_spec. Qed.
Print Assumptions C20_credential_header_removed.

(* ---- completeness.  A proper credential: exactly one header of the entry path, value =
   scheme (any letter case) SP base64(utf-8(u COLON p)), u without colon (RFC 7617), p arbitrary *)

(* repaired code: every pair the validator accepts is accepted, colons in the password included *)
Theorem C20_complete_request_fixed : forall (V : validator) st c ip sm hs sb u p raw,
  V u p = true -> lookup c st = None -> carries ip hs (proper_value sb raw) ->
  str_lower (ascii sb) = BASIC -> nocolon u = true -> encode_strict (u ++ COLON :: p) = Some raw ->
  step true (Some V) st (EReq c ip false false sm hs) =
    (st, OHttp (pass_flow c ip false sm hs u p) [OpenServer; ToServer (headers_del (http_auth_header ip) hs)]).
Proof. exact complete_request_fixed. Qed.
Print Assumptions C20_complete_request_fixed.

Theorem C20_complete_connect_fixed : forall (V : validator) st c ip rp sm hs sb u p raw,
  V u p = true -> carries ip hs (proper_value sb raw) ->
  str_lower (ascii sb) = BASIC -> nocolon u = true -> encode_strict (u ++ COLON :: p) = Some raw ->
  step true (Some V) st (EReq c ip true rp sm hs) =
    (set_auth c (u, p) st, OHttp (pass_flow c ip rp sm hs u p) [Tunnel; ToClient 200]).
Proof. exact complete_connect_fixed. Qed.
Print Assumptions C20_complete_connect_fixed.

(* code as found: false (password u:p:q with AcceptAll is answered 407/401 on both hooks) ... *)
Theorem C20_complete_refuted :
  exists (V : validator) u p raw sb,
    V u p = true /\ nocolon u = true /\ str_lower (ascii sb) = BASIC /\
    encode_strict (u ++ COLON :: p) = Some raw /\
    forall st c ip sm, lookup c st = None ->
      let hs := [(http_auth_header ip, proper_value sb raw)] in
      carries ip hs (proper_value sb raw) /\
      step false (Some V) st (EReq c ip false false sm hs) =
        (st, OHttp (deny_flow c ip false sm hs) (if sm then [Crash] else [ToClient (auth_required_status ip)])) /\
      step false (Some V) st (EReq c ip true false sm hs) =
        (st, OHttp (deny_flow c ip false sm hs) [ToClient (auth_required_status ip)]).
Proof. exact colon_password_rejected. Qed.
Print Assumptions C20_complete_refuted.

(* ... and true exactly when the password has no colon *)
Theorem C20_complete_request_partial : forall (V : validator) st c ip sm hs sb u p raw,
  nocolon p = true ->
  V u p = true -> lookup c st = None -> carries ip hs (proper_value sb raw) ->
  str_lower (ascii sb) = BASIC -> nocolon u = true -> encode_strict (u ++ COLON :: p) = Some raw ->
  step false (Some V) st (EReq c ip false false sm hs) =
    (st, OHttp (pass_flow c ip false sm hs u p) [OpenServer; ToServer (headers_del (http_auth_header ip) hs)]).
Proof. exact complete_request_partial. Qed.
Print Assumptions C20_complete_request_partial.

Theorem C20_complete_connect_partial : forall (V : validator) st c ip rp sm hs sb u p raw,
  nocolon p = true ->
  V u p = true -> carries ip hs (proper_value sb raw) ->
  str_lower (ascii sb) = BASIC -> nocolon u = true -> encode_strict (u ++ COLON :: p) = Some raw ->
  step false (Some V) st (EReq c ip true rp sm hs) =
    (set_auth c (u, p) st, OHttp (pass_flow c ip rp sm hs u p) [Tunnel; ToClient 200]).
Proof. exact complete_connect_partial. Qed.
Print Assumptions C20_complete_connect_partial.

(* SOCKS5 (RFC 1929 message for any encodable u, p of at most 255 bytes, colons included) *)
Theorem C20_complete_socks : forall (V : validator) st c ver u p ub pb,
  V u p = true -> encode_strict u = Some ub -> encode_strict p = Some pb ->
  blen ub < 256 -> blen pb < 256 ->
  state_auth (Some V) st c (ver :: Nb (blen ub) :: ub ++ Nb (blen pb) :: pb) =
    (set_auth c (u, p) st, SOk [x01; x00] []).
Proof. exact complete_socks. Qed.
Print Assumptions C20_complete_socks.

(* the codec facts the completeness theorems rest on, for all inputs *)
Theorem C20_base64_roundtrip : forall raw, a2b_base64 (b64encode raw) = Some raw.
Proof. exact a2b_roundtrip. Qed.
Print Assumptions C20_base64_roundtrip.

Theorem C20_utf8_roundtrip : forall h s raw, encode_strict s = Some raw -> decode_with h raw = s.
Proof. exact dec_enc. Qed.
Print Assumptions C20_utf8_roundtrip.

(* hypotheses are satisfiable: non-ASCII user, password with a colon and a euro sign, a single-user
   validator; accepted by the repaired code with the header removed, answered 407 by the code as found *)
Theorem C20_nonvacuous :
  encode_strict (sample_u ++ COLON :: sample_p) = Some sample_raw /\ nocolon sample_u = true /\
  carries true sample_hs (proper_value cex_sb sample_raw) /\
  step true (Some (fun u p => str_eqb u sample_u && str_eqb p sample_p)) [] (EReq 7 true false false false sample_hs) =
    ([], OHttp (pass_flow 7 true false false sample_hs sample_u sample_p)
               [OpenServer; ToServer [([x48; x6f; x73; x74], [x65]); ([x58], [x31])]]) /\
  step false (Some (fun u p => str_eqb u sample_u && str_eqb p sample_p)) [] (EReq 7 true false false false sample_hs) =
    ([], OHttp (deny_flow 7 true false false sample_hs) [ToClient 407]).
Proof. exact sample_nonvacuous. Qed.
Print Assumptions C20_nonvacuous.
