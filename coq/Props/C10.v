(* Props/C10.v — Idle connections time out, but never while a hook is pending.
   The sleep argument and the post-sleep test of TimeoutWatchdog.watch are Gen.WatchdogCond,
   regenerated from mitmproxy/proxy/server.py on every run; the theorems below are about
   those generated definitions and hold for every schedule of clock advances, activity,
   overlapping hooks and watcher wake-ups (with arbitrary wake-up latency). *)
From Coq Require Import ZArith List Bool.
From MV Require Import Gen.WatchdogCond Model.Watchdog Proofs.Watchdog.
Import ListNotations.
Local Open Scope Z_scope.

(* The timeout callback fires only in a state where, according to the schedule alone, no hook is
   pending and the last activity (an event, or the end of the last pending hook, which restarts
   the idle period) is older than the timeout. *)
Theorem C10_fire_is_justified : forall (T t0 : Z) (evs : list wevent) (e : wevent),
  let s := run (init T t0) evs in
  let p := spec_run (spec_init t0) evs in
  is_fired s = false -> is_fired (step s e) = true ->
  s_pending p = 0 /\ s_last p + T < s_now p.
Proof. exact fire_is_justified. Qed.
Print Assumptions C10_fire_is_justified.

(* A connection with activity within the timeout is not closed. *)
Theorem C10_active_not_fired : forall (s : wd) (e : wevent),
  is_fired s = false -> now s <= la s + timeout s -> is_fired (step s e) = false.
Proof. exact active_not_fired. Qed.
Print Assumptions C10_active_not_fired.

(* An idle connection is closed: in every reachable state with no hook pending and the last
   activity older than the timeout, the watcher fires after at most two of its own steps. *)
Theorem C10_idle_fires : forall (T t0 : Z) (evs : list wevent),
  let s := run (init T t0) evs in
  is_fired s = false -> blocker s = 0 -> la s + T < now s ->
  is_fired (watcher_step (watcher_step s)) = true.
Proof. exact idle_fires. Qed.
Print Assumptions C10_idle_fires.

(* non-vacuity: the two schedules on which the unrepaired code fired during a hook; the repaired
   watcher does not fire there, and fires once the hook has ended and the timeout has passed *)
Definition race1 : list wevent :=
  [WatcherStep; Advance 1; Activity; HookStart; Advance 11; WatcherStep].
Definition race2 : list wevent :=
  [Activity; HookStart; Advance 3; WatcherStep; HookEnd; Activity; HookStart; WatcherStep; Advance 11; WatcherStep].
Theorem C10_nonvacuous :
  is_fired (run (init 10 0) race1) = false /\ is_fired (run (init 10 0) race2) = false /\
  is_fired (run (init 10 0) (race2 ++ [HookEnd; WatcherStep; Advance 11; WatcherStep])) = true.
Proof. vm_compute. repeat split. Qed.
Print Assumptions C10_nonvacuous.
