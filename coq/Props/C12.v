(* placeholder until proofs are written *)
From Coq Require Import List.
From MV Require Import Model.ErrorPage.
