(* Props/C12.v — Error pages never reflect unescaped client input.
   Text is a list of code points; `message` is arbitrary (any code points, any length). *)
From Coq Require Import List Bool NArith String.
From MV Require Import Base.Bytes Model.ErrorPage Proofs.ErrorPage.
Import ListNotations.
Local Open Scope N_scope.

(* html.escape output contains none of the markup characters lt, gt, double quote, single quote,
   whatever the message. *)
Theorem C12_escape_no_markup : forall message : text,
  forallb (fun d => negb (is_markup d)) (html_escape message) = true.
Proof. exact escape_no_markup. Qed.
Print Assumptions C12_escape_no_markup.

(* ... and it is information preserving: every ampersand in it starts one of the five entity
   references, and decoding them gives back exactly the message. *)
Theorem C12_unescape_escape : forall (message : text) (fuel : nat),
  (List.length message <= fuel)%nat -> unescape fuel (html_escape message) = message.
Proof. exact unescape_escape. Qed.
Print Assumptions C12_unescape_escape.

(* The page produced by format_error (escape, template, textwrap.dedent, strip) is, up to
   deleted spaces, tabs and newlines, the fixed template prefix, the escaped message, and the fixed
   template suffix: dedent and strip never insert, reorder or delete anything but whitespace, so
   every markup character of the page belongs to the template. *)
Theorem C12_page_structure : forall (code : N) (reason message : text),
  nonws (format_error_text code reason message)
  = nonws (pre0 code reason) ++ nonws (html_escape message) ++ nonws post0
  /\ forallb (fun d => negb (is_markup d)) (nonws (html_escape message)) = true.
Proof. exact page_structure. Qed.
Print Assumptions C12_page_structure.

(* For HTTP/1 the error response is one complete, correctly framed response: an independent
   minimal reader (status line, field lines, Content-Length body) reads exactly the page as body,
   Content-Type text/html among the fields, and no bytes are left over. *)
Theorem C12_error_response_framed : forall (code : N) (reason server_ver body : bytes),
  no_cr reason -> no_cr server_ver ->
  ref_read_response (make_error_response code reason server_ver body)
  = Some (mkRef (blit "HTTP/1.1 " ++ dec_of_N code ++ [x20] ++ reason)
                [blit "Server: " ++ server_ver; blit "Connection: close"; blit "Content-Type: text/html";
                 blit "content-length: " ++ dec_of_N (N.of_nat (List.length body))]
                body []).
Proof. exact error_response_framed. Qed.
Print Assumptions C12_error_response_framed.

Theorem C12_nonvacuous :
  format_error 400 (lit "Bad Request") (lit "<script>alert('x')</script> & more")
  = blit "<html>
<head>
    <title>400 Bad Request</title>
</head>
<body>
    <h1>400 Bad Request</h1>
    <p>&lt;script&gt;alert(&#x27;x&#x27;)&lt;/script&gt; &amp; more</p>
</body>
</html>".
Proof. vm_compute. reflexivity. Qed.
Print Assumptions C12_nonvacuous.
