(* Props/C49.v -- mitmdump output cannot inject terminal control sequences.
   Statements only; each is closed by [exact] of a lemma proved elsewhere.
   The model (Model/Dumper.v) is the code WITH fixes/C49-c1-controls.diff and
   fixes/C49-dumper-unescaped-fields.diff applied: on the unrepaired tree the property is false
   (findings/C49.jsonl), the correspondence disagrees and C49_paths_sanitized does not compile.
   A token is a data character [Ch c] or one styling sequence added by the dumper [Sgr s];
   [flatten] of the token list is the text written to the stream (compared with the real
   Dumper by Corr/C49.v).  OK v t: every data character of t is outside category Cc or is
   TAB, LF, CR, and every styling sequence is ESC [ digits m and occurs only when v (styling
   enabled) holds. *)
From Coq Require Import List Bool NArith String.
From MV Require Import Base.Bytes Model.Strutils Model.Dumper Proofs.DumperBase Proofs.DumperMain
  Proofs.DumperPaths Gen.DumperPaths.
Import ListNotations.
Local Open Scope N_scope.

(* ---- the sanitizers *)
Theorem C49_escape_no_control : forall t, ok_text (escape_control_characters t true) = true.
Proof. exact escape_ok. Qed.
Print Assumptions C49_escape_no_control.

Theorem C49_escape_strict_no_control : forall t,
  forallb (fun c => negb (is_cc c)) (escape_control_characters t false) = true.
Proof. exact escape_strict_ok. Qed.
Print Assumptions C49_escape_strict_no_control.

(* prettify_message: whatever the content view returned (or a missing body) *)
Theorem C49_prettify_no_control : forall m, ok_text (prettify_message m) = true.
Proof. exact prettify_ok. Qed.
Print Assumptions C49_prettify_no_control.

(* escape_control_characters is str.translate with the tables built by strutils.py (translated) *)
Theorem C49_escape_is_translate : forall t ks,
  escape_control_characters t ks = translate_with (if ks then cc_table_spacing else cc_table) t.
Proof. exact escape_is_translate. Qed.
Print Assumptions C49_escape_is_translate.

(* ---- every hook of the dumper, all flows, all flow_detail levels, styling on and off.
   Hypotheses: only the contracts of code that is not modelled (highlighter chunks concatenate
   to its input; pretty_size / to_str tables print harmless text). *)
Theorem C49_http : forall o r rs err,
  pm_ok (rq_msg r) = true -> (forall x, rs = Some x -> resp_ok x = true) ->
  OK (vt o) (hook_http o r rs err).
Proof. exact http_ok. Qed.
Print Assumptions C49_http.

Theorem C49_websocket_message : forall o cl sv p fc it m,
  pm_ok m = true -> OK (vt o) (hook_websocket_message o cl sv p fc it m).
Proof. exact websocket_message_ok. Qed.
Print Assumptions C49_websocket_message.

Theorem C49_websocket_end : forall o code name bc reason sv,
  OK (vt o) (hook_websocket_end o code name bc reason sv).
Proof. exact websocket_end_ok. Qed.
Print Assumptions C49_websocket_end.

Theorem C49_proto_error : forall o tcp sv msg, OK (vt o) (hook_proto_error o tcp sv msg).
Proof. exact proto_error_ok. Qed.
Print Assumptions C49_proto_error.

Theorem C49_proto_message : forall o tcp fc cl sv q m,
  pm_ok m = true -> OK (vt o) (hook_proto_message o tcp fc cl sv q m).
Proof. exact proto_message_ok. Qed.
Print Assumptions C49_proto_message.

Theorem C49_dns_response : forall o c op ty qn ans rc,
  ok_text op = true -> ok_text ty = true -> ok_text rc = true ->
  OK (vt o) (hook_dns_response o c op ty qn ans rc).
Proof. exact dns_response_ok. Qed.
Print Assumptions C49_dns_response.

Theorem C49_dns_error : forall o c op ty qn msg,
  ok_text op = true -> ok_text ty = true -> OK (vt o) (hook_dns_error o c op ty qn msg).
Proof. exact dns_error_ok. Qed.
Print Assumptions C49_dns_error.

(* ---- what OK means for the stream *)
Theorem C49_unstyled_stream : forall t, OK false t ->
  forall c, In c (flatten t) -> is_cc c = false \/ is_spacing c = true.
Proof. exact unstyled_stream. Qed.
Print Assumptions C49_unstyled_stream.

Theorem C49_styled_stream : forall t, OK true t -> forall k, In k t ->
  match k with
  | Ch c => is_cc c = false \/ is_spacing c = true
  | Sgr s => exists d, s = [27; 91] ++ d ++ [109] /\ d <> [] /\ forallb is_digit_n d = true
  end.
Proof. exact styled_stream. Qed.
Print Assumptions C49_styled_stream.

(* ---- the echo-path table translated from the source (coq/Gen/DumperPaths.v) *)
(* an expression accepted by [sanitized] evaluates to harmless text whatever the flow holds *)
Theorem C49_sanitized_sound : forall e t, den e t -> sanitized e = true -> OK true t.
Proof. exact sanitized_sound. Qed.
Print Assumptions C49_sanitized_sound.

(* every self.echo call of dumper.py is sanitized *)
Theorem C49_paths_sanitized : forall name e, In (name, e) paths -> sanitized e = true.
Proof. exact paths_sanitized_all. Qed.
Print Assumptions C49_paths_sanitized.

(* and those calls are exactly the ones Model.Dumper models *)
Theorem C49_sites_covered : map fst paths = sites.
Proof. exact sites_covered. Qed.
Print Assumptions C49_sites_covered.

(* ---- the defect repaired by fixes/C49-c1-controls.diff, on the pre-repair model kept in Model/Strutils.v *)
Theorem C49_prerepair_c1_refuted :
  In 155 (Strutils.escape_control_characters [155] true) /\ is_cc 155 = true.
Proof. exact prerepair_c1_passes. Qed.
Print Assumptions C49_prerepair_c1_refuted.

(* the repair changes the result only for texts that contain a C1 control *)
Theorem C49_repair_only_c1 : forall t ks, forallb (fun c => negb (is_c1 c)) t = true ->
  escape_control_characters t ks = Strutils.escape_control_characters t ks.
Proof. exact repair_only_c1. Qed.
Print Assumptions C49_repair_only_c1.

(* ---- non-vacuity: a flow with ESC [ 2 J, CSI (U+009B) and BEL in every field satisfies the
   hypotheses, prints more than 200 tokens and styling sequences *)
Theorem C49_nonvacuous :
  pm_ok sample_msg = true /\ resp_ok sample_resp = true
  /\ existsb (N.eqb 27) evil = true
  /\ (200 <? N.of_nat (List.length (hook_http sample_opts sample_req (Some sample_resp) (Some evil))))%N = true
  /\ existsb (fun k => match k with Sgr _ => true | _ => false end)
       (hook_http sample_opts sample_req (Some sample_resp) (Some evil)) = true.
Proof. exact sample_nonvacuous. Qed.
Print Assumptions C49_nonvacuous.
