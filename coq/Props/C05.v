(* Props/C05.v -- placeholder while the model is being tied; replaced by the theorems. *)
From Coq Require Import List Bool NArith.
From MV Require Import Base.Bytes Model.Http2Streams.
