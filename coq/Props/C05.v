(* Props/C05.v -- HTTP/2 streams are isolated and correctly mapped.
   Statements only; each is closed by [exact] of a lemma proved elsewhere.
   creach fixd fq s h : the Http2Client model (mapping, queue, Http2Connection, BufferedH2Connection, mini-h2) reaches
   state s by the input history h (HttpEvents from the proxy core, frame batches from the server, close);
   fixd / fq select the shipped (false) or repaired (true) BufferedH2Connection.send_data / queue handling. *)
From Coq Require Import List Bool NArith ZArith.
From MV Require Import Base.Bytes Model.Http2Streams Proofs.Http2StreamsMap Proofs.Http2StreamsH2 Proofs.Http2StreamsBuf
  Proofs.Http2StreamsC05.
Import ListNotations.
Open Scope N_scope.

(* (1) our_stream_id and their_stream_id are mutually inverse in every reachable state, for every history in which the
   first event of each client stream is RequestHeaders (what HttpStream sends; checked on every recorded history). *)
Theorem C05_map_bijective : forall fixd fq s h, creach fixd fq s h -> wf_first [] h = true ->
  forall c j, dget c (our s) = Some j <-> dget j (their s) = Some c.
Proof. exact c05_bijective. Qed.
Print Assumptions C05_map_bijective.

(* ... and that hypothesis is needed: two streams whose first event is not RequestHeaders get the same server id. *)
Theorem C05_map_bijective_needs_wf : exists s, creach false false s h_nowf /\ ~ bijective s.
Proof. exact c05_bijection_needs_wf. Qed.
Print Assumptions C05_map_bijective_needs_wf.

(* every server stream id in use is below the next id the library hands out: none is used twice *)
Theorem C05_ids_fresh : forall fixd fq s h, creach fixd fq s h -> wf_first [] h = true ->
  forall j c, dget j (their s) = Some c -> j < next_stream_id (ch (cc s)).
Proof. exact c05_ids_fresh. Qed.
Print Assumptions C05_ids_fresh.

(* (3) for ALL histories, while the connection lives: streams opened upstream (in opening order) followed by streams
   waiting (in queue order) are exactly the client streams in arrival order, each once (none lost, none duplicated,
   opened first-come-first-served), and nobody waits while the limit of the server leaves room. *)
Theorem C05_fifo_none_lost : forall fixd fq s h, creach fixd fq s h -> dead (cc s) = false ->
  dkeys (our s) ++ dkeys (queue s) = arrivals h /\ NoDup (arrivals h) /\ (queue s = [] \/ has_free (cc s) = false).
Proof. exact c05_fifo. Qed.
Print Assumptions C05_fifo_none_lost.

(* a stream is opened only while open_outbound_streams is below the limit (MAX_CONCURRENT_STREAMS of the server once
   its SETTINGS arrived, 10 before), and on the next stream id of the library *)
Theorem C05_open_needs_capacity : forall fixd fq s h e s' o, creach fixd fq s h -> client_step fq s (IHttp e) = Ok (s', o) ->
  dget (hev_sid e) (our s) = None -> dmem (hev_sid e) (our s') = true ->
  open_outbound (ch (cc s)) < limit (cc s) /\ dget (hev_sid e) (our s') = Some (next_stream_id (ch (cc s))).
Proof. exact c05_open_needs_capacity. Qed.
Print Assumptions C05_open_needs_capacity.

(* none lost, at connection teardown.  REFUTED for the shipped code (finding queued-stream-lost-on-close): a waiting
   stream is still queued, unanswered, after the server connection closed ... *)
Theorem C05_queued_lost_refuted : exists s, creach false false s h_lost /\ wf_first [] h_lost = true /\
  dead (cc s) = true /\ dkeys (queue s) = [3].
Proof. exact c05_queued_lost. Qed.
Print Assumptions C05_queued_lost_refuted.

(* ... PARTIAL: with the repaired wrapper (fixes/C05-fail-queued-streams-on-close.diff) no reachable state has a dead
   connection and a waiting stream (each gets a ResponseProtocolError instead). *)
Theorem C05_queued_failed_partial : forall fixd s h, creach fixd true s h -> dead (cc s) = true -> queue s = [].
Proof. exact c05_dead_queue_empty. Qed.
Print Assumptions C05_queued_failed_partial.

(* (4) BufferedH2Connection, per operation: bytes handed to h2 on the stream ++ bytes still buffered = bytes buffered
   before ++ bytes given, in order, and no other stream is touched ... *)
Theorem C05_send_data_conserve : forall b sid d es b', b_send_data1 b sid d es = Ok b' ->
  exists new, pending (bh b') = pending (bh b) ++ new /\
    forall j, dsent j new ++ bufbytes b' j = bufbytes b j ++ (if j =? sid then d else []).
Proof. exact b_send_data1_conserve. Qed.
Print Assumptions C05_send_data_conserve.

(* ... and for the window-update flush: nothing lost or reordered, other streams untouched, queued trailers leave only
   once the stream buffer is empty and are the last frame. *)
Theorem C05_flush_conserve : forall f b sid aw sent b' s',
  flush_loop f b sid aw sent = Ok (b', s') -> NoDup (dkeys (bufs b)) ->
  NoDup (dkeys (bufs b')) /\
  exists new, pending (bh b') = pending (bh b) ++ new
    /\ dsent sid new ++ bufbytes b' sid = bufbytes b sid
    /\ (forall j, j <> sid -> dsent j new = [] /\ dget j (bufs b') = dget j (bufs b))
    /\ (forall tok e, In (FHeaders sid HTrail tok e) new ->
          dget sid (bufs b') = None /\ exists pre, new = pre ++ [FHeaders sid HTrail tok e]).
Proof. exact flush_loop_conserve. Qed.
Print Assumptions C05_flush_conserve.

(* Flow control.  REFUTED for the shipped send_data (finding negative-window-crash): after a well-formed history in
   which the server lowered SETTINGS_INITIAL_WINDOW_SIZE below what was already sent, 9 more request bytes raise
   FlowControlError out of the layer; the repaired code (fixes/C05-negative-window.diff) buffers them ... *)
Theorem C05_negwin_refuted :
  wf_first [] (h_negwin ++ [IHttp (EData 1 (repeat x01 9))]) = true /\
  (exists s, creach false false s h_negwin /\ client_step false s (IHttp (EData 1 (repeat x01 9))) = Crash) /\
  (exists s s' o, creach true false s h_negwin /\ client_step false s (IHttp (EData 1 (repeat x01 9))) = Ok (s', o)).
Proof. exact c05_negwin_crash. Qed.
Print Assumptions C05_negwin_refuted.

(* ... PARTIAL: the repaired send_data never asks h2 for more than the flow-control window allows, whatever the window. *)
Theorem C05_negwin_partial : forall b sid d es s,
  fx b = true -> dget sid (hstreams (bh b)) = Some s -> can_send_st (st s) = true -> conn_closed (bh b) = false ->
  N.of_nat (length d) <= max_frame (bh b) -> exists b', b_send_data1 b sid d es = Ok b'.
Proof. exact b_send_data1_fixed_ok. Qed.
Print Assumptions C05_negwin_partial.

Theorem C05_nonvacuous : exists s, creach true true s h_sample /\ wf_first [] h_sample = true /\ dead (cc s) = false /\
  our s = [(1, 1)] /\ their s = [(1, 1)] /\ dkeys (queue s) = [3] /\ arrivals h_sample = [1; 3].
Proof. exact c05_sample. Qed.
Print Assumptions C05_nonvacuous.
