(* placeholder until the proofs are in *)
From Coq Require Import List Bool NArith ZArith.
From MV Require Import Base.Bytes Model.Http1Msg Model.BodySizePrelude Gen.BodySize Model.Http1Conn Model.Rfc9112.
Theorem C01_placeholder : True. Proof. exact I. Qed.
Print Assumptions C01_placeholder.
