(* Props/C01.v -- HTTP/1 forwarding is framing-consistent: no request or response desync.
   Statements only; each is closed by [exact] of a lemma proved in Proofs/Http1*.v.
   The models are Model/Http1Msg.v, Model/Http1Conn.v (hand models of read.py / assemble.py / _http1.py send paths),
   Gen/BodySize.v (validate.py and expected_http_body_size, regenerated from the source on every run) and the
   independent reference parser Model/Rfc9112.v.  The theorems describe the tree with
   fixes/C01-reject-cr-lf-nul-in-header-values.diff and fixes/C01-no-last-chunk-after-bodiless-response.diff applied. *)
From Coq Require Import List Bool NArith ZArith.
From MV Require Import Base.Bytes Model.Http1Msg Model.BodySizePrelude Gen.BodySize Model.Http1Conn Model.Rfc9112 Model.Http1Edit
  Proofs.Http1Regex Proofs.Http1Validate Proofs.Http1TeNorm Proofs.Http1Framing Proofs.Http1FramingMain
  Proofs.Http1Lines Proofs.Http1Chunks Proofs.Http1Roundtrip Proofs.Http1ParseInv Proofs.Http1EndToEnd Proofs.Http1Edit.
Import ListNotations.

(* (a) framing_agree, requests: for every request head accepted by the generated validate_headers, the generated
   expected_http_body_size succeeds and names the same framing as RFC 9112 6.3 applied by the reference parser. *)
Theorem C01_framing_agree_request : forall r,
  validate_headers (MReq r) = Ok tt ->
  exists sz bl, expected_http_body_size r None = Ok sz
             /\ request_body_length (rq_version r) (rq_headers r) = Some bl /\ size_agrees sz bl.
Proof. exact framing_agree_request. Qed.
Print Assumptions C01_framing_agree_request.

(* (a) responses, in the context of the request method.  Guard: the method is HEAD / CONNECT exactly when its
   upper-casing is (mitmproxy upper-cases, RFC 9110 methods are case-sensitive: see C01_head_case_refuted). *)
Theorem C01_framing_agree_response : forall q r st,
  validate_headers (MResp r) = Ok tt -> rs_status r = Z.of_N st -> method_case_ok (rq_method q) ->
  exists sz bl, expected_http_body_size q (Some r) = Ok sz
             /\ response_body_length (rq_method q) st (rs_version r) (rs_headers r) = Some bl /\ size_agrees sz bl.
Proof. exact framing_agree_response. Qed.
Print Assumptions C01_framing_agree_response.

(* a lower-case head request: mitmproxy treats the response as bodiless, the reference (and the server) do not *)
Theorem C01_head_case_refuted : exists q r sz bl,
  validate_headers (MResp r) = Ok tt /\ expected_http_body_size q (Some r) = Ok sz
  /\ response_body_length (rq_method q) 200 (rs_version r) (rs_headers r) = Some bl /\ ~ size_agrees sz bl.
Proof. exact head_case_refuted. Qed.
Print Assumptions C01_head_case_refuted.

(* (b) head_roundtrip: under every recipient option the reference parser reads an assembled request head back as
   method, target, version and fields, leaving exactly what follows. *)
Theorem C01_head_roundtrip_request : forall o r rest, Inv_req r ->
  parse_request_head o (assemble_request_head r ++ rest)
  = POk (rq_method r, req_target r, rq_version r, rq_headers r, rest).
Proof. exact head_roundtrip_request. Qed.
Print Assumptions C01_head_roundtrip_request.

(* parse_establishes_inv (field section): what _read_headers produces and validate_headers accepts satisfies the
   field invariant of the round trip (names free of LF is what the line extraction guarantees). *)
Theorem C01_parse_establishes_inv_fields : forall lines hs m,
  _read_headers lines = Ok hs -> msg_headers m = hs -> validate_headers m = Ok tt ->
  Forall (fun f => existsb (byte_eqb LF) (fst f) = false) hs ->
  Forall field_inv hs.
Proof. exact parse_establishes_inv_fields. Qed.
Print Assumptions C01_parse_establishes_inv_fields.

(* (c) body_reframe: for every list of non-empty chunks the reference de-chunker reads the emitted chunk stream
   back as the concatenation (no trailers, nothing more consumed); and the Content-Length case. *)
Theorem C01_body_reframe_chunked : forall o cs rest,
  Forall (fun c => c <> []) cs ->
  read_body o BLChunked (concat (map emit_chunk cs) ++ LAST_CHUNK ++ rest) = POk (concat cs, [], rest).
Proof. exact body_reframe_read_body. Qed.
Print Assumptions C01_body_reframe_chunked.

Theorem C01_body_reframe_length : forall o body rest,
  read_body o (BLLen (N.of_nat (length body))) (body ++ rest) = POk (body, [], rest).
Proof. exact body_reframe_length. Qed.
Print Assumptions C01_body_reframe_length.

(* re.sub(r"[\t ]*,[\t ]*", ",", s) keeps the comma-separated, OWS-trimmed elements of every string *)
Theorem C01_te_normalisation : forall s,
  map trim_ows (split_comma s []) = map trim_ows (split_comma (norm s) []).
Proof. exact norm_same_elements. Qed.
Print Assumptions C01_te_normalisation.

(* (d) ambiguous framing is rejected by the generated validate_headers *)
Theorem C01_rejects_te_and_cl : forall m,
  get_all TRANSFER_ENCODING (msg_headers m) <> [] -> get_all CONTENT_LENGTH (msg_headers m) <> [] ->
  validate_headers m <> Ok tt.
Proof. exact rejects_te_and_cl. Qed.
Print Assumptions C01_rejects_te_and_cl.

Theorem C01_rejects_duplicate_cl : forall m a b rest,
  get_all CONTENT_LENGTH (msg_headers m) = a :: b :: rest -> validate_headers m <> Ok tt.
Proof. exact rejects_duplicate_cl. Qed.
Print Assumptions C01_rejects_duplicate_cl.

Theorem C01_rejects_duplicate_te : forall m a b rest,
  get_all TRANSFER_ENCODING (msg_headers m) = a :: b :: rest -> validate_headers m <> Ok tt.
Proof. exact rejects_duplicate_te. Qed.
Print Assumptions C01_rejects_duplicate_te.

Theorem C01_rejects_malformed_cl : forall m v,
  get_all CONTENT_LENGTH (msg_headers m) = [v] -> canon_dec v = false -> validate_headers m <> Ok tt.
Proof. exact rejects_malformed_cl. Qed.
Print Assumptions C01_rejects_malformed_cl.

Theorem C01_rejects_unknown_te : forall m v,
  get_all TRANSFER_ENCODING (msg_headers m) = [v] -> in_set (norm (lower v)) SET = false -> validate_headers m <> Ok tt.
Proof. exact rejects_unknown_te. Qed.
Print Assumptions C01_rejects_unknown_te.

Theorem C01_rejects_te_before_http11 : forall m,
  get_all TRANSFER_ENCODING (msg_headers m) <> [] -> msg_version m <> HTTP11 -> validate_headers m <> Ok tt.
Proof. exact rejects_te_before_http11. Qed.
Print Assumptions C01_rejects_te_before_http11.

Theorem C01_rejects_te_not_chunked_request : forall r v,
  get_all TRANSFER_ENCODING (rq_headers r) = [v] -> in_set (norm (lower v)) (firstn 4 SET) = false ->
  validate_headers (MReq r) <> Ok tt.
Proof. exact rejects_te_not_chunked_request. Qed.
Print Assumptions C01_rejects_te_not_chunked_request.

Theorem C01_rejects_invalid_name : forall m n v,
  In (n, v) (msg_headers m) -> existsb (byte_eqb LF) n = false -> is_token n = false -> validate_headers m <> Ok tt.
Proof. exact rejects_invalid_name. Qed.
Print Assumptions C01_rejects_invalid_name.

(* with fixes/C01-reject-cr-lf-nul-in-header-values.diff: bare CR, obs-fold (CR LF SP) and NUL never pass *)
Theorem C01_rejects_cr_lf_nul_value : forall m n v c,
  In (n, v) (msg_headers m) -> In c v -> (c = x0d \/ c = x0a \/ c = x00) -> validate_headers m <> Ok tt.
Proof. exact rejects_cr_lf_nul_value. Qed.
Print Assumptions C01_rejects_cr_lf_nul_value.

(* End to end, one forwarded request.  Full statement: forwarded_reads_as_recorded o r chunks for every head the
   parser and validation accept.  It is FALSE of the faithful model: *)
Theorem C01_end_to_end_refuted :
  exists lines r cmds, read_request_head any_url lines = Ok r /\ validate_headers (MReq r) = Ok tt
    /\ forward_request r [] = Ok cmds
    /\ forall o, o = strict \/ o = lenient -> parse_request o (sent_bytes cmds) <> POk (recorded_request r [], []).
Proof. exact end_to_end_refuted. Qed.
Print Assumptions C01_end_to_end_refuted.

(* further witnesses of the same kind (known findings): control character in the target; on the response side a
   bare CR in the reason phrase and a status code that is not three digits *)
Theorem C01_lexical_refuted :
  refutes ctl_target_lines strict = true /\ refutes nontoken_lines lenient = true
  /\ resp_refutes [ [x48;x54;x54;x50;x2f;x31;x2e;x31;x20;x32;x30;x30;x20;x61;x0d;x62]; [x43;x6f;x6e;x74;x65;x6e;x74;x2d;x4c;x65;x6e;x67;x74;x68;x3a;x20;x30] ] = true
  /\ resp_refutes [ [x48;x54;x54;x50;x2f;x31;x2e;x31;x20;x31;x30;x30;x30;x20;x4f;x4b]; [x43;x6f;x6e;x74;x65;x6e;x74;x2d;x4c;x65;x6e;x67;x74;x68;x3a;x20;x30] ] = true.
Proof. exact lexical_refuted. Qed.
Print Assumptions C01_lexical_refuted.

(* ... and it HOLDS under the guard that is the complement of those findings: the start line is lexically valid
   and the fields satisfy the invariant validation establishes (Inv_req), and the send-side framing decision and
   the reference decision name the same framing for the body (framing_matches; C01_framing_agree_request for
   received heads).  Quantified over every recipient option, every chunking, and whatever follows on the wire. *)
Theorem C01_end_to_end_partial : forall o r chunks,
  Inv_req r -> framing_matches r chunks -> forwarded_reads_as_recorded o r chunks.
Proof. exact forwarded_reads_as_recorded_partial. Qed.
Print Assumptions C01_end_to_end_partial.

(* Addon edits through the Message API (.content = ..., .text = ..., Response.make: all Message.set_content):
   for every header list, every new body and whatever encoding.encode did with the Content-Encoding (encoded,
   or failed: header deleted, body kept as is), the head afterwards carries Content-Length = len(raw body) and the
   reference reads exactly that length (requests and responses), unless a Transfer-Encoding header is present, in
   which case the framing headers are untouched. *)
Theorem C01_set_content_refreshes_length : forall enc hs value,
  let '(hs', raw) := set_content enc hs value in
  if hcontains TRANSFER_ENCODING hs'
  then get_all TRANSFER_ENCODING hs' = get_all TRANSFER_ENCODING hs /\ get_all CONTENT_LENGTH hs' = get_all CONTENT_LENGTH hs
  else get_all CONTENT_LENGTH hs' = [dec_of_N (N.of_nat (length raw))]
       /\ forall version is_request, fields_body_length is_request version hs' = Some (BLLen (N.of_nat (length raw))).
Proof. exact set_content_refreshes_length. Qed.
Print Assumptions C01_set_content_refreshes_length.

(* ... hence a request edited by an addon is forwarded so that every RFC 9112 recipient reads the recorded
   (edited) request: the end-to-end statement including body edits, for Content-Length framing. *)
Theorem C01_edited_request_reads_as_recorded : forall o r enc value,
  Inv_req r ->
  let '(hs', raw) := set_content enc (rq_headers r) value in
  hcontains TRANSFER_ENCODING hs' = false ->
  forwarded_reads_as_recorded o (with_headers r hs') [raw].
Proof. exact edited_request_reads_as_recorded. Qed.
Print Assumptions C01_edited_request_reads_as_recorded.

Theorem C01_nonvacuous :
  validate_headers (MReq sample_req) = Ok tt /\ Inv_req sample_req /\ framing_matches sample_req sample_chunks
  /\ exists cmds, forward_request sample_req sample_chunks = Ok cmds
       /\ parse_request strict (sent_bytes cmds) = POk (recorded_request sample_req [x61;x62;x63], []).
Proof. exact sample_nonvacuous. Qed.
Print Assumptions C01_nonvacuous.
