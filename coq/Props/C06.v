(* Props/C06.v -- placeholder while the correspondence is brought up *)
From Coq Require Import List Bool NArith ZArith.
From MV Require Import Base.Bytes Model.Http1Msg Model.HttpTranslate.
Theorem C06_placeholder : h2_validate false false nil = false.
Proof. reflexivity. Qed.
Print Assumptions C06_placeholder.
