(* Props/C06.v -- Translating between HTTP versions preserves message semantics.
   Statements only; each is closed by [exact] of a lemma proved in Proofs/HttpTranslate*.v.
   The model (Model/HttpTranslate.v) describes /repo HEAD plus fixes/C06-host-raw-authority.diff (Host from the raw :authority bytes).  The dependency of the
   no-splitting clause on hyper-h2 is explicit: down_request / down_response start with the boolean contract
   h2_validate (what h2.utilities.validate_headers rejects) and the content-length bookkeeping of H2Stream. *)
From Coq Require Import List Bool NArith ZArith.
From MV Require Import Base.Bytes Model.Http1Msg Model.Rfc9112 Model.HttpTranslate Gen.StatusReasons
  Proofs.HttpTranslateBase Proofs.HttpTranslateReq Proofs.HttpTranslateResp Proofs.HttpTranslateMain.
Import ListNotations.

(* The contract: in a header block that h2 accepts (request, response or trailers) no value -- pseudo-headers
   included -- contains CR, LF or NUL, and every name consists of bytes 0x21..0x7e. *)
Theorem C06_contract_no_ctl : forall r t h n v, h2_validate r t h = true -> In (n, v) h ->
  existsb is_bad_value_char v = false /\ forallb (fun c => (32 <? bN c)%N && (bN c <? 127)%N) n = true.
Proof. exact h2_validate_no_ctl. Qed.
Print Assumptions C06_contract_no_ctl.

(* The model never leaves a case undecided: blocks accepted by the contract do not reach the Transfer-Encoding
   branch of validate_headers (which is C01 territory). *)
Theorem C06_request_decided : forall pa h body tr, down_request pa h body tr <> OUndecided.
Proof. exact down_request_decided. Qed.
Print Assumptions C06_request_decided.
Theorem C06_response_decided : forall m h body tr, down_response m h body tr <> OUndecided.
Proof. exact down_response_decided. Qed.
Print Assumptions C06_response_decided.

(* HTTP/2 -> HTTP/1, requests.  Full-strength claim: whatever is forwarded is exactly one HTTP/1 request with the
   same method, path, fields and body.  It is false of the faithful model (known findings
   request-body-without-content-length, request-content-length-without-body and request-trailers-crash).
   A POST without content-length whose body is a request is read upstream as two requests: *)
Theorem C06_request_split_refuted :
  exists out q1 q2,
    down_request (fun _ => true) [(P_METHOD, [x50;x4f;x53;x54]); (P_SCHEME, V_HTTP); (P_AUTHORITY, W_HOST); (P_PATH, [x2f;x61])]
                 (Some W_SMUGGLED) None = OForward out false
    /\ parse_requests strict 3 out = POk [q1; q2] /\ q_target q2 = [x2f;x61;x64;x6d;x69;x6e].
Proof. exact request_split_witness. Qed.
Print Assumptions C06_request_split_refuted.
Theorem C06_request_one_message_refuted :
  exists out, down_request (fun _ => true) (W_REQ [(CONTENT_LENGTH, [x35])]) None None = OForward out false
              /\ parse_requests strict 2 out = PErr Incomplete.
Proof. exact request_length_witness. Qed.
Print Assumptions C06_request_one_message_refuted.
Theorem C06_request_trailers_refuted :
  down_request (fun _ => true) (W_REQ []) (Some [x61]) (Some [([x78], [x31])]) = OCrashTrailers.
Proof. exact request_trailers_witness. Qed.
Print Assumptions C06_request_trailers_refuted.

(* ... and holds under guards that are the complement of those findings: no trailers; a non-empty body is announced
   by a content-length (framing_guard); END_STREAM on HEADERS only without a positive content-length (length_guard).
   cookie_guard (the last of several cookie fields is not empty) is not a finding: with an empty last cookie the joined
   value ends in a space that the reader trims, so the field it returns is not literally the one written.
   For every url.parse_authority verdict [pa], every header block, body, and every recipient option [o] (bare LF, CR as
   SP, obs-fold accepted or not) the reference reader finds exactly one request: method and target are the :method and
   :path values, version HTTP/1.1, the body is the DATA payload, no trailers, nothing left over. *)
Theorem C06_request_one_message_partial : forall pa h body out c,
  down_request pa h body None = OForward out c ->
  length_guard None h body -> framing_guard h body -> cookie_guard h ->
  exists r, parse_h2_request_headers pa h = Some r /\
    forall o, parse_requests o 2 out
      = POk [mkRefReq (hq_method r) (hq_path r) V_HTTP11 (h1_fields (strip_r r)) (content_of body) []].
Proof. exact down_request_one_message. Qed.
Print Assumptions C06_request_one_message_partial.

(* What that request means: method / scheme / path / authority are the pseudo-header values of the block; the Host
   field is the :authority value (the host field of the block when there is no :authority; h2 guarantees they agree
   when both are present); several cookie fields are joined with "; "; every other end-to-end field (all names but
   host, cookie, expect) is kept with its spelling, value and order. *)
Theorem C06_request_semantics : forall pa h body out c,
  down_request pa h body None = OForward out c ->
  exists r, parse_h2_request_headers pa h = Some r /\
    (exists q, h = q ++ hq_fields r /\ Forall (fun x => is_pseudo (fst x) = true) q
       /\ In (P_METHOD, hq_method r) q /\ In (P_SCHEME, hq_scheme r) q /\ In (P_PATH, hq_path r) q
       /\ (hq_authority r = [] \/ In (P_AUTHORITY, hq_authority r) q)) /\
    let fs := h1_fields (strip_r r) in
      field_values N_HOST fs
        = (if negb (hcontains N_HOST_CAP (hq_fields r)) && nonempty (hq_authority r)
           then [hq_authority r] else field_values N_HOST (hq_fields r))
      /\ field_values N_COOKIE fs
        = match get_all N_COOKIE (hq_fields r) with (_ :: _ :: _) as l => [join_semi l] | l => l end
      /\ forall k, k <> N_HOST -> k <> N_COOKIE -> k <> N_EXPECT ->
           filter (name_ci k) fs = filter (name_ci k) (hq_fields r).
Proof. exact down_request_semantics. Qed.
Print Assumptions C06_request_semantics.

(* HTTP/2 -> HTTP/1, responses.  Refuted by the known findings body-after-bodiless-response, status-not-3-digits
   and response-content-length-without-body ... *)
Theorem C06_response_bodiless_refuted :
  exists out c p, down_response W_GET [(P_STATUS, [x32;x30;x34])] (Some [x61;x62]) None = OForward out c
              /\ parse_response strict W_GET out = POk (p, [x61;x62]).
Proof. exact response_bodiless_witness. Qed.
Print Assumptions C06_response_bodiless_refuted.
Theorem C06_response_status_refuted :
  exists out c, down_response W_GET [(P_STATUS, [x39;x39;x39;x39;x39])] None None = OForward out c
              /\ parse_response strict W_GET out = PErr Invalid.
Proof. exact response_status_witness. Qed.
Print Assumptions C06_response_status_refuted.
Theorem C06_response_length_refuted :
  exists out c, down_response W_GET [(P_STATUS, [x32;x30;x30]); (CONTENT_LENGTH, [x35])] None None = OForward out c
              /\ parse_response strict W_GET out = PErr Incomplete.
Proof. exact response_length_witness. Qed.
Print Assumptions C06_response_length_refuted.

(* ... and true under exactly their complement (status 100..999, no DATA where HTTP/1 allows no body, length_guard),
   for an upper-case request method [m] (lower-case head is the C01 finding): the client reads one response with
   that status, the reason phrase of status_codes.RESPONSES, the same fields and body, nothing left over, and it is
   delimited by connection close exactly when mitmproxy closes the connection ([c]). *)
Theorem C06_response_one_message_partial : forall m h body out c,
  down_response m h body None = OForward out c ->
  exists st fields, parse_h2_response_headers h = Some (st, fields) /\
    ((100 <= st <= 999)%Z -> upper m = m -> length_guard (Some m) h body ->
     (bodiless m st = true -> content_of body = []) ->
     forall o, parse_response o m out
       = POk (mkRefResp V_HTTP11 (Z.to_N st) (reason_of st RESPONSES) fields (content_of body) [] c, [])).
Proof. exact down_response_one_message. Qed.
Print Assumptions C06_response_one_message_partial.

(* HTTP/1 -> HTTP/2: what format_h2_request_headers writes for an HTTP/1 request is read back by
   parse_h2_request_headers as the same method, scheme and path, the authority (or, without one, the Host value),
   and the fields lower-cased, stripped and without connection-specific ones. *)
Theorem C06_upgrade_request_roundtrip : forall pa n m s a p f,
  valid_method m = true -> valid_path p = true ->
  (up_authority a f <> [] -> pa (up_authority a f) = true) ->
  Forall (fun x => is_pseudo (fst x) = false) (up_fields a f) ->
  parse_h2_request_headers pa (format_h2_request_headers n false m s a p f)
  = Some (mkH2Req m s (up_authority a f) p (up_fields a f)).
Proof. exact format_parse_request. Qed.
Print Assumptions C06_upgrade_request_roundtrip.

(* the status code survives the upgrade, for every code 0..999 (complete sweep) and every field list *)
Theorem C06_upgrade_response_status : forall st f, (0 <= st <= 999)%Z ->
  Forall (fun x => is_pseudo (fst x) = false) (normalize_h1_headers f) ->
  parse_h2_response_headers (format_h2_response_headers true false st f) = Some (st, normalize_h1_headers f).
Proof. exact format_parse_response. Qed.
Print Assumptions C06_upgrade_response_status.

(* Emitting a request does not change it (the translation works on copies): the live request has the same fields
   afterwards, hence a second emission of the same flow (client replay) writes the same header list -- same :authority
   and host -- as the first.  The correspondence cases EmitTwice / EmitH1State compare exactly this state and the second
   emission on the real objects. *)
Theorem C06_emission_pure : forall n v m s a p f,
  snd (emit_request n v m s a p f) = f
  /\ fst (emit_request n v m s a p (snd (emit_request n v m s a p f))) = fst (emit_request n v m s a p f).
Proof. exact emission_pure. Qed.
Print Assumptions C06_emission_pure.
Theorem C06_emission_h1_pure : forall r, snd (emit_h1_request r) = hq_fields r.
Proof. exact emission_h1_pure. Qed.
Print Assumptions C06_emission_h1_pure.

(* the hypotheses of the request theorem are satisfiable on a non-trivial value: POST, two cookies (joined on the
   wire), a body that looks like a request, announced by content-length *)
Theorem C06_nonvacuous :
  (exists out, down_request (fun _ => true) sample_block (Some sample_body) None = OForward out false
     /\ contains W_JOINED out = true)
  /\ length_guard None sample_block (Some sample_body) /\ framing_guard sample_block (Some sample_body)
  /\ cookie_guard sample_block.
Proof. exact sample_ok. Qed.
Print Assumptions C06_nonvacuous.
