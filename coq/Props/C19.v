(* Props/C19.v -- Ignored hosts are passed through untouched and allow/ignore rules are honoured.
   Statements only; each is closed by [exact] of a lemma proved in Proofs/IgnoreHosts{Scan,Decide,Relay,Http}.v.
   Model: Model/IgnoreHosts.v (mitmproxy/addons/next_layer.py with fixes/C19-host-header-no-ows.diff applied,
   proxy/layer.py NextLayer, proxy/layers/tcp.py TCPLayer(ignore=True)); parse_client_hello and
   ClientHello.sni are those of Model/ClientHello.v (C13).  Every theorem quantifies over the regular
   expression engine [re_search] (re.search(pattern, host, re.IGNORECASE) on the user patterns) and over
   [ace_ok] (encodings.idna inside ClientHello.sni). *)
From Coq Require Import List Bool NArith.
From MV Require Import Base.Bytes Model.ClientHello Model.IgnoreHosts.
From MV Require Import Proofs.IgnoreHostsScan Proofs.IgnoreHostsDecide Proofs.IgnoreHostsRelay Proofs.IgnoreHostsHttp.
Import ListNotations.

(* (1) Every byte is relayed unmodified and in order, both ways, including bytes received before the decision.
   For EVERY configuration, EVERY list of events (data from either peer, closes, connect results, in any order)
   and both directions fc: while the ignoring TCPLayer relays, the payloads sent towards a peer are exactly the
   payloads that arrived from the other one, chunk by chunk; while undecided or waiting for the server
   connection nothing has been sent and every arrived payload is still buffered; after the layer is done the
   sent payloads are a prefix of the arrived ones; the model emits no other kind of data. *)
Theorem C19_relay_exact :
  forall (pat : Type) (re_search : pat -> bytes -> bool) (ace_ok : bytes -> bool) (c : cfg pat)
         (server_open : bool) (l : list ev) (fc : bool),
  let '(s, o) := run re_search ace_ok c (init server_open) l in
  (ph s = PRelay -> sent fc o = data_of fc l) /\
  (ph s = PUndecided \/ ph s = PWaitOpen ->
     sent fc o = [] /\ data_of fc l = data_of fc (nl_events s ++ tq s)) /\
  (ph s = PDone -> exists rest, data_of fc l = sent fc o ++ rest) /\
  (ph s = POther -> sent fc o = []).
Proof. exact relay_exact. Qed.
Print Assumptions C19_relay_exact.

(* (2) Ignored => never intercepted, and the whole first flight (however it was segmented) has been forwarded
   unchanged as soon as the decision falls (server connection already open). *)
Theorem C19_ignored_first_flight_forwarded :
  forall (pat : Type) (re_search : pat -> bytes -> bool) (ace_ok : bytes -> bool) (c : cfg pat)
         (segs : list bytes) (hs : list bytes),
  first_decision re_search ace_ok c [] segs = Decided true hs ->
  let '(s, o) := run re_search ace_ok c (init true) (map (EData true) segs) in
  ph s = PRelay /\ sent true o = segs /\ sent false o = [].
Proof. exact ignored_first_flight_forwarded. Qed.
Print Assumptions C19_ignored_first_flight_forwarded.

(* (3) Connections not excluded by the rules are handed to an intercepting layer. *)
Theorem C19_not_ignored_intercepted :
  forall (pat : Type) (re_search : pat -> bytes -> bool) (ace_ok : bytes -> bool) (c : cfg pat)
         (segs : list bytes) (hs : list bytes) (server_open : bool),
  first_decision re_search ace_ok c [] segs = Decided false hs ->
  ph (fst (run re_search ace_ok c (init server_open) (map (EData true) segs))) = POther.
Proof. exact not_ignored_intercepted. Qed.
Print Assumptions C19_not_ignored_intercepted.

(* (4) The rules: with an option set and outside the WireGuard DNS exemption, the connection is ignored iff
   there is a host name and (allow_hosts is set and no name matches any allow pattern, or ignore_hosts is set
   and some name matches some ignore pattern). *)
Theorem C19_rules_honoured :
  forall (pat : Type) (re_search : pat -> bytes -> bool) (ace_ok : bytes -> bool) (c : cfg pat)
         (dc ds : bytes) (b : bool) (hs : list bytes),
  ignore_connection re_search ace_ok c dc ds = Decided b hs ->
  (ignore_hosts c <> [] \/ allow_hosts c <> []) -> wg_exempt c = false ->
  hostnames_of ace_ok c dc ds = Names hs /\
  (b = true <->
     hs <> [] /\
     ((allow_hosts c <> [] /\ forall h r, In h hs -> In r (allow_hosts c) -> re_search r h = false)
      \/ (ignore_hosts c <> [] /\ exists h r, In h hs /\ In r (ignore_hosts c) /\ re_search r h = true))).
Proof. exact rules_honoured. Qed.
Print Assumptions C19_rules_honoured.

(* (5) Every destination form is among the host names the rules are applied to: server address, peer
   address, SNI of a complete ClientHello, SNI of an already established client TLS session, Host header. *)
Theorem C19_destination_forms :
  forall (pat : Type) (ace_ok : bytes -> bool) (c : cfg pat) (dc ds : bytes) (hs : list bytes),
  hostnames_of ace_ok c dc ds = Names hs ->
  (forall h p, address c = Some (h, p) -> In (fmt_hp h p) hs) /\
  (forall h p, peername c = Some (h, p) -> In (fmt_hp h p) hs) /\
  (forall h p hl n, address c = Some (h, p) -> get_client_hello dc = CSome hl -> sni ace_ok hl = Some n ->
                    n <> [] -> In (fmt_hp n p) hs) /\
  (forall h p n, address c = Some (h, p) -> client_sni c = Some n -> n <> [] -> In (fmt_hp n p) hs) /\
  (forall h p v, ds = [] -> address c = Some (h, p) -> get_host_header dc [] = HSome v ->
                 In (if has_port v then v else fmt_hp v p) hs).
Proof. exact destination_forms. Qed.
Print Assumptions C19_destination_forms.

(* (6) The Host header as HTTP defines it: request-line CRLF, any field lines that are not Host, then a field
   whose name is host in ANY letter case followed by ANY optional white space (including none: this is the
   repaired behaviour, finding host-header-no-ows), a non-empty trimmed value without LF, any trailing optional
   white space, CRLF, and anything after it.  Guard: the first three bytes of the method are letters (the
   complement is the known finding host-header-short-method, see C19_host_header_short_method_refuted). *)
Theorem C19_host_header_recognised :
  forall (m tg ver : bytes) (others : list field) (hf : field) (rest : bytes),
  wf_request_line m tg ver -> Forall wf_other others -> wf_host hf ->
  get_host_header (request_line m tg ver ++ CRLF ++ concat (map field_line others) ++ field_line hf ++ rest) []
  = HSome (f_value hf).
Proof. exact host_recognised. Qed.
Print Assumptions C19_host_header_recognised.

(* ... and a request whose Host value (with the port appended unless it ends in :digits) matches an ignore
   pattern is ignored, whatever the server address is. *)
Theorem C19_host_header_ignored :
  forall (pat : Type) (re_search : pat -> bytes -> bool) (ace_ok : bytes -> bool) (c : cfg pat)
         (m tg ver : bytes) (others : list field) (hf : field) (rest h : bytes) (p : N) (r : pat),
  wf_request_line m tg ver -> Forall wf_other others -> wf_host hf ->
  address c = Some (h, p) -> wg_exempt c = false -> allow_hosts c = [] ->
  In r (ignore_hosts c) ->
  re_search r (if has_port (f_value hf) then f_value hf else fmt_hp (f_value hf) p) = true ->
  exists hs,
    ignore_connection re_search ace_ok c
      (request_line m tg ver ++ CRLF ++ concat (map field_line others) ++ field_line hf ++ rest) []
    = Decided true hs
    /\ In (if has_port (f_value hf) then f_value hf else fmt_hp (f_value hf) p) hs.
Proof. exact host_header_ignored. Qed.
Print Assumptions C19_host_header_ignored.

Theorem C19_host_header_short_method_refuted :
  msearch = request_line [x4d; x2d; x53; x45; x41; x52; x43; x48] [x2a] [x31; x2e; x31] ++ CRLF
            ++ field_line {| f_name := [x48; x6f; x73; x74]; f_ows1 := [x20]; f_value := [x61]; f_ows2 := [] |} ++ CRLF
  /\ get_host_header msearch [] = HNone.
Proof. exact short_method_refuted. Qed.
Print Assumptions C19_host_header_short_method_refuted.

(* (7) Segmentation.  The FULL statement -- the decision does not depend on how the first client bytes are
   segmented beyond the three bytes needed to recognise TLS -- is FALSE of the code:
   - GET_ | / HTTP/1.1 CRLF Host: evil.com CRLF CRLF : asked with only the first segment, the addon sees no
     complete request line, decides without the Host header, and the connection is intercepted although the
     whole first flight is ignored (known finding segmentation-short-http-prefix);
   - a Host line with an empty value lets the scanner run on into later bytes
     (known finding segmentation-empty-host-value). *)
Theorem C19_segmentation_refuted_short_http_prefix :
  (3 <= length ex_s1)%nat /\ no_empty_host (ex_s1 ++ ex_s2) = true /\
  (exists hs, first_decision lit_search no_ace ex_cfg [] [ex_s1; ex_s2] = Decided false hs) /\
  (exists hs, ignore_connection lit_search no_ace ex_cfg (ex_s1 ++ ex_s2) [] = Decided true hs).
Proof. exact short_http_prefix_refuted. Qed.
Print Assumptions C19_segmentation_refuted_short_http_prefix.

Theorem C19_segmentation_refuted_empty_host_value :
  seg_guard ex_p1 /\
  (exists hs, first_decision lit_search no_ace ex_cfg [] [ex_p1; ex_p2] = Decided false hs) /\
  (exists hs, ignore_connection lit_search no_ace ex_cfg (ex_p1 ++ ex_p2) [] = Decided true hs).
Proof. exact empty_host_value_refuted. Qed.
Print Assumptions C19_segmentation_refuted_empty_host_value.

(* PARTIAL form, under guards that are exactly the complements of the two findings (and of the documented
   TLS minimum): the first segment has at least three bytes and, if it starts with three letters, it already
   contains HTTP/ on its first line or the end of that line [seg_guard]; the first flight contains no Host
   line with an empty value [no_empty_host].  Then for ALL configurations and ALL cuts into segments NextLayer
   reaches exactly the decision of the whole first flight ... *)
Theorem C19_segmentation_partial :
  forall (pat : Type) (re_search : pat -> bytes -> bool) (ace_ok : bytes -> bool) (c : cfg pat)
         (s1 : bytes) (rest : list bytes),
  seg_guard s1 -> no_empty_host (concat (s1 :: rest)) = true ->
  first_decision re_search ace_ok c [] (s1 :: rest) = ignore_connection re_search ace_ok c (concat (s1 :: rest)) [].
Proof. exact segmentation_independent. Qed.
Print Assumptions C19_segmentation_partial.

(* ... because a decision, once taken, is not changed by any further bytes (all p, t). *)
Theorem C19_decision_stable_partial :
  forall (pat : Type) (re_search : pat -> bytes -> bool) (ace_ok : bytes -> bool) (c : cfg pat) (p t : bytes),
  seg_guard p -> no_empty_host p = true ->
  ignore_connection re_search ace_ok c p [] <> NeedsMore ->
  ignore_connection re_search ace_ok c (p ++ t) [] = ignore_connection re_search ace_ok c p [].
Proof. exact decision_stable. Qed.
Print Assumptions C19_decision_stable_partial.

Theorem C19_two_segmentations_partial :
  forall (pat : Type) (re_search : pat -> bytes -> bool) (ace_ok : bytes -> bool) (c : cfg pat)
         (s1 : bytes) (r1 : list bytes) (s2 : bytes) (r2 : list bytes),
  concat (s1 :: r1) = concat (s2 :: r2) -> seg_guard s1 -> seg_guard s2 ->
  no_empty_host (concat (s1 :: r1)) = true ->
  first_decision re_search ace_ok c [] (s1 :: r1) = first_decision re_search ace_ok c [] (s2 :: r2).
Proof. exact two_segmentations. Qed.
Print Assumptions C19_two_segmentations_partial.

(* The hypotheses are satisfiable on non-trivial values: a request cut inside the Host value (first segment
   asks for more data, the second decides ignore with two host names); a well-formed head with a field before
   a Host line spelled hOsT with NO optional white space. *)
Theorem C19_nonvacuous :
  (seg_guard ok_s1 /\ no_empty_host (concat [ok_s1; ok_s2]) = true /\
   ignore_connection lit_search no_ace ex_cfg ok_s1 [] = NeedsMore /\
   exists hs, first_decision lit_search no_ace ex_cfg [] [ok_s1; ok_s2] = Decided true hs /\ length hs = 2%nat)
  /\ (wf_request_line [x47; x45; x54] [x2f] [x31; x2e; x31] /\ Forall wf_other [ex_other] /\ wf_host ex_hostf
      /\ f_ows1 ex_hostf = []).
Proof. exact (conj guards_nonvacuous http_nonvacuous). Qed.
Print Assumptions C19_nonvacuous.
