(* Props/C16.v -- Generated leaf certificates are valid for the identity the client asked for.
   Statements only; each is closed by [exact] of a lemma proved in Proofs/LeafCertC16.v.
   issue idna off exp guard ca serial now_local r  is the model of tls_start_client -> TlsConfig.get_cert ->
   CertStore.get_cert -> dummy_cert on a store without custom certificates (Model/LeafCert.v), for every idna
   codec behaviour on non-ASCII text, every validity constants off/exp, and both forms of the upstream-CN
   conversion (guard = wrapped in try/except ValueError).  x509_ok is the strict verifier of
   Model/LeafCertSpec.v.  The _source theorems instantiate the constants read from the tree (Gen/LeafCertConst.v). *)
From Coq Require Import String.
From Coq Require Import List Bool NArith ZArith.
From MV Require Import Base.Bytes Model.LeafCert Model.LeafCertSpec Gen.LeafCertConst Proofs.LeafCertC16.
From MV Require Model.LeafCertCtx Proofs.LeafCertCtxC16.
Import ListNotations.

(* Whenever a certificate is served, it verifies under the strict verifier -- chain to the CA, AKI/SKI, validity at
   the time of issue, serverAuth, strict SAN rules, and name match -- for the identity the client asked for (SNI, or
   the local address without SNI; DNS name incl. wildcard-looking and IDN A-label, or IP literal), for every local
   clock offset tz the validity constants allow, with and without CN fallback in the verifier. *)
Theorem C16_verifies : forall idna off exp guard crit issuer serial now tz r c cs g,
  issue idna off exp guard crit issuer serial (now + tz) r = Ok c ->
  (off + tz <= 0)%Z -> (0 <= off + exp + tz)%Z ->
  ca_ok issuer now = true ->
  ip_or_dns_name idna (requested r) = Ok g -> target_clean g = true ->
  x509_ok cs issuer c now (target_of g) = true.
Proof. exact verifies. Qed.
Print Assumptions C16_verifies.

(* The constants of the tree: the window contains the time of issue for every local clock within a day of UTC
   (datetime.now() is naive local time and is written into the certificate as if it were UTC). *)
Theorem C16_validity_source : forall tz : Z,
  (-86400 <= tz <= 86400)%Z ->
  (VALIDITY_OFFSET + tz <= 0)%Z /\ (0 <= VALIDITY_OFFSET + CERT_EXPIRY + tz)%Z.
Proof. exact validity_source. Qed.
Print Assumptions C16_validity_source.

Theorem C16_verifies_source : forall idna issuer serial now tz r c cs g,
  issue idna VALIDITY_OFFSET CERT_EXPIRY CN_GUARDED SAN_CRIT_BY_SUBJECT issuer serial (now + tz) r = Ok c ->
  (-86400 <= tz <= 86400)%Z ->
  ca_ok issuer now = true ->
  ip_or_dns_name idna (requested r) = Ok g -> target_clean g = true ->
  x509_ok cs issuer c now (target_of g) = true.
Proof. exact verifies_source. Qed.
Print Assumptions C16_verifies_source.

(* Every SAN of the served certificate is (the encoding of) the conversion of the requested name, of the server
   address, of the upstream CN, or an upstream SAN; the CN is the text of one of those SANs. *)
Theorem C16_names_allowed : forall idna off exp guard crit issuer serial now r c,
  issue idna off exp guard crit issuer serial now r = Ok c ->
  (forall g, In g (c_sans c) -> exists g0, g = wire_gname g0 /\ allowed idna r g0)
  /\ (forall v, c_cn c = Some v ->
        exists g0, In (wire_gname g0) (c_sans c) /\ allowed idna r g0 /\ v = str_value g0).
Proof. exact names_allowed. Qed.
Print Assumptions C16_names_allowed.

(* The same for a store with any history of earlier generated certificates (cache hits included). *)
Theorem C16_names_allowed_any_store : forall idna off exp guard crit issuer serial now st r st' c,
  store_wf st ->
  issue_on idna off exp guard crit issuer serial now st r = Ok (st', c) ->
  store_wf st'
  /\ (forall g, In g (c_sans c) -> exists g0, g = wire_gname g0 /\ allowed idna r g0)
  /\ (forall v, c_cn c = Some v ->
        exists g0, In (wire_gname g0) (c_sans c) /\ allowed idna r g0 /\ v = str_value g0).
Proof. exact served_from_any_store. Qed.
Print Assumptions C16_names_allowed_any_store.

(* Issued and signed by the CA, usable for server authentication, non-empty SAN that is critical when the
   subject is empty, AKI equal to the SKI of the CA, validity = local now + offset .. + expiry. *)
Theorem C16_issued_by_ca : forall idna off exp guard crit issuer serial now r c,
  issue idna off exp guard crit issuer serial now r = Ok c ->
  c_issuer c = ca_subject issuer /\ c_signer c = ca_key issuer
  /\ In EKU_SERVER_AUTH (c_eku c)
  /\ c_sans c <> []
  /\ (has_subject c = false -> c_san_critical c = true)
  /\ (forall s, ca_ski issuer = Some s -> c_aki c = s)
  /\ c_nb c = (now + off)%Z /\ c_na c = (now + off + exp)%Z.
Proof. exact issued_by_ca. Qed.
Print Assumptions C16_issued_by_ca.

(* RFC 5280 4.2.1.6 in both directions (subjectAltName critical exactly when the subject is empty; strict validators
   such as the one in `cryptography` reject a critical SAN next to a non-empty subject).  FALSE of the code as it
   stands (critical = no CN): a name of 64+ characters with an upstream organization -- finding
   san-critical-with-nonempty-subject. *)
Theorem C16_san_criticality_refuted :
  exists c, issue no_idna VALIDITY_OFFSET CERT_EXPIRY false false ca0 5 0 long_name_org_req = Ok c
            /\ has_subject c = true /\ c_san_critical c = true.
Proof. exact critical_with_subject_unrepaired. Qed.
Print Assumptions C16_san_criticality_refuted.

(* ... and true for the repaired expression (critical = not subject), whose complement is the finding; the direction
   that strict OpenSSL enforces (empty subject -> critical) holds for both and is part of C16_issued_by_ca/C16_verifies. *)
Theorem C16_san_criticality_partial : forall idna off exp guard crit issuer serial now r c,
  crit = true ->
  issue idna off exp guard crit issuer serial now r = Ok c ->
  c_san_critical c = negb (has_subject c).
Proof. exact san_criticality. Qed.
Print Assumptions C16_san_criticality_partial.

(* A certificate IS served whenever the requested name and the server address are names (IP literal or
   IDNA-encodable) ... full statement: for every upstream certificate.  This is FALSE of the code as it stands
   (guard = false): finding upstream-cn-not-a-hostname. *)
Theorem C16_issues_refuted :
  exists r,
    encodable no_idna (requested r)
    /\ (forall a, r_addr r = Some a -> encodable no_idna a)
    /\ issue no_idna VALIDITY_OFFSET CERT_EXPIRY false false ca0 5 0 r = Err EIdna.
Proof. exact issues_refuted. Qed.
Print Assumptions C16_issues_refuted.

(* ... and true under the guard that is exactly the complement of the finding: the upstream CN, when it is used,
   converts (upstream_cn_ok), or the conversion is guarded (the repaired code).  The remaining hypothesis is the
   known finding upstream-empty-first-san (first name empty -> NameAttribute raises) and an ASCII CRL URL. *)
Theorem C16_issues_partial : forall idna off exp guard crit issuer serial now r,
  encodable idna (requested r) -> (forall a, r_addr r = Some a -> encodable idna a) ->
  (guard = true \/ upstream_cn_ok idna r) ->
  (forall n, get_cert_names idna guard serial r = Ok n ->
     n_cn n <> Some [] /\ (forall u, n_crl n = Some u -> is_ascii u = true)) ->
  exists c, issue idna off exp guard crit issuer serial now r = Ok c.
Proof. exact issues. Qed.
Print Assumptions C16_issues_partial.

(* the input of the refutation is served once the conversion is guarded *)
Theorem C16_issues_repaired_witness :
  exists c, issue no_idna VALIDITY_OFFSET CERT_EXPIRY true false ca0 5 0 long_cn_req = Ok c
            /\ c_sans c = [GDNS (B "example.com")].
Proof. exact guarded_cn_issues. Qed.
Print Assumptions C16_issues_repaired_witness.

(* the verifier specification accepts a name for itself (wildcard-looking names included) and nothing is hidden
   in it: see also the negative verdicts of C16_nonvacuous *)
Theorem C16_name_match_reflexive : forall h, has_nul h = false -> equal_wildcard h h = true.
Proof. exact equal_wildcard_refl. Qed.
Print Assumptions C16_name_match_reflexive.

(* a wildcard-looking SNI with an upstream certificate (CN, wildcard/IP SANs, organization, CRL), scoped IPv6 server
   address, clock one hour ahead: the exact certificate, accepted for the SNI and a label under it, rejected for two
   labels, the bare suffix, a foreign IP and after expiry. *)
Theorem C16_nonvacuous :
  issue no_idna (-172800) 17193600 false false ca0 5 3600 sample_req = Ok sample_cert
  /\ x509_ok false ca0 sample_cert 0 (THost (B "*.example.com")) = true
  /\ x509_ok false ca0 sample_cert 0 (THost (B "www.example.com")) = true
  /\ x509_ok false ca0 sample_cert 0 (THost (B "a.b.example.com")) = false
  /\ x509_ok false ca0 sample_cert 0 (THost (B "example.com")) = false
  /\ x509_ok true ca0 sample_cert 0 (TIP [x01; x02; x03; x04]) = true
  /\ x509_ok true ca0 sample_cert 0 (TIP [x01; x02; x03; x05]) = false
  /\ x509_ok false ca0 sample_cert (17193600 - 172800 + 3601) (THost (B "up.example")) = false.
Proof. exact sample_ok. Qed.
Print Assumptions C16_nonvacuous.

(* ---- what is PRESENTED over histories with cert-store reloads (Model/LeafCertCtx.v): the leaf comes from the current
   store, the rest of the chain from the lru_cached SSL.Context keyed by (settings, chain_file path, dhparams object).
   For every history of CA-file rewrites, reloads, handshakes and cache evictions in which clients connect only while
   the CA file is the one the store was loaded from, every handshake presents the chain of the CA that issued the leaf,
   PROVIDED each reload gets a fresh dhparams object (the only key component that changes on reload). *)
Theorem C16_presented_chain_fresh : forall ops,
  (forall x, In x (LeafCertCtx.run false LeafCertCtx.init ops) -> LeafCertCtx.synced x = true) ->
  forall x, In x (LeafCertCtx.run false LeafCertCtx.init ops) -> LeafCertCtx.complete x = true.
Proof. exact LeafCertCtxC16.presented_chain_fresh. Qed.
Print Assumptions C16_presented_chain_fresh.

(* the tree satisfies the proviso (DH_SHARED is read from the decorators of CertStore.load_dhparam) *)
Theorem C16_presented_chain_source : forall ops,
  (forall x, In x (LeafCertCtx.run DH_SHARED LeafCertCtx.init ops) -> LeafCertCtx.synced x = true) ->
  forall x, In x (LeafCertCtx.run DH_SHARED LeafCertCtx.init ops) -> LeafCertCtx.complete x = true.
Proof. exact LeafCertCtxC16.presented_chain_source. Qed.
Print Assumptions C16_presented_chain_source.

(* the proviso is needed: with one dhparams object per path, rotate-in-place + reload presents the old chain *)
Theorem C16_presented_chain_shared_dh_refuted :
  LeafCertCtx.run true LeafCertCtx.init LeafCertCtxC16.rotation
  = [LeafCertCtx.mkShown true 1 1; LeafCertCtx.mkShown true 2 1].
Proof. exact LeafCertCtxC16.shared_dh_stale. Qed.
Print Assumptions C16_presented_chain_shared_dh_refuted.

(* and so is the hypothesis on the history: the context reads the file when it is created, not when the store is
   loaded (known finding chain-file-read-late) *)
Theorem C16_presented_chain_unsynced_refuted :
  LeafCertCtx.run false LeafCertCtx.init
    [LeafCertCtx.Rewrite 1; LeafCertCtx.Reload; LeafCertCtx.Rewrite 2; LeafCertCtx.Handshake 0]
  = [LeafCertCtx.mkShown false 1 2].
Proof. exact LeafCertCtxC16.unsynced_needed. Qed.
Print Assumptions C16_presented_chain_unsynced_refuted.
