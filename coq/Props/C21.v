(* Props/C21.v -- SOCKS5 handshakes are parsed exactly and relay subsequent data.
   Statements only; each is closed by [exact] of a lemma proved in Proofs/Socks5*.v.
   [run c segs] is the model of Socks5Proxy fed Start and one DataReceived per element
   of segs; its result is (phase with the unparsed buffer, observables): bytes sent to
   the client, server address, OpenConnection issued, client closed, credentials shown
   to the socks5_auth hook, bytes handed to the child layer.
   c : cfg quantifies over proxyauth on/off, every hook verdict function, eager/lazy
   and the OpenConnection result. *)
From Coq Require Import List Bool Arith NArith.
From MV Require Import Base.Bytes Model.Socks5 Model.Socks5Sched Proofs.Socks5Seg Proofs.Socks5Exact Proofs.Socks5Main Proofs.Socks5Inv Proofs.Socks5Sched.
Import ListNotations.

(* 1. The outcome does not depend on the segmentation: every splitting of a byte
      stream (empty segments included) ends in exactly the state of the unsplit stream. *)
Theorem C21_segmentation : forall (c : cfg) (segs : list bytes),
  run c segs = run c [concat segs].
Proof. exact segmentation_independent. Qed.
Print Assumptions C21_segmentation.

Theorem C21_same_stream_same_outcome : forall (c : cfg) (segs1 segs2 : list bytes),
  concat segs1 = concat segs2 -> run c segs1 = run c segs2.
Proof. exact same_stream_same_state. Qed.
Print Assumptions C21_same_stream_same_outcome.

(* 2. Acceptance decodes exactly: after a completed negotiation (method reply pre, and
      the RFC 1929 exchange when proxyauth is on), a CONNECT request for an IPv4, IPv6
      or domain address a and port hi:lo, followed by any trailing bytes, however split,
      gives: destination (host_of a, hi*256+lo); reply pre ++ 05 00 00 01 00 00 00 00 00 00;
      not closed; the child receives exactly the trailing bytes (once, in order).
      If connection_strategy is eager and the connection fails: reply 05 04 .., closed,
      nothing for the child.  host_of: dotted decimal for IPv4, the 16 raw bytes for
      IPv6, decode(ascii, replace) of the name for domains. *)
Theorem C21_accept_exact : forall (c : cfg) (segs : list bytes) (neg pre : bytes) cr (a : addr)
    (hi lo : byte) (trailing : bytes),
  negotiated c neg pre cr -> addr_wf a ->
  concat segs = neg ++ enc_request a hi lo ++ trailing ->
  run c segs = accepted_state c pre cr a hi lo trailing.
Proof. exact accept_exact. Qed.
Print Assumptions C21_accept_exact.

(* 3. Converse: nothing else is accepted.  If the layer relays, or has chosen a
      destination at all, the stream is negotiation ++ CONNECT request ++ trailing. *)
Theorem C21_accepted_only_wellformed : forall (c : cfg) (segs : list bytes),
  reached (run c segs) ->
  exists neg pre cr a hi lo trailing,
    negotiated c neg pre cr /\ addr_wf a /\
    concat segs = neg ++ enc_request a hi lo ++ trailing /\
    run c segs = accepted_state c pre cr a hi lo trailing.
Proof. exact accepted_only_wellformed. Qed.
Print Assumptions C21_accepted_only_wellformed.

(* 4. Rejections: closed, no destination, nothing for the child, and the reply the
      code supplies (none for a foreign version; method FF; 01 01 for bad credentials;
      REP 07 for a bad VER/CMD/RSV; REP 08 for an unknown ATYP). *)
Theorem C21_reject_version : forall (c : cfg) (segs : list bytes) (v n : byte) (rest : bytes),
  concat segs = v :: n :: rest -> v <> x05 -> run c segs = rejected_state [] None.
Proof. exact reject_version. Qed.
Print Assumptions C21_reject_version.

Theorem C21_reject_methods : forall (c : cfg) (segs : list bytes) (methods rest : bytes),
  concat segs = enc_greeting methods ++ rest -> length methods <= 255 ->
  ~ In (required c) methods ->
  run c segs = rejected_state ([x05; xff] ++ REPLY_TAIL) None.
Proof. exact reject_methods. Qed.
Print Assumptions C21_reject_methods.

Theorem C21_reject_auth : forall (c : cfg) (segs : list bytes) (methods : bytes) (ver : byte) (u p rest : bytes),
  proxyauth c = true -> length methods <= 255 -> In x02 methods ->
  length u <= 255 -> length p <= 255 -> authok c u p = false ->
  concat segs = enc_greeting methods ++ enc_auth ver u p ++ rest ->
  run c segs = rejected_state [x05; x02; x01; x01] (Some (u, p)).
Proof. exact reject_auth. Qed.
Print Assumptions C21_reject_auth.

Theorem C21_reject_command : forall (c : cfg) (segs : list bytes) (neg pre : bytes) cr
    (b0 b1 b2 b3 b4 : byte) (rest : bytes),
  negotiated c neg pre cr -> [b0; b1; b2] <> [x05; x01; x00] ->
  concat segs = neg ++ b0 :: b1 :: b2 :: b3 :: b4 :: rest ->
  run c segs = rejected_state (pre ++ [x05; x07] ++ REPLY_TAIL) cr.
Proof. exact reject_command. Qed.
Print Assumptions C21_reject_command.

Theorem C21_reject_atyp : forall (c : cfg) (segs : list bytes) (neg pre : bytes) cr (atyp b4 : byte) (rest : bytes),
  negotiated c neg pre cr -> atyp <> x01 -> atyp <> x03 -> atyp <> x04 ->
  concat segs = neg ++ x05 :: x01 :: x00 :: atyp :: b4 :: rest ->
  run c segs = rejected_state (pre ++ [x05; x08] ++ REPLY_TAIL) cr.
Proof. exact reject_atyp. Qed.
Print Assumptions C21_reject_atyp.

(* 5. For every input and segmentation: no exception path, nothing reaches the child
      and no destination exists while the handshake is incomplete, nothing reaches the
      child once closed. *)
Theorem C21_state_invariant : forall (c : cfg) (segs : list bytes), wf_state (run c segs).
Proof. exact run_wf. Qed.
Print Assumptions C21_state_invariant.

Theorem C21_never_crashes : forall (c : cfg) (segs : list bytes), fst (run c segs) <> Crashed.
Proof. exact never_crashes. Qed.
Print Assumptions C21_never_crashes.

(* 6. Text forms.  IPv4: the dotted text determines the four bytes. *)
Theorem C21_ipv4_text_injective : forall a b c d a' b' c' d' : byte,
  dotted a b c d = dotted a' b' c' d' -> (a, b, c, d) = (a', b', c', d').
Proof. exact dotted_injective. Qed.
Print Assumptions C21_ipv4_text_injective.

(* Domain names.  The full statement -- the destination host is exactly the requested
   name -- is FALSE of the faithful model: a name with a byte >= 0x80 is accepted and
   connected to with U+FFFD substituted (finding domain-non-ascii-replaced). *)
Theorem C21_domain_exact_refuted :
  exists (segs : list bytes) (name : bytes) (hi lo : byte) (o : obs),
    length name <= 255 /\
    concat segs = enc_greeting [x00] ++ enc_request (ADom name) hi lo /\
    run cfg0 segs = (Relay, o) /\
    dest o <> Some (HText name, u16be hi lo).
Proof. exact domain_exact_refuted. Qed.
Print Assumptions C21_domain_exact_refuted.

Theorem C21_domain_collapse_refuted :
  exists (n1 n2 : bytes), n1 <> n2 /\
    run cfg0 [enc_greeting [x00] ++ enc_request (ADom n1) x00 x50]
    = run cfg0 [enc_greeting [x00] ++ enc_request (ADom n2) x00 x50].
Proof. exact domain_collapse. Qed.
Print Assumptions C21_domain_collapse_refuted.

(* The guard all_ascii is exactly the complement of the finding. *)
Theorem C21_domain_exact_partial : forall (c : cfg) (segs : list bytes) (neg pre : bytes) cr
    (name : bytes) (hi lo : byte) (trailing : bytes),
  negotiated c neg pre cr -> length name <= 255 -> all_ascii name ->
  concat segs = neg ++ enc_request (ADom name) hi lo ++ trailing ->
  dest (snd (run c segs)) = Some (HText name, u16be hi lo).
Proof. exact domain_exact_partial. Qed.
Print Assumptions C21_domain_exact_partial.

(* 7. The hypotheses are satisfiable on a non-trivial instance: proxyauth on, eager,
      credentials u / pw, CONNECT a.b:443 split in five segments, trailing GET. *)
Theorem C21_nonvacuous :
  negotiated cfg_auth (enc_greeting [x00; x02] ++ enc_auth x01 [x75] [x70; x77])
             [x05; x02; x01; x00] (Some ([x75], [x70; x77]))
  /\ addr_wf (ADom [x61; x2e; x62])
  /\ run cfg_auth [[x05; x02; x00]; [x02; x01; x01; x75; x02; x70]; [x77; x05; x01; x00; x03; x03; x61; x2e];
                   [x62; x01; xbb; x47; x45]; [x54]]
     = (Relay, mkObs ([x05; x02; x01; x00] ++ REPLY_SUCCESS) (Some (HText [x61; x2e; x62], 443%N)) true false
                     (Some ([x75], [x70; x77])) [x47; x45; x54]).
Proof. exact nonvacuous. Qed.
Print Assumptions C21_nonvacuous.

(* 8. Schedules (layer.py Layer.handle_event / __continue): the socks5_auth hook and
      OpenConnection may complete late, after any number of further client segments were
      queued behind the pause.  run_sched c evs executes the pause / queue / replay
      machinery over the event list evs (client segments and completions in any order).
      As long as completions are only delivered for pending commands, the state obtained
      by answering what is still pending and replaying the queue (flush) -- and, once
      nothing is pending, the state itself -- is the state of the plain model on the
      unsplit stream.  So replies, close, destination and the bytes relayed to the child
      do not depend on when hooks complete. *)
Theorem C21_schedule_independent : forall (c : cfg) (evs : list ev),
  run_sched c evs <> LBad ->
  flush c (run_sched c evs) = run c [concat (data_of evs)].
Proof. exact schedule_independent. Qed.
Print Assumptions C21_schedule_independent.

Theorem C21_schedule_independent_settled : forall (c : cfg) (evs : list ev) (s : st),
  run_sched c evs = LRun s -> s = run c [concat (data_of evs)].
Proof. exact schedule_independent_settled. Qed.
Print Assumptions C21_schedule_independent_settled.

(* answering every command at once is Model/Socks5.v: the cut generators lose nothing *)
Theorem C21_prompt_completion_is_plain_model : forall (c : cfg) (s : st) (d : bytes),
  settle c (handle_data_r c s d) = handle_data c s d.
Proof. exact handle_data_r_settle. Qed.
Print Assumptions C21_prompt_completion_is_plain_model.

(* non-vacuous: the CONNECT request and two payload segments queued behind the auth
   hook, one more behind OpenConnection; paused state and final state computed *)
Theorem C21_schedule_nonvacuous :
  run_sched cfg_sched (firstn 5 sched_example)
    = LPaused (SAuth [x01; x01; x75; x01; x70] [x75] [x70]
                     (mkObs [x05; x02] None false false (Some ([x75], [x70])) []))
              [[x05; x01; x00; x01; x7f; x00; x00; x01; x00; x50]; [x47; x45]; [x54]]
  /\ run_sched cfg_sched sched_example
    = LRun (Relay, mkObs ([x05; x02; x01; x00] ++ REPLY_SUCCESS)
                         (Some (HText [x31; x32; x37; x2e; x30; x2e; x30; x2e; x31], 80%N)) true false
                         (Some ([x75], [x70])) [x47; x45; x54; x20]).
Proof. exact sched_nonvacuous. Qed.
Print Assumptions C21_schedule_nonvacuous.
