(* Props/C21.v -- placeholder while the proofs are being built *)
From Coq Require Import List Bool NArith.
From MV Require Import Base.Bytes Model.Socks5.
