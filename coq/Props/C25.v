(* Props/C25.v -- DNS wire encoding round-trips and decoding is total.
   Statements only; each is closed by [exact] of a lemma proved in Proofs/Dns*.v.
   The model is Model/DnsNames.v + Model/DnsMessage.v (the definitions the correspondence
   check runs).  EAce = a label/name outside the modelled IDNA fragment (ACE prefix or
   non-ASCII); wf_name excludes those, and the decoders report them as their own class. *)
From Coq Require Import List Bool Arith NArith.
From MV Require Import Base.Bytes Model.DnsNames Model.DnsMessage
  Proofs.DnsNamesRT Proofs.DnsMessageRT Proofs.DnsFuel Proofs.DnsC25.
Import ListNotations.

(* Every well-formed name (labels of 1..63 ASCII characters without the ACE prefix, or the
   root name) packs to its plain label wire form and domain_names.unpack reads it back. *)
Theorem C25_name_roundtrip : forall n : name, wf_name n ->
  DnsNames.unpack (wire_name n) = Ok n /\ pack n = Ok (wire_name n).
Proof. exact name_roundtrip. Qed.
Print Assumptions C25_name_roundtrip.

(* The property as stated (any record data bytes) is FALSE of the faithful model: a
   well-formed message with TXT data 02 c0 0c decodes to a different message.
   Finding rdata-pointer-lookalike-rewritten. *)
Theorem C25_roundtrip_refuted : exists m, wf_msg m /\
  exists b m', packed m = Ok b /\ DnsMessage.unpack b = Ok m' /\ m' <> m.
Proof. exact roundtrip_refuted. Qed.
Print Assumptions C25_roundtrip_refuted.

(* On the complement of that finding (no byte >= 0xC0 in the data of a record whose type is
   in record_data_can_have_compression; all other record data arbitrary) every well-formed
   message over the full field ranges encodes to bytes that decode to the same message. *)
Theorem C25_roundtrip_partial : forall m : message, wf_msg m -> Forall rdata_guard (all_rrs m) ->
  packed m = Ok (msgwire m) /\ DnsMessage.unpack (msgwire m) = Ok m.
Proof. exact message_roundtrip. Qed.
Print Assumptions C25_roundtrip_partial.

(* Decoding arbitrary bytes terminates (the fuel of the model is never exhausted: EFuel is
   not in decode_err, pointer loops and chains included) and produces a message or one of
   EStruct (struct.error), EAce, EValue, EUnicode; never EIndex/EOther. *)
Theorem C25_decode_total : forall buf : bytes,
  match DnsMessage.unpack buf with Ok _ => True | Err e => decode_err e end.
Proof. exact unpack_total. Qed.
Print Assumptions C25_decode_total.

(* ... but the parse error is not the only failure: ValueError escapes.
   Finding valueerror-escapes-decode. *)
Theorem C25_decode_parse_error_only_refuted : DnsMessage.unpack value_error_buf = Err EValue.
Proof. exact parse_error_only_refuted. Qed.
Print Assumptions C25_decode_parse_error_only_refuted.

(* Without any byte >= 0xC0 in the buffer (no compression pointer, nothing that looks like
   one) decoding yields a message or the parse error class only. *)
Theorem C25_decode_parse_error_only_partial : forall buf : bytes, no_ptr_bytes buf = true ->
  match DnsMessage.unpack buf with Ok _ => True | Err e => parse_err e end.
Proof. exact unpack_total_plain. Qed.
Print Assumptions C25_decode_parse_error_only_partial.

(* Name decoding with compression is total for every cache whose sizes are positive. *)
Theorem C25_name_decode_total : forall buf off c, cache_pos c ->
  match fst (unpack_fwc buf off c) with Ok _ => True | Err e => parse_err e end.
Proof. exact unpack_name_total. Qed.
Print Assumptions C25_name_decode_total.

(* A decoded message does not always re-encode to bytes that decode to the same message
   (record data that starts to look like a pointer at the new offsets), and may not be
   encodable at all (a name ending in a pointer to the root label decodes with a trailing
   dot).  Findings rdata-pointer-lookalike-rewritten, decoded-message-not-packable. *)
Theorem C25_reencode_refuted : exists b m b' m',
  DnsMessage.unpack b = Ok m /\ packed m = Ok b' /\ DnsMessage.unpack b' = Ok m' /\ m' <> m.
Proof. exact reencode_refuted. Qed.
Print Assumptions C25_reencode_refuted.

Theorem C25_reencode_not_packable_refuted :
  exists b m, DnsMessage.unpack b = Ok m /\ packed m = Err EValue.
Proof. exact not_packable_refuted. Qed.
Print Assumptions C25_reencode_not_packable_refuted.

Theorem C25_reencode_partial : forall b m, DnsMessage.unpack b = Ok m -> wf_msg m ->
  Forall rdata_guard (all_rrs m) ->
  exists b', packed m = Ok b' /\ DnsMessage.unpack b' = Ok m.
Proof. exact reencode_partial. Qed.
Print Assumptions C25_reencode_partial.

(* The hypotheses are satisfiable on a non-trivial message: 1 question, an MX record (a
   compressible type, data without pointer-like bytes), an A record whose data is c0 0c ff 01,
   an OPT record with the root owner name; 98 bytes on the wire. *)
Theorem C25_nonvacuous : wf_msg good_msg /\ Forall rdata_guard (all_rrs good_msg)
  /\ length (all_rrs good_msg) = 3
  /\ exists b, packed good_msg = Ok b /\ DnsMessage.unpack b = Ok good_msg /\ length b = 98.
Proof. exact good_msg_ok. Qed.
Print Assumptions C25_nonvacuous.

(* pack has no memory: in any history of pack calls the result for a name is pack of that name,
   whatever was packed before (in particular another spelling of the same name), and a whole
   history of well-formed names round-trips name by name. *)
Theorem C25_pack_history_independent : forall (h : list name) (n : name),
  nth (length h) (pack_history (h ++ [n])) (Err EOther) = pack n.
Proof. exact pack_history_independent. Qed.
Print Assumptions C25_pack_history_independent.

Theorem C25_pack_history_roundtrip : forall names : list name, Forall wf_name names ->
  Forall2 (fun n r => r = Ok (wire_name n) /\ DnsNames.unpack (wire_name n) = Ok n) names (pack_history names).
Proof. exact pack_history_roundtrip. Qed.
Print Assumptions C25_pack_history_roundtrip.

Theorem C25_case_variants_nonvacuous :
  pack_history [[x77;x57;x77;x2e;x61]; [x77;x77;x77;x2e;x61]; [x57;x57;x57;x2e;x41]]
  = [Ok [x03;x77;x57;x77;x01;x61;x00]; Ok [x03;x77;x77;x77;x01;x61;x00]; Ok [x03;x57;x57;x57;x01;x41;x00]].
Proof. exact case_variants_example. Qed.
Print Assumptions C25_case_variants_nonvacuous.
