From Coq Require Import List Bool NArith.
From MV Require Import Base.Bytes Model.DnsNames Model.DnsMessage.
Theorem C25_placeholder : True. Proof. exact I. Qed.
Print Assumptions C25_placeholder.
