(* Props/C37.v -- Flow files are crash-consistent. Statements only (proofs: Proofs/TnetTrunc.v).
   Same model as C36 (Model/Tnet.v). A flow file is file_of vs = the concatenation of dumps of the
   records written (FlowWriter.add / FilteredFlowWriter.add write exactly dumps(get_state())).
   loadable v = the complete file delivers v as a flow (well-formed, within the stack budget, a
   dict, accepted by from_state). OS-level durability of flush() is not modelled. *)
From Coq Require Import List Bool Arith NArith ZArith.
From MV Require Import Base.Bytes Model.Tnet Proofs.TnetBase Proofs.TnetRoundtrip Proofs.TnetReader Proofs.TnetTrunc Proofs.TnetExamples Model.SaveStream Proofs.SaveStream.
Import ListNotations.

(* Every truncation: reading the first k bytes of the file yields exactly the records completely
   contained in those k bytes, in order, then ends cleanly iff k is a record boundary and with a
   flow-read error otherwise -- never another exception, never a partially written record. *)
Theorem C37_truncation : forall pyfloat from_state depth (vs : list tv) (k : nat),
  Forall (loadable pyfloat from_state depth) vs ->
  stream pyfloat outer_current inner_current from_state depth (firstn k (file_of vs)) =
    (map mirror (fst (complete vs k)), if snd (complete vs k) then Clean else ReadError).
Proof. exact (fun pf fs d => stream_truncated pf outer_current inner_current fs d eq_refl eq_refl). Qed.
Print Assumptions C37_truncation.

(* the same for every handler pair that names ValueError and IndexError (survives the C36 repair) *)
Theorem C37_truncation_any_handlers : forall pyfloat outer inner from_state depth,
  outer ValueError = true -> outer IndexError = true -> forall vs k,
  Forall (loadable pyfloat from_state depth) vs ->
  stream pyfloat outer inner from_state depth (firstn k (file_of vs)) =
    (map mirror (fst (complete vs k)), if snd (complete vs k) then Clean else ReadError).
Proof. exact stream_truncated. Qed.
Print Assumptions C37_truncation_any_handlers.

(* what is delivered is a prefix of what was written: no record that is not in vs, none skipped *)
Theorem C37_delivered_is_prefix : forall vs k, exists rest, vs = fst (complete vs k) ++ rest.
Proof. exact complete_prefix. Qed.
Print Assumptions C37_delivered_is_prefix.

(* a cut exactly after j records delivers those j records and ends cleanly ... *)
Theorem C37_boundary_is_clean : forall vs j, (j <= length vs)%nat ->
  complete vs (length (file_of (firstn j vs))) = (firstn j vs, true).
Proof. exact complete_boundary. Qed.
Print Assumptions C37_boundary_is_clean.

(* ... and a clean end happens only there: every cut inside a record is reported as a read error *)
Theorem C37_clean_only_at_boundary : forall vs k, snd (complete vs k) = true ->
  (length (file_of vs) <= k)%nat \/ exists j, (j <= length vs)%nat /\ k = length (file_of (firstn j vs)).
Proof. exact complete_true_boundary. Qed.
Print Assumptions C37_clean_only_at_boundary.

(* stream saving: add = write one complete record + flush, so after every add the file is the
   concatenation of the records added so far and reads back completely and cleanly *)
Theorem C37_after_each_add : forall pyfloat from_state depth vs j,
  Forall (loadable pyfloat from_state depth) vs ->
  stream pyfloat outer_current inner_current from_state depth (file_of (firstn j vs)) =
    (map mirror (firstn j vs), Clean).
Proof. exact (fun pf fs d => stream_after_each_add pf outer_current inner_current fs d eq_refl eq_refl). Qed.
Print Assumptions C37_after_each_add.

Theorem C37_nonvacuous :
  Forall (loadable pf_sample (fun _ => None) 5) [sample; sample2]
  /\ (length (dumps sample) < length (dumps sample) + 4 < length (file_of [sample; sample2]))%nat
  /\ stream pf_sample outer_current inner_current (fun _ => None) 5
       (firstn (length (dumps sample) + 4) (file_of [sample; sample2])) = ([mirror sample], ReadError)
  /\ stream pf_sample outer_current inner_current (fun _ => None) 5
       (firstn (length (dumps sample)) (file_of [sample; sample2])) = ([mirror sample], Clean).
Proof. exact truncation_example. Qed.
Print Assumptions C37_nonvacuous.

(* ---- stream saving under option changes (Model/SaveStream.v: Save.configure / maybe_rotate_to_new_file
   / save_flow / done and the optmanager rollback). For EVERY sequence of save_stream_file changes
   (to openable and unopenable paths, append or overwrite, switching off) interleaved with finished
   flows, the addon never exits and every file holds exactly what [reference] says: the flows finished
   while it was the target, since its last successful open (overwrite) or on top of what it held
   (append); a rejected change contributes nothing. *)
Theorem C37_stream_files_complete : forall openable f evs,
  crashed (run openable (init_state f) evs) = false
  /\ forall q, fs (run openable (init_state f) evs) q = reference openable evs None f q.
Proof. exact stream_files_complete. Qed.
Print Assumptions C37_stream_files_complete.

(* in every reachable state, a change whose target cannot be opened raises and leaves files, writer,
   current_path and option exactly as they were (the rollback re-configure does not re-open) *)
Theorem C37_failed_option_change_is_noop : forall openable f evs o,
  let s := run openable (init_state f) evs in
  configure openable (with_opt s o) = None -> set_option openable o s = (s, true).
Proof. exact reachable_failed_change_is_noop. Qed.
Print Assumptions C37_failed_option_change_is_noop.

(* ... and so does ONE update that carries a new save_stream_file together with an unparsable
   save_stream_filter: the filter is validated before the file is touched *)
Theorem C37_bad_filter_update_is_noop : forall openable f evs o,
  let s := run openable (init_state f) evs in set_option_bad_filter openable o s = (s, true).
Proof. exact reachable_bad_filter_is_noop. Qed.
Print Assumptions C37_bad_filter_update_is_noop.

(* in every reachable state, a finished flow is appended to the current stream file and nothing else changes *)
Theorem C37_finish_appends_only : forall openable f evs r,
  let s := run openable (init_state f) evs in
  save_flow openable r s =
    match strm s with
    | Some p => {| opt := opt s; cur := cur s; strm := strm s; fs := upd (fs s) p (fs s p ++ [r]); crashed := false |}
    | None => s
    end.
Proof. exact reachable_save_flow_appends. Qed.
Print Assumptions C37_finish_appends_only.

Theorem C37_reconf_nonvacuous :
  let s := run ex_open (init_state (fun _ => [])) ex_events in
  fs s 0 = [1; 2; 4]%nat /\ fs s 3 = [] /\ strm s = Some 0%nat
  /\ snd (step ex_open (run ex_open (init_state (fun _ => [])) (firstn 3 ex_events))
                (SetOpt (Some {| sp_append := false; sp_path := 3 |}))) = true.
Proof. exact ex_run. Qed.
Print Assumptions C37_reconf_nonvacuous.
