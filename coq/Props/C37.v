(* Props/C37.v -- Flow files are crash-consistent. Statements only (proofs: Proofs/TnetTrunc.v).
   Same model as C36 (Model/Tnet.v). A flow file is file_of vs = the concatenation of dumps of the
   records written (FlowWriter.add / FilteredFlowWriter.add write exactly dumps(get_state())).
   loadable v = the complete file delivers v as a flow (well-formed, within the stack budget, a
   dict, accepted by from_state). OS-level durability of flush() is not modelled. *)
From Coq Require Import List Bool Arith NArith ZArith.
From MV Require Import Base.Bytes Model.Tnet Proofs.TnetBase Proofs.TnetRoundtrip Proofs.TnetReader Proofs.TnetTrunc Proofs.TnetExamples.
Import ListNotations.

(* Every truncation: reading the first k bytes of the file yields exactly the records completely
   contained in those k bytes, in order, then ends cleanly iff k is a record boundary and with a
   flow-read error otherwise -- never another exception, never a partially written record. *)
Theorem C37_truncation : forall pyfloat from_state depth (vs : list tv) (k : nat),
  Forall (loadable pyfloat from_state depth) vs ->
  stream pyfloat outer_current inner_current from_state depth (firstn k (file_of vs)) =
    (map mirror (fst (complete vs k)), if snd (complete vs k) then Clean else ReadError).
Proof. exact (fun pf fs d => stream_truncated pf outer_current inner_current fs d eq_refl eq_refl). Qed.
Print Assumptions C37_truncation.

(* the same for every handler pair that names ValueError and IndexError (survives the C36 repair) *)
Theorem C37_truncation_any_handlers : forall pyfloat outer inner from_state depth,
  outer ValueError = true -> outer IndexError = true -> forall vs k,
  Forall (loadable pyfloat from_state depth) vs ->
  stream pyfloat outer inner from_state depth (firstn k (file_of vs)) =
    (map mirror (fst (complete vs k)), if snd (complete vs k) then Clean else ReadError).
Proof. exact stream_truncated. Qed.
Print Assumptions C37_truncation_any_handlers.

(* what is delivered is a prefix of what was written: no record that is not in vs, none skipped *)
Theorem C37_delivered_is_prefix : forall vs k, exists rest, vs = fst (complete vs k) ++ rest.
Proof. exact complete_prefix. Qed.
Print Assumptions C37_delivered_is_prefix.

(* a cut exactly after j records delivers those j records and ends cleanly ... *)
Theorem C37_boundary_is_clean : forall vs j, (j <= length vs)%nat ->
  complete vs (length (file_of (firstn j vs))) = (firstn j vs, true).
Proof. exact complete_boundary. Qed.
Print Assumptions C37_boundary_is_clean.

(* ... and a clean end happens only there: every cut inside a record is reported as a read error *)
Theorem C37_clean_only_at_boundary : forall vs k, snd (complete vs k) = true ->
  (length (file_of vs) <= k)%nat \/ exists j, (j <= length vs)%nat /\ k = length (file_of (firstn j vs)).
Proof. exact complete_true_boundary. Qed.
Print Assumptions C37_clean_only_at_boundary.

(* stream saving: add = write one complete record + flush, so after every add the file is the
   concatenation of the records added so far and reads back completely and cleanly *)
Theorem C37_after_each_add : forall pyfloat from_state depth vs j,
  Forall (loadable pyfloat from_state depth) vs ->
  stream pyfloat outer_current inner_current from_state depth (file_of (firstn j vs)) =
    (map mirror (firstn j vs), Clean).
Proof. exact (fun pf fs d => stream_after_each_add pf outer_current inner_current fs d eq_refl eq_refl). Qed.
Print Assumptions C37_after_each_add.

Theorem C37_nonvacuous :
  Forall (loadable pf_sample (fun _ => None) 5) [sample; sample2]
  /\ (length (dumps sample) < length (dumps sample) + 4 < length (file_of [sample; sample2]))%nat
  /\ stream pf_sample outer_current inner_current (fun _ => None) 5
       (firstn (length (dumps sample) + 4) (file_of [sample; sample2])) = ([mirror sample], ReadError)
  /\ stream pf_sample outer_current inner_current (fun _ => None) 5
       (firstn (length (dumps sample)) (file_of [sample; sample2])) = ([mirror sample], Clean).
Proof. exact truncation_example. Qed.
Print Assumptions C37_nonvacuous.
