(* Props/C13.v -- ClientHello parsing is total and independent of segmentation.
   Statements only; each is closed by [exact] of a lemma proved in Proofs/ClientHello*.v.
   Model: Model/ClientHello.v (mitmproxy, with fixes/C13-dtls-record-version.diff applied).
   Reference: Model/TlsRef.v (RFC 8446 4.1.2, RFC 6347, RFC 6066, RFC 7301; does not import the model).
   [ace_ok] is the library function encodings.idna.ToUnicode on ACE-prefixed labels; every theorem
   quantifies over it. *)
From Coq Require Import List Bool NArith.
From MV Require Import Base.Bytes Model.ClientHello Model.TlsRef Proofs.ClientHelloMain.
Import ListNotations.
Local Open Scope N_scope.

(* (3) Totality on arbitrary bytes, TLS and DTLS: the outcome is Incomplete (returns None), a ClientHello, or
   Invalid (ValueError); the model's out-of-fuel value is unreachable.  That Python raises nothing else is
   the OOther observable of the correspondence check. *)
Theorem C13_no_other_outcome : forall (dtls : bool) (data : bytes),
  parse_client_hello_gen dtls data = Incomplete
  \/ (exists h, parse_client_hello_gen dtls data = Hello h)
  \/ parse_client_hello_gen dtls data = Invalid.
Proof. exact outcome_exhaustive. Qed.
Print Assumptions C13_no_other_outcome.

(* Segmentation independence for ALL inputs (well-formed or not): ClientTLSLayer, fed any list of
   segments / datagrams and re-parsing its recv_buffer after each, decides exactly what
   parse_client_hello says on the concatenation. *)
Theorem C13_layer_equals_whole : forall (dtls : bool) (segs : list bytes),
  snd (receive_handshake_data dtls [] segs 0) = parse_client_hello_gen dtls (concat segs).
Proof. exact layer_equals_whole. Qed.
Print Assumptions C13_layer_equals_whole.

(* (1) Every well-formed ClientHello (reference grammar), carried in ANY list of well-formed handshake
   records whose fragments concatenate to the handshake message, cut into ANY list of segments, is reported
   as a ClientHello whose SNI, ALPN offers, cipher suites and raw extensions are those of the reference.
   Hypothesis on the library: the IDNA codec accepts the ACE-prefixed labels of the offered server names
   (without it: known finding sni-ace-label-rejected).
   For dtls = true this is the PARTIAL form of the property: the records must carry the bytes of ONE
   unfragmented DTLS handshake message (fragment_offset 0, fragment_length = length); see
   C13_dtls_fragmented_refuted for the complement. *)
Theorem C13_hello_any_split :
  forall (ace_ok : bytes -> bool) (dtls : bool) (r : rhello) (mseq : byte * byte)
         (recs : list (bytes * bytes)) (segs : list bytes),
  wf_hello r ->
  (forall l, In l (sni_labels (exts_list r)) -> starts_with ACE l = true -> ace_ok l = true) ->
  Forall (wf_record dtls) recs -> payloads recs = enc_handshake dtls mseq r ->
  concat segs = stream recs ->
  exists h, snd (receive_handshake_data dtls [] segs 0) = Hello h
            /\ sni ace_ok h = ref_sni r /\ alpn_protocols h = ref_alpn r
            /\ cipher_suites h = ref_ciphers r /\ extensions h = ref_exts r.
Proof. exact hello_any_split. Qed.
Print Assumptions C13_hello_any_split.

(* the same for the parser called directly on the whole stream *)
Theorem C13_hello_any_records :
  forall (ace_ok : bytes -> bool) (dtls : bool) (r : rhello) (mseq : byte * byte) (recs : list (bytes * bytes)),
  wf_hello r ->
  (forall l, In l (sni_labels (exts_list r)) -> starts_with ACE l = true -> ace_ok l = true) ->
  Forall (wf_record dtls) recs -> payloads recs = enc_handshake dtls mseq r ->
  exists h, parse_client_hello_gen dtls (stream recs) = Hello h
            /\ sni ace_ok h = ref_sni r /\ alpn_protocols h = ref_alpn r
            /\ cipher_suites h = ref_ciphers r /\ extensions h = ref_exts r.
Proof. exact hello_any_records. Qed.
Print Assumptions C13_hello_any_records.

(* (2) Every strict prefix of such a record stream is Incomplete (never Invalid, never a hello). *)
Theorem C13_prefix_incomplete :
  forall (dtls : bool) (r : rhello) (mseq : byte * byte) (recs : list (bytes * bytes)) (q t : bytes),
  wf_hello r -> Forall (wf_record dtls) recs -> payloads recs = enc_handshake dtls mseq r ->
  t <> [] -> q ++ t = stream recs ->
  parse_client_hello_gen dtls q = Incomplete.
Proof. exact prefix_incomplete. Qed.
Print Assumptions C13_prefix_incomplete.

(* The full property is FALSE for DTLS: a well-formed hello sent as two RFC 6347 4.2.3 handshake fragments
   (each record with its own fragment header) is rejected as Invalid (known finding dtls-fragmented-hello) ... *)
Theorem C13_dtls_fragmented_refuted :
  exists r mseq k,
    wf_hello r /\ (0 < k < length (enc_hello true r))%nat
    /\ let body := enc_hello true r in
       let recs := [dtls_rec (enc_fragment mseq body 0 k); dtls_rec (enc_fragment mseq body k (length body - k))] in
       Forall (wf_record true) recs
       /\ parse_client_hello_gen true (stream recs) = Invalid.
Proof. exact dtls_fragmented_refuted. Qed.
Print Assumptions C13_dtls_fragmented_refuted.

(* ... or, cut right after the compression methods, accepted as a hello WITHOUT extensions: the SNI is lost. *)
Theorem C13_dtls_fragmented_loses_sni_refuted :
  exists r mseq k,
    wf_hello r /\ (0 < k < length (enc_hello true r))%nat
    /\ let body := enc_hello true r in
       let recs := [dtls_rec (enc_fragment mseq body 0 k); dtls_rec (enc_fragment mseq body k (length body - k))] in
       Forall (wf_record true) recs
       /\ exists h, parse_client_hello_gen true (stream recs) = Hello h
                    /\ sni (fun _ => true) h = None /\ ref_sni r <> None.
Proof. exact dtls_fragmented_loses_sni. Qed.
Print Assumptions C13_dtls_fragmented_loses_sni_refuted.

(* The hypotheses of C13_hello_any_split are satisfiable on a non-trivial value: a hello with a GREASE
   extension, SNI www.example.com, two ALPN protocols and supported_versions, in three records cut into
   three segments that do not align with the records; the layer decides at the third segment. *)
Theorem C13_nonvacuous :
  wf_hello ex_hello
  /\ Forall (wf_record false) ex_recs /\ payloads ex_recs = enc_handshake false (x00, x00) ex_hello
  /\ concat ex_segs = stream ex_recs
  /\ (forall l, In l (sni_labels (exts_list ex_hello)) -> starts_with ACE l = true -> (fun _ => false) l = true)
  /\ ref_sni ex_hello = Some (join_dot ex_host_labels) /\ length (ref_exts ex_hello) = 4%nat
  /\ fst (receive_handshake_data false [] ex_segs 0) = 2.
Proof. exact nonvacuous. Qed.
Print Assumptions C13_nonvacuous.
