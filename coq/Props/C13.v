(* Props/C13.v -- placeholder while the correspondence is brought up *)
From Coq Require Import List Bool NArith.
From MV Require Import Base.Bytes Model.ClientHello.
