(* Props/C54.v -- Sticky cookies are only sent to hosts and paths they belong to.
   Statements only; each is closed by [exact] of a lemma proved in Proofs/StickyCookie*.v.
   The model has two variants of stickycookie.domain_match and of the path test:
     Fixed = the tree with fixes/C54-domain-suffix-path-segment.diff (full theorems),
     Orig  = the unchanged tree (refuted + partial; three known findings).
   Specification (Proofs/StickyCookieSpec.v): rfc_domain_match (RFC 6265 5.1.3), rfc_cookie_domain (5.2.3),
   rfc_path_match (5.1.4) on uri_path_of (the request target up to the first question mark), is_ip_address. *)
From Coq Require Import List Bool NArith.
From MV Require Import Base.Bytes Model.StickyCookie Proofs.StickyCookieSpec Proofs.StickyCookieMain.
Import ListNotations.

(* Repaired code.  For every history h (responses with arbitrary parsed Set-Cookie entries, requests), filter
   setting, and request (host, port, path): every pair (n, val) the request hook puts into the Cookie header
   was set by a non-expired Set-Cookie entry c of a response in h on the same port, whose key domain d
   (Domain attribute, else the responding host) is domain-matched by the responding host and by the request
   host, and whose key path cp is path-matched by the request path. *)
Theorem C54_attached_only_if_match :
  forall (flt_on : bool) (h : list event) (host : str) (port : N) (path : str)
         (l : list (str * option str)) (n : str) (val : option str),
  request_loop Fixed host port path (run Fixed flt_on h) = Some l -> In (n, val) l ->
  exists rhost cs c d cp,
    In (Resp rhost port cs) h /\ In c cs
    /\ c_name c = n /\ c_value c = val /\ c_expired c = Some false
    /\ ckey c rhost port = (Some d, port, Some cp)
    /\ rfc_domain_match (lower rhost) (rfc_cookie_domain d)
    /\ rfc_domain_match (lower host) (rfc_cookie_domain d)
    /\ exists u, uri_path_of u path /\ rfc_path_match u cp.
Proof. exact fixed_attached_only_if_match. Qed.
Print Assumptions C54_attached_only_if_match.

(* The same at the observable: the Cookie header after the hook is the one the client sent, or the formatted
   list of such pairs (and then the filter is set and matches the flow). *)
Theorem C54_header_only_if_match :
  forall (flt_on fmatch : bool) (h : list event) (host : str) (port : N) (path : str) (orig hdr : option str),
  request Fixed flt_on fmatch host port path orig (run Fixed flt_on h) = Some hdr ->
  hdr = orig \/
  exists l, hdr = Some (format_cookie_header l) /\ flt_on = true /\ fmatch = true /\
    forall n val, In (n, val) l ->
    exists rhost cs c d cp,
      In (Resp rhost port cs) h /\ In c cs
      /\ c_name c = n /\ c_value c = val /\ c_expired c = Some false
      /\ ckey c rhost port = (Some d, port, Some cp)
      /\ rfc_domain_match (lower rhost) (rfc_cookie_domain d)
      /\ rfc_domain_match (lower host) (rfc_cookie_domain d)
      /\ exists u, uri_path_of u path /\ rfc_path_match u cp.
Proof. exact fixed_header_only_if_match. Qed.
Print Assumptions C54_header_only_if_match.

(* A Set-Cookie entry whose Domain does not domain-match the responding host does nothing; a response made of
   such entries leaves any jar unchanged; a deletion is only accepted for a domain the host domain-matches. *)
Theorem C54_foreign_cookie_not_stored :
  forall (host : str) (port : N) (c : cookie) (d : str) (q : option str),
  ckey c host port = (Some d, port, q) ->
  ~ rfc_domain_match (lower host) (rfc_cookie_domain d) ->
  cookie_action Fixed host port c = ASkip.
Proof. exact foreign_cookie_ignored_fixed. Qed.
Print Assumptions C54_foreign_cookie_not_stored.

Theorem C54_foreign_response_leaves_jar :
  forall (flt_on : bool) (host : str) (port : N) (cs : list cookie) (j : jar),
  (forall c, In c cs -> exists d q, ckey c host port = (Some d, port, q)
                                    /\ ~ rfc_domain_match (lower host) (rfc_cookie_domain d)) ->
  response Fixed flt_on host port cs j = (j, true).
Proof. exact foreign_response_leaves_jar_fixed. Qed.
Print Assumptions C54_foreign_response_leaves_jar.

Theorem C54_delete_only_if_match :
  forall (host : str) (port : N) (c : cookie) (k : key) (n : str),
  cookie_action Fixed host port c = ADel k n ->
  exists d q, k = (d, port, q) /\ rfc_domain_match (lower host) (rfc_cookie_domain d).
Proof. exact delete_only_if_match_fixed. Qed.
Print Assumptions C54_delete_only_if_match.

(* Expired cookies are removed (both variants): an expired entry that the addon accepts from the host is a
   deletion, and after any history a completed response carrying it (not set again later in that response)
   leaves no binding under its key and name. *)
Theorem C54_expired_is_deletion :
  forall (v : variant) (host : str) (port : N) (c : cookie) (d : str) (q : option str),
  ckey c host port = (Some d, port, q) -> domain_match v host d = true -> c_expired c = Some true ->
  cookie_action v host port c = ADel (d, port, q) (c_name c).
Proof. exact cookie_action_expired. Qed.
Print Assumptions C54_expired_is_deletion.

Theorem C54_expired_removed :
  forall (v : variant) (h : list event) (host : str) (port : N) (cs1 : list cookie) (c : cookie)
         (cs2 : list cookie) (k : key) (n : str),
  cookie_action v host port c = ADel k n ->
  (forall c' val, In c' cs2 -> cookie_action v host port c' <> ASet k n val) ->
  snd (response v true host port (cs1 ++ c :: cs2) (run v true h)) = true ->
  forall val, ~ jar_has (run v true (h ++ [Resp host port (cs1 ++ c :: cs2)])) k n val.
Proof. exact expired_removed. Qed.
Print Assumptions C54_expired_removed.

(* Host-only cookies: if no response of the history carries a Domain attribute and no responding host starts
   with a dot, an attached pair comes from a response of the same host (up to ASCII case) and port. *)
Theorem C54_host_only :
  forall (flt_on : bool) (h : list event) (host : str) (port : N) (path : str)
         (l : list (str * option str)) (n : str) (val : option str),
  request_loop Fixed host port path (run Fixed flt_on h) = Some l -> In (n, val) l ->
  (forall rhost p cs c, In (Resp rhost p cs) h -> In c cs -> c_domain c = None /\ first_is DOT (lower rhost) = false) ->
  exists rhost cs, In (Resp rhost port cs) h /\ lower rhost = lower host.
Proof. exact fixed_host_only. Qed.
Print Assumptions C54_host_only.

(* Unchanged code: the full statement is false.  Witness 1 (finding domain-inner-substring):
   www.example.com:80 sets sid=1 with Domain=.example.com; the request to a.example.com.evil.org:80 gets it,
   although no jar entry holding that pair has a domain the request host domain-matches. *)
Theorem C54_unchanged_refuted_domain :
  exists l, request_loop Orig s_evil_host 80 [SLASH] (run Orig true refute_history_dom) = Some l
    /\ In (s_sid, Some [x31]) l
    /\ forall d cp, jar_has (run Orig true refute_history_dom) (d, 80%N, Some cp) s_sid (Some [x31]) ->
         ~ rfc_domain_match (lower s_evil_host) (rfc_cookie_domain d).
Proof. exact orig_refuted_domain. Qed.
Print Assumptions C54_unchanged_refuted_domain.

(* Witness 2 (finding path-prefix-not-segment): the cookie has Path=/foo, the request is for /foobar. *)
Theorem C54_unchanged_refuted_path :
  exists l, request_loop Orig s_www 80 s_foobar (run Orig true refute_history_path) = Some l
    /\ In (s_sid, Some [x31]) l
    /\ forall d cp, jar_has (run Orig true refute_history_path) (d, 80%N, Some cp) s_sid (Some [x31]) ->
         forall u, uri_path_of u s_foobar -> ~ rfc_path_match u cp.
Proof. exact orig_refuted_path. Qed.
Print Assumptions C54_unchanged_refuted_path.

(* Unchanged code, partial: the conclusion of C54_attached_only_if_match holds for each of its three matching
   parts outside the findings: no_dom_finding a b = neither dom_inner_substring (cookiejar.domain_match accepts
   but lower a does not end with lower b) nor dom_extra_dots (lower a is lower b stripped of all leading and
   trailing dots, and that is not lower b minus one leading dot); no_path_finding t cp = the cookie path ends
   inside the URI path of t at a segment boundary (path_segment_boundary). *)
Theorem C54_unchanged_partial :
  forall (flt_on : bool) (h : list event) (host : str) (port : N) (path : str)
         (l : list (str * option str)) (n : str) (val : option str),
  request_loop Orig host port path (run Orig flt_on h) = Some l -> In (n, val) l ->
  exists rhost cs c d cp,
    In (Resp rhost port cs) h /\ In c cs
    /\ c_name c = n /\ c_value c = val /\ c_expired c = Some false
    /\ ckey c rhost port = (Some d, port, Some cp)
    /\ (no_dom_finding rhost d -> rfc_domain_match (lower rhost) (rfc_cookie_domain d))
    /\ (no_dom_finding host d -> rfc_domain_match (lower host) (rfc_cookie_domain d))
    /\ (no_path_finding path cp -> exists u, uri_path_of u path /\ rfc_path_match u cp).
Proof. exact attached_only_if_match_orig_partial. Qed.
Print Assumptions C54_unchanged_partial.

(* The guard is exact on the domain side: whatever the unchanged domain_match accepts is accepted by the
   repaired one or is one of the two findings, and both findings are accepted by the unchanged code. *)
Theorem C54_unchanged_findings_exact :
  forall a b : str,
  (domain_match Orig a b = true ->
     domain_match Fixed a b = true \/ dom_inner_substring a b = true \/ dom_extra_dots a b = true)
  /\ (dom_inner_substring a b = true \/ dom_extra_dots a b = true -> domain_match Orig a b = true).
Proof. exact (fun a b => conj (domain_match_orig_decompose a b) (dom_findings_are_orig a b)). Qed.
Print Assumptions C54_unchanged_findings_exact.

Theorem C54_unchanged_foreign_cookie_partial :
  forall (host : str) (port : N) (c : cookie) (d : str) (q : option str),
  ckey c host port = (Some d, port, q) -> no_dom_finding host d ->
  ~ rfc_domain_match (lower host) (rfc_cookie_domain d) ->
  cookie_action Orig host port c = ASkip.
Proof. exact foreign_cookie_ignored_orig_partial. Qed.
Print Assumptions C54_unchanged_foreign_cookie_partial.

(* Non-vacuity: a concrete history after which the repaired request hook attaches sid=1 and a=2 to
   www.example.com:80/foo/x?q, nothing to a.example.com.evil.org, only a=2 to /foobar, nothing on port 443. *)
Theorem C54_nonvacuous :
  request_loop Fixed s_www 80 (s_foo ++ [x2f;x78;x3f;x71]) (run Fixed true nv_history)
    = Some [(s_sid, Some [x31]); ([x61], Some [x32])]
  /\ request Fixed true true s_www 80 (s_foo ++ [x2f;x78;x3f;x71]) None (run Fixed true nv_history)
     = Some (Some [x73;x69;x64;x3d;x31;x3b;x20;x61;x3d;x32])
  /\ request_loop Fixed s_evil_host 80 s_foo (run Fixed true nv_history) = Some []
  /\ request_loop Fixed s_www 80 s_foobar (run Fixed true nv_history) = Some [([x61], Some [x32])]
  /\ request_loop Fixed s_www 443 s_foo (run Fixed true nv_history) = Some [].
Proof. exact nonvacuous. Qed.
Print Assumptions C54_nonvacuous.
