From Coq Require Import List Bool NArith.
From MV Require Import Base.Bytes Model.StickyCookie.
Theorem C54_stub : True. Proof. exact I. Qed.
Print Assumptions C54_stub.
