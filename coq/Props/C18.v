(* Props/C18.v — ALPN negotiation with the client is consistent with offers and upstream.
   Statements only; each is closed by [exact] of a lemma of Proofs/AlpnC18.v.
   alpn_select_callback, AppData, HTTP_ALPNS, HTTP1_ALPNS are the definitions GENERATED from
   /repo by harness/translators/alpn_select.py (Gen/AlpnSelect.v): an edit of the Python
   changes the subject of these theorems.  tls_start_client_app_data / tls_start_server_offers
   are the hand model (Model/Alpn.v).  lit_h2 and lit_http11 are the byte strings h2 and http/1.1.
   Everything is for arbitrary byte strings and arbitrary lists. *)
From Coq Require Import List Bool Arith.
From MV Require Import Base.Bytes Model.AlpnPrelude Gen.AlpnSelect Gen.ClientTlsReset Model.Alpn Proofs.AlpnC18.
Import ListNotations.

(* Clause 1: the selected protocol is always one the client offered (or none) ... *)
Theorem C18_selected_offered : forall (ad : AppData) (options p : _),
  alpn_select_callback ad options = Sel p -> In p options.
Proof. exact selected_offered. Qed.
Print Assumptions C18_selected_offered.

(* ... and the callback never returns Python None (which pyOpenSSL would reject). *)
Theorem C18_never_none : forall (ad : AppData) (options : list bytes),
  alpn_select_callback ad options <> RetNone.
Proof. exact never_none. Qed.
Print Assumptions C18_never_none.

(* A preset client_alpn is the only protocol that can be selected; exact outcome. *)
Theorem C18_client_alpn_exact : forall (ad : AppData) (options : list bytes) (a : bytes),
  client_alpn ad = Some a ->
  (In a options -> alpn_select_callback ad options = Sel a)
  /\ (~ In a options -> alpn_select_callback ad options = NO_OVERLAPPING_PROTOCOLS).
Proof. exact client_alpn_exact. Qed.
Print Assumptions C18_client_alpn_exact.

(* Clause 4: on a secure web proxy outer connection only http/1.1 is selected.
   (a) Whenever the test in tls_start_client fires (either variant of the hook, see Model/Alpn.v),
       the result is http/1.1 or none, whatever client.alpn, server.alpn, http2 and the offers are. *)
Theorem C18_secure_web_proxy_outer : forall (fixed : bool) (layers : list layer_kind) (ca sa : option bytes)
    (h : bool) (options : list bytes),
  is_outer fixed layers = true ->
  let r := alpn_select_callback (tls_start_client_app_data fixed layers ca sa h) options in
  r = Sel lit_http11 \/ r = NO_OVERLAPPING_PROTOCOLS.
Proof. exact secure_web_proxy_outer. Qed.
Print Assumptions C18_secure_web_proxy_outer.

(* (b) FINDING (known, secure-web-proxy-outer-h2-real-stack).  The CURRENT test, len(layers) == 2, does not
       fire on the stack NextLayer really builds for a secure web proxy (HttpProxy, ClientTLSLayer, HttpLayer:
       three layers when tls_start_client runs): offers [h2; http/1.1] select h2 on the outer connection. *)
Theorem C18_secure_web_proxy_real_stack_refuted :
  exists options,
    is_outer false [LHttpProxy; LClientTLS; LOther] = false
    /\ alpn_select_callback (tls_start_client_app_data false [LHttpProxy; LClientTLS; LOther] None None true) options
       = Sel lit_h2.
Proof. exact secure_web_proxy_real_stack_orig_refuted. Qed.
Print Assumptions C18_secure_web_proxy_real_stack_refuted.

(* (c) partial, guard = complement of the finding: the current test fires on two-layer stacks (the unit test shape). *)
Theorem C18_secure_web_proxy_outer_partial : forall (k1 : layer_kind), is_outer false [LHttpProxy; k1] = true.
Proof. exact outer_orig_two_layers. Qed.
Print Assumptions C18_secure_web_proxy_outer_partial.

(* (d) The REPAIRED test (fixes/C18-secure-web-proxy-real-stack.diff) fires on every stack that starts with
       HttpProxy and has no ClientTLSLayer beyond index 1, and never on a tunnelled connection or another mode. *)
Theorem C18_secure_web_proxy_outer_fixed : forall (k1 : layer_kind) (rest : list layer_kind),
  existsb is_client_tls rest = false -> is_outer true (LHttpProxy :: k1 :: rest) = true.
Proof. exact outer_fixed_real_stack. Qed.
Print Assumptions C18_secure_web_proxy_outer_fixed.

Theorem C18_fixed_not_inner : forall (k0 k1 : layer_kind) (rest : list layer_kind),
  existsb is_client_tls rest = true \/ k0 <> LHttpProxy -> is_outer true (k0 :: k1 :: rest) = false.
Proof. exact outer_fixed_not_inner. Qed.
Print Assumptions C18_fixed_not_inner.

(* Nested client TLS (secure web proxy: outer TLS established, then the inner ClientTLSLayer is constructed on
   the SAME client connection).  CLIENT_TLS_RESET is GENERATED from ClientTLSLayer.__init__: the reset list must
   contain alpn and alpn_offers, so the outer connection's negotiated protocol does not survive ... *)
Theorem C18_nested_reset : forall (st : client_tls_state),
  c_tls st = true ->
  c_alpn (client_tls_layer_init st) = None
  /\ c_alpn_offers (client_tls_layer_init st) = []
  /\ c_tls (client_tls_layer_init st) = true.
Proof. exact nested_reset. Qed.
Print Assumptions C18_nested_reset.

(* ... and the tunnelled client gets exactly the known, reachable upstream protocol (clauses 2+3 for the
   nested case), whatever was negotiated or offered on the outer connection. *)
Theorem C18_nested_upstream_known : forall (st : client_tls_state) (fixed : bool) (layers : list layer_kind)
    (h : bool) (options : list bytes) (s : bytes),
  c_tls st = true -> is_outer fixed layers = false -> reach options h (Some s) ->
  let r := alpn_select_callback
             (tls_start_client_app_data fixed layers (c_alpn (client_tls_layer_init st)) (Some s) h) options in
  (r = Sel s \/ r = NO_OVERLAPPING_PROTOCOLS)
  /\ (s <> [] -> r = Sel s) /\ (s = [] -> r = NO_OVERLAPPING_PROTOCOLS)
  /\ (h = false -> r <> Sel lit_h2).
Proof. exact nested_upstream_known. Qed.
Print Assumptions C18_nested_upstream_known.

(* non-vacuous: stale outer http/1.1, upstream h2 offered: with the reset the client gets h2; the last
   conjunct shows what a missing reset would do (http/1.1) *)
Theorem C18_nested_nonvacuous :
  is_outer false inner_stack = false /\ is_outer true inner_stack = false
  /\ reach [lit_h2; lit_http11] true (Some lit_h2)
  /\ alpn_select_callback
       (tls_start_client_app_data false inner_stack (c_alpn (client_tls_layer_init stale_outer_state)) (Some lit_h2) true)
       [lit_h2; lit_http11] = Sel lit_h2
  /\ alpn_select_callback
       (tls_start_client_app_data false inner_stack (c_alpn stale_outer_state) (Some lit_h2) true)
       [lit_h2; lit_http11] = Sel lit_http11.
Proof. exact nested_nonvacuous. Qed.
Print Assumptions C18_nested_nonvacuous.

(* The lemma about tls_start_server behind the reachability hypothesis: with no preset offers it
   offers upstream exactly the client offers, minus h2 when http2 is off. *)
Theorem C18_upstream_offers : forall (pre : option (list bytes)) (offers : list bytes) (h : bool) (p : bytes),
  py_truthy_offers pre = false ->
  (In p (tls_start_server_offers pre offers h) <-> In p offers /\ (h = false -> p <> lit_h2)).
Proof. exact upstream_offers_pre. Qed.
Print Assumptions C18_upstream_offers.

(* Clause 2 (system level): the upstream protocol is known and reachable (see [reach] in
   Proofs/AlpnC18.v: nothing negotiated, or a member of the offers tls_start_server derived from the
   same client offers and http2 flag) -> the client gets exactly that protocol, or none when the
   server negotiated none. *)
Theorem C18_upstream_known : forall (ad : AppData) (options : list bytes) (s : bytes),
  client_alpn ad = None -> server_alpn ad = Some s -> reach options (http2 ad) (Some s) ->
  (alpn_select_callback ad options = Sel s \/ alpn_select_callback ad options = NO_OVERLAPPING_PROTOCOLS)
  /\ (s <> [] -> alpn_select_callback ad options = Sel s)
  /\ (s = [] -> alpn_select_callback ad options = NO_OVERLAPPING_PROTOCOLS).
Proof. exact upstream_known_full. Qed.
Print Assumptions C18_upstream_known.

(* Clause 3 (system level): http2 off, AppData as tls_start_client builds it while client.alpn is
   unset, upstream protocol reachable -> h2 is never selected. *)
Theorem C18_no_h2_when_disabled : forall (fixed : bool) (layers : list layer_kind) (sa : option bytes) (options : list bytes),
  reach options false sa ->
  alpn_select_callback (tls_start_client_app_data fixed layers None sa false) options <> Sel lit_h2.
Proof. exact no_h2_when_disabled_system. Qed.
Print Assumptions C18_no_h2_when_disabled.

(* Clauses 2+3 end to end, with the upstream handshake as an arbitrary function that can only
   negotiate nothing or a protocol that was offered (the OpenSSL contract). *)
Theorem C18_end_to_end : forall (upstream_select : list bytes -> bytes),
  (forall l, upstream_select l = [] \/ In (upstream_select l) l) ->
  forall (fixed : bool) (layers : list layer_kind) (h : bool) (options : list bytes) (pre : option (list bytes)),
    is_outer fixed layers = false -> py_truthy_offers pre = false ->
    let s := upstream_select (tls_start_server_offers pre options h) in
    let r := alpn_select_callback (tls_start_client_app_data fixed layers None (Some s) h) options in
    (s <> [] -> r = Sel s) /\ (s = [] -> r = NO_OVERLAPPING_PROTOCOLS)
    /\ (h = false -> r <> Sel lit_h2).
Proof. exact end_to_end. Qed.
Print Assumptions C18_end_to_end.

(* Nothing preset: the first client offer that is a known HTTP protocol wins (client preference). *)
Theorem C18_default_first_match : forall (ad : AppData) (options : list bytes),
  client_alpn ad = None -> server_alpn ad = None ->
  let known := if http2 ad then HTTP_ALPNS else HTTP1_ALPNS in
  (exists pre p post, options = pre ++ p :: post /\ alpn_select_callback ad options = Sel p
      /\ In p known /\ forall y, In y pre -> ~ In y known)
  \/ (alpn_select_callback ad options = NO_OVERLAPPING_PROTOCOLS /\ forall y, In y options -> ~ In y known).
Proof. exact default_first_match. Qed.
Print Assumptions C18_default_first_match.

(* The reachability hypothesis cannot be dropped: for the callback ALONE clauses 2 and 3 are false
   (server_alpn = h2 with offers [http/1.1] selects http/1.1; http2 off, server_alpn = h2, offers
   [h2; http/1.1] selects h2).  Neither input satisfies [reach]; an addon that presets
   server.alpn_offers can produce them.  C18_upstream_known / C18_no_h2_when_disabled are the
   partial statements, guarded by exactly [reach]. *)
Theorem C18_upstream_without_reach_refuted :
  exists ad options s, client_alpn ad = None /\ server_alpn ad = Some s
    /\ alpn_select_callback ad options <> Sel s
    /\ alpn_select_callback ad options <> NO_OVERLAPPING_PROTOCOLS.
Proof. exact upstream_clause_needs_reach. Qed.
Print Assumptions C18_upstream_without_reach_refuted.

Theorem C18_http2_without_reach_refuted :
  exists ad options, http2 ad = false /\ client_alpn ad = None
    /\ alpn_select_callback ad options = Sel lit_h2.
Proof. exact http2_clause_needs_reach. Qed.
Print Assumptions C18_http2_without_reach_refuted.

(* Hypotheses are satisfiable on non-trivial values (h2 negotiated upstream and mirrored; h2
   filtered when http2 is off; http/1.1 forced on the secure web proxy outer connection). *)
Theorem C18_nonvacuous :
  reach [lit_h2; lit_http11] true (Some lit_h2)
  /\ alpn_select_callback (tls_start_client_app_data false [LHttpProxy; LOther; LOther; LClientTLS] None (Some lit_h2) true) [lit_h2; lit_http11] = Sel lit_h2
  /\ tls_start_server_offers None [lit_h2; lit_http11] false = [lit_http11]
  /\ reach [lit_h2; lit_http11] false (Some lit_http11)
  /\ alpn_select_callback (tls_start_client_app_data false [LHttpProxy; LOther; LOther; LClientTLS] None (Some lit_http11) false) [lit_h2; lit_http11] = Sel lit_http11
  /\ alpn_select_callback (tls_start_client_app_data false [LHttpProxy; LClientTLS] None None true) [lit_h2; lit_http11] = Sel lit_http11.
Proof. exact nonvacuous. Qed.
Print Assumptions C18_nonvacuous.

(* Additional BOUNDED check (not the proof): all clauses evaluated by vm_compute on every offer list
   of length <= 4 over the 6 protocol classes (1555 lists) x 8 server_alpn x 7 client_alpn x http2. *)
Theorem C18_sweep_classes_le4 : length (lists_upto 4) = 1555 /\ sweep 4 = true.
Proof. exact sweep_4. Qed.
Print Assumptions C18_sweep_classes_le4.
