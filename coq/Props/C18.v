(* Props/C18.v — ALPN negotiation with the client is consistent with offers and upstream.
   Statements only; each is closed by [exact] of a lemma of Proofs/AlpnC18.v.
   alpn_select_callback, AppData, HTTP_ALPNS, HTTP1_ALPNS are the definitions GENERATED from
   /repo by harness/translators/alpn_select.py (Gen/AlpnSelect.v): an edit of the Python
   changes the subject of these theorems.  tls_start_client_app_data / tls_start_server_offers
   are the hand model (Model/Alpn.v).  lit_h2 and lit_http11 are the byte strings h2 and http/1.1.
   Everything is for arbitrary byte strings and arbitrary lists. *)
From Coq Require Import List Bool Arith.
From MV Require Import Base.Bytes Model.AlpnPrelude Gen.AlpnSelect Model.Alpn Proofs.AlpnC18.
Import ListNotations.

(* Clause 1: the selected protocol is always one the client offered (or none) ... *)
Theorem C18_selected_offered : forall (ad : AppData) (options p : _),
  alpn_select_callback ad options = Sel p -> In p options.
Proof. exact selected_offered. Qed.
Print Assumptions C18_selected_offered.

(* ... and the callback never returns Python None (which pyOpenSSL would reject). *)
Theorem C18_never_none : forall (ad : AppData) (options : list bytes),
  alpn_select_callback ad options <> RetNone.
Proof. exact never_none. Qed.
Print Assumptions C18_never_none.

(* A preset client_alpn is the only protocol that can be selected; exact outcome. *)
Theorem C18_client_alpn_exact : forall (ad : AppData) (options : list bytes) (a : bytes),
  client_alpn ad = Some a ->
  (In a options -> alpn_select_callback ad options = Sel a)
  /\ (~ In a options -> alpn_select_callback ad options = NO_OVERLAPPING_PROTOCOLS).
Proof. exact client_alpn_exact. Qed.
Print Assumptions C18_client_alpn_exact.

(* Clause 4: on a secure web proxy outer connection (len(layers) = 2, layers[0] an HttpProxy)
   only http/1.1 is selected, whatever client.alpn, server.alpn, http2 and the offers are. *)
Theorem C18_secure_web_proxy_outer : forall (ca sa : option bytes) (h : bool) (options : list bytes),
  let r := alpn_select_callback (tls_start_client_app_data 2 true ca sa h) options in
  r = Sel lit_http11 \/ r = NO_OVERLAPPING_PROTOCOLS.
Proof. exact secure_web_proxy_outer. Qed.
Print Assumptions C18_secure_web_proxy_outer.

(* The lemma about tls_start_server behind the reachability hypothesis: with no preset offers it
   offers upstream exactly the client offers, minus h2 when http2 is off. *)
Theorem C18_upstream_offers : forall (pre : option (list bytes)) (offers : list bytes) (h : bool) (p : bytes),
  py_truthy_offers pre = false ->
  (In p (tls_start_server_offers pre offers h) <-> In p offers /\ (h = false -> p <> lit_h2)).
Proof. exact upstream_offers_pre. Qed.
Print Assumptions C18_upstream_offers.

(* Clause 2 (system level): the upstream protocol is known and reachable (see [reach] in
   Proofs/AlpnC18.v: nothing negotiated, or a member of the offers tls_start_server derived from the
   same client offers and http2 flag) -> the client gets exactly that protocol, or none when the
   server negotiated none. *)
Theorem C18_upstream_known : forall (ad : AppData) (options : list bytes) (s : bytes),
  client_alpn ad = None -> server_alpn ad = Some s -> reach options (http2 ad) (Some s) ->
  (alpn_select_callback ad options = Sel s \/ alpn_select_callback ad options = NO_OVERLAPPING_PROTOCOLS)
  /\ (s <> [] -> alpn_select_callback ad options = Sel s)
  /\ (s = [] -> alpn_select_callback ad options = NO_OVERLAPPING_PROTOCOLS).
Proof. exact upstream_known_full. Qed.
Print Assumptions C18_upstream_known.

(* Clause 3 (system level): http2 off, AppData as tls_start_client builds it while client.alpn is
   unset, upstream protocol reachable -> h2 is never selected. *)
Theorem C18_no_h2_when_disabled : forall (n : nat) (l0 : bool) (sa : option bytes) (options : list bytes),
  reach options false sa ->
  alpn_select_callback (tls_start_client_app_data n l0 None sa false) options <> Sel lit_h2.
Proof. exact no_h2_when_disabled_system. Qed.
Print Assumptions C18_no_h2_when_disabled.

(* Clauses 2+3 end to end, with the upstream handshake as an arbitrary function that can only
   negotiate nothing or a protocol that was offered (the OpenSSL contract). *)
Theorem C18_end_to_end : forall (upstream_select : list bytes -> bytes),
  (forall l, upstream_select l = [] \/ In (upstream_select l) l) ->
  forall (n : nat) (l0 h : bool) (options : list bytes) (pre : option (list bytes)),
    (n =? 2) && l0 = false -> py_truthy_offers pre = false ->
    let s := upstream_select (tls_start_server_offers pre options h) in
    let r := alpn_select_callback (tls_start_client_app_data n l0 None (Some s) h) options in
    (s <> [] -> r = Sel s) /\ (s = [] -> r = NO_OVERLAPPING_PROTOCOLS)
    /\ (h = false -> r <> Sel lit_h2).
Proof. exact end_to_end. Qed.
Print Assumptions C18_end_to_end.

(* Nothing preset: the first client offer that is a known HTTP protocol wins (client preference). *)
Theorem C18_default_first_match : forall (ad : AppData) (options : list bytes),
  client_alpn ad = None -> server_alpn ad = None ->
  let known := if http2 ad then HTTP_ALPNS else HTTP1_ALPNS in
  (exists pre p post, options = pre ++ p :: post /\ alpn_select_callback ad options = Sel p
      /\ In p known /\ forall y, In y pre -> ~ In y known)
  \/ (alpn_select_callback ad options = NO_OVERLAPPING_PROTOCOLS /\ forall y, In y options -> ~ In y known).
Proof. exact default_first_match. Qed.
Print Assumptions C18_default_first_match.

(* The reachability hypothesis cannot be dropped: for the callback ALONE clauses 2 and 3 are false
   (server_alpn = h2 with offers [http/1.1] selects http/1.1; http2 off, server_alpn = h2, offers
   [h2; http/1.1] selects h2).  Neither input satisfies [reach]; an addon that presets
   server.alpn_offers can produce them.  C18_upstream_known / C18_no_h2_when_disabled are the
   partial statements, guarded by exactly [reach]. *)
Theorem C18_upstream_without_reach_refuted :
  exists ad options s, client_alpn ad = None /\ server_alpn ad = Some s
    /\ alpn_select_callback ad options <> Sel s
    /\ alpn_select_callback ad options <> NO_OVERLAPPING_PROTOCOLS.
Proof. exact upstream_clause_needs_reach. Qed.
Print Assumptions C18_upstream_without_reach_refuted.

Theorem C18_http2_without_reach_refuted :
  exists ad options, http2 ad = false /\ client_alpn ad = None
    /\ alpn_select_callback ad options = Sel lit_h2.
Proof. exact http2_clause_needs_reach. Qed.
Print Assumptions C18_http2_without_reach_refuted.

(* Hypotheses are satisfiable on non-trivial values (h2 negotiated upstream and mirrored; h2
   filtered when http2 is off; http/1.1 forced on the secure web proxy outer connection). *)
Theorem C18_nonvacuous :
  reach [lit_h2; lit_http11] true (Some lit_h2)
  /\ alpn_select_callback (tls_start_client_app_data 4 false None (Some lit_h2) true) [lit_h2; lit_http11] = Sel lit_h2
  /\ tls_start_server_offers None [lit_h2; lit_http11] false = [lit_http11]
  /\ reach [lit_h2; lit_http11] false (Some lit_http11)
  /\ alpn_select_callback (tls_start_client_app_data 4 false None (Some lit_http11) false) [lit_h2; lit_http11] = Sel lit_http11
  /\ alpn_select_callback (tls_start_client_app_data 2 true None None true) [lit_h2; lit_http11] = Sel lit_http11.
Proof. exact nonvacuous. Qed.
Print Assumptions C18_nonvacuous.

(* Additional BOUNDED check (not the proof): all clauses evaluated by vm_compute on every offer list
   of length <= 4 over the 6 protocol classes (1555 lists) x 8 server_alpn x 7 client_alpn x http2. *)
Theorem C18_sweep_classes_le4 : length (lists_upto 4) = 1555 /\ sweep 4 = true.
Proof. exact sweep_4. Qed.
Print Assumptions C18_sweep_classes_le4.
