(* Props/C14.v -- TLS interception is byte-transparent after the handshake.
   Model: Model/TlsTunnel.v (TunnelLayer + TLSLayer/ClientTLSLayer/ServerTLSLayer glue over an abstract
   OpenSSL connection object R and an arbitrary child layer), with fixes/C14-close-once.diff applied.
   run ... s evs feeds the events evs to the layer in state s and returns the final state and the trace
   (TCmd c: command yielded, TChild e: event given to the child, TFromChild c: command of the child).
   Theorems (1)-(4) hold for every record layer satisfying contract (Proofs/TlsTunnelC14.v), every child
   layer, every configuration, every fuel, every event sequence: arbitrary cutting of the wire stream
   into TCP segments (tunnel_data is their concatenation; plain is a function of the whole stream, so
   record sizes do not matter either), arbitrarily interleaved with other events and with whatever the
   child does in response.  Guards: crashed s' = None (no exception escaped; without it the statement
   is false, see C14_send_after_error_refuted, finding send-after-tls-error-crash) and has_open = false
   (the child does not re-open the established connection).  Theorems (5)-(6) need no contract. *)
From Coq Require Import List Bool Arith NArith.
From MV Require Import Base.Bytes Model.TlsTunnel Proofs.TlsTunnelBase Proofs.TlsTunnelData Proofs.TlsTunnelToy Proofs.TlsTunnelC14.
Import ListNotations.

(* (1) peer -> child: the plaintext given to the child is exactly the plaintext of the wire stream,
   each byte once and in order (pout = everything recv returned; first two conjuncts: all of it was
   delivered and nothing else; third: it is all the plaintext of the bytes received so far). *)
Theorem C14_inbound_transparent_partial :
  forall (R : Type) bio_write recv bio_read sendall do_handshake parse_hello (CS : Type) child (cf : cfg)
         win pout pin wout plain closed_in bad peer_plain,
  @contract R bio_write recv bio_read sendall win pout pin wout plain closed_in bad peer_plain ->
  forall (evs : list event) (s : st R CS),
  established s -> ~ In EStart evs ->
  (bad (win (tls s)) \/ pout (tls s) = plain (win (tls s))) ->
  let s' := fst (run R bio_write recv bio_read sendall do_handshake parse_hello CS child cf s evs) in
  let tr := snd (run R bio_write recv bio_read sendall do_handshake parse_hello CS child cf s evs) in
  crashed s' = None -> has_open (me cf) tr = false ->
  win (tls s') = win (tls s) ++ tunnel_data (me cf) evs /\
  pout (tls s') = pout (tls s) ++ child_data (me cf) tr /\
  (~ bad (win (tls s')) ->
   pout (tls s) ++ child_data (me cf) tr = plain (win (tls s) ++ tunnel_data (me cf) evs)).
Proof. exact inbound. Qed.
Print Assumptions C14_inbound_transparent_partial.

(* (2) child -> peer: what the peer decodes from all bytes written to the wire is exactly what the
   child asked to send (drops = 0: sendall never raised ZeroReturn/SysCall, which send_data swallows). *)
Theorem C14_outbound_transparent_partial :
  forall (R : Type) bio_write recv bio_read sendall do_handshake parse_hello (CS : Type) child (cf : cfg)
         win pout pin wout plain closed_in bad peer_plain,
  @contract R bio_write recv bio_read sendall win pout pin wout plain closed_in bad peer_plain ->
  forall (evs : list event) (s : st R CS),
  established s -> ~ In EStart evs -> peer_plain (wout (tls s)) = pin (tls s) ->
  let s' := fst (run R bio_write recv bio_read sendall do_handshake parse_hello CS child cf s evs) in
  let tr := snd (run R bio_write recv bio_read sendall do_handshake parse_hello CS child cf s evs) in
  crashed s' = None -> has_open (me cf) tr = false -> drops tr = 0 ->
  peer_plain (wout (tls s) ++ sent_wire (me cf) tr) = pin (tls s) ++ child_sends (me cf) tr.
Proof. exact outbound. Qed.
Print Assumptions C14_outbound_transparent_partial.

(* the guard crashed s' = None cannot be dropped *)
Theorem C14_send_after_error_refuted :
  exists (s : st toy (list event)) (evs : list event),
    established s /\ ~ In EStart evs /\
    let s' := fst (talk_run s evs) in let tr := snd (talk_run s evs) in
    has_open Client tr = false /\ drops tr = 0 /\ child_sends Client tr <> [] /\
    crashed s' = Some SendRaise /\ sent_wire Client tr = [].
Proof. exact send_after_error_refuted. Qed.
Print Assumptions C14_send_after_error_refuted.

(* (3) when a segment makes the layer dispatch ConnectionClosed (close_sent becomes true), the wire
   stream contains a close_notify and all its plaintext has been given to the child before *)
Theorem C14_close_after_all_data :
  forall (R : Type) bio_write recv bio_read sendall do_handshake parse_hello (CS : Type) child (cf : cfg)
         win pout pin wout plain closed_in bad peer_plain,
  @contract R bio_write recv bio_read sendall win pout pin wout plain closed_in bad peer_plain ->
  forall (d : bytes) (s : st R CS),
  established s -> close_sent s = false ->
  let s' := fst (step R bio_write recv bio_read sendall do_handshake parse_hello CS child cf s (EData (me cf) d)) in
  let tr := snd (step R bio_write recv bio_read sendall do_handshake parse_hello CS child cf s (EData (me cf) d)) in
  crashed s' = None -> has_open (me cf) tr = false -> close_sent s' = true ->
  closed_in (win (tls s')) = true /\ pout (tls s) ++ child_data (me cf) tr = plain (win (tls s')) /\
  win (tls s') = win (tls s) ++ d.
Proof. exact close_after_data. Qed.
Print Assumptions C14_close_after_all_data.

(* (4) ... and no data is delivered after it, whatever arrives *)
Theorem C14_no_data_after_close_notify :
  forall (R : Type) bio_write recv bio_read sendall do_handshake parse_hello (CS : Type) child (cf : cfg)
         win pout pin wout plain closed_in bad peer_plain,
  @contract R bio_write recv bio_read sendall win pout pin wout plain closed_in bad peer_plain ->
  forall (evs : list event) (s : st R CS),
  (forall w x, closed_in w = true -> plain (w ++ x) = plain w) ->
  established s -> ~ In EStart evs -> closed_in (win (tls s)) = true -> pout (tls s) = plain (win (tls s)) ->
  let s' := fst (run R bio_write recv bio_read sendall do_handshake parse_hello CS child cf s evs) in
  let tr := snd (run R bio_write recv bio_read sendall do_handshake parse_hello CS child cf s evs) in
  crashed s' = None -> has_open (me cf) tr = false -> ~ bad (win (tls s')) ->
  child_data (me cf) tr = [].
Proof. exact nothing_after_close. Qed.
Print Assumptions C14_no_data_after_close_notify.

(* (5) ConnectionClosed(conn) reaches the child at most once: every record layer (no contract), every
   child, every configuration, every event sequence from the initial state, handshake included *)
Theorem C14_close_at_most_once :
  forall (R : Type) bio_write recv bio_read sendall do_handshake parse_hello (CS : Type) child (cf : cfg)
         (r : R) (replies : list bool) (cs : CS) (evs : list event),
  child_closes (me cf)
    (snd (run R bio_write recv bio_read sendall do_handshake parse_hello CS child cf (init r replies cs) evs)) <= 1.
Proof. exact close_at_most_once. Qed.
Print Assumptions C14_close_at_most_once.

(* (6) events queued while ESTABLISHING are replayed by _handshake_finished in arrival order, each
   once, and the queue is emptied (okv: no exception escaped; otherwise a prefix was replayed) *)
Theorem C14_establishing_replay_in_order :
  forall (R : Type) bio_write recv bio_read sendall do_handshake (CS : Type) child (cf : cfg) (err : bool) (s : st R CS),
  reply_to s = false ->
  let x := handshake_finished R bio_write recv bio_read sendall do_handshake CS child cf err s in
  (okv R CS x = true -> replayed (trc R CS x) = queue s /\ queue (stt R CS x) = []) /\
  exists rest, queue s = replayed (trc R CS x) ++ rest.
Proof. exact replay_in_order. Qed.
Print Assumptions C14_establishing_replay_in_order.

(* non-vacuity: the contract is satisfiable (null-cipher record layer) and a state reached by a real
   handshake of the model satisfies the hypotheses of (1),(2) with non-trivial data *)
Theorem C14_contract_satisfiable :
  contract toy_bio_write toy_recv toy_bio_read toy_sendall toy_win t_pout toy_pin t_wout idb (fun _ => false) toy_bad idb.
Proof. exact toy_contract. Qed.
Print Assumptions C14_contract_satisfiable.

Theorem C14_nonvacuous :
  let s := fst (toy_run toy_init hello_evs) in
  let s' := fst (toy_run s app_evs) in
  let tr := snd (toy_run s app_evs) in
  crashed s = None /\ tunnel_state s = OPEN /\ has_tls s = true /\ errored s = false /\
  cstate s = [EStart; EOther 7; EData Client [x16; x03; x01]] /\
  crashed s' = None /\ has_open Client tr = false /\ drops tr = 0 /\
  child_data Client tr = [x61; x62; x63; x64] /\ child_sends Client tr = [x61; x62; x63; x64] /\
  sent_wire Client tr = [x61; x62; x63; x64] /\
  child_closes Client tr = 0.
Proof. exact toy_nonvacuous. Qed.
Print Assumptions C14_nonvacuous.
