(* Props/C38.v -- Flows from older mitmproxy versions load correctly: the migrate_flow driver.
   Statements only; each is closed by [exact] of a lemma proved in Proofs/Compat*.v.
   [converters], [FLOW_FORMAT_VERSION] and [progress_guard] are translated from
   mitmproxy/io/compat.py and mitmproxy/version.py on every run (Gen/CompatChain.v).
   Converter bodies are a universally quantified parameter [body] (None = the body raised). The
   contracts on it used below are [frame] (a body leaves the bytes version entry alone) and
   [body_ok] (after a converter for k the bytes version entry is absent or still reads k).
   A result is [good] when it is not OutOfFuel and a Migrated state reads the current version.
   Fuel counts converter calls. *)
From Coq Require Import ZArith List Bool Lia.
From MV Require Import Model.CompatPrelude Model.Compat Gen.CompatChain Proofs.Compat Proofs.CompatChain.
Import ListNotations.

(* The translated table is a single chain: keys are distinct hashable int versions below the
   current one, every converter writes the key of the next entry, the last one writes
   FLOW_FORMAT_VERSION, and a converter writing the bytes key is never followed by one relying on
   the str key. *)
Theorem C38_chain_wellformed : chain_ok FLOW_FORMAT_VERSION converters = true.
Proof. exact converters_ok. Qed.
Print Assumptions C38_chain_wellformed.

(* A state at the current version passes through unchanged, with no converter call, for every
   body, guard setting and fuel. *)
Theorem C38_current_unchanged : forall R body guard (s : state R) prev fuel,
  get_version s = VInt FLOW_FORMAT_VERSION ->
  migrate_flow body converters FLOW_FORMAT_VERSION guard fuel prev s = ([], Migrated s).
Proof. intros R body guard. exact (current_unchanged R body converters FLOW_FORMAT_VERSION guard). Qed.
Print Assumptions C38_current_unchanged.

(* Every int version above the current one is rejected before any converter runs, with the
   upgrade hint. *)
Theorem C38_newer_rejected : forall R body guard (s : state R) prev fuel z,
  get_version s = VInt z -> (FLOW_FORMAT_VERSION < z)%Z ->
  migrate_flow body converters FLOW_FORMAT_VERSION guard fuel prev s = ([], Rejected true).
Proof. intros R body guard. exact (newer_rejected R body converters FLOW_FORMAT_VERSION guard converters_ok). Qed.
Print Assumptions C38_newer_rejected.

(* Every other version without a converter is rejected before any converter runs; the hint is given
   iff the version is an int greater than the current one. *)
Theorem C38_unknown_rejected : forall R body guard (s : state R) prev fuel fv,
  key_of R s = Some fv -> is_current FLOW_FORMAT_VERSION fv = false -> unhashable fv = false ->
  lookup fv converters = None ->
  migrate_flow body converters FLOW_FORMAT_VERSION guard fuel prev s
    = ([], Rejected (should_upgrade FLOW_FORMAT_VERSION fv))
  /\ (should_upgrade FLOW_FORMAT_VERSION fv = true <-> exists z, fv = FInt z /\ (FLOW_FORMAT_VERSION < z)%Z).
Proof. intros R body guard. exact (unknown_rejected R body converters FLOW_FORMAT_VERSION guard). Qed.
Print Assumptions C38_unknown_rejected.

(* FULL STATEMENT IS FALSE for the driver without the progress guard (the code as shipped):
   the state with the single entry  bytes-version -> [3, 0]  (a 25-byte file) makes migrate_flow
   call convert_300_4 for ever, with a body that changes nothing else: OutOfFuel for every fuel.
   Finding stale-bytes-version-loop. *)
Theorem C38_terminates_refuted :
  frame unit id_body /\ ~ not_stale unit converters stale_state /\
  forall fuel, snd (migrate_flow id_body converters FLOW_FORMAT_VERSION false fuel None stale_state) = OutOfFuel.
Proof. exact (conj id_body_frame (conj stale_is_stale stale_loops)). Qed.
Print Assumptions C38_terminates_refuted.

(* PARTIAL (guard = exactly the complement of the finding): without the progress guard, for
   frame-respecting bodies, every state that has no bytes version entry (all files since 0.18) or
   whose version is handled by a bytes-era or convert_unicode converter (all files up to 0.17)
   terminates within |converters| calls at the current version or with an error, and the converters
   called are a contiguous segment of the table in table order. *)
Theorem C38_terminates_partial : forall R body (s : state R) prev fuel,
  frame R body -> not_stale R converters s -> (length converters <= fuel)%nat ->
  let tr := migrate_flow body converters FLOW_FORMAT_VERSION false fuel prev s in
  good R FLOW_FORMAT_VERSION (snd tr)
  /\ (length (fst tr) <= length converters)%nat
  /\ exists pre, prefix_of (pre ++ map fst (fst tr)) (map fst converters).
Proof.
  intros R body s prev fuel Hf Hs Hl.
  exact (unguarded_frame_total R body converters FLOW_FORMAT_VERSION false converters_ok Hf s prev fuel Hs Hl).
Qed.
Print Assumptions C38_terminates_partial.

(* With the progress guard (fixes/C38-stale-bytes-version-loop.diff) the statement holds for ALL
   states, under the weaker contract body_ok. *)
Theorem C38_terminates_if_guarded : forall R body (s : state R) prev fuel,
  body_ok R body -> (length converters <= fuel)%nat ->
  let tr := migrate_flow body converters FLOW_FORMAT_VERSION true fuel prev s in
  good R FLOW_FORMAT_VERSION (snd tr)
  /\ (length (fst tr) <= length converters)%nat
  /\ exists pre, prefix_of (pre ++ map fst (fst tr)) (map fst converters).
Proof.
  intros R body s prev fuel Hb Hl.
  exact (guarded_total R body converters FLOW_FORMAT_VERSION true converters_ok eq_refl Hb s prev fuel Hl).
Qed.
Print Assumptions C38_terminates_if_guarded.

(* The driver as translated from the source tree under check: total for all states once the guard
   is present, and for the not_stale states before. *)
Theorem C38_terminates_source : forall R body (s : state R) prev fuel,
  frame R body -> (progress_guard = true \/ not_stale R converters s) -> (length converters <= fuel)%nat ->
  let tr := migrate_flow body converters FLOW_FORMAT_VERSION progress_guard fuel prev s in
  good R FLOW_FORMAT_VERSION (snd tr) /\ (length (fst tr) <= length converters)%nat.
Proof. exact source_total. Qed.
Print Assumptions C38_terminates_source.

(* With the guard the looping state is rejected after one converter call. *)
Theorem C38_guard_rejects_stale : forall fuel,
  snd (migrate_flow id_body converters FLOW_FORMAT_VERSION true (S (S fuel)) None stale_state) = Rejected false.
Proof. exact stale_guarded. Qed.
Print Assumptions C38_guard_rejects_stale.

(* Hypotheses are satisfiable on a non-trivial value: a 0.18 state with str keys runs all but the
   first seven converters and ends at the current version. *)
Theorem C38_nonvacuous :
  frame nat count_body /\ not_stale nat converters sample_018
  /\ length (fst (migrate_flow count_body converters FLOW_FORMAT_VERSION false (length converters) None sample_018))
     = (length converters - 7)%nat
  /\ snd (migrate_flow count_body converters FLOW_FORMAT_VERSION false (length converters) None sample_018)
     = Migrated (mk_state None (Some (VInt FLOW_FORMAT_VERSION)) (length converters - 7)%nat).
Proof. exact (conj count_body_frame sample_018_run). Qed.
Print Assumptions C38_nonvacuous.
