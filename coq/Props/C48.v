(* Props/C48.v -- Exported commands reproduce the request and are shell-safe.
   Statements only; each is closed by [exact] of a lemma proved in Proofs/ShQuote.v, ExportSh.v, ExportDecode.v,
   ExportRaw.v.  Models: Model/Export.v (export.py + shlex.quote), Model/Sh.v (bash word parser and printf builtin,
   fail-closed: ShRun means exactly one command is executed, with that argv and that here-string input),
   Model/CurlRef.v (curl option reading), Model/Http1Msg.v + Model/Rfc9112.v (C01).
   The theorems describe export.py with fixes/C48-printf-format.diff and fixes/C48-get-with-body.diff applied
   (variant [repaired]); the [_refuted] theorems about variant [original] are the two fixed findings; the [_refuted]
   theorems about [body_seen] are the two known findings that remain (trailing newlines, NUL). *)
From Coq Require Import List Bool NArith.
From MV Require Import Base.Bytes Model.Http1Msg Model.Rfc9112 Model.Sh Model.Export Model.CurlRef
  Proofs.Http1Roundtrip Proofs.ShQuote Proofs.ExportSh Proofs.ExportDecode Proofs.ExportRaw.
Import ListNotations.

(* shlex.quote: for EVERY non-empty list of NUL-free arguments whose first word can name a command, bash reads the
   space-joined quoted arguments as exactly one command with exactly those arguments (a NUL byte cannot be in any argv). *)
Theorem C48_quote_roundtrip : forall args,
  args <> [] -> Forall nonul args -> cmd_name_ok (hd [] args) = true ->
  sh_eval (join_sp (map quote args)) = ShRun args None.
Proof. exact quote_join_roundtrip. Qed.
Print Assumptions C48_quote_roundtrip.

(* the escaping of request_content_for_console is an exact inverse of the printf builtin, for every text *)
Theorem C48_printf_escape_roundtrip : forall t, printf_fmt (printf_escape repaired t) = Some t.
Proof. exact printf_escape_roundtrip. Qed.
Print Assumptions C48_printf_escape_roundtrip.

(* before the repair it is not: body 100%s LF 0x01 reaches curl as 100 LF 0x01 (finding printf-format-interpreted) *)
Theorem C48_printf_original_refuted :
  printf_fmt (printf_escape original body_100) = Some [x31; x30; x30; x0a; x01].
Proof. exact printf_escape_original_refuted. Qed.
Print Assumptions C48_printf_original_refuted.

(* curl export: for every request, options and peer address, whenever curl_command returns a command, bash executes
   exactly one command, curl, with the assembled arguments followed by -d and the body as [body_seen] gives it;
   nothing is read from standard input.  Guard: the assembled arguments are NUL-free. *)
Theorem C48_curl_runs : forall preserve addr r cmd,
  curl_command repaired preserve addr r = XOk cmd ->
  exists h, pop_headers (x_host r) (x_headers r) = XOk h /\
    (Forall nonul (curl_args repaired preserve addr r h) ->
     sh_eval cmd = ShRun (curl_args repaired preserve addr r h ++ curl_body_args r) None).
Proof. exact curl_command_runs. Qed.
Print Assumptions C48_curl_runs.

(* httpie export: exactly one command, http METHOD URL and one item per header; the body is the here-string input *)
Theorem C48_httpie_runs : forall r cmd,
  httpie_command repaired r = XOk cmd ->
  exists h, pop_headers (x_host r) (x_headers r) = XOk h /\
    (Forall nonul (httpie_args r h) -> sh_eval cmd = ShRun (httpie_args r h) (httpie_stdin r)).
Proof. exact httpie_command_runs. Qed.
Print Assumptions C48_httpie_runs.

(* the body: unchanged when the text has no control character, and when it is NUL-free and does not end in LF *)
Theorem C48_body_exact_partial : forall t,
  (existsb is_ctrl t = false \/ (nonul t /\ last t x00 <> NL)) -> body_seen t = t.
Proof. exact body_exact_partial. Qed.
Print Assumptions C48_body_exact_partial.

(* known findings: command substitution strips trailing newlines and drops NUL bytes *)
Theorem C48_body_trailing_newline_refuted : exists t, nonul t /\ body_seen t <> t.
Proof. exact body_trailing_newline_refuted. Qed.
Print Assumptions C48_body_trailing_newline_refuted.

Theorem C48_body_nul_refuted : exists t, last t x00 <> NL /\ body_seen t <> t.
Proof. exact body_nul_refuted. Qed.
Print Assumptions C48_body_nul_refuted.

(* the argv of the curl export, read with the curl reference, is the request: method (also GET with a body), URL,
   one header line per remaining header in order, --compressed once per accept-encoding header, --resolve, body.
   Guard: the URL is not read as an option (does not start with a dash). *)
Theorem C48_curl_argv_decodes : forall preserve addr r h,
  starts_dash (x_pretty_url r) = false ->
  let s := seen_of preserve addr r h in
  curl_read (tl (curl_args repaired preserve addr r h ++ curl_body_args r)) seen0 = Some s
  /\ curl_method s = x_method r
  /\ s_urls s = [x_pretty_url r]
  /\ s_headers s = map header_line (filter (fun f => negb (is_ae f)) h) ++ cl_zero_lines r
  /\ s_compressed s = N.of_nat (length (filter is_ae h))
  /\ s_resolve s = resolve_vals preserve addr r
  /\ s_data s = body_vals r.
Proof. exact curl_argv_decodes. Qed.
Print Assumptions C48_curl_argv_decodes.

(* a header line gives back name and value whenever the name has no colon *)
Theorem C48_header_line_read : forall k v, existsb (byte_eqb x3a) k = false ->
  read_header_line (header_line (k, v)) = Some (k, v).
Proof. exact header_line_read. Qed.
Print Assumptions C48_header_line_read.

(* before the repair a GET request with a body was sent as POST (finding curl-get-body-becomes-post) *)
Theorem C48_get_body_original_refuted :
  exists s, curl_read (tl (curl_args original false None get_with_body [] ++ curl_body_args get_with_body)) seen0 = Some s
            /\ curl_method s = POST /\ x_method get_with_body = GET.
Proof. exact original_get_body_refuted. Qed.
Print Assumptions C48_get_body_original_refuted.

(* raw export: read back by the reference HTTP/1 parser as the same head and body (both framings) *)
Theorem C48_raw_reads_back_length : forall o r c, Inv_req r -> send_chunked (rq_headers r) = false ->
  exists raw, raw_request r (Some c) [] = Ok raw
    /\ parse_request_head o raw = POk (rq_method r, req_target r, rq_version r, rq_headers r, c)
    /\ read_body o (BLLen (N.of_nat (length c))) c = POk (c, [], []).
Proof. exact raw_request_reads_back_length. Qed.
Print Assumptions C48_raw_reads_back_length.

Theorem C48_raw_reads_back_chunked : forall o r c, Inv_req r -> send_chunked (rq_headers r) = true -> c <> [] ->
  exists raw body, raw_request r (Some c) [] = Ok raw
    /\ parse_request_head o raw = POk (rq_method r, req_target r, rq_version r, rq_headers r, body)
    /\ read_body o BLChunked body = POk (c, [], []).
Proof. exact raw_request_reads_back_chunked. Qed.
Print Assumptions C48_raw_reads_back_chunked.

(* exports do not change the flow: for every history of curl / httpie / raw exports of one flow, the flow afterwards is
   the flow before, and each output is that exporter's output on the initial flow (tied to the real code by Hist cases:
   several exports of the SAME flow object, each compared with the model run on a snapshot taken before the first) *)
Theorem C48_exports_pure : forall v p a s fs,
  snd (export_history v p a s fs) = s
  /\ fst (export_history v p a s fs) = map (fun f => fst (export_step v p a s f)) fs.
Proof. exact exports_pure. Qed.
Print Assumptions C48_exports_pure.

(* non-vacuity: a request with quotes, a command substitution and a control-character body is exported, executed
   as one curl command, and the body arrives unchanged *)
Theorem C48_nonvacuous :
  exists cmd argv, curl_command repaired false None sample_req = XOk cmd
    /\ sh_eval cmd = ShRun argv None
    /\ last argv [] = [x31;x30;x30;x25;x73;x5c;x6e;x0a;x2d]
    /\ existsb (byte_eqb x27) cmd = true.
Proof. exact sample_nonvacuous. Qed.
Print Assumptions C48_nonvacuous.
