(* Props/C28.v -- stub, replaced below *)
From Coq Require Import List Bool NArith.
From MV Require Import Base.Bytes Model.WsUtf8 Model.Websocket.
Theorem C28_stub : True. Proof. exact I. Qed.
Print Assumptions C28_stub.
