(* Props/C28.v -- WebSocket messages are relayed exactly once with their exact content.
   Statements only; each is closed by [exact] of a lemma proved in Proofs/Ws*.v.
   Model: Model/Websocket.v (Fragmentizer, relay_messages, done), Model/WsUtf8.v (decode errors=replace, encode).
   wsproto is a contract: its events are the input, the events handed to send2 are the output, and
   wire_payload is what it frames for an event.  FRAGMENT_SIZE (fs) and the addon are universally quantified.

   The property as stated is FALSE of the code in two ways (findings, see findings/C28.jsonl):
   - text-split-inside-character: C28_text_split_refuted / C28_text_same_length_refuted / C28_text_session_refuted;
     the guard of the _partial theorems (every fragment valid UTF-8, e.g. valid content cut at code-point
     boundaries) is exactly the complement: C28_text_fragment_exact_iff.
   - inject-during-fragmented-message: C28_inject_mid_message_refuted. *)
From Coq Require Import List Bool Arith NArith.
From MV Require Import Base.Bytes Model.WsUtf8 Model.Websocket Proofs.WsUtf8 Proofs.WsFragment Proofs.WsRelay Proofs.WsRelay2 Proofs.WsSource.
Import ListNotations.

(* ---------------- Fragmentizer ---------------- *)

(* terminates for every positive FRAGMENT_SIZE *)
Theorem C28_fragmentizer_total : forall fs lens content, 0 < fs -> exists fr, fragments fs lens content = Some fr.
Proof. exact fragments_total. Qed.
Print Assumptions C28_fragmentizer_total.

(* the raw slices concatenate to the content; every fragment but the last is non-final, the last is final *)
Theorem C28_fragments_partition : forall fs lens content fr, fragments fs lens content = Some fr ->
  concat (map fst fr) = content /\ wf_frags fr.
Proof. exact fragments_partition. Qed.
Print Assumptions C28_fragments_partition.

(* binary: the payloads on the wire concatenate to the content, for all contents and all length lists *)
Theorem C28_binary_exact : forall fs lens content evs, fragmentize fs lens false content = Some evs ->
  concat (map wire_payload evs) = content.
Proof. exact binary_exact. Qed.
Print Assumptions C28_binary_exact.

(* unmodified (same length): the original fragment lengths are reused, text or binary *)
Theorem C28_keeps_frame_boundaries : forall fs lens content fr, lens <> [] -> length content = sum_nat lens ->
  fragments fs lens content = Some fr -> map (fun df => length (fst df)) fr = lens.
Proof. exact fragments_keep_lens. Qed.
Print Assumptions C28_keeps_frame_boundaries.

(* modified (another length): FRAGMENT_SIZE chunks, the last one at most FRAGMENT_SIZE *)
Theorem C28_rechunk_sizes : forall fs lens content fr, length content <> sum_nat lens ->
  fragments fs lens content = Some fr -> chunk_sizes fs fr.
Proof. exact fragments_rechunk_sizes. Qed.
Print Assumptions C28_rechunk_sizes.

(* text: a fragment reaches the wire unchanged IFF it is valid UTF-8 on its own (both directions) *)
Theorem C28_text_fragment_exact_iff : forall frag : bytes,
  payload_as_sent true frag = frag <-> utf8_valid frag = true.
Proof. exact text_fragment_exact_iff. Qed.
Print Assumptions C28_text_fragment_exact_iff.

(* _partial: valid content and every cut at a code-point boundary (no fragment starts with a continuation byte) *)
Theorem C28_text_exact_partial : forall fs lens content evs fr, fragments fs lens content = Some fr ->
  fragmentize fs lens true content = Some evs -> utf8_valid content = true ->
  Forall (fun df => starts_ok (fst df) = true) fr -> concat (map wire_payload evs) = content.
Proof. exact text_exact_at_boundaries. Qed.
Print Assumptions C28_text_exact_partial.

(* converse: if every fragment is sent unchanged then every fragment, and the content, is valid UTF-8 *)
Theorem C28_text_exact_only_valid : forall fs lens content fr, fragments fs lens content = Some fr ->
  Forall (fun df => payload_as_sent true (fst df) = fst df) fr ->
  Forall (fun df => utf8_valid (fst df) = true) fr /\ utf8_valid content = true.
Proof. exact text_exact_only_valid. Qed.
Print Assumptions C28_text_exact_only_valid.

(* _refuted: valid text, FRAGMENT_SIZE = 4000, a 3-byte character across offset 4000 (3999 x a, EURO SIGN, b) *)
Theorem C28_text_split_refuted :
  utf8_valid split_witness = true /\
  exists evs, fragmentize 4000 [] true split_witness = Some evs /\ concat (map wire_payload evs) <> split_witness.
Proof. exact text_split_refuted. Qed.
Print Assumptions C28_text_split_refuted.

(* _refuted: an edit that keeps the length but moves a character across a reused boundary *)
Theorem C28_text_same_length_refuted :
  exists evs, fragmentize 4000 [1; 3] true [xe2; x82; xac; x61] = Some evs
              /\ concat (map wire_payload evs) <> [xe2; x82; xac; x61].
Proof. exact text_same_length_refuted. Qed.
Print Assumptions C28_text_same_length_refuted.

(* ---------------- relay_messages ---------------- *)

(* for every event history and addon: the message frames sent to a side are exactly the fragments of the
   recorded non-dropped messages of the other side, in recording order: nothing lost, duplicated, reordered or added *)
Theorem C28_sends_are_recorded : forall fs addon evs s1 cs,
  run fs addon init evs = (s1, cs) -> is_crashed s1 = false ->
  forall side, msg_sends side cs = expected_for fs side (messages s1).
Proof. exact sends_are_recorded. Qed.
Print Assumptions C28_sends_are_recorded.

(* _partial, end to end: a receiver reassembling the frames gets each relayed message exactly once, in order,
   with the recorded type and content, provided every recorded message is exact_msg ... *)
Theorem C28_delivered_exactly_once_partial : forall fs addon evs s1 cs, 0 < fs ->
  run fs addon init evs = (s1, cs) -> is_crashed s1 = false -> Forall (exact_msg fs) (messages s1) ->
  forall side, reasm [] (msg_sends side cs)
               = map (fun m => (m_text m, m_content m)) (filter (relayed side) (messages s1)).
Proof. exact delivered_exactly_once. Qed.
Print Assumptions C28_delivered_exactly_once_partial.

(* ... which holds for every binary message, and for text messages with valid content cut at code-point boundaries *)
Theorem C28_exact_msg_binary : forall fs m, m_text m = false -> exact_msg fs m.
Proof. exact exact_msg_binary. Qed.
Print Assumptions C28_exact_msg_binary.

Theorem C28_exact_msg_text_boundaries : forall fs m, utf8_valid (m_content m) = true ->
  (forall fr, fragments fs (m_lens m) (m_content m) = Some fr -> Forall (fun df => starts_ok (fst df) = true) fr) ->
  exact_msg fs m.
Proof. exact exact_msg_text_boundaries. Qed.
Print Assumptions C28_exact_msg_text_boundaries.

(* _refuted, end to end: client sends valid text of 3999 a + EURO SIGN, an addon appends b:
   the server does not receive the recorded content *)
Theorem C28_text_session_refuted :
  let (s1, cs) := run 4000 (append_addon [x62]) init split_session in
  is_crashed s1 = false
  /\ map (fun m => utf8_valid (m_content m)) (messages s1) = [true]
  /\ reasm [] (msg_sends false cs) <> map (fun m => (m_text m, m_content m)) (filter (relayed false) (messages s1)).
Proof. exact text_split_session_refuted. Qed.
Print Assumptions C28_text_session_refuted.

(* _refuted: a message injected while a fragmented message of the same side is in progress is merged with it
   (client BINARY abc non-final, injected TEXT xyz, client continuation def): recorded as TEXT abcxyz + BINARY def *)
Theorem C28_inject_mid_message_refuted :
  let (s1, cs) := run 4000 keep_addon init inject_session in
  is_crashed s1 = false
  /\ map (fun m => (m_text m, m_injected m, m_content m)) (messages s1)
     = [(true, true, [x61; x62; x63; x78; x79; x7a]); (false, false, [x64; x65; x66])].
Proof. exact inject_mid_message_refuted. Qed.
Print Assumptions C28_inject_mid_message_refuted.

(* frame_buf bookkeeping, while the connection is open: the messages recorded for a side (type, injected flag,
   original content, fragment lengths) are exactly the reassembly, with the frame boundaries wsproto reported,
   of the stream of message events of that side: received frames and injected fragments in arrival order.
   Injected fragments are part of that stream, which is what merges an injection into a message in progress. *)
Theorem C28_recorded_is_source : forall fs addon evs s1 cs, Forall no_close evs ->
  run fs addon init evs = (s1, cs) -> is_crashed s1 = false ->
  forall c, map rec_view (filter (from c) (messages s1))
            = map col_view (collect [] [] (flat_map (stream_of fs c) evs)).
Proof. exact recorded_is_source. Qed.
Print Assumptions C28_recorded_is_source.

(* while the connection is open every ping and pong is relayed to the other peer, in order, and nothing else *)
Theorem C28_pings_relayed : forall fs addon evs s1 cs, Forall no_close evs ->
  run fs addon init evs = (s1, cs) -> is_crashed s1 = false ->
  forall side, ctrl_sends side cs = flat_map (pings_of side) evs.
Proof. exact pings_relayed. Qed.
Print Assumptions C28_pings_relayed.

(* the recorded close code and reason are those of the first close event, whoever sent it; the layer is then done *)
Theorem C28_close_recorded : forall fs addon pre fc evs1 code reason st post s1 cs,
  Forall no_close pre -> Forall (fun e => is_close_ev (fst e) = false) evs1 ->
  run fs addon init (pre ++ LData fc (evs1 ++ [(WClose code reason, st)]) :: post) = (s1, cs) ->
  is_crashed s1 = false ->
  closed s1 = Some (fc, code, reason) /\ finished s1 = true.
Proof. exact close_frame_recorded. Qed.
Print Assumptions C28_close_recorded.

Theorem C28_eof_recorded : forall fs addon pre fc post s1 cs,
  Forall no_close pre -> run fs addon init (pre ++ LClosed fc :: post) = (s1, cs) -> is_crashed s1 = false ->
  closed s1 = Some (fc, 1006%N, None) /\ finished s1 = true.
Proof. exact eof_recorded. Qed.
Print Assumptions C28_eof_recorded.

(* nothing is relayed or recorded after the close *)
Theorem C28_nothing_after_close : forall fs addon evs s, finished s = true -> run fs addon s evs = (s, []).
Proof. exact done_noop. Qed.
Print Assumptions C28_nothing_after_close.

Theorem C28_nonvacuous :
  (fragmentize 4 [2; 2] false [x61; x62; x63; x64; x65] =
     Some [WBytes [x61; x62; x63; x64] true false; WBytes [x65] true true]
   /\ fragmentize 4 [3; 2] true [x61; xc3; xa9; x62; x63] =
     Some [WText [97%N; 233%N] true false; WText [98%N; 99%N] true true])
  /\ (let evs := [LData true [(WText [97%N; 233%N] true false, OPEN)];
                  LData false [(WPing [x70], OPEN)];
                  LData true [(WText [98%N] true true, OPEN)];
                  LData false [(WClose 4000%N (Some [98%N]), REMOTE_CLOSING)]] in
      let (s1, cs) := run 4000 keep_addon init evs in
      is_crashed s1 = false /\ Forall no_close (firstn 3 evs)
      /\ msg_sends false cs = [WText [97%N; 233%N] true false; WText [98%N] true true]
      /\ ctrl_sends true cs = [WPing [x70]]
      /\ closed s1 = Some (false, 4000%N, Some [98%N])).
Proof. exact (conj fragmentize_nonvacuous relay_nonvacuous). Qed.
Print Assumptions C28_nonvacuous.
