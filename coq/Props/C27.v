(* Props/C27.v -- DNS replies correspond to client queries; TCP framing ignores segmentation.
   Statements only.  The model (Model/DnsLayer.v) is DNSLayer with DNSMessage.unpack as a
   parameter: every theorem holds for every unpack function.  cfg carries two booleans for the
   proposed repairs; fix_fresh = fix_drop = false is mitmproxy as it is, and that is the model
   the correspondence check runs on the unchanged tree.
   s_cq / s_sm of the final state are the messages the layer extracted from the client / from
   upstream, newest first. *)
From Coq Require Import List Bool Arith NArith.
From MV Require Import Base.Bytes Model.DnsLayer Proofs.DnsLayerFrame Proofs.DnsLayerSeg Proofs.DnsLayerInv Proofs.DnsLayerC27.
Import ListNotations.

(* ---- TCP framing ---- *)

(* The extraction loop never runs out of fuel. *)
Theorem C27_fuel_sufficient : forall unpack buf, unpack_tcp unpack buf <> RFuel.
Proof. exact utcp_no_fuel. Qed.
Print Assumptions C27_fuel_sufficient.

(* Extraction from buffer ++ new data continues extraction from the buffer: messages are
   appended, the first failure wins. *)
Theorem C27_extraction_appends : forall unpack buf d,
  unpack_tcp unpack (buf ++ d) = continue_with unpack (unpack_tcp unpack buf) d.
Proof. exact utcp_app. Qed.
Print Assumptions C27_extraction_appends.

(* Segmentation independence at full strength (any two segmentations of any stream give the same
   run) is FALSE of the code: unpack_message raises from inside its loop, so complete frames that
   precede a malformed frame in the same segment are dropped unhandled, while in separate
   segments they are handled first (finding tcp-error-discards-earlier-frames). *)
Theorem C27_segmentation_refuted :
  exists unpack c s fc a b,
    working s /\ ctcp c = true /\
    run unpack c s [EData fc a; EData fc b] <> run unpack c s [EData fc (a ++ b)].
Proof. exact segmentation_refuted. Qed.
Print Assumptions C27_segmentation_refuted.

(* Under the complement (no malformed frame among the complete frames of the stream): from any
   working state, with any buffered bytes, any non-empty list of segments from one side followed
   by any further events gives exactly the same final state and the same commands as the
   concatenation delivered at once. *)
Theorem C27_segmentation_partial : forall unpack c fc chunks s ms r rest,
  chunks <> [] -> working s -> ctcp c = true ->
  unpack_tcp unpack (buf_of s fc ++ concat chunks) = ROk ms r ->
  run unpack c s (map (EData fc) chunks ++ rest) = run unpack c s (EData fc (concat chunks) :: rest).
Proof. exact segmentation_partial. Qed.
Print Assumptions C27_segmentation_partial.

(* A stream whose first failure is a zero length prefix or a frame rejected with struct.error
   closes that connection and ends the layer (state_done), in every segmentation. *)
Theorem C27_malformed_closes : forall unpack c fc chunks s rest,
  chunks <> [] -> working s -> ctcp c = true ->
  unpack_tcp unpack (buf_of s fc ++ concat chunks) = RErr ->
  let r := run unpack c s (map (EData fc) chunks ++ rest) in
  (exists pre, snd r = pre ++ [OClose fc]) /\ s_phase (fst r) = PDone.
Proof. exact malformed_closes. Qed.
Print Assumptions C27_malformed_closes.

(* What is malformed: after complete good frames, a zero length prefix; a complete non-empty frame
   that DNSMessage.unpack rejects (every frame shorter than a header is one); over UDP a rejected
   datagram. *)
Theorem C27_malformed_kinds : forall unpack,
  (forall buf ms tail, unpack_tcp unpack buf = ROk ms [] ->
     unpack_tcp unpack (buf ++ x00 :: x00 :: tail) = RErr)
  /\ (forall buf ms h l body tail, unpack_tcp unpack buf = ROk ms [] ->
     N.to_nat (u16be h l) = length body -> body <> [] -> unpack body = UStruct ->
     unpack_tcp unpack (buf ++ h :: l :: body ++ tail) = RErr)
  /\ (forall c s fc d, working s -> ctcp c = false -> unpack d = UStruct ->
     snd (step unpack c s (EData fc d)) = [OClose fc] /\ s_phase (fst (step unpack c s (EData fc d))) = PDone).
Proof. exact malformed_kinds. Qed.
Print Assumptions C27_malformed_kinds.

Theorem C27_done_is_silent : forall unpack c es s, s_phase s = PDone -> snd (run unpack c s es) = [].
Proof. exact done_is_silent. Qed.
Print Assumptions C27_done_is_silent.

(* ---- replies and flows ---- *)

(* Full statement: for every history, every hook shows a flow whose request is a query the client
   sent (a response on it is set by an addon or is an upstream message with the id of that query), and every
   reply sent to the client is a message an addon set, or has the id of a query the client sent
   and is the SERVFAIL made from that query or an upstream message.  It is FALSE of the code
   (finding unsolicited-reply): an upstream message whose id matches no query gets a flow without
   request, a dns_response hook, and is sent to the client. *)
Theorem C27_reply_answers_query_refuted :
  exists unpack c script conn es,
    fix_drop c = false /\
    let r := run unpack c (init script conn) es in
    (exists ord rs e, In (OHook HResp ord None rs e) (snd r))
    /\ exists data, In (OSend true data) (snd r)
         /\ ~ answers_query c script (s_cq (fst r)) (s_sm (fst r)) data.
Proof. exact reply_refuted. Qed.
Print Assumptions C27_reply_answers_query_refuted.

(* Complement of the finding: histories in which no hook shows a flow without request (such a hook
   is always the dns_response hook of an unsolicited upstream message, next theorem). *)
Theorem C27_reply_answers_query_partial : forall unpack c script conn es,
  let r := run unpack c (init script conn) es in
  (forall k ord rs e, ~ In (OHook k ord None rs e) (snd r)) ->
  (forall o, In o (snd r) -> carries_query script (s_cq (fst r)) (s_sm (fst r)) o)
  /\ (forall data, In (OSend true data) (snd r) -> answers_query c script (s_cq (fst r)) (s_sm (fst r)) data).
Proof. exact reply_partial. Qed.
Print Assumptions C27_reply_answers_query_partial.

Theorem C27_orphan_only_response : forall unpack c script conn es k ord rs e,
  In (OHook k ord None rs e) (snd (run unpack c (init script conn) es)) -> fix_drop c = false /\ k = HResp.
Proof. exact orphan_only_response. Qed.
Print Assumptions C27_orphan_only_response.

(* With the proposed repair (fixes/C27-unsolicited-reply.diff) the full statement holds for all
   histories. *)
Theorem C27_reply_answers_query_fixed : forall unpack c script conn es,
  fix_drop c = true ->
  let r := run unpack c (init script conn) es in
  (forall o, In o (snd r) -> carries_query script (s_cq (fst r)) (s_sm (fst r)) o)
  /\ (forall data, In (OSend true data) (snd r) -> answers_query c script (s_cq (fst r)) (s_sm (fst r)) data).
Proof. exact reply_fixed. Qed.
Print Assumptions C27_reply_answers_query_fixed.

(* Question section of forwarded replies: replies are matched by id only, so an upstream reply
   with another question is forwarded (finding upstream-question-mismatch) ... *)
Theorem C27_reply_question_refuted :
  exists unpack c script conn es m,
    let r := run unpack c (init script conn) es in
    (forall k ord rs e, ~ In (OHook k ord None rs e) (snd r))
    /\ In (OSend true (pack_message m (ctcp c))) (snd r) /\ In m (s_sm (fst r))
    /\ forall q, In q (s_cq (fst r)) -> m_qs q <> m_qs m.
Proof. exact question_refuted. Qed.
Print Assumptions C27_reply_question_refuted.

(* ... and when upstream echoes the question of the queries carrying its id, every reply that is
   not set by an addon has the id and the question section of a query the client sent. *)
Theorem C27_reply_question_partial : forall unpack c script conn es,
  let r := run unpack c (init script conn) es in
  (forall k ord rs e, ~ In (OHook k ord None rs e) (snd r)) ->
  (forall m, In m (s_sm (fst r)) -> forall q, In q (s_cq (fst r)) -> m_id q = m_id m -> m_qs q = m_qs m) ->
  forall data, In (OSend true data) (snd r) ->
  exists m, data = pack_message m (ctcp c) /\
    (addon_msg script m \/ exists q, In q (s_cq (fst r)) /\ m_id q = m_id m /\ m_qs q = m_qs m).
Proof. exact question_partial. Qed.
Print Assumptions C27_reply_question_partial.

(* ---- SERVFAIL ---- *)

(* In every run from every state, each dns_error hook shows a flow with a request and is directly
   followed by the SERVFAIL made from that request, packed for the transport of the client. *)
Theorem C27_servfail_follows_error : forall unpack c es s, servfail_ok (ctcp c) (snd (run unpack c s es)).
Proof. exact run_servfail. Qed.
Print Assumptions C27_servfail_follows_error.

(* DNSMessage.fail keeps id, opcode, RD and the questions; it is a response with rcode 2 and no
   records; on the wire it starts with the id of the query. *)
Theorem C27_servfail_keeps_fields : forall q,
  m_id (fail q) = m_id q /\ m_query (fail q) = false /\ m_op (fail q) = m_op q
  /\ m_rd (fail q) = m_rd q /\ m_qn (fail q) = m_qn q /\ m_qs (fail q) = m_qs q
  /\ m_packed (fail q) =
       put_u16be (m_id q) ++ put_u16be (32768 + m_op q * 2048 + (if m_rd q then 256 else 0) + 2)%N
       ++ put_u16be (m_qn q) ++ [x00; x00; x00; x00; x00; x00] ++ m_qs q.
Proof. exact fail_fields. Qed.
Print Assumptions C27_servfail_keeps_fields.

Theorem C27_servfail_wire_id : forall q, (m_id q < 65536)%N ->
  exists h l rest, m_packed (fail q) = h :: l :: rest /\ u16be h l = m_id q.
Proof. exact fail_wire_id. Qed.
Print Assumptions C27_servfail_wire_id.

(* ---- a reply must come from upstream or from an addon, not from an earlier exchange ---- *)

(* FALSE of the code (finding stale-response-replayed): flows stay in the map, so a client query
   re-using the id of a completed exchange triggers dns_response with the old response, which is
   sent to the client; upstream is not asked. *)
Theorem C27_no_stale_replay_refuted :
  exists unpack c script conn es data,
    fix_fresh c = false /\
    let s := fst (run unpack c (init script conn) es) in
    ~ resp_hooks_from (s_script s) (snd (step unpack c s (EData true data))).
Proof. exact stale_refuted. Qed.
Print Assumptions C27_no_stale_replay_refuted.

(* Complement: the id of the query is new or its flow has neither response nor error; then, in any
   state, a response hook while the query is handled shows exactly a response the addons set. *)
Theorem C27_no_stale_replay_partial : forall c s m,
  id_unanswered s m ->
  resp_hooks_from (s_script s) (snd (handle_msg c true s m)).
Proof. exact stale_partial. Qed.
Print Assumptions C27_no_stale_replay_partial.

(* With the proposed repair (fixes/C27-stale-response-replayed.diff): for every state and every
   client segment. *)
Theorem C27_no_stale_replay_fixed : forall c unpack s data,
  fix_fresh c = true ->
  resp_hooks_from (s_script s) (snd (step unpack c s (EData true data))).
Proof. exact step_client_fresh. Qed.
Print Assumptions C27_no_stale_replay_fixed.

(* ---- regular dns mode: the resolver addon, several clients at once ---- *)

(* The answer DnsResolver.resolve builds from a request keeps its id, opcode, RD and questions
   and is a response; on the wire it starts with the id of the request. *)
Theorem C27_resolved_keeps_fields : forall q rc n an,
  m_id (resolved q rc n an) = m_id q /\ m_query (resolved q rc n an) = false
  /\ m_op (resolved q rc n an) = m_op q /\ m_rd (resolved q rc n an) = m_rd q
  /\ m_qn (resolved q rc n an) = m_qn q /\ m_qs (resolved q rc n an) = m_qs q
  /\ ((m_id q < 65536)%N -> exists h l rest, m_packed (resolved q rc n an) = h :: l :: rest /\ u16be h l = m_id q).
Proof. exact resolved_fields. Qed.
Print Assumptions C27_resolved_keeps_fields.

(* When the resolver step is a function of the request it is given (act AResolve: the response is
   built from the request of the flow) a client message is answered by exactly one reply, built
   from this very message - in any state of the connection. *)
Theorem C27_resolver_reply_own_query : forall c s m rc n an rest,
  fix_fresh c = true -> s_crashed s = false ->
  s_script s = AResolve rc n an :: ANone :: rest ->
  exists ord,
  snd (handle_msg c true s m) =
    [OHook HReq ord (Some m) None false;
     OHook HResp ord (Some m) (Some (resolved m rc n an)) false;
     OSend true (pack_message (resolved m rc n an) (ctcp c))].
Proof. exact resolver_reply_own_query. Qed.
Print Assumptions C27_resolver_reply_own_query.

(* Concurrent histories: any number of client connections (one layer each), any interleaving of
   their events.  Each connection ends in the state, and receives the commands, of the run of its
   own events alone ... *)
Theorem C27_concurrent_clients_independent : forall unpack c es ss i s,
  nth_error ss i = Some s ->
  nth_error (fst (sys_run unpack c ss es)) i = Some (fst (run unpack c s (proj_events i es)))
  /\ proj_outs i (snd (sys_run unpack c ss es)) = snd (run unpack c s (proj_events i es)).
Proof. exact sys_run_proj. Qed.
Print Assumptions C27_concurrent_clients_independent.

(* ... hence every reply sent on connection i answers a query extracted from connection i (the
   ghost list s_cq of ITS final state), for scripts of explicit and resolver-made responses. *)
Theorem C27_concurrent_replies_answer_own_queries : forall unpack c inits es i script conn,
  fix_drop c = true ->
  nth_error inits i = Some (script, conn) ->
  let r := sys_run unpack c (map (fun p => init (fst p) (snd p)) inits) es in
  exists si, nth_error (fst r) i = Some si /\
  forall data, In (i, OSend true data) (snd r) -> answers_query c script (s_cq si) (s_sm si) data.
Proof. exact concurrent_replies. Qed.
Print Assumptions C27_concurrent_replies_answer_own_queries.

(* ---- hypotheses are satisfiable on non-trivial values ---- *)
Theorem C27_nonvacuous :
  let chunks := [[x00]; [x01; x01; x00]; [x01; x02]] in
  let s := init [] [true] in
  working s /\ ctcp ct = true
  /\ unpack_tcp wunpack (buf_of s true ++ concat chunks) = ROk [q1; q1b] []
  /\ run wunpack ct s (map (EData true) chunks) = run wunpack ct s [EData true (concat chunks)]
  /\ length (snd (run wunpack ct s (map (EData true) chunks))) = 5
  /\ (forall k ord rs e, ~ In (OHook k ord None rs e) (snd (run wunpack cu s [EData true [x01]; EData false [x03]])))
  /\ In (OSend true [x03]) (snd (run wunpack cu s [EData true [x01]; EData false [x03]])).
Proof. exact nonvacuous. Qed.
Print Assumptions C27_nonvacuous.
