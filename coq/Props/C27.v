(* stub, replaced below *)
From Coq Require Import List Bool NArith.
From MV Require Import Base.Bytes Model.DnsLayer.
Theorem C27_stub : True. Proof. exact I. Qed.
Print Assumptions C27_stub.
