(* Props/C43.v -- The flow view always shows exactly the matching flows in order.
   Statements only; each is closed by [exact] of a lemma proved in Proofs/View*.v.
   Model: Model/View.v (View, _OrderKey, Focus, Settings of mitmproxy/addons/view.py, SortedKeyList as sorted
   insertion over (key, id) pairs).  [run ops init] executes a history of calls on a fresh View; every theorem
   quantifies over ALL histories (any flows, any key changes between updates).
   Definitions used: [visible] = list(view); [wanted s id] = the flow matches the current filter and, in
   marked-only mode, is marked; [key_of s id] = current sort key of the flow under the selected order;
   [view_sorted] = list(view) ascending by key_of (descending when reversed); [notif] = what the signals of a
   call say about the change of the shown set.

   The model describes view.py WITH both repairs applied; with them the property holds at full strength:
   - fixes/C43-marked-only-add-update.diff (finding marked-only-ignored-by-add-update, kind fixed):
     add/update tested only the filter, not show_marked  ->  C43_exact has no guard.
   - fixes/C43-stale-order-key.diff (finding stale-order-key, kind fixed): a cached sort key was reused for a
     non-current order or for a flow that was hidden when its key changed; _base_add and set_order now
     regenerate it  ->  C43_sorted has no guard. *)
From Coq Require Import List Bool NArith Permutation Sorted.
From MV Require Import Base.Bytes Model.View Proofs.ViewSpec Proofs.ViewOps Proofs.ViewMain.
Import ListNotations.

(* No call ever raises (ValueError from the sorted list or the focus setter, KeyError from settings,
   IndexError from _rev / __getitem__), whatever the history. *)
Theorem C43_no_exception : forall ops, exists s, run ops init = Ok s.
Proof. exact no_exception. Qed.
Print Assumptions C43_no_exception.

(* Unconditionally: each flow is listed at most once; every listed flow is stored and matches the filter;
   every stored flow that matches (and is marked, in marked-only mode) is listed; the list is ordered
   (reversal handled) by the keys cached for the selected order. *)
Theorem C43_view_bounds : forall ops s, run ops init = Ok s ->
  NoDup (visible s)
  /\ (forall id, In id (visible s) -> In id (store s) /\ fmatches (filt s) (attr s id) = true)
  /\ (forall id, In id (store s) -> wanted s id = true -> In id (visible s))
  /\ view_sorted_cached s.
Proof. exact view_bounds. Qed.
Print Assumptions C43_view_bounds.

(* The view lists exactly the stored flows that match the filter and, in marked-only mode, are marked,
   each once (full strength, no guard). *)
Theorem C43_exact : forall ops s, run ops init = Ok s ->
  Permutation (visible s) (filter (wanted s) (store s)).
Proof. exact view_exact. Qed.
Print Assumptions C43_exact.

(* The list is always sorted by the CURRENT key of the selected order, reversed when requested
   (full strength, no guard; a flow's key may change at every update). *)
Theorem C43_sorted : forall ops s, run ops init = Ok s -> view_sorted s.
Proof. exact view_sorted_always. Qed.
Print Assumptions C43_sorted.

(* The focus is always a listed flow; it is None exactly when the view is empty. *)
Theorem C43_focus : forall ops s, run ops init = Ok s ->
  (forall f, focus s = Some f -> In f (visible s)) /\ (focus s = None <-> visible s = []).
Proof. exact focus_in_view. Qed.
Print Assumptions C43_focus.

(* Per-flow settings exist only for stored flows. *)
Theorem C43_settings : forall ops s id, run ops init = Ok s -> In id (settings_ids s) -> In id (store s).
Proof. exact settings_only_stored. Qed.
Print Assumptions C43_settings.

(* The signals of every call account for the change of the shown set: sig_view_add only for a flow that was
   not shown and now is, sig_view_remove (with its position in the underlying list) only for a shown flow that
   is no longer shown, sig_view_update only for a shown flow, and without sig_view_refresh nothing else changes. *)
Theorem C43_signals : forall ops s o s', run ops init = Ok s -> step o s = Ok s' ->
  notif (raw_ids s) (log s') (raw_ids s').
Proof. exact signals_match. Qed.
Print Assumptions C43_signals.

(* A non-trivial history (two marked flows, size order, marked-only mode, the shown flow 0 shrinks and is
   re-sorted, reversed) ends with both flows listed in descending size order and the focus kept. *)
Theorem C43_nonvacuous : exists s, run hist_good init = Ok s
  /\ visible s = [1%N; 0%N] /\ show_marked s = true /\ focus s = Some 0%N /\ key_of s 1%N = 1%N /\ key_of s 0%N = 0%N.
Proof. exact good_history. Qed.
Print Assumptions C43_nonvacuous.
