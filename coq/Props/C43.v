(* Props/C43.v -- placeholder while the proofs are being written. *)
From Coq Require Import List Bool NArith.
From MV Require Import Base.Bytes Model.View.

Theorem C43_nonvacuous : run nil init = Ok init.
Proof. reflexivity. Qed.
Print Assumptions C43_nonvacuous.
