(* Props/C02.v -- HTTP/1 behaviour does not depend on TCP segmentation or pipelining.
   Subject: Model/Http1Seg.v (the receive side of Http1Server / Http1Client with the h11 ReceiveBuffer and body readers),
   the model the correspondence check runs, with the repair fixes/C02-skip-blank-lines-before-head.diff (blank_loop = true).
   Every theorem holds for ALL message-level functions (head parsing + expected body size, CONNECT test, the
   mark_done decision, trailer decoding), all connection states, all buffers whose search caches are valid
   (buf_inv: true initially and preserved), all byte strings.
   Observations: flat = the emitted commands / ReceiveHttp events with adjacent data events of a stream merged;
   fin_rel = same connection object and same buffered bytes, or both connections closed by the proxy.
   The full statement (no side condition on the cut) is false of the code in one place, a finding:
     C02_feed_app_refuted_pipe   bytes after a switch to passthrough are lstripped only if already buffered
   cut_ok is exactly the complement of that situation (ok_stop in Proofs/Http1Seg.v).  (A second place, a client
   connection whose response ended before its request re-running the finished reader, was repaired in /repo 99d99512a:
   Http1Client.mark_done now moves to wait; the model follows it and the side condition is gone.) *)
From Coq Require Import List Bool NArith ZArith.
From MV Require Import Base.Bytes Model.Http1Seg Proofs.Http1SegBuf Proofs.Http1Seg.
Import ListNotations.

(* (1) the two search-offset caches of ReceiveBuffer never change a result *)
Theorem C02_search_caches_irrelevant :
  forall Req Resp sh ch ic af tr f (c : conn Req Resp) b1 b2,
  b_data b1 = b_data b2 -> buf_inv b1 -> buf_inv b2 ->
  rres_eq Req Resp (run Req Resp sh ch ic af tr true f c b1) (run Req Resp sh ch ic af tr true f c b2).
Proof. intros. apply run_cong; assumption. Qed.
Print Assumptions C02_search_caches_irrelevant.

(* (2) handling a segment always terminates within the fuel of the model, and keeps the caches valid *)
Theorem C02_handle_data_total :
  forall Req Resp sh ch ic af tr (c : conn Req Resp) b d, buf_inv b ->
  exists c' b' o, handle_data Req Resp sh ch ic af tr true c b d = Finished c' b' o /\ buf_inv b'.
Proof. intros. apply handle_data_total; assumption. Qed.
Print Assumptions C02_handle_data_total.

(* (3) feed_app: a segment a ++ x gives what the segments a, x give *)
Theorem C02_feed_app_partial :
  forall Req Resp sh ch ic af tr (c : conn Req Resp) b a x, buf_inv b -> a <> [] -> x <> [] ->
  exists c1 b1 o1 c2 b2 o2 c3 b3 o3,
    handle_data Req Resp sh ch ic af tr true c b a = Finished c1 b1 o1 /\
    handle_data Req Resp sh ch ic af tr true c1 b1 x = Finished c2 b2 o2 /\
    handle_data Req Resp sh ch ic af tr true c b (a ++ x) = Finished c3 b3 o3 /\
    (cut_ok Req Resp c c1 x -> fin_rel Req Resp c3 b3 c2 b2 /\ flat Req Resp o3 = flat Req Resp (o1 ++ o2)).
Proof. intros. apply feed_app_handle_data; assumption. Qed.
Print Assumptions C02_feed_app_partial.

(* (4) every segmentation of a stream (any number of non-empty segments) gives what the whole stream gives *)
Theorem C02_any_segmentation_partial :
  forall Req Resp sh ch ic af tr segs (c : conn Req Resp) b,
  buf_inv b -> Forall (fun s => s <> []) segs -> segs <> [] ->
  exists c2 b2 o2 c3 b3 o3,
    run_segments Req Resp sh ch ic af tr c b segs = Some (c2, b2, o2) /\
    handle_data Req Resp sh ch ic af tr true c b (concat segs) = Finished c3 b3 o3 /\
    (cuts_ok Req Resp sh ch ic af tr c b segs -> fin_rel Req Resp c3 b3 c2 b2 /\ flat Req Resp o3 = flat Req Resp o2).
Proof. intros. apply any_segmentation_handle_data; assumption. Qed.
Print Assumptions C02_any_segmentation_partial.

(* (5) pipelining: while the current flow is unfinished (state wait) received bytes are only buffered; they are
   parsed by mark_done when the response has been sent, by the same run function (3) and (4) are about *)
Theorem C02_wait_defers_parsing :
  forall Req Resp sh ch ic af tr (c : conn Req Resp) b d, buf_inv b -> c_state c = Wait -> c_closed c = false ->
  handle_data Req Resp sh ch ic af tr true c b d = Finished c (buf_add b d) [].
Proof. intros. apply wait_defers_handle_data; assumption. Qed.
Print Assumptions C02_wait_defers_parsing.

(* (6) the upgrade hand-over: on the client connection of a 101 / CONNECT-200 exchange, send(ResponseEndOfMessage) itself
   makes the connection a tunnel and in the same activation emits the bytes the client pipelined behind its request
   (they were only buffered while the state was wait, (5)).  So the sender of that event must be able to take tunnel data
   before it sends it: HttpStream.flow_done installs and starts the websocket / tcp child layer first.  (HttpStream itself
   is not modelled: that it does so is checked by the upg oracle on the real HttpLayer.) *)
Theorem C02_upgrade_end_of_message_flushes :
  forall Req Resp sh ch ic af tr (c : conn Req Resp) b sid rq rs last half y ys,
  c_role c = Server -> c_sid c = Some sid -> c_request c = Some rq -> c_response c = Some rs ->
  c_request_done c = true -> af Server rq rs = MakePipe -> lstrip_crlf (b_data b) = y :: ys ->
  exists c' o, handle_send Req Resp sh ch ic af tr true c b (SEndOfMessage sid last half)
                 = Finished c' (mkBuf [] 0 0) (o ++ [OData sid (y :: ys)]) /\
               c_state c' = Passthrough /\ (o = [] \/ o = [OSendLastChunk]).
Proof. intros. eapply upgrade_end_of_message_flushes; eassumption. Qed.
Print Assumptions C02_upgrade_end_of_message_flushes.

(* ---- witnesses: Req = Resp = N, every head is accepted with Content-Length 0 *)
Definition w_sh : list bytes -> head_result N := fun _ => Accepted 0%N (Some 0%Z).
Definition w_ch : N -> list bytes -> head_result N := fun _ _ => Accepted 0%N (Some 0%Z).
Definition w_client (request_done : bool) : conn N N :=
  mkConn N N Client ReadHeaders Http10Reader (Some 1%N) (Some 0%N) None request_done false false false.
Definition HEAD_A : bytes := [x41; x0a; x0a].

Theorem C02_feed_app_refuted_pipe :
  exists af (c : conn N N) b a x o1 c1 b1 o2 c2 b2 o3 c3 b3, buf_inv b /\ a <> [] /\ x <> [] /\
    handle_data N N w_sh w_ch (fun _ => false) af (fun _ => TrailerInvalid) true c b a = Finished c1 b1 o1 /\
    handle_data N N w_sh w_ch (fun _ => false) af (fun _ => TrailerInvalid) true c1 b1 x = Finished c2 b2 o2 /\
    handle_data N N w_sh w_ch (fun _ => false) af (fun _ => TrailerInvalid) true c b (a ++ x) = Finished c3 b3 o3 /\
    flat N N o3 <> flat N N (o1 ++ o2).
Proof.
  exists (fun _ _ _ => MakePipe), (w_client true), empty_buf, HEAD_A, [x0a; x42].
  do 9 eexists. split; [apply buf_inv_zero|]. split; [discriminate|]. split; [discriminate|].
  split; [vm_compute; reflexivity|]. split; [vm_compute; reflexivity|]. split; [vm_compute; reflexivity|].
  vm_compute. discriminate.
Qed.
Print Assumptions C02_feed_app_refuted_pipe.

(* the unrepaired code (blank_loop = false): a blank line before a complete request stalls it when both arrive
   in one segment -- the defect repaired by fixes/C02-skip-blank-lines-before-head.diff *)
Theorem C02_unrepaired_blank_line_stall :
  exists (c : conn N N) b a x o1 c1 b1 o2 c2 b2 o3 c3 b3, buf_inv b /\ a <> [] /\ x <> [] /\
    handle_data N N w_sh w_ch (fun _ => false) (fun _ _ _ => NextMessage) (fun _ => TrailerInvalid) false c b a = Finished c1 b1 o1 /\
    handle_data N N w_sh w_ch (fun _ => false) (fun _ _ _ => NextMessage) (fun _ => TrailerInvalid) false c1 b1 x = Finished c2 b2 o2 /\
    handle_data N N w_sh w_ch (fun _ => false) (fun _ _ _ => NextMessage) (fun _ => TrailerInvalid) false c b (a ++ x) = Finished c3 b3 o3 /\
    o3 = [] /\ o1 ++ o2 <> [].
Proof.
  exists (init_conn N N Server), empty_buf, [x0d; x0a], HEAD_A.
  do 9 eexists. split; [apply buf_inv_zero|]. split; [discriminate|]. split; [discriminate|].
  split; [vm_compute; reflexivity|]. split; [vm_compute; reflexivity|]. split; [vm_compute; reflexivity|].
  split; [reflexivity|discriminate].
Qed.
Print Assumptions C02_unrepaired_blank_line_stall.

(* the hypotheses of (4) are satisfiable on a non-trivial input: two pipelined requests, the first preceded by a blank
   line, cut inside the blank line, inside the first head and between the requests; the second waits for the response *)
Theorem C02_nonvacuous :
  let segs := [[x0d]; [x0a; x41]; [x0a; x0a]; HEAD_A] in
  buf_inv empty_buf /\ Forall (fun s : bytes => s <> []) segs /\ segs <> [] /\
  cuts_ok N N w_sh w_ch (fun _ => false) (fun _ _ _ => NextMessage) (fun _ => TrailerInvalid) (init_conn N N Server) empty_buf segs /\
  exists c2 b2, run_segments N N w_sh w_ch (fun _ => false) (fun _ _ _ => NextMessage) (fun _ => TrailerInvalid)
                  (init_conn N N Server) empty_buf segs = Some (c2, b2, [OReqHeaders 1%N 0%N true; OEndOfMessage 1%N]) /\
                c_state c2 = Wait /\ b_data b2 = HEAD_A.
Proof.
  cbv zeta. split; [apply buf_inv_zero|]. split; [repeat constructor; discriminate|]. split; [discriminate|].
  split.
  - vm_compute. repeat split; intros; try discriminate;
      match goal with H : _ /\ _ |- _ => destruct H as (? & ? & ? & ?); discriminate | _ => idtac end.
  - eexists _, _. split; [vm_compute; reflexivity|]. split; reflexivity.
Qed.
Print Assumptions C02_nonvacuous.
