(* Props/C02.v -- placeholder while the correspondence is brought up; replaced by the real theorems. *)
From Coq Require Import List.
From MV Require Import Base.Bytes Model.Http1Seg.
Theorem C02_placeholder : True. Proof. exact I. Qed.
Print Assumptions C02_placeholder.
