(* Props/C32.v -- Message text round-trips for every content type.
   Statements only; each is closed by [exact] of a lemma proved in Proofs/MsgText*.v.
   The full-strength statement (every string, every Content-Type reads back unchanged) is FALSE of the
   faithful model and of the code: C32_roundtrip_refuted and the three bundles of witnesses below.
   C32_roundtrip_partial holds under a guard that is exactly the complement of the recorded findings:
     set_text succeeds          (complement of finding non-text-charset: TypeError)
     getter_agrees              (complement of bom-prefix and body-declared-charset: the encoding inferred
                                 with the stored body equals the one inferred without it)
     codec_rt                   (complement of non-injective-codec; PROVED for ascii/latin-1/utf-8/utf-8-sig,
                                 see C32_roundtrip_exact, a contract for abstract codecs)
     scalar_text                (complement of surrogate-escape)
   C32_infer_stable gives a syntactic sufficient condition for getter_agrees. *)
From Coq Require Import String.
From Coq Require Import List Bool NArith.
From MV Require Import Base.Bytes Model.MsgText Proofs.MsgTextCodec Proofs.MsgTextParse Proofs.MsgTextMain Proofs.MsgTextBom.
Import ListNotations.
Local Open Scope N_scope.

Theorem C32_roundtrip_refuted :
  exists (m : msg) (s : text), scalar_text s /\
    forall C strict, exists m', set_text C m (Some s) = SetOk m' /\ get_text C m' strict <> GStr s.
Proof. exact roundtrip_refuted. Qed.
Print Assumptions C32_roundtrip_refuted.

(* BOM family: Latin-1 text looking like a UTF-16 BOM; U+FEFF lost under utf-8; utf-16 gains U+FEFF *)
Theorem C32_bom_family_refuted : forall C strict,
  after_set C (mk None) [255; 254; 97; 98] strict = Some (GStr [65279; 25185])
  /\ after_set C (mk (Some (B "text/plain; charset=utf-8"))) [65279; 97] strict = Some (GStr [97])
  /\ after_set C (mk (Some (B "text/plain; charset=utf-16"))) [97] strict = Some (GStr [65279; 97]).
Proof. exact bom_family_refuted. Qed.
Print Assumptions C32_bom_family_refuted.

(* html meta, xml declaration, css at-charset inside the text win over the setter's default *)
Theorem C32_body_declaration_refuted : forall C strict,
    (exists g, after_set C (mk (Some (B "text/html"))) meta_text strict = Some g /\ g <> GStr meta_text)
    /\ (exists g, after_set C (mk (Some (B "text/xml"))) xml_text strict = Some g /\ g <> GStr xml_text)
    /\ (exists g, after_set C (mk (Some (B "text/css"))) css_text strict = Some g /\ g <> GStr css_text).
Proof. exact body_declaration_refuted. Qed.
Print Assumptions C32_body_declaration_refuted.

(* surrogate-escaped bytes: the strict getter raises, the lenient one merges them *)
Theorem C32_surrogate_escape_refuted : forall C,
  is_escaped_byte 56575 = true
  /\ after_set C (mk (Some (B "text/plain; charset=utf-8"))) [56575] true = Some GValueErr
  /\ after_set C (mk None) [56515; 56489] false = Some (GStr [233]).
Proof. exact surrogate_escape_refuted. Qed.
Print Assumptions C32_surrogate_escape_refuted.

(* a charset naming a codec that is not str -> bytes: TypeError instead of the UTF-8 fallback *)
Theorem C32_non_text_codec_raises : forall C m s,
  In (encode C (infer_content_encoding (ctype_str m) []) s) [EStr; ETypeErr] ->
  set_text C m (Some s) = SetTypeErr.
Proof. exact non_text_codec_raises. Qed.
Print Assumptions C32_non_text_codec_raises.

(* the guarded round trip: every codec table, message, text, both getter modes *)
Theorem C32_roundtrip_partial : forall C m s m' strict,
  set_text C m (Some s) = SetOk m' ->
  getter_agrees m' ->
  codec_rt C (infer_content_encoding (ctype_str m) []) s ->
  scalar_text s ->
  get_text C m' strict = GStr s.
Proof. exact roundtrip_partial. Qed.
Print Assumptions C32_roundtrip_partial.

(* no codec contract when the Content-Type resolves to ascii, latin-1, utf-8 or utf-8-sig *)
Theorem C32_roundtrip_exact : forall C m s m' strict,
  set_text C m (Some s) = SetOk m' ->
  getter_agrees m' ->
  In (resolve (lower (infer_content_encoding (ctype_str m) []))) [CAscii; CLatin1; CUtf8; CUtf8Sig] ->
  scalar_text s ->
  get_text C m' strict = GStr s.
Proof. exact roundtrip_exact. Qed.
Print Assumptions C32_roundtrip_exact.

(* exact characterisation of the BOM finding on the default path (no charset, no sniffed media type,
   e.g. no Content-Type at all): Latin-1 text reads back IF AND ONLY IF its bytes carry no BOM *)
Theorem C32_default_roundtrip_iff : forall C m s,
  plain_ct (ctype_str m) -> latin1_text s ->
  let m' := {| ctype := ctype m; content := Some (map Nb s) |} in
  set_text C m (Some s) = SetOk m'
  /\ (get_text C m' true = GStr s <-> bom_encoding (map Nb s) = None).
Proof. exact default_roundtrip_iff. Qed.
Print Assumptions C32_default_roundtrip_iff.

Theorem C32_no_ctype_roundtrip_iff : forall C s, latin1_text s ->
  set_text C {| ctype := None; content := None |} (Some s)
    = SetOk {| ctype := None; content := Some (map Nb s) |}
  /\ (get_text C {| ctype := None; content := Some (map Nb s) |} true = GStr s
      <-> bom_encoding (map Nb s) = None).
Proof. exact no_ctype_roundtrip_iff. Qed.
Print Assumptions C32_no_ctype_roundtrip_iff.

(* syntactic sufficient condition for getter_agrees *)
Theorem C32_infer_stable : forall ct b,
  bom_encoding b = None ->
  (falsy (header_charset ct) = false
   \/ contains (B "json") ct = true
   \/ ((contains (B "html") ct = true -> meta_search b = None)
       /\ (contains (B "html") ct = false -> contains (B "xml") ct = true -> xml_search b = None)
       /\ (contains (B "html") ct = false -> contains (B "xml") ct = false ->
           contains (B "javascript") ct || contains (B "ecmascript") ct = false ->
           contains (B "text/css") ct = true -> css_match b = None))) ->
  infer_content_encoding ct b = infer_content_encoding ct [].
Proof. exact infer_stable. Qed.
Print Assumptions C32_infer_stable.

(* the declared charset is rewritten exactly when the text is not encodable, and then to utf-8 *)
Theorem C32_charset_updated : forall C m s m',
  set_text C m (Some s) = SetOk m' ->
  (exists b, encode C (infer_content_encoding (ctype_str m) []) s = EBytes b
             /\ ctype m' = ctype m /\ content m' = Some b)
  \/ (encode C (infer_content_encoding (ctype_str m) []) s = EValueErr
      /\ header_charset (ctype_str m') = Some (B "utf-8")
      /\ infer_content_encoding (ctype_str m') [] = B "utf-8"
      /\ content m' = utf8_encode_se s).
Proof. exact charset_updated. Qed.
Print Assumptions C32_charset_updated.

(* for EVERY Content-Type value the rewritten header parses back with charset utf-8 *)
Theorem C32_fallback_charset : forall ct, header_charset (fallback_ctype ct) = Some (B "utf-8").
Proof. exact fallback_charset. Qed.
Print Assumptions C32_fallback_charset.

(* codec level: decode (encode s) = s *)
Theorem C32_codec_rt_exact : forall C enc s,
  In (resolve (lower enc)) [CAscii; CLatin1; CUtf8; CUtf8Sig] -> codec_rt C enc s.
Proof. exact codec_rt_exact. Qed.
Print Assumptions C32_codec_rt_exact.

Theorem C32_utf8_roundtrip : forall s b, utf8_encode s = Some b -> utf8_decode b = Some s.
Proof. exact utf8_rt. Qed.
Print Assumptions C32_utf8_roundtrip.

Theorem C32_nonvacuous : forall C,
  (exists m', set_text C (mk (Some (B "text/html; charset=latin1; foo=bar"))) (Some snowman) = SetOk m'
      /\ ctype m' = Some (B "text/html; charset=utf-8; foo=bar")
      /\ getter_agrees m' /\ scalar_text snowman
      /\ codec_rt C (infer_content_encoding (B "text/html; charset=latin1; foo=bar") []) snowman
      /\ get_text C m' true = GStr snowman)
  /\ (exists m', set_text C (mk (Some (B "text/html"))) (Some [60; 233; 62]) = SetOk m'
      /\ ctype m' = Some (B "text/html") /\ content m' = Some [x3c; xc3; xa9; x3e]
      /\ getter_agrees m'
      /\ In (resolve (lower (infer_content_encoding (B "text/html") []))) [CAscii; CLatin1; CUtf8; CUtf8Sig]
      /\ get_text C m' true = GStr [60; 233; 62]).
Proof. exact nonvacuous. Qed.
Print Assumptions C32_nonvacuous.
