(* Props/C24.v -- Upstream credentials are only sent to the upstream proxy or reverse target.
   Statements only; each is closed by [exact] of a lemma proved in Proofs/UpstreamAuth*.v.

   The model (Model/UpstreamAuth.v) has a flag c_fixed: false = mitmproxy as found, true = with
   fixes/C24-tunnelled-plain-http.diff (UpstreamAuth remembers the client connections whose CONNECT was accepted).
   The full-strength statement holds of the repaired code (C24_sound); it is false of the code as found
   (C24_sound_refuted: in upstream mode a plain-HTTP request sent through an accepted CONNECT tunnel gets
   Proxy-Authorization and is delivered to the origin server) and holds there for exactly the histories that contain
   no such request (C24_sound_partial; wsafe is the computable complement of the finding).

   wrun cfg ws_init es = the heads written while processing the history es of events (the option upstream_auth being
   set, unset or changed at run time -- WConfigure, the configure hook -- at any point, clients connecting in any of
   the modes and disconnecting, requests in any form, CONNECTs followed by plain HTTP or TLS, upstream proxy accepting or refusing,
   servers closing connections) on any number of client connections that share one addon instance.
   carries cred fs = some header field of the head has the value cred;  wevent_clean = the client did not send it;
   good w = w went to the upstream proxy itself (w_via), outside any CONNECT tunnel, for an upstream-mode client,
            or to the reverse target of a reverse-mode client. *)
From Coq Require Import List Bool NArith.
From MV Require Import Base.Bytes Model.UpstreamAuth Proofs.UpstreamAuthStep Proofs.UpstreamAuthWorld Proofs.UpstreamAuthSent.
Import ListNotations.

(* For EVERY header value cred that no client sent -- in particular every credential configured at any time of the
   history, whatever the option was when a CONNECT was accepted. *)
Theorem C24_sound : forall cfg cred es,
  cfg.(c_fixed) = true -> Forall (wevent_clean cred) es ->
  forall c w, In (c, w) (snd (wrun cfg ws_init es)) -> carries cred w.(w_fields) -> good w.
Proof. exact sound_fixed. Qed.
Print Assumptions C24_sound.

Theorem C24_sound_refuted : exists cfg cred es c w,
  cfg.(c_fixed) = false /\ (fst (wrun cfg ws_init es)).(ws_auth) = Some cred /\ Forall (wevent_clean cred) es
  /\ In (c, w) (snd (wrun cfg ws_init es)) /\ carries cred w.(w_fields)
  /\ w.(w_via) = true /\ w.(w_tunnelled) = true /\ w.(w_kind) = WRequest.
Proof. exact refuted. Qed.
Print Assumptions C24_sound_refuted.

(* any value of c_fixed, in particular the code as found *)
Theorem C24_sound_partial : forall cfg cred es,
  Forall (wevent_clean cred) es -> wsafe cfg ws_init es = true ->
  forall c w, In (c, w) (snd (wrun cfg ws_init es)) -> carries cred w.(w_fields) -> good w.
Proof. exact sound_partial. Qed.
Print Assumptions C24_sound_partial.

(* what good excludes: regular / transparent / SOCKS5 clients, and anything behind a CONNECT to the proxy *)
Theorem C24_good_modes : forall w, good w -> is_upstream w.(w_pm) || is_reverse w.(w_pm) = true.
Proof. exact good_modes. Qed.
Print Assumptions C24_good_modes.

Theorem C24_good_not_tunnelled : forall w, good w -> w.(w_via) && w.(w_tunnelled) = false.
Proof. exact good_not_tunnelled. Qed.
Print Assumptions C24_good_not_tunnelled.

(* Round 2: nothing written into a CONNECT tunnel carries a credential, whatever the option value was when the
   client's CONNECT was accepted and however it changed afterwards. *)
Theorem C24_tunnel_never : forall cfg cred es,
  cfg.(c_fixed) = true -> Forall (wevent_clean cred) es ->
  forall c w, In (c, w) (snd (wrun cfg ws_init es)) -> w.(w_via) = true -> w.(w_tunnelled) = true ->
  ~ carries cred w.(w_fields).
Proof. exact tunnel_never. Qed.
Print Assumptions C24_tunnel_never.

(* The other direction of the statement (the credential IS sent where it belongs), repaired code and code as found:
   after any history, if upstream_auth is now configured with value cred, the next event writes cred into every CONNECT
   head sent to the upstream proxy, every request head sent to the proxy outside a tunnel, and every request head of a
   reverse-mode client. *)
Theorem C24_sent_where_due : forall cfg cred es e,
  let ws := fst (wrun cfg ws_init es) in
  ws.(ws_auth) = Some cred -> cred <> [] ->
  forall c w, In (c, w) (snd (wstep cfg ws e)) ->
  w.(w_kind) = WConnect \/ (w.(w_via) = true /\ w.(w_tunnelled) = false) \/ is_reverse w.(w_pm) = true ->
  carries cred w.(w_fields).
Proof. exact sent_where_due. Qed.
Print Assumptions C24_sent_where_due.

(* the configured value: Basic + base64 of the UTF-8 option string, never empty (so the addon is active) *)
Theorem C24_credential_shape : forall s v, parse_upstream_auth s = POk v ->
  exists b, utf8_encode s = Some b /\ v = basic_prefix ++ b64encode b /\ truthy (Some v) = Some v.
Proof. exact parse_shape. Qed.
Print Assumptions C24_credential_shape.

(* Non-vacuity. history0: upstream_auth set, upstream mode, a plain request, CONNECT e.com:80 (TLS-less tunnel), a plain
   request through the tunnel: three heads, the first two (to the proxy) carry the credential, the tunnelled one does not.
   history1: the CONNECT is accepted while upstream_auth is unset, the option is set afterwards, then a request in the
   tunnel: the CONNECT mitmproxy sends to the proxy carries the credential, the tunnelled request does not.
   history0 is outside the guard of C24_sound_partial for the code as found. *)
Theorem C24_nonvacuous :
  let obs := fun cfg h => map (fun cw => (w_kind (snd cw), w_tunnelled (snd cw), carriesb cred0 (w_fields (snd cw))))
                              (snd (wrun cfg ws_init h)) in
  (fst (wrun (cfg0 true) ws_init history0)).(ws_auth) = Some cred0
  /\ Forall (wevent_clean cred0) history0 /\ Forall (wevent_clean cred0) history1
  /\ obs (cfg0 true) history0 = [(WRequest, false, true); (WConnect, false, true); (WRequest, true, false)]
  /\ obs (cfg0 true) history1 = [(WConnect, false, true); (WRequest, true, false)]
  /\ wsafe (cfg0 false) ws_init history0 = false.
Proof. exact nonvacuous. Qed.
Print Assumptions C24_nonvacuous.
