(* Props/C08.v -- Upstream connection reuse never sends a request to the wrong destination.
   Statements only; each is closed by [exact] of a lemma proved in Proofs/HttpRouting*.v.

   Model: Model/HttpRouting.v (HttpLayer.get_connection / register_connection / connections /
   waiting_for_establishment, Server.__setattr__) over the predicate connection_spec_matches and the command
   builder dest_of_flow that are REGENERATED from the source on every run (Gen/ConnSpec.v).
   A history is a list of steps: SGet (a stream asks for a connection to its destination), SRegister (a layer
   stack reports the outcome of its connection attempt), SSet (somebody assigns an attribute of a connection
   object: state, error, alpn, address, via, tls, transport).  run returns, per step, the replies; a reply
   OReply rid g (Some (c, k, h)) means: request rid with destination g is completed with connection c whose
   attributes at that moment are k, and its head is dispatched to the layer stack of connection h. *)
From Coq Require Import List Bool NArith.
From MV Require Import Base.Bytes Model.HttpRoutingBase Gen.ConnSpec Model.HttpRouting
                       Proofs.HttpRoutingBase Proofs.HttpRouting Proofs.HttpRoutingC08.
Import ListNotations.
Open Scope N_scope.

(* The regenerated reuse predicate is exactly equality of (Server, address, tls, via, transport). *)
Theorem C08_spec_matches_iff : forall (g : get_cmd) (k : conn),
  connection_spec_matches g k = true <->
  (c_server k = true /\ c_address k = Some (g_address g) /\ c_tls k = g_tls g /\ c_via k = g_via g /\ c_tp k = g_tp g).
Proof. exact matches_iff. Qed.
Print Assumptions C08_spec_matches_iff.

(* The regenerated destination of a flow: (host, port), scheme == https, server_conn.via, server_conn.transport. *)
Theorem C08_dest_of_flow : forall host port scheme via tp,
  let g := dest_of_flow host port scheme via tp in
  g_address g = (host, port) /\ (g_tls g = true <-> scheme = https_scheme) /\ g_via g = via /\ g_tp g = tp.
Proof. exact dest_of_flow_spec. Qed.
Print Assumptions C08_dest_of_flow.

(* ROUTING, for every history that respects the environment contract env_ok (RegisterHttpConnection(l, None)
   only for an open, non-failed l; no assignment of address / via / tls / transport to a connection that
   requests are waiting on -- both evaluated on every observed history by the correspondence check):
   every request that is completed with a connection gets one whose (address, tls, via, transport) equal the
   destination of the request at that moment, which is open and has not failed; and the request was really issued
   at or before that step.  In particular no request head is ever written to a failed connection. *)
Theorem C08_routing : forall cf ctx hist,
  ctx_server cf = 1 -> env_ok cf (init_state ctx) hist = true ->
  forall i outs rid g c k h,
    nth_error (snd (run cf (init_state ctx) hist)) i = Some outs ->
    In (OReply rid g (Some (c, k, h))) outs ->
    (c_server k = true /\ c_address k = Some (g_address g) /\ c_tls k = g_tls g /\ c_via k = g_via g /\ c_tp k = g_tp g)
    /\ c_error k = false /\ connected k = true /\ In (SGet rid g) (firstn (S i) hist).
Proof. exact routing. Qed.
Print Assumptions C08_routing.

(* DISPATCH.  The full statement -- the head of a completed request is processed by the layer stack of the
   very connection it was completed with -- is FALSE of the faithful model (finding
   carrier-reused-as-origin): the TCP connection to an upstream proxy is registered in HttpLayer.connections
   under the address of the proxy itself with the layer stack of the tunnel as handler, so a later request whose destination
   is that address (no via) is written into the CONNECT tunnel of another destination. *)
Theorem C08_dispatch_refuted :
  exists cf ctx hist i outs rid g c k h,
    ctx_server cf = 1 /\ env_ok cf (init_state ctx) hist = true
    /\ nth_error (snd (run cf (init_state ctx) hist)) i = Some outs
    /\ In (OReply rid g (Some (c, k, h))) outs
    /\ h <> c
    /\ c_address (hget (l_heap (fst (run cf (init_state ctx) hist))) h) <> Some (g_address g).
Proof. exact dispatch_refuted. Qed.
Print Assumptions C08_dispatch_refuted.

(* ... and it holds under the guard guard_ok, which is exactly the complement of the finding: no request
   asks for a destination matching a registered connection whose handler is the stack of another connection. *)
Theorem C08_dispatch_partial : forall cf ctx hist,
  ctx_server cf = 1 -> guard_ok cf (init_state ctx) hist = true ->
  forall i outs rid g c k h,
    nth_error (snd (run cf (init_state ctx) hist)) i = Some outs ->
    In (OReply rid g (Some (c, k, h))) outs -> h = c.
Proof. exact dispatch_partial. Qed.
Print Assumptions C08_dispatch_partial.

(* Server.__setattr__: a different address / via cannot be assigned to an open Server ... *)
Theorem C08_setattr_guard : forall k,
  c_server k = true -> connected k = true ->
  (forall a, c_address k <> a -> server_setattr k (FAddress a) = None)
  /\ (forall v, c_via k <> v -> server_setattr k (FVia v) = None).
Proof. exact setattr_guard. Qed.
Print Assumptions C08_setattr_guard.

(* ... hence, along any history (any interleaving of requests, registrations and assignments), a Server
   object that is open in every state between two points has the same address and via at both. *)
Theorem C08_open_immutable : forall cf ctx pre hist c,
  ctx_server cf = 1 ->
  let s := fst (run cf (init_state ctx) pre) in
  c < l_next s -> c_server (hget (l_heap s) c) = true ->
  open_throughout cf s c hist ->
  c_address (hget (l_heap (fst (run cf s hist))) c) = c_address (hget (l_heap s) c)
  /\ c_via (hget (l_heap (fst (run cf s hist))) c) = c_via (hget (l_heap s) c).
Proof. exact open_immutable. Qed.
Print Assumptions C08_open_immutable.

(* The hypotheses are satisfiable on a non-trivial history: two requests queue on one pending TLS connection,
   both are completed with it when it opens, a third one reuses it. *)
Theorem C08_nonvacuous :
  let g := mkGet (a_test, 443) true None TCP in
  let hist := [SGet 0 g; SGet 1 g; SSet 2 (FState Open); SRegister 2 false; SGet 2 g] in
  env_ok cfg0 (init_state ctx0) hist = true /\ guard_ok cfg0 (init_state ctx0) hist = true
  /\ exists k, nth_error (snd (run cfg0 (init_state ctx0) hist)) 3 = Some [OReply 0 g (Some (2, k, 2)); OReply 1 g (Some (2, k, 2))]
  /\ nth_error (snd (run cfg0 (init_state ctx0) hist)) 4 = Some [OReply 2 g (Some (2, k, 2))].
Proof. exact routing_nonvacuous. Qed.
Print Assumptions C08_nonvacuous.
