(* Props/C33.v -- placeholder while the correspondence is being brought up *)
From Coq Require Import List Bool NArith ZArith.
From MV Require Import Base.Bytes Model.Url.
Import ListNotations.

Theorem C33_placeholder : default_port s_http = Some 80%Z.
Proof. reflexivity. Qed.
Print Assumptions C33_placeholder.
