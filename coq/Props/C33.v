(* Props/C33.v -- Request URL, host, port and authority stay consistent.
   Statements only.  Model/Url.v describes /repo WITH fixes/C33-hostport-brackets-ipv6.diff
   (hostport brackets IPv6 literals).  ace/uenc are the punycode/nameprep parts of the idna codec;
   every theorem quantifies over them, the correspondence instantiates them with CPython's answers.

   Where the code violates the property there is a _refuted theorem with a computed witness and the
   positive theorem carries the complementary guard:
     - IDN hosts (host stored non-ASCII): C33_refuted_idn / C33_idn_host_not_reassignable /
       C33_unicode_url_rejected; guard = all_ascii host (inside wf_dest: forallb host_char).
     - port 0: C33_refuted_port_zero; guard = 1 <= port (wf_port).
     - IPv6 literal with trailing dot reached through a bracketed userinfo: C33_refuted_ipv6_trailing_dot;
       guard = check_bracketed_host host (wf_br). *)
From Coq Require Import List Bool NArith ZArith Strings.String.
From MV Require Import Base.Bytes Model.Url Proofs.UrlParse Proofs.UrlRequest Proofs.UrlDest Proofs.UrlNormal Proofs.UrlC33.
Import ListNotations.

(* url.parse reads back exactly the components url.unparse was given, for every well-formed
   http(s) destination (names, IPv4, bracketed IPv6/IPvFuture literals, ports 1-65535, any normal path). *)
Theorem C33_parse_unparse : forall ace uenc s h p path,
  wf_dest ace s h p -> wf_path path ->
  parse ace uenc (unparse s h p path) = Some (s, h, p, path).
Proof. exact parse_unparse. Qed.
Print Assumptions C33_parse_unparse.

(* Assigning such a URL to any request: scheme, host, port, path read back, Request.url reads back the
   same URL, Host header and authority are consistent, and assigning the URL read back changes nothing. *)
Theorem C33_url_roundtrip : forall ace uenc r s h p path,
  r_connect r = false -> wf_dest ace s h p -> wf_path path -> idna_decode ace h = Some h ->
  exists r1, set_url ace uenc r (unparse s h p path) = (r1, true)
    /\ r_scheme r1 = s /\ r_host r1 = h /\ r_port r1 = p /\ r_path r1 = path
    /\ get_url r1 = unparse s h p path
    /\ consistent uenc r1
    /\ set_url ace uenc r1 (get_url r1) = (r1, true).
Proof. exact url_roundtrip. Qed.
Print Assumptions C33_url_roundtrip.

(* Any consistent request whose destination and path are well-formed is a fixpoint of
   url := url (in particular every request produced by a url assignment that reads back such values). *)
Theorem C33_url_fixpoint : forall ace uenc r,
  consistent uenc r -> r_connect r = false ->
  wf_dest ace (r_scheme r) (r_host r) (r_port r) -> wf_path (r_path r) ->
  idna_decode ace (r_host r) = Some (r_host r) ->
  set_url ace uenc r (get_url r) = (r, true).
Proof. exact url_fixpoint. Qed.
Print Assumptions C33_url_fixpoint.

(* For EVERY http(s) URL that url.parse accepts (any case, userinfo, explicit default port, leading zeros,
   empty params/query/fragment, stripped control characters ...) the port it returns is in 1..65535 and
   the path it returns is normal: parsing it again returns it unchanged. *)
Theorem C33_parse_port_path_normal : forall ace uenc u s hb p pa,
  parse ace uenc u = Some (s, hb, p, pa) -> http_scheme s ->
  (1 <= p <= 65535)%Z /\ wf_path pa.
Proof. exact parse_port_path_normal. Qed.
Print Assumptions C33_parse_port_path_normal.

(* For EVERY accepted http(s) URL: if the host that reads back satisfies host_wf (executable form host_wf_b,
   evaluated by the correspondence on every accepted URL: there it fails exactly for the
   trailing-dot IPv6 hosts of C33_refuted_ipv6_trailing_dot) and is stored undecoded (not IDN), then
   assigning the URL that was read back succeeds and changes nothing. *)
Theorem C33_accepted_url_reassignable : forall ace uenc r u r1,
  set_url ace uenc r u = (r1, true) -> r_connect r = false ->
  http_scheme (r_scheme r1) -> host_wf ace (r_host r1) ->
  idna_decode ace (r_host r1) = Some (r_host r1) ->
  set_url ace uenc r1 (get_url r1) = (r1, true).
Proof. exact accepted_url_reassignable. Qed.
Print Assumptions C33_accepted_url_reassignable.

Theorem C33_host_wf_decidable : forall ace (uenc : str -> option bytes) h, host_wf_b ace h = true <-> host_wf ace h.
Proof. exact host_wf_b_spec. Qed.
Print Assumptions C33_host_wf_decidable.

(* Every successful url/host/port edit leaves an existing Host header equal to the single value
   hostport(scheme, host, port) and a non-empty authority equal to its encoding, whatever came before. *)
Theorem C33_edit_consistent : forall ace uenc r o r1,
  step ace uenc r o = (r1, true) -> consistent uenc r1.
Proof. exact step_ok_consistent. Qed.
Print Assumptions C33_edit_consistent.

(* ... and this is an invariant of arbitrary edit histories (failed edits assign nothing). *)
Theorem C33_history_consistent : forall ace uenc ops r,
  consistent uenc r -> consistent uenc (run ace uenc r ops).
Proof. exact run_consistent. Qed.
Print Assumptions C33_history_consistent.

Theorem C33_history_after_successful_edit : forall ace uenc ops1 o ops2 r,
  snd (step ace uenc (run ace uenc r ops1) o) = true ->
  consistent uenc (run ace uenc r (ops1 ++ o :: ops2)).
Proof. exact run_last_ok_consistent. Qed.
Print Assumptions C33_history_after_successful_edit.

(* What hostport writes is parsed back by parse_authority(check=True) as the destination:
   the host, and the port unless it is the default of the scheme (IPv6 literals included). *)
Theorem C33_hostport_denotes_destination : forall ace uenc s h p,
  all_ascii h = true -> h <> [] -> is_valid_host_s ace uenc h = true ->
  starts_with [cLBR] h = false -> mem cLF h = false -> (0 <= p <= 65535)%Z ->
  parse_authority ace uenc (hostport s h p) = PA_ok h (shown_port s p).
Proof. exact hostport_denotes_destination. Qed.
Print Assumptions C33_hostport_denotes_destination.

(* After any successful edit an existing Host header (HTTP/1) points at the new destination. *)
Theorem C33_edit_host_header_http1 : forall ace uenc r o r1,
  step ace uenc r o = (r1, true) ->
  r_h2 r1 = false -> has_header s_Host (r_headers r1) = true ->
  dest_ok ace uenc (r_host r1) (r_port r1) ->
  exists a, host_header ace r1 = Some a
    /\ get_all s_Host (r_headers r1) = [a]
    /\ parse_authority ace uenc a = PA_ok (r_host r1) (shown_port (r_scheme r1) (r_port r1)).
Proof. exact edit_host_header_http1. Qed.
Print Assumptions C33_edit_host_header_http1.

(* The same for the authority of HTTP/2 and HTTP/3 requests. *)
Theorem C33_edit_authority_http2 : forall ace uenc r o r1,
  step ace uenc r o = (r1, true) ->
  r_h2 r1 = true -> r_authority r1 <> [] ->
  dest_ok ace uenc (r_host r1) (r_port r1) ->
  idna_decode ace (dest_text r1) = Some (dest_text r1) ->
  r_authority r1 = dest_text r1
  /\ host_header ace r1 = Some (dest_text r1)
  /\ parse_authority ace uenc (dest_text r1) = PA_ok (r_host r1) (shown_port (r_scheme r1) (r_port r1)).
Proof. exact edit_authority_http2. Qed.
Print Assumptions C33_edit_authority_http2.

(* ----- refuted parts of the property (known findings) ----- *)

(* IDN: with the codec fact xn--bcher-kva -> buecher, assigning http://xn--bcher-kva.de/ succeeds, the
   host and url read back in Unicode, and assigning that url again raises ValueError. *)
Theorem C33_refuted_idn :
  let '(r1, ok) := set_url ace0 uenc0 req0 (S "http://xn--bcher-kva.de/") in
  ok = true /\ r_host r1 = bucher ++ S ".de" /\ get_url r1 = S "http://" ++ bucher ++ S ".de/"
  /\ set_url ace0 uenc0 r1 (get_url r1) = (r1, false).
Proof. exact idn_witness. Qed.
Print Assumptions C33_refuted_idn.

(* ... for every codec and every request whose host is stored non-ASCII. *)
Theorem C33_idn_host_not_reassignable : forall ace uenc r,
  all_ascii (r_host r) = false -> r_connect r = false ->
  set_url ace uenc r (get_url r) = (r, false).
Proof. exact idn_host_not_reassignable. Qed.
Print Assumptions C33_idn_host_not_reassignable.

(* A URL that spells its IDN host (or anything else) in non-ASCII is rejected outright. *)
Theorem C33_unicode_url_rejected : forall ace uenc r u,
  all_ascii u = false -> set_url ace uenc r u = (r, false).
Proof. exact non_ascii_url_rejected. Qed.
Print Assumptions C33_unicode_url_rejected.

(* Port 0 is accepted and silently replaced by the default port. *)
Theorem C33_refuted_port_zero : forall ace uenc,
  parse ace uenc (S "http://example.com:0/") = Some (s_http, S "example.com", 80%Z, S "/")
  /\ get_url (fst (set_url ace uenc req0 (S "http://example.com:0/"))) = S "http://example.com/".
Proof. exact port_zero_witness. Qed.
Print Assumptions C33_refuted_port_zero.

(* An accepted URL whose read-back cannot be assigned again: host ::1. (IPv6 literal plus dot). *)
Theorem C33_refuted_ipv6_trailing_dot : forall ace uenc,
  let '(r1, ok) := set_url ace uenc req0 (S "http://[::1]@[::1.]/") in
  ok = true /\ r_host r1 = S "::1." /\ get_url r1 = S "http://[::1.]/"
  /\ set_url ace uenc r1 (get_url r1) = (r1, false).
Proof. exact ipv6_trailing_dot_witness. Qed.
Print Assumptions C33_refuted_ipv6_trailing_dot.

(* Why the repair is needed: host:port written verbatim is not an authority for IPv6 hosts. *)
Theorem C33_unrepaired_hostport_refuted : forall ace uenc,
  parse_authority ace uenc (hostport_unrepaired s_http (S "::1") 8080) = PA_err
  /\ parse_authority ace uenc (hostport s_http (S "::1") 8080) = PA_ok (S "::1") (Some 8080%Z).
Proof. exact unrepaired_ipv6_witness. Qed.
Print Assumptions C33_unrepaired_hostport_refuted.

(* The hypotheses are satisfiable on an IPv6 destination with a non-default port and a path with
   params, query and fragment; a host edit rewrites Host header and authority to [::1]:8080. *)
Theorem C33_nonvacuous : forall ace uenc,
  wf_dest ace s_http (S "::1") 8080 /\ wf_path (S "/a;b/c;d?x=1#f")
  /\ idna_decode ace (S "::1") = Some (S "::1")
  /\ unparse s_http (S "::1") 8080 (S "/a;b/c;d?x=1#f") = S "http://[::1]:8080/a;b/c;d?x=1#f"
  /\ dest_ok ace uenc (S "::1") 8080
  /\ fst (step ace uenc req0 (SetHost (S "::1")))
     = mkReq s_http (S "::1") 8080 (S "/") (S "[::1]:8080") [(s_Host, S "[::1]:8080")] false false.
Proof. exact nonvacuous. Qed.
Print Assumptions C33_nonvacuous.
