(* placeholder *)
From Coq Require Import List Bool Arith.
From MV Require Import Base.Bytes Model.FlowBackup Model.ClientPlayback.
Import ListNotations.
Theorem C53_nonvacuous : count (init []) = 0.
Proof. reflexivity. Qed.
Print Assumptions C53_nonvacuous.
