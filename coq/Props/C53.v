(* Props/C53.v -- Client replay runs queued flows sequentially and cleans up
   (mitmproxy/addons/clientplayback.py, client_replay_concurrency = 1).
   Statements only; each is closed by [exact] of a lemma of Proofs/ClientPlayback*.v.  They are about
   Model/ClientPlayback.v, the model the correspondence check (Corr/C53.v) runs.  A history is any
   list of operations Submit ids (start_replay) | Stop (stop_replay) | Loop (the event loop runs until
   quiescent) | Net r (a network result is handed to the replay in flight, the loop not yet run) |
   Edit i e (the user or another addon changes a flow), from any initial table of flows.  Log events:
   LStart n i = replay() called for queue entry n (flow i), LReq = its request reaches the server,
   LFin = replay() returned with the flow's response / error, LCrash = the except branch,
   LStale = ghost marker (the entry is answered from a response the flow already carries).
   Four places where the code genuinely violates the property are stated as _refuted + _partial. *)
From Coq Require Import List Bool Arith Sorted.
From MV Require Import Base.Bytes Model.FlowBackup Model.ClientPlayback
  Proofs.ClientPlaybackLog Proofs.ClientPlaybackStop Proofs.ClientPlaybackSent Proofs.ClientPlaybackWitness.
Import ListNotations.
Local Open Scope nat_scope.

(* 1. One at a time.  In every history: when the request of entry m reaches the server (or entry m
   finishes, or the stale marker is logged), every replay started earlier, other than m itself, has
   finished; and a replay starts only after every earlier one has finished. *)
Theorem C53_sequential : forall fs ops pre e post,
  log (run (init fs) ops) = pre ++ e :: post ->
  (forall m, needs e = Some m -> forall n i, In (LStart n i) pre -> n <> m -> finished n pre)
  /\ (forall m j, e = LStart m j -> forall n i, In (LStart n i) pre -> finished n pre).
Proof. exact sequential. Qed.
Print Assumptions C53_sequential.

(* 2. Queue order.  Sequence numbers are positions in the global order of acceptance (accepted =
   concatenation of all update-hook lists of start_replay).  Entries are taken from the queue in
   strictly increasing order, the queue itself is in that order and behind everything taken; entry
   n is the flow accepted at position n; no accepted entry is lost: it was taken, is still queued,
   or was removed by stop_replay. *)
Theorem C53_queue_order : forall fs ops,
  let s := run (init fs) ops in
  StronglySorted lt (popped (log s) ++ map fst (queue s))
  /\ (forall n i, In (LStart n i) (log s) \/ In (LCrash n i) (log s) \/ In (n, i) (queue s) ->
        nth_error (accepted (log s)) n = Some i)
  /\ (forall n, n < length (accepted (log s)) ->
        In n (popped (log s)) \/ In n (map fst (queue s)) \/ In n (stopped (log s))).
Proof. exact queue_order. Qed.
Print Assumptions C53_queue_order.

(* 3. Every replay that returns ends with a response or an error ... *)
Theorem C53_finished_replay_has_outcome : forall fs ops n i r e,
  In (LFin n i r e) (log (run (init fs) ops)) -> r <> None \/ e = true.
Proof. exact outcome. Qed.
Print Assumptions C53_finished_replay_has_outcome.

(* ... and the flow carries exactly that outcome, with live = False, when replay() returns *)
Theorem C53_finish_sets_flow : forall s a t f, nth_error (flows s) (a_flow a) = Some f ->
  exists g, nth_error (flows (finish s a t)) (a_flow a) = Some g
    /\ o_resp (fo (cf g)) = fin_resp t (fo (cf f)) /\ o_err (fo (cf g)) = fin_err t (fo (cf f))
    /\ flive (cf g) = false
    /\ log (finish s a t) = log s ++ [LFin (a_seq a) (a_flow a) (o_resp (fo (cf g))) (o_err (fo (cf g)))].
Proof. exact finish_flow. Qed.
Print Assumptions C53_finish_sets_flow.

(* 3b. Every replay in flight CAN end -- false.  Refuted: a reachable state (the same flow queued
   twice, first entry in flight with its request sent, then stop_replay) after which no history
   whatsoever finishes the replay in flight or takes another entry from the queue.  In the code:
   stop_replay reverts the flow in flight, Flow.set_state overwrites the live Server object of the
   open connection, the handler loses it, done is never set (finding stop-wedges-inflight-duplicate;
   the implementation is not compared with the model beyond that stop_replay). *)
Theorem C53_replay_can_finish_refuted :
  exists fs ops, let s := run (init fs) ops in
  (exists a, act s = Some a /\ a_flow a = 0) /\
  forall more, act (run s more) <> None /\ popped (log (run s more)) = popped (log s)
               /\ forall n i r e, In (LFin n i r e) (log (run s more)) -> In (LFin n i r e) (log s).
Proof. exact replay_can_finish_refuted. Qed.
Print Assumptions C53_replay_can_finish_refuted.

(* Partial, guard = not corrupted: a refused connect or a broken / closed response ends the replay
   with an error, a connect delivers the request, a complete response ends it with that response;
   all in the next loop run (loop_net is the part of the loop run before the next entry is taken). *)
Theorem C53_replay_can_finish_partial : forall s a, act s = Some a -> a_pend a = None ->
  match a_phase a with
  | Connecting =>
      (exists r, log (loop_net (net s NFailed)) = log s ++ [LFin (a_seq a) (a_flow a) r true]
                 /\ act (loop_net (net s NFailed)) = None)
      /\ loop (net s NConnected) =
           mkSt (flows s) (queue s) (Some (mkAct (a_seq a) (a_flow a) Sent None)) (next_seq s)
                (log s ++ [LReq (a_seq a) (a_flow a)])
  | Sent =>
      (forall t, exists e, log (loop_net (net s (NResponse t))) = log s ++ [LFin (a_seq a) (a_flow a) (Some t) e]
                           /\ act (loop_net (net s (NResponse t))) = None)
      /\ (exists r, log (loop_net (net s NBroken)) = log s ++ [LFin (a_seq a) (a_flow a) r true]
                    /\ act (loop_net (net s NBroken)) = None)
  | Corrupt => True
  end.
Proof. exact can_finish. Qed.
Print Assumptions C53_replay_can_finish_partial.

(* ... and the guard is exactly the complement of the finding: the corrupted phase is entered only
   by stop_replay while the flow in flight, request sent, has another entry in the queue *)
Theorem C53_corrupted_only_by_stop : forall s o, ~ corrupt s -> corrupt (step s o) ->
  o = Stop /\ hits_connected s = true.
Proof. exact corrupt_only_by_stop. Qed.
Print Assumptions C53_corrupted_only_by_stop.

(* 3c. Every entry taken from the queue ends with a response or an error -- false.  Refuted: the
   request is removed (f.request = None) while the flow is queued; ReplayHandler raises, the except
   branch logs the crash, the flow is left with neither (finding request-dropped-while-queued-crash). *)
Theorem C53_taken_entry_has_outcome_refuted :
  exists fs ops, let s := run (init fs) ops in
  In (LCrash 0 0) (log s) /\ act s = None /\ queue s = []
  /\ option_map (fun f => (o_resp (fo (cf f)), o_err (fo (cf f)))) (nth_error (flows s) 0) = Some (None, false).
Proof. exact taken_entry_has_outcome_refuted. Qed.
Print Assumptions C53_taken_entry_has_outcome_refuted.

(* Partial: the crash branch is taken only in a loop run, for a queued entry whose flow has no
   request at that moment (check passed earlier, so it was removed while queued). *)
Theorem C53_crash_only_without_request_partial : forall s o n i,
  In (LCrash n i) (log (step s o)) -> In (LCrash n i) (log s) \/
  (o = Loop /\ In (n, i) (queue s) /\ req_at (flows s) i = false).
Proof. exact crash_only_without_request. Qed.
Print Assumptions C53_crash_only_without_request_partial.

(* 4. Queued flows are replayed, i.e. their request is sent -- false.  Refuted: the same flow queued
   twice; the second entry finishes with the response of the first replay and no request reaches
   the server (finding stale-response-not-resent). *)
Theorem C53_every_entry_sends_refuted :
  exists fs ops, let s := run (init fs) ops in
  In (LStale 1 0) (log s) /\ In (LFin 1 0 (Some 101) false) (log s) /\ ~ In (LReq 1 0) (log s)
  /\ queue s = [] /\ act s = None.
Proof. exact every_entry_sends_refuted. Qed.
Print Assumptions C53_every_entry_sends_refuted.

(* Partial, for all histories: a replay that ends without an error has a response, and its request
   reached the server -- unless it is the stale case, which arises only for an entry taken from the
   queue in that loop run (its flow carrying a response at that moment). *)
Theorem C53_response_needs_request_partial : forall fs ops n i r,
  In (LFin n i r false) (log (run (init fs) ops)) ->
  r <> None /\ (In (LReq n i) (log (run (init fs) ops)) \/ In (LStale n i) (log (run (init fs) ops))).
Proof. exact response_needs_request. Qed.
Print Assumptions C53_response_needs_request_partial.

Theorem C53_stale_only_from_queue : forall s o n i,
  In (LStale n i) (log (step s o)) -> In (LStale n i) (log s) \/ (o = Loop /\ In (n, i) (queue s)).
Proof. exact stale_only_from_queue. Qed.
Print Assumptions C53_stale_only_from_queue.

(* 5. Unreplayable flows are never queued.  The decision table of check, over all values of its
   seven inputs: it admits a flow iff it is not live, not the flow in flight, not intercepted, an
   HTTP flow, with a request, with content, without websocket; the reason is the first that
   applies.  start_replay accepts exactly the replayable ones among its arguments, in argument order
   with repetitions, appends them to the queue in that order and announces exactly them. *)
Theorem C53_check_table : forall b f, check b f = None <-> replayable b f.
Proof. exact check_table. Qed.
Print Assumptions C53_check_table.

Theorem C53_check_reason : forall b f,
  check b f =
    if flive (cf f) || b then Some RLive
    else if o_int (fo (cf f)) then Some RIntercepted
    else if negb (c_http f) then Some RNotHttp
    else if negb (o_req (fo (cf f))) then Some RNoRequest
    else match o_content (fo (cf f)) with
         | None => Some RNoContent
         | Some _ => if o_ws (fo (cf f)) then Some RWebsocket else None
         end.
Proof. exact check_reason. Qed.
Print Assumptions C53_check_reason.

Theorem C53_submit_spec : forall s ids,
  let acc := filter (ok (inflight s) (flows s)) ids in
  log (step s (Submit ids)) = log s ++ [LSubmit (next_seq s) acc]
  /\ queue (step s (Submit ids)) = queue s ++ combine (seq (next_seq s) (length acc)) acc
  /\ map snd (queue (step s (Submit ids))) = map snd (queue s) ++ acc
  /\ act (step s (Submit ids)) = act s
  /\ (forall i, In i acc <->
        In i ids /\ exists f, nth_error (flows s) i = Some f /\ replayable (infl_eq (inflight s) i) f).
Proof. exact submit_spec. Qed.
Print Assumptions C53_submit_spec.

(* 6. stop_replay.  What it does, always: the queue is emptied, exactly the queued flows are
   reverted (C40 revert) and announced, every other flow is untouched. *)
Theorem C53_stop_spec : forall s,
  queue (stop_replay s) = []
  /\ log (stop_replay s) = log s ++ [LStopped (queue s)]
  /\ length (flows (stop_replay s)) = length (flows s)
  /\ forall i f, nth_error (flows s) i = Some f ->
       nth_error (flows (stop_replay s)) i =
         Some (if in_dec Nat.eq_dec i (map snd (queue s)) then on_fl f_revert f else f).
Proof. exact stop_spec. Qed.
Print Assumptions C53_stop_spec.

(* Stopping restores every still-queued flow to its pre-replay state -- false.  Refuted: the user
   edits a flow (backup, new body), replays it, stops while it is queued: backup() in start_replay
   is a no-op on a pending backup, revert() goes back to the state before the user's edit and the
   user's undo point is gone (finding stop-reverts-to-older-backup; the same happens to a flow that
   was replayed before, whose backup from that replay is still pending). *)
Theorem C53_stop_restores_refuted :
  exists fs before_ops i,
  let before := run (init fs) before_ops in
  let after := run before [Submit [i]; Stop] in
  option_map (fun f => o_content (fo (cf f))) (nth_error (flows before) i) = Some (Some 7)
  /\ option_map (fun f => o_content (fo (cf f))) (nth_error (flows after) i) = Some (Some 0)
  /\ option_map (fun f => fbackup (cf f)) (nth_error (flows before) i) <> Some None
  /\ option_map (fun f => fbackup (cf f)) (nth_error (flows after) i) = Some None
  /\ queue after = [].
Proof. exact stop_restores_refuted. Qed.
Print Assumptions C53_stop_restores_refuted.

(* Partial, guard = no backup pending when the flow is accepted (exactly the complement of the
   finding).  Then ANY history without stop_replay and without a user revert of flow i -- more
   submissions (of flow i too), loop runs, network results, replays of other entries and even of an
   earlier entry for flow i, edits of any flow, flow i included -- and, flow i still being queued,
   stop_replay: flow i has exactly the state (C40 get_state) it had before it was submitted, no
   backup, and the queue is empty.  Uses C40 revert_restores. *)
Theorem C53_stop_restores_partial : forall s ids upd h i f0,
  nth_error (flows s) i = Some f0 -> fbackup (cf f0) = None ->
  log (step s (Submit ids)) = log s ++ [LSubmit (next_seq s) upd] -> In i upd ->
  Forall (safe i) h ->
  let s2 := run (step s (Submit ids)) h in
  In i (map snd (queue s2)) ->
  exists g, nth_error (flows (step s2 Stop)) i = Some g
    /\ f_state (cf g) = f_state (cf f0) /\ fbackup (cf g) = None /\ c_http g = c_http f0
    /\ queue (step s2 Stop) = [].
Proof. exact stop_restores. Qed.
Print Assumptions C53_stop_restores_partial.

(* With a backup pending, what is restored is the state saved in THAT backup. *)
Theorem C53_stop_reverts_to_backup : forall s i f b,
  nth_error (flows s) i = Some f -> In i (map snd (queue s)) -> fbackup (cf f) = Some b ->
  exists g, nth_error (flows (step s Stop)) i = Some g
    /\ f_state (cf g) = St (sid b) (sc b) None /\ fbackup (cf g) = None.
Proof. exact stop_reverts_to_backup. Qed.
Print Assumptions C53_stop_reverts_to_backup.

(* Non-vacuity: two flows submitted, the first replayed (request sent, response 104 pending), the
   second edited while queued; the log is what the statements talk about, the guard of
   C53_stop_restores_partial holds, stop_replay restores the second flow, and before the stop its
   state differed. *)
Theorem C53_nonvacuous :
  let s := run (init [f_resp; f_noresp]) demo_ops in
  log s = [LSubmit 0 [0; 1]; LStart 0 0; LReq 0 0]
  /\ log (step s Loop) = [LSubmit 0 [0; 1]; LStart 0 0; LReq 0 0; LFin 0 0 (Some 104) false; LStart 1 1]
  /\ map snd (queue s) = [1] /\ act s = Some (mkAct 0 0 Sent (Some (NResponse 104)))
  /\ Forall (safe 1) demo_ops
  /\ option_map (fun f => f_state (cf f)) (nth_error (flows (step s Stop)) 1) = Some (f_state (cf f_noresp))
  /\ option_map (fun f => f_state (cf f)) (nth_error (flows s) 1) <> Some (f_state (cf f_noresp)).
Proof. exact demo. Qed.
Print Assumptions C53_nonvacuous.
