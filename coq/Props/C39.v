(* Props/C39.v -- Stream saving writes each completed flow once and keeps open flows at shutdown.

   The hook bodies, the body of Save.done, the discard in save_flow and the open/close order of
   maybe_rotate_to_new_file are Gen.SaveHooks, regenerated from mitmproxy/addons/save.py on every
   run; the theorems are about Model.Save.step over those definitions (the functions the
   correspondence check executes) and hold for every table of flows and every history of hook
   events, option changes (accepted or rejected) and shutdown.

   Vocabulary (Proofs/SaveSpec.v, defined on the history alone): saving_after pre = the path in
   save_stream_file after the accepted option changes of pre; filter_after pre = the filter in
   force; snap_after = the flow as a filter sees it (response / error set by earlier hooks);
   is_start / is_completion = the lifecycle hooks named in the statement; open_after pre i = flow i
   started while saving was active and has since neither completed nor been flushed by a stop;
   writes pre e = the file operations (open with mode, append one record) event e performs after
   history pre.

   FINDING (failed-file-switch): the full statement is false of the code as found.  When
   save_stream_file is changed to a path that cannot be opened, maybe_rotate_to_new_file has
   already closed and forgotten the old stream when open raises; the option is rolled back to the
   old path, current_path still equals it, so nothing is reopened: save_stream_file is set and no
   flow is recorded any more (C39_failed_switch_refuted).  switch_safe is exactly the complement:
   no option change to an unopenable path in the history -- or the repaired order (open first),
   in which case rotate_open_first = true is generated and the guard is always satisfied. *)
From Coq Require Import List Bool NArith.
From MV Require Import Model.SavePrelude Gen.SaveHooks Model.Save Proofs.SaveSpec Proofs.SaveInv Proofs.SaveMain.
Import ListNotations.
Open Scope N_scope.

(* A hook writes exactly one record of its flow, to the current file, iff saving is active, the hook
   is a completion of that flow (response/error without websocket, websocket_end, tcp/udp end or
   error, dns response or error) and the flow matches the filter in force; otherwise it writes
   nothing.  Hence: one record per completion of a matching flow, nothing for non-matching flows,
   nothing at a start or at the response of a websocket flow (no record before completion). *)
Theorem C39_completion_writes_once_partial : forall infos pre h i,
  no_done pre -> switch_safe pre ->
  writes infos pre (Hook h i) =
  match saving_after pre with
  | Some p =>
      if is_completion h (f_ws (info infos i))
         && passes (filter_after pre) (snap_after infos (pre ++ [Hook h i]) i)
      then [WWrite p i] else []
  | None => []
  end.
Proof. exact hook_writes. Qed.
Print Assumptions C39_completion_writes_once_partial.

(* When saving stops (shutdown, or save_stream_file unset by an accepted option change) exactly the
   flows that started while saving was active and have not completed since, and match the filter,
   are written, each once (the order is that of a set), to the file being saved to. *)
Theorem C39_stop_writes_open_flows_once_partial : forall infos pre e,
  no_done pre -> switch_safe pre -> stops e = true ->
  exists l,
    writes infos pre e = match saving_after pre with Some p => map (WWrite p) l | None => [] end
    /\ NoDup l
    /\ forall i, In i l <-> open_after infos pre i
                            /\ passes (filter_after pre) (snap_after infos pre i) = true.
Proof. exact stop_writes. Qed.
Print Assumptions C39_stop_writes_open_flows_once_partial.

(* Any other option change (filter change, switch of file or mode, rejected change) writes no
   record; it opens the new file iff it is accepted and names a path other than the current one. *)
Theorem C39_option_change_writes_no_record_partial : forall infos pre uf ufl,
  no_done pre -> switch_safe (pre ++ [Configure uf ufl]) -> stops (Configure uf ufl) = false ->
  writes infos pre (Configure uf ufl) =
  if accepted uf ufl then
    match uf with
    | Some (Some (a, p)) => if optN_eqb (saving_after pre) (Some p) then [] else [WOpen p a]
    | _ => []
    end
  else [].
Proof. exact config_writes. Qed.
Print Assumptions C39_option_change_writes_no_record_partial.

(* Save.active_flows is, at every point, exactly the set of started-not-completed flows. *)
Theorem C39_active_flows_are_the_open_flows_partial : forall infos pre,
  no_done pre -> switch_safe pre ->
  NoDup (active (run infos init pre))
  /\ forall i, In i (active (run infos init pre)) <-> open_after infos pre i.
Proof. exact active_open. Qed.
Print Assumptions C39_active_flows_are_the_open_flows_partial.

(* One whole session -- save_stream_file set (append or overwrite), any interleaving of hooks and
   filter changes (valid or invalid), shutdown: the file holds its old content (append) or nothing
   (overwrite), then one record per completion of a matching flow in completion order, then the
   matching flows still open at shutdown, each once.  No guard: such a history has no file switch. *)
Theorem C39_session_file_contents : forall infos a p mid f0,
  p =? bad_path = false -> no_done mid -> Forall no_file_update mid ->
  let first := Configure (Some (Some (a, p))) None in
  let hist := first :: mid in
  exists tail,
    fs_get (fs_apply f0 (run_log infos init (hist ++ [Done]))) p
    = Some ((if a then match fs_get f0 p with Some c => c | None => [] end else [])
            ++ completions infos [first] mid ++ tail)
    /\ NoDup tail
    /\ forall i, In i tail <-> open_after infos hist i
                               /\ passes (filter_after hist) (snap_after infos hist i) = true.
Proof. exact session. Qed.
Print Assumptions C39_session_file_contents.

(* The finding: without the guard the first theorem fails for the code as found (witness: start a
   TCP flow while saving to file 0, try to switch to a directory, complete the flow). *)
Theorem C39_failed_switch_refuted :
  rotate_open_first = false ->
  exists infos pre h i,
    no_done pre /\
    writes infos pre (Hook h i) <>
    match saving_after pre with
    | Some p =>
        if is_completion h (f_ws (info infos i))
           && passes (filter_after pre) (snap_after infos (pre ++ [Hook h i]) i)
        then [WWrite p i] else []
    | None => []
    end.
Proof. exact failed_switch_refuted. Qed.
Print Assumptions C39_failed_switch_refuted.

(* non-vacuity: a concrete session of four concurrent flows (HTTP, TCP, WebSocket, DNS) with a filter
   change, appended to a file that already holds record 7 *)
Theorem C39_nonvacuous :
  no_done ex_mid /\ Forall no_file_update ex_mid /\
  completions ex_infos [Configure (Some (Some (true, 1))) None] ex_mid = [1; 0] /\
  fs_get (fs_apply [(1, [7])]
            (run_log ex_infos init (Configure (Some (Some (true, 1))) None :: ex_mid ++ [Done]))) 1
  = Some [7; 1; 0; 0; 2].
Proof. exact session_example. Qed.
Print Assumptions C39_nonvacuous.
