(* placeholder while the correspondence is being brought up *)
From Coq Require Import List Bool NArith.
From MV Require Import Model.SavePrelude Model.Save.
Theorem C39_nonvacuous : run nil init nil = init.
Proof. reflexivity. Qed.
Print Assumptions C39_nonvacuous.
