(* Corr/C33.v -- correspondence glue for C33.  A case carries the inputs, the codec tables
   recorded from the real idna codec for exactly the strings the case touches, and the
   implementation's observations; check_case recomputes every observation with Model/Url.v. *)
From Coq Require Import List Bool NArith ZArith.
From MV Require Import Base.Bytes Model.Url.
Import ListNotations.

Definition table := list (bytes * option bytes).
Fixpoint lookup (t : table) (k : bytes) : option bytes :=
  match t with
  | [] => None
  | (k', v) :: r => if bytes_eqb k k' then v else lookup r k
  end.

(* what the harness reads off the real Request after every edit *)
Record obs := mkObs {
  o_status : N;                 (* 0 = returned, 1 = ValueError (incl. UnicodeError), 2 = any other exception *)
  o_scheme : bytes; o_host : bytes; o_port : Z; o_path : bytes; o_authority : bytes;
  o_headers : list (bytes * bytes);
  o_url : bytes;                (* Request.url *)
  o_hh : option bytes;          (* Request.host_header *)
  o_pa : option pa_result       (* parse_authority(host_header, check=True) when host_header is not None *)
}.

Inductive case :=
| Hist (ta tu : table) (init : request) (steps : list (op * obs))
| Parse (ta : table) (u : bytes) (res : option (bytes * bytes * Z * bytes))
| ValidHost (ta tu : table) (is_str : bool) (h : bytes) (res : bool)
| PA (ta tu : table) (a : bytes) (res : pa_result)
| IP (s : bytes) (res : N)                                  (* 0 = ValueError, 4, 6 *)
| HostPort (scheme host : bytes) (port : Z) (res : bytes) (upath : bytes) (ures : bytes).

Definition optZ_eqb (a b : option Z) : bool := option_eqb Z.eqb a b.
Definition pa_eqb (m i : pa_result) : bool :=
  match m, i with
  | PA_unmodelled, _ => true
  | PA_ok h p, PA_ok h' p' => bytes_eqb h h' && optZ_eqb p p'
  | PA_err, PA_err => true
  | _, _ => false
  end.
Definition hdr_eqb (a b : list (bytes * bytes)) : bool := list_eqb (pair_eqb bytes_eqb bytes_eqb) a b.

Definition check_obs (ta tu : table) (r : request) (ok : bool) (o : obs) : bool :=
  N.eqb (o_status o) (if ok then 0 else 1)%N
  && bytes_eqb (r_scheme r) (o_scheme o) && bytes_eqb (r_host r) (o_host o)
  && Z.eqb (r_port r) (o_port o) && bytes_eqb (r_path r) (o_path o)
  && bytes_eqb (r_authority r) (o_authority o) && hdr_eqb (r_headers r) (o_headers o)
  && bytes_eqb (get_url r) (o_url o)
  && option_eqb bytes_eqb (host_header (lookup ta) r) (o_hh o)
  && match host_header (lookup ta) r, o_pa o with
     | Some a, Some i => pa_eqb (parse_authority (lookup ta) (lookup tu) a) i
     | None, None => true
     | _, _ => false
     end.

(* exactness of the guard of C33_accepted_url_reassignable on the generated inputs: for an accepted
   http(s) URL whose host is stored ASCII and undecoded, host_wf_b holds iff the model says that
   assigning the URL read back succeeds *)
Definition guard_exact (ta tu : table) (r : request) : bool :=
  if (bytes_eqb (r_scheme r) s_http || bytes_eqb (r_scheme r) s_https) && negb (r_connect r)
     && all_ascii (r_host r)
     && option_eqb bytes_eqb (idna_decode (lookup ta) (r_host r)) (Some (r_host r))
  then Bool.eqb (host_wf_b (lookup ta) (r_host r)) (snd (set_url (lookup ta) (lookup tu) r (get_url r)))
  else true.

Fixpoint check_steps (ta tu : table) (r : request) (steps : list (op * obs)) : bool :=
  match steps with
  | [] => true
  | (o, ob) :: rest =>
      let '(r', ok) := step (lookup ta) (lookup tu) r o in
      check_obs ta tu r' ok ob
      && match o with SetUrl _ => if ok then guard_exact ta tu r' else true | _ => true end
      && check_steps ta tu r' rest
  end.

Definition res4_eqb (a b : bytes * bytes * Z * bytes) : bool :=
  let '(s, h, p, pa) := a in let '(s', h', p', pa') := b in
  bytes_eqb s s' && bytes_eqb h h' && Z.eqb p p' && bytes_eqb pa pa'.

Definition ip_class (s : bytes) : N := if is_ipv4 s then 4%N else if is_ipv6 s then 6%N else 0%N.

Definition check_case (c : case) : bool :=
  match c with
  | Hist ta tu init steps => check_steps ta tu init steps
  | Parse ta u res => option_eqb res4_eqb (parse (lookup ta) (fun _ => None) u) res
  | ValidHost ta tu is_str h res =>
      Bool.eqb (if is_str then is_valid_host_s (lookup ta) (lookup tu) h else is_valid_host_b (lookup ta) h) res
  | PA ta tu a res => pa_eqb (parse_authority (lookup ta) (lookup tu) a) res
  | IP s res => N.eqb (ip_class s) res
  | HostPort scheme host port res upath ures =>
      bytes_eqb (hostport scheme host port) res && bytes_eqb (unparse scheme host port upath) ures
  end.
