(* Corr/C11.v — the real mitmproxy.flow.Flow object is driven with the same operations; after each
   one the harness records (intercepted, live, killed, resume-event state, hook handler state). *)
From Coq Require Import List Bool Arith.
From MV Require Import Base.Bytes Model.FlowControl.
Import ListNotations.

(* event: 0 none, 1 clear, 2 set;  handler: 0 not started, 1 pending (waiting or released), 2 done *)
Record obs := mkObs { o_int : bool; o_live : bool; o_killed : bool; o_ev : nat; o_h : nat }.
Record case := mkCase { c_ops : list fop; c_obs : list obs }.

Definition obs_of (f : fl) : obs :=
  mkObs (intercepted f) (live f) (killed f)
        (match rev f with NoEvent => 0 | Ev false => 1 | Ev true => 2 end)
        (match hp f with HNotStarted => 0 | HWaiting => 1 | HReleased => 1 | HDone => 2 end).
Definition obs_eqb (a b : obs) : bool :=
  Bool.eqb (o_int a) (o_int b) && Bool.eqb (o_live a) (o_live b) && Bool.eqb (o_killed a) (o_killed b)
  && Nat.eqb (o_ev a) (o_ev b) && Nat.eqb (o_h a) (o_h b).
Definition check_case (c : case) : bool :=
  list_eqb obs_eqb (map obs_of (ftrace fl0 (c_ops c))) (c_obs c).
