(* Corr/C51.v — correspondence glue for C51: the harness writes the implementation's
   observed outputs next to the inputs; check_case recomputes them with the model. *)
From Coq Require Import List Bool NArith.
From MV Require Import Base.Bytes Model.Strutils.
Import ListNotations.

Inductive case :=
| Esc (data : bytes) (ks eq : bool) (impl_escaped : bytes) (impl_back : option bytes)
| Dec (text : bytes) (impl_decoded : option bytes).

Definition check_case (c : case) : bool :=
  match c with
  | Esc data ks eq e back =>
      bytes_eqb (bytes_to_escaped_str data ks eq) e
      && option_eqb bytes_eqb (escaped_str_to_bytes e) back
  | Dec text d => option_eqb bytes_eqb (escaped_str_to_bytes text) d
  end.
