(* Corr/C23.v -- correspondence glue for C23: the harness builds a Proxyserver addon whose running
   server instances report the given listen addresses, calls the real server_connect hook for a
   destination and records data.server.error; check_case recomputes it with Gen/SelfConnect.v.
   The error text is compared exactly (the model is regenerated from the source literal). *)
From Coq Require Import List Bool NArith String.
From MV Require Import Base.Bytes Model.SelfConnectBase Gen.SelfConnect.
Import ListNotations.

Inductive obs := ObsError (e : option string) | ObsRaised.

Inductive case :=
| Connect (servers : list server) (connect_host : bytes) (connect_port : N) (connect_transport : transport) (impl : obs).

Definition check_case (c : case) : bool :=
  match c with
  | Connect servers ch cp ct (ObsError e) => option_eqb String.eqb (server_connect servers ch cp ct) e
  | Connect _ _ _ _ ObsRaised => false
  end.
