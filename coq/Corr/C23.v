(* Corr/C23.v -- correspondence glue for C23: the harness builds a Proxyserver addon whose running
   server instances report the given listen addresses, calls the real server_connect hook for a
   destination and records data.server.error; check_case recomputes it with Gen/SelfConnect.v.
   The error text is compared exactly (the model is regenerated from the source literal). *)
From Coq Require Import List Bool NArith String.
From MV Require Import Base.Bytes Model.SelfConnectBase Gen.SelfConnect Model.ServersUpdate.
Import ListNotations.

Inductive obs := ObsError (e : option string) | ObsRaised.

Inductive case :=
| Connect (servers : list server) (connect_host : bytes) (connect_port : N) (connect_transport : transport) (impl : obs)
(* a history of mode/server option updates on ONE real Proxyserver: per update the inputs (server option,
   mode list as spec numbers, the servers new instances got, the specs whose start failed) and, observed on
   the implementation afterwards: Proxyserver.servers in order as (spec, instance number, is_running, transport
   and listen addresses), the result of Servers.update, and server_connect probes *)
| Updates (h : list (bool * list N * list (N * server) * list N))
          (impl : list (list (N * N * bool * server) * bool * list (bytes * N * transport * obs))).

Definition server_eqb (a b : server) : bool :=
  transport_eqb (mode_transport a) (mode_transport b)
  && list_eqb (pair_eqb bytes_eqb N.eqb) (listen_addrs a) (listen_addrs b).

Definition table_mk (t : list (N * server)) (spec : N) : server :=
  match find (fun p => N.eqb (fst p) spec) t with
  | Some p => snd p
  | None => {| mode_transport := TCP; listen_addrs := [] |}
  end.

Definition to_step (x : bool * list N * list (N * server) * list N) : step :=
  let '(on, modes, t, failing) := x in
  {| s_server_on := on; s_modes := modes; s_mk := table_mk t; s_fails := fun spec => existsb (N.eqb spec) failing |}.

Definition entry_eqb (e : N * inst) (o : N * N * bool * server) : bool :=
  let '(spec, id, running, sv) := o in
  N.eqb (fst e) spec && N.eqb (i_id (snd e)) id && Bool.eqb (i_running (snd e)) running && server_eqb (i_server (snd e)) sv.

Definition obs_ok (m : option string) (o : obs) : bool :=
  match o with ObsError e => option_eqb String.eqb m e | ObsRaised => false end.

Definition update_ok (res : result) (o : list (N * N * bool * server) * bool * list (bytes * N * transport * obs)) : bool :=
  let '(reg, ok, probes) := o in
  Nat.eqb (List.length (r_reg res)) (List.length reg)
  && forallb (fun p => entry_eqb (fst p) (snd p)) (combine (r_reg res) reg)
  && Bool.eqb (r_ok res) ok
  && forallb (fun p => let '(ch, cp, ct, ob) := p in obs_ok (server_connect (servers_of (r_reg res)) ch cp ct) ob) probes.

Definition check_case (c : case) : bool :=
  match c with
  | Updates h impl =>
      let rs := run_updates [] 0%N (map to_step h) in
      Nat.eqb (List.length rs) (List.length impl) && forallb (fun p => update_ok (fst p) (snd p)) (combine rs impl)
  | Connect servers ch cp ct (ObsError e) => option_eqb String.eqb (server_connect servers ch cp ct) e
  | Connect _ _ _ _ ObsRaised => false
  end.
