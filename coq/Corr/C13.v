(* Corr/C13.v -- correspondence glue for C13.  A case carries the input (DTLS flag, the TCP segments /
   UDP datagrams) and what the implementation did: the outcome of parse_client_hello on the whole input,
   and the outcome of a real ClientTLSLayer fed segment by segment (index of the deciding segment, outcome
   seen at the tls_clienthello hook; None = identical to the direct outcome, to keep terms small).  [ace] tabulates the library function encodings.idna.ToUnicode on the
   ACE-prefixed labels that occur (the model is parametric in it).  Host cases exercise is_valid_host. *)
From Coq Require Import List Bool NArith.
From MV Require Import Base.Bytes Model.ClientHello.
Import ListNotations.
Local Open Scope N_scope.

Inductive obs :=
| OIncomplete
| OHello (sni : option bytes) (alpn : list bytes) (ciphers : list N) (exts : list (N * bytes))
| OInvalid
| OOther.     (* any other Python exception: the model never produces it *)

Inductive case :=
| Parse (dtls : bool) (ace : list (bytes * bool)) (segs : list bytes) (direct : obs) (idx : N) (layer : option obs)
| Host (ace : list (bytes * bool)) (host : bytes) (valid : bool).

Fixpoint ace_lookup (t : list (bytes * bool)) (l : bytes) : bool :=
  match t with
  | [] => false
  | (k, v) :: r => if bytes_eqb k l then v else ace_lookup r l
  end.

Definition obs_matches (ace_ok : bytes -> bool) (r : presult) (o : obs) : bool :=
  match r, o with
  | Incomplete, OIncomplete => true
  | Invalid, OInvalid => true
  | Hello h, OHello s a c e =>
      option_eqb bytes_eqb (sni ace_ok h) s
      && list_eqb bytes_eqb (alpn_protocols h) a
      && list_eqb N.eqb (cipher_suites h) c
      && list_eqb (pair_eqb N.eqb bytes_eqb) (extensions h) e
  | _, _ => false
  end.

Definition check_case (c : case) : bool :=
  match c with
  | Parse dtls ace segs direct idx layer =>
      let ace_ok := ace_lookup ace in
      obs_matches ace_ok (parse_client_hello_gen dtls (concat segs)) direct
      && (let r := receive_handshake_data dtls [] segs 0 in
          (fst r =? idx) && obs_matches ace_ok (snd r) (match layer with Some o => o | None => direct end))
  | Host ace host valid => Bool.eqb (is_valid_host (ace_lookup ace) host) valid
  end.
