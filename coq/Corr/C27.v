(* Corr/C27.v -- the real DNSLayer is driven (harness/lib/sansio.py) with the same events, addon
   script and connect outcomes; the harness records the canonical trace (hooks with the flow's
   request / response / error as the addon sees them, opens, sends with their bytes, closes,
   crash) and the final live flag of every flow.  DNSMessage.unpack is instantiated with the
   table of results the real function returned in that run; messages are written once in a pool
   and referred to by index. *)
From Coq Require Import List Bool Arith NArith.
From MV Require Import Base.Bytes Model.DnsLayer.
Import ListNotations.

Inductive tres := TOk (i : nat) | TStruct | TOther.
Inductive iact := INone | ISetResp (i : nat) | IClearResp | ISetErr | IResolve (rc n : N) (an : bytes).
Inductive iout :=
| IHook (k : hookk) (ord : nat) (req resp : option nat) (err : bool)
| IOpen
| ISend (to_client : bool) (data : bytes)
| IClose (client : bool)
| ICrash.

Record lcase := mkCase {
  c_cfg : cfg;
  c_pool : list message;
  c_table : list (bytes * tres);
  c_script : list iact;
  c_conn : list bool;
  c_events : list event;
  c_trace : list iout;
  c_lives : list (nat * bool) }.

Definition msg_eqb (a b : message) : bool :=
  N.eqb (m_id a) (m_id b) && Bool.eqb (m_query a) (m_query b) && N.eqb (m_op a) (m_op b)
  && Bool.eqb (m_rd a) (m_rd b) && N.eqb (m_qn a) (m_qn b) && bytes_eqb (m_qs a) (m_qs b)
  && bytes_eqb (m_packed a) (m_packed b).

Definition dummy : message := mkMsg 0 false 0 false 0 [] [].

Fixpoint lookup (tb : list (bytes * tres)) (pool : list message) (b : bytes) : ures :=
  match tb with
  | [] => UOther
  | (k, r) :: tl =>
      if bytes_eqb k b then
        match r with
        | TOk i => match nth_error pool i with Some m => UOk m | None => UOther end
        | TStruct => UStruct
        | TOther => UOther
        end
      else lookup tl pool b
  end.

Definition act_of (pool : list message) (a : iact) : act :=
  match a with
  | INone => ANone
  | ISetResp i => ASetResp (nth i pool dummy)
  | IClearResp => AClearResp
  | ISetErr => ASetErr
  | IResolve rc n an => AResolve rc n an
  end.

Definition optmsg_eqb (pool : list message) (m : option message) (i : option nat) : bool :=
  match m, i with
  | None, None => true
  | Some a, Some j => match nth_error pool j with Some b => msg_eqb a b | None => false end
  | _, _ => false
  end.

Definition hookk_eqb (a b : hookk) : bool :=
  match a, b with HReq, HReq | HResp, HResp | HErr, HErr => true | _, _ => false end.

Definition out_eqb (pool : list message) (o : out) (i : iout) : bool :=
  match o, i with
  | OHook k n rq rs e, IHook k' n' rq' rs' e' =>
      hookk_eqb k k' && Nat.eqb n n' && optmsg_eqb pool rq rq' && optmsg_eqb pool rs rs' && Bool.eqb e e'
  | OOpen, IOpen => true
  | OSend c d, ISend c' d' => Bool.eqb c c' && bytes_eqb d d'
  | OClose c, IClose c' => Bool.eqb c c'
  | OCrash, ICrash => true
  | _, _ => false
  end.

Fixpoint outs_eqb (pool : list message) (a : list out) (b : list iout) : bool :=
  match a, b with
  | [], [] => true
  | x :: a', y :: b' => out_eqb pool x y && outs_eqb pool a' b'
  | _, _ => false
  end.

Definition all_flows (s : st) : list flow := map snd (s_flows s) ++ s_retired s.

Fixpoint live_of (n : nat) (l : list flow) : option bool :=
  match l with
  | [] => None
  | f :: r => if Nat.eqb (f_ord f) n then Some (f_live f) else live_of n r
  end.

Definition lives_ok (s : st) (l : list (nat * bool)) : bool :=
  Nat.eqb (length (all_flows s)) (length l)
  && forallb (fun p => match live_of (fst p) (all_flows s) with
                       | Some b => Bool.eqb b (snd p) | None => false end) l.

Definition check_lcase (c : lcase) : bool :=
  let pool := c_pool c in
  let r := run (lookup (c_table c) pool) (c_cfg c)
               (init (map (act_of pool) (c_script c)) (c_conn c)) (c_events c) in
  outs_eqb pool (snd r) (c_trace c) && lives_ok (fst r) (c_lives c).

(* One: a single connection.  Many: the connections of an end-to-end run in regular dns mode with
   the real DnsResolver addon (each connection has its own layer; that they do not influence each
   other is C27_concurrent_clients_independent), every connection checked against its own run. *)
Inductive case := One (l : lcase) | Many (ls : list lcase).

Definition check_case (c : case) : bool :=
  match c with
  | One l => check_lcase l
  | Many ls => forallb check_lcase ls
  end.
