(* Corr/C28.v -- correspondence glue for C28: the harness writes the inputs (wsproto events seen
   by the layer, addon results, injected messages) next to the observed outputs; check_case
   recomputes the outputs with Model.Websocket and compares exactly. *)
From Coq Require Import List Bool Arith NArith.
From MV Require Import Base.Bytes Model.WsUtf8 Model.Websocket.
Import ListNotations.

Definition str_eqb : str -> str -> bool := list_eqb N.eqb.

Definition wsevent_eqb (a b : wsevent) : bool :=
  match a, b with
  | WText d f m, WText d' f' m' => str_eqb d d' && Bool.eqb f f' && Bool.eqb m m'
  | WBytes d f m, WBytes d' f' m' => bytes_eqb d d' && Bool.eqb f f' && Bool.eqb m m'
  | WPing p, WPing p' => bytes_eqb p p'
  | WPong p, WPong p' => bytes_eqb p p'
  | WClose c r, WClose c' r' => N.eqb c c' && option_eqb str_eqb r r'
  | _, _ => false
  end.

Definition cmd_eqb (a b : cmd) : bool :=
  match a, b with
  | CSend t e, CSend t' e' => Bool.eqb t t' && wsevent_eqb e e'
  | CCloseConn c, CCloseConn c' => Bool.eqb c c'
  | CMsgHook, CMsgHook | CEndHook, CEndHook | CLog, CLog => true
  | _, _ => false
  end.

(* observed message: is_text, from_client, content, dropped, injected, fragment lengths, content before the addon *)
Record omsg := mkO { o_text : bool; o_fc : bool; o_content : bytes; o_dropped : bool; o_injected : bool; o_lens : list nat; o_orig : bytes }.

Definition msg_eqb (m : wsmessage) (o : omsg) : bool :=
  Bool.eqb (m_text m) (o_text o) && Bool.eqb (m_from_client m) (o_fc o) && bytes_eqb (m_content m) (o_content o)
  && Bool.eqb (m_dropped m) (o_dropped o) && Bool.eqb (m_injected m) (o_injected o)
  && list_eqb Nat.eqb (m_lens m) (o_lens o) && bytes_eqb (m_orig m) (o_orig o).

Fixpoint msgs_eqb (a : list wsmessage) (b : list omsg) : bool :=
  match a, b with
  | [], [] => true
  | x :: a', y :: b' => msg_eqb x y && msgs_eqb a' b'
  | _, _ => false
  end.

Definition closed_eqb (a b : option (bool * N * option str)) : bool :=
  option_eqb (fun x y => Bool.eqb (fst (fst x)) (fst (fst y)) && N.eqb (snd (fst x)) (snd (fst y))
                         && option_eqb str_eqb (snd x) (snd y)) a b.

(* the addon as observed: content and dropped flag of the k-th message after its hook *)
Definition table_addon (post : list (bytes * bool)) : addon_t :=
  fun msgs => match msgs with
              | [] => ([], false)
              | _ => nth (length msgs - 1) post (m_content (last msgs (mkMsg false false [] false false [] [])), false)
              end.

Inductive case :=
| Frag (fs : nat) (lens : list nat) (is_text : bool) (content : bytes) (impl_out : list wsevent)
| Sess (fs : nat) (levs : list levent) (post : list (bytes * bool))
       (inj_seen : list (bool * bytes * list wsevent))     (* events the layer saw for each handled injection *)
       (impl_cmds : list cmd) (impl_msgs : list omsg) (impl_closed : option (bool * N * option str))
       (impl_crashed : bool) (impl_live : bool).

Definition check_case (c : case) : bool :=
  match c with
  | Frag fs lens is_text content out =>
      option_eqb (list_eqb wsevent_eqb) (fragmentize fs lens is_text content) (Some out)
  | Sess fs levs post inj cmds msgs cl crashed live =>
      let (s, out) := run fs (table_addon post) init levs in
      list_eqb cmd_eqb out cmds
      && msgs_eqb (messages s) msgs
      && closed_eqb (closed s) cl
      && Bool.eqb (is_crashed s) crashed
      && Bool.eqb (negb (finished s)) live
      && forallb (fun i => option_eqb (list_eqb wsevent_eqb)
                             (fragmentize fs [] (fst (fst i)) (snd (fst i))) (Some (snd i))) inj
  end.
