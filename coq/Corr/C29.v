(* Corr/C29.v -- correspondence glue for C29: the schedule is run through Model.RawRelay with the
   identity policy (addon actions are explicit in the EReply events) and every observable of the
   real TCPLayer/UDPLayer run is compared exactly. *)
From Coq Require Import List Bool Arith.
From MV Require Import Base.Bytes Model.RawRelay.
Import ListNotations.

Inductive case :=
| Case (p : proto) (ign sopen un : bool) (evs : list event)
       (alien crash : bool)                 (* implementation: unknown command or exception / AssertionError *)
       (out : list cmd)                     (* every command yielded, in order *)
       (phase waitk qlen cst sst : nat)     (* _handle_event, outstanding command kind, queue length, state bits *)
       (msgs : list (bool * bytes))         (* flow.messages oldest first *)
       (eofc eofs : bool)                   (* True / False in _eof_handled *)
       (err live : bool).                   (* flow.error is set, flow.live *)

Definition cmd_eqb (a b : cmd) : bool :=
  match a, b with
  | StartHook, StartHook | MessageHook, MessageHook | EndHook, EndHook | ErrorHook, ErrorHook
  | OpenConnection, OpenConnection => true
  | SendData s d, SendData s' d' => side_eqb s s' && bytes_eqb d d'
  | CloseConnection s, CloseConnection s' => side_eqb s s'
  | HalfClose s, HalfClose s' => side_eqb s s'
  | _, _ => false
  end.
Definition phase_n (p : phase) : nat := match p with PStart => 0 | PRelay => 1 | PDone => 2 end.
Definition wait_n (w : await) : nat :=
  match w with NoWait => 0 | WStartHook => 1 | WOpen => 2 | WErrorHook => 3 | WMsgHook _ => 4 | WEndHook => 5 end.
Definition conn_n (c : conn) : nat := (if can_read c then 1 else 0) + (if can_write c then 2 else 0).
Definition msg_eqb (a b : bool * bytes) : bool := Bool.eqb (fst a) (fst b) && bytes_eqb (snd a) (snd b).

Definition check_case (c : case) : bool :=
  match c with
  | Case p ign sopen un evs alien crash out phase waitk qlen cst sst msgs eofc eofs err live =>
    let '(st, out') := run pol_id (init (mkCfg p ign sopen un)) evs in
    negb alien && Bool.eqb (crashed st) crash && list_eqb cmd_eqb out' out
    && (crash ||
        (Nat.eqb (phase_n (ph st)) phase && Nat.eqb (wait_n (wait st)) waitk
         && Nat.eqb (length (queue st)) qlen
         && Nat.eqb (conn_n (client st)) cst && Nat.eqb (conn_n (server st)) sst
         && list_eqb msg_eqb (rev (messages (fl st))) msgs
         && Bool.eqb (eof_c st) eofc && Bool.eqb (eof_s st) eofs
         && Bool.eqb (f_error (fl st)) err && Bool.eqb (f_live (fl st)) live))
  end.
