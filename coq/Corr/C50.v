(* Corr/C50.v -- correspondence glue for C50: each case carries the inputs and the outputs
   observed on the real code; check_case recomputes them with the model.  Views are given
   as rows of observed results (the model treats views as arbitrary partial functions);
   the library codecs and YAML of the DNS view are instantiated by observed tables. *)
From Coq Require Import List Bool NArith ZArith.
From MV Require Import Base.Bytes Model.DnsNames Model.DnsMessage Model.Contentviews Model.ContentviewsDns.
Import ListNotations.
Local Open Scope N_scope.

(* one registered view on this input: name, syntax_highlight, render_priority (None = raised /
   not a number; otherwise the rank of the number among those of the case), prettify result
   (None = not observed; inl text; inr formatted exception) *)
Definition vrow := (text * text * option Z * option (text + text))%type.

Definition UNOBSERVED : text := [4294967295].
Definition row_view (r : vrow) : view unit :=
  match r with
  | (nm, sy, pr, pt) =>
      mkView nm sy (fun _ _ => pr)
             (fun _ _ => match pt with Some x => x | None => inr UNOBSERVED end)
  end.

Definition res_obs := (text * text * option text * text)%type.
Definition res_eqb (r : result) (o : res_obs) : bool :=
  match o with
  | (t, sy, vn, de) =>
      text_eqb (r_text r) t && text_eqb (r_syntax r) sy
      && option_eqb text_eqb (r_view_name r) vn && text_eqb (r_description r) de
  end.

Definition djson_eqb (a b : djson) : bool :=
  match a, b with
  | DStr x, DStr y => bytes_eqb x y
  | DOpaque x, DOpaque y => bytes_eqb x y
  | _, _ => false
  end.
Definition qjson_eqb (a b : qjson) : bool :=
  bytes_eqb (qj_name a) (qj_name b) && bytes_eqb (qj_type a) (qj_type b) && bytes_eqb (qj_class a) (qj_class b).
Definition rjson_eqb (a b : rjson) : bool :=
  bytes_eqb (rj_name a) (rj_name b) && bytes_eqb (rj_type a) (rj_type b) && bytes_eqb (rj_class a) (rj_class b)
  && (rj_ttl a =? rj_ttl b) && djson_eqb (rj_data a) (rj_data b).
Definition mjson_eqb (a b : mjson) : bool :=
  (j_id a =? j_id b) && Bool.eqb (j_query a) (j_query b) && bytes_eqb (j_op_code a) (j_op_code b)
  && Bool.eqb (j_aa a) (j_aa b) && Bool.eqb (j_tc a) (j_tc b) && Bool.eqb (j_rd a) (j_rd b)
  && Bool.eqb (j_ra a) (j_ra b) && bytes_eqb (j_rcode a) (j_rcode b)
  && list_eqb qjson_eqb (j_questions a) (j_questions b)
  && list_eqb rjson_eqb (j_answers a) (j_answers b)
  && list_eqb rjson_eqb (j_authorities a) (j_authorities b)
  && list_eqb rjson_eqb (j_additionals a) (j_additionals b)
  && (j_size a =? j_size b).

(* observed library behaviour: (type, record data, printed form) and (type, json, parsed bytes) *)
Definition enc_tab := list (N * bytes * option djson).
Definition dec_tab := list (N * djson * option bytes).
Fixpoint enc_of (t : enc_tab) (ty : N) (d : bytes) : option djson :=
  match t with
  | [] => Some (DStr [x3f])      (* not observed: a value no case carries *)
  | (ty', d', r) :: t' => if (ty' =? ty) && bytes_eqb d' d then r else enc_of t' ty d
  end.
Fixpoint dec_of (t : dec_tab) (ty : N) (j : djson) : option bytes :=
  match t with
  | [] => Some [x3f; x3f; x3f]
  | (ty', j', r) :: t' => if (ty' =? ty) && djson_eqb j' j then r else dec_of t' ty j
  end.

Inductive case :=
(* prettify_message through a registry given as rows *)
| PM (c1 : bool) (rows : list vrow) (data : option bytes) (enc : text) (view_name : text)
     (impl : option res_obs)
(* ContentviewRegistry.register: (name, tag) registered in order; resulting dict order *)
| REG (ops : list (text * text)) (impl : list (text * text))
(* ContentviewRegistry.__getitem__ on the same kind of registry: tag found, None = KeyError *)
| GET (ops : list (text * text)) (item : text) (impl : option text)
(* the raw view *)
| RAW (data : bytes) (impl : text)
(* net/dns to_str / from_str: kind 0 op_codes, 1 response_codes, 2 types, 3 classes *)
| ENUM (kind : N) (n : N) (impl_str : bytes) (impl_back : option N)
(* DNSContentview.render_priority *)
| DP (content_type : option bytes) (port : option N) (impl : Z)
(* DNSContentview.prettify / reencode: impl_json = to_json of the decoded message (None =
   prettify raised); loaded = what yaml_loads gave for the rendered text; impl_out = reencode
   output (None = raised) *)
| DJ (http_counts has_tcp has_http : bool) (data : bytes) (et : enc_tab) (dt : dec_tab)
     (impl_json : option mjson) (loaded : option mjson) (impl_out : option bytes).

Definition tag_view (nt : text * text) : view unit :=
  mkView (fst nt) (snd nt) (fun _ _ => None) (fun _ _ => inr []).

Definition is_unobserved (x : text + text) : bool :=
  match x with inr e => text_eqb e UNOBSERVED | inl _ => false end.

Definition check_case (c : case) : bool :=
  match c with
  | PM c1 rows data enc name impl =>
      let reg := map row_view rows in
      let known :=
        match data with
        | Some d => match get_view reg d tt name with
                    | Some v => negb (is_unobserved (v_prettify v d tt))
                    | None => true
                    end
        | None => true
        end in
      known &&
      match prettify_message c1 (raw_view 0%Z) reg data enc tt name, impl with
      | Some r, Some o => res_eqb r o
      | None, None => true
      | _, _ => false
      end
  | REG ops impl =>
      list_eqb (pair_eqb text_eqb text_eqb)
        (map (fun v => (v_name v, v_syntax v)) (fold_left register (map tag_view ops) [])) impl
  | GET ops item impl =>
      option_eqb text_eqb
        (option_map (fun v => v_syntax v) (getitem (fold_left register (map tag_view ops) []) item)) impl
  | RAW data impl => text_eqb (decode_bsr data) impl
  | ENUM kind n s back =>
      let '(to, from) :=
        if kind =? 0 then (op_to_str, op_from_str) else if kind =? 1 then (rc_to_str, rc_from_str)
        else if kind =? 2 then (ty_to_str, ty_from_str) else (cl_to_str, cl_from_str) in
      bytes_eqb (to n) s && option_eqb N.eqb (from s) back
  | DP ct port impl => Z.eqb (dns_render_priority ct port) impl
  | DJ hc ht hh data et dt ij loaded out =>
      let tcp := is_dns_tcp hc ht hh in
      let mark := fun j => [if option_eqb mjson_eqb (Some j) ij then 1 else 0] in
      (match dns_prettify (enc_of et) mark tcp data, ij with
       | inl [1], Some _ => true
       | inr _, None => true
       | _, _ => false
       end)
      && (match loaded with
          | Some _ => option_eqb bytes_eqb (dns_reencode (dec_of dt) (fun _ => loaded) tcp []) out
          | None => true
          end)
  end.
