(* Corr/C49.v -- correspondence glue for C49.  Each case carries the inputs read from a real
   flow object (through the same accessors the dumper uses) and the text the real Dumper
   wrote to its output stream; check_case recomputes the stream with Model.Dumper and
   compares exactly.  It also evaluates, on the observed values, the contracts that the
   theorems assume about code that is not modelled (syntax highlighter, to_str tables,
   pretty_size). *)
From Coq Require Import List Bool NArith.
From MV Require Import Base.Bytes Model.Strutils Model.Dumper.
Import ListNotations.
Local Open Scope N_scope.

Inductive case :=
| KEsc (t : text) (ks : bool) (out : text)
| KInd (n : nat) (t : text) (out : text)
| KCut (t : text) (n : nat) (out : text)
| KHttp (o : opts) (r : req) (rs : option resp) (err : option text) (out : text)
| KWsMsg (o : opts) (client server path : text) (from_client is_text : bool) (m : pmsg) (out : text)
| KWsEnd (o : opts) (code : N) (name : option text) (by_client : bool) (reason server : text) (out : text)
| KProtoErr (o : opts) (is_tcp : bool) (server msg : text) (out : text)
| KProtoMsg (o : opts) (is_tcp from_client : bool) (client server : text) (quic : option (text * text))
            (m : pmsg) (out : text)
| KDnsResp (o : opts) (c : client) (opcode qtype qname : text) (answers : list text) (rcode : text) (out : text)
| KDnsErr (o : opts) (c : client) (opcode qtype qname msg : text) (out : text).

Definition same (t : ttext) (out : text) : bool := text_eqb (flatten t) out.

Definition check_case (c : case) : bool :=
  match c with
  | KEsc t ks out => text_eqb (escape_control_characters t ks) out
  | KInd n t out => same (indent n (plain t)) out
  | KCut t n out => text_eqb (cut_after_n_lines t n) out
  | KHttp o r rs err out =>
      same (hook_http o r rs err) out && pm_ok (rq_msg r)
      && match rs with Some x => resp_ok x | None => true end
  | KWsMsg o cl sv p fc it m out => same (hook_websocket_message o cl sv p fc it m) out && pm_ok m
  | KWsEnd o code name bc reason sv out => same (hook_websocket_end o code name bc reason sv) out
  | KProtoErr o tcp sv msg out => same (hook_proto_error o tcp sv msg) out
  | KProtoMsg o tcp fc cl sv q m out => same (hook_proto_message o tcp fc cl sv q m) out && pm_ok m
  | KDnsResp o c op ty qn ans rc out =>
      same (hook_dns_response o c op ty qn ans rc) out && ok_text op && ok_text ty && ok_text rc
  | KDnsErr o c op ty qn msg out =>
      same (hook_dns_error o c op ty qn msg) out && ok_text op && ok_text ty
  end.
