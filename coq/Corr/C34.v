(* Corr/C34.v -- correspondence glue for C34: each case carries the inputs and the outputs observed on
   the real mitmproxy objects (str values as UTF-8/surrogateescape bytes); check_case recomputes them
   with the models. *)
From Coq Require Import List Bool NArith.
From MV Require Import Base.Bytes Model.MvCommon Model.MvUrl Model.MvCookie Model.MvMultipart Model.MvViews Model.MvForm.
Import ListNotations.

Definition lb_eqb : list bytes -> list bytes -> bool := list_eqb bytes_eqb.
Definition ob_eqb : option bytes -> option bytes -> bool := option_eqb bytes_eqb.
Definition opair_eqb (a b : bytes * option bytes) : bool := bytes_eqb (fst a) (fst b) && ob_eqb (snd a) (snd b).
Definition sc_eqb (a b : setcookie) : bool :=
  let '(n1, v1, a1) := a in let '(n2, v2, a2) := b in
  bytes_eqb n1 n2 && ob_eqb v1 v2 && list_eqb opair_eqb a1 a2.
Definition res_eqb {A} (e : A -> A -> bool) (r : res A) (x : A) : bool :=
  match r with Ok a => e a x | OutOfFuel => false end.

Inductive case :=
| Quote (safe s q u : bytes)                              (* q = quote(s, safe), u = unquote(s) *)
| UrlEnc (l : pairs) (similar : option bytes) (enc : bytes)
| UrlDec (qs : bytes) (dec : pairs)
| Query (path : bytes) (l : pairs) (before : pairs) (path_after : bytes) (after : pairs)
| PathComp (path : bytes) (comps before : list bytes) (path_after : bytes) (after : list bytes)
| Form (h : fields) (old_text : option bytes) (l : pairs) (h_after : fields) (body text_after : bytes) (after : pairs)
| CookieFmt (l : pairs) (hdr : bytes)
| CookieParse (line : bytes) (dec : pairs)
| ReqCookies (h : fields) (l : pairs) (before : pairs) (h_after : fields) (after : pairs)
| SetCookieParse (line : bytes) (dec : list setcookie)
| RespCookies (h : fields) (l : list setcookie) (before : list setcookie) (h_after : fields) (after : list setcookie)
| MpEnc (ob : option bytes) (parts : pairs) (enc : option bytes)
| MpDec (ob : option bytes) (content : bytes) (dec : option pairs)
| MpView (b : bytes) (parts : pairs) (content : option bytes) (after : pairs)
| QueryOp (path : bytes) (o : md_op) (path_after : bytes) (after : pairs).

Definition check_case (c : case) : bool :=
  match c with
  | Quote safe s q u => bytes_eqb (quote safe s) q && bytes_eqb (unquote s) u
  | UrlEnc l sim enc => bytes_eqb (url_encode l sim) enc
  | UrlDec qs dec => pairs_eqb (url_decode qs) dec
  | Query p l before p' after =>
      pairs_eqb (get_query p) before && bytes_eqb (set_query p l) p' && pairs_eqb (get_query p') after
  | PathComp p comps before p' after =>
      lb_eqb (get_path_components p) before && bytes_eqb (set_path_components p comps) p'
      && lb_eqb (get_path_components p') after
  | Form h old l h' body text after =>
      let m := set_form_msg h old l in
      list_eqb pair_bb_eqb (fst m) h' && bytes_eqb (snd m) body
      && bytes_eqb (set_urlencoded_form old l) body
      && pairs_eqb (get_form_msg h' text) after
      (* instance of the get_text contract used by the theorem *)
      && (if bytes_eqb (ct_of h') FORM_CT && forallb is_ascii body then bytes_eqb text body else true)
  | CookieFmt l hdr => bytes_eqb (format_cookie_header l) hdr
  | CookieParse line dec => res_eqb pairs_eqb (parse_cookie_header line) dec
  | ReqCookies h l before h' after =>
      res_eqb pairs_eqb (get_cookies h) before && list_eqb pair_bb_eqb (set_cookies h l) h'
      && res_eqb pairs_eqb (get_cookies h') after
  | SetCookieParse line dec => res_eqb (list_eqb sc_eqb) (parse_set_cookie_header line) dec
  | RespCookies h l before h' after =>
      res_eqb (list_eqb sc_eqb) (get_set_cookies h) before && list_eqb pair_bb_eqb (set_set_cookies h l) h'
      && res_eqb (list_eqb sc_eqb) (get_set_cookies h') after
  | MpEnc ob parts enc => ob_eqb (encode_multipart ob parts) enc
  | MpDec ob content dec => option_eqb pairs_eqb (decode_multipart ob content) dec
  | MpView b parts content after =>
      ob_eqb (set_multipart_form b parts) content
      && match content with Some body => pairs_eqb (get_multipart_form b body) after | None => true end
  | QueryOp p o p' after =>
      bytes_eqb (view_op get_query set_query p o) p' && pairs_eqb (get_query p') after
  end.
