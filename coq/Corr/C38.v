(* Corr/C38.v -- correspondence glue for C38. One case = one call of the real compat.migrate_flow,
   instrumented by the harness: the two version entries of the input state, for every converter
   call what its body did (raised / returned the same dict / returned another dict, with that
   dict's version entries), the observed call sequence with the version entries after each call,
   and the outcome. check_case replays the driver model on the translated table with the body
   script and compares calls and outcome exactly; it also checks the body contract body_ok on the
   observed script (a swapped-in dict has no bytes version entry or one that still reads the key of
   the converter that swapped it in). The harness stops the real loop after [loop_cap] converter
   calls; the model runs with exactly that fuel. *)
From Coq Require Import ZArith List Bool NArith.
From MV Require Import Base.Bytes Model.CompatPrelude Model.Compat Gen.CompatChain.
Import ListNotations.

Inductive bres := BRaise | BKeep | BSwap (b s : option verval).

Inductive outcome :=
| OOk (final : verval)          (* returned; final = the version the returned state reads *)
| OReject (hint : bool)         (* ValueError raised by the driver *)
| OTupleTypeError
| OUnhashableTypeError
| OBodyErr                      (* the last converter called raised *)
| OLoop.                        (* more than loop_cap converter calls *)

Inductive case :=
| Mig (b0 s0 : option verval) (script : list bres)
      (calls : list (fver * option (option verval * option verval))) (out : outcome).

Definition loop_cap : nat := 40.

Definition script_body (k : fver) (s : state (list bres)) : option (state (list bres)) :=
  match rest s with
  | [] => None
  | BRaise :: _ => None
  | BKeep :: tl => Some (mk_state (bver s) (sver s) tl)
  | BSwap b v :: tl => Some (mk_state b v tl)
  end.

Definition velt_same (a b : velt) : bool :=
  match a, b with
  | EInt x, EInt y => Z.eqb x y
  | EOther, EOther => true
  | EUnhashable, EUnhashable => true
  | _, _ => false
  end.

Definition verval_same (a b : verval) : bool :=
  match a, b with
  | VInt x, VInt y => Z.eqb x y
  | VSeq x, VSeq y => list_eqb velt_same x y
  | VNotIterable, VNotIterable => true
  | _, _ => false
  end.

Definition fver_same (a b : fver) : bool :=
  match a, b with
  | FInt x, FInt y => Z.eqb x y
  | FTup x, FTup y => list_eqb velt_same x y
  | _, _ => false
  end.

Definition slots_same (a b : option verval * option verval) : bool :=
  option_eqb verval_same (fst a) (fst b) && option_eqb verval_same (snd a) (snd b).

Definition call_same (a b : fver * option (option verval * option verval)) : bool :=
  fver_same (fst a) (fst b) && option_eqb slots_same (snd a) (snd b).

Definition outcome_of (r : result (list bres)) : outcome :=
  match r with
  | Migrated s => OOk (get_version s)
  | Rejected h => OReject h
  | TupleTypeError => OTupleTypeError
  | UnhashableTypeError => OUnhashableTypeError
  | ConverterRaised _ => OBodyErr
  | OutOfFuel => OLoop
  end.

Definition outcome_same (a b : outcome) : bool :=
  match a, b with
  | OOk x, OOk y => verval_same x y
  | OReject x, OReject y => Bool.eqb x y
  | OTupleTypeError, OTupleTypeError => true
  | OUnhashableTypeError, OUnhashableTypeError => true
  | OBodyErr, OBodyErr => true
  | OLoop, OLoop => true
  | _, _ => false
  end.

(* body_ok on the observation: the i-th script entry belongs to the i-th call *)
Fixpoint contract_ok (script : list bres) (calls : list (fver * option (option verval * option verval))) : bool :=
  match script, calls with
  | BSwap (Some v) _ :: st, (k, _) :: ct =>
      match normalise v with Some fv => fver_same fv k | None => false end && contract_ok st ct
  | _ :: st, _ :: ct => contract_ok st ct
  | _, _ => true
  end.

Definition check_case (c : case) : bool :=
  match c with
  | Mig b0 s0 script calls out =>
      let tr := migrate_flow script_body converters FLOW_FORMAT_VERSION progress_guard loop_cap None
                  (mk_state b0 s0 script) in
      list_eqb call_same (fst tr) calls
      && outcome_same (outcome_of (snd tr)) out
      && contract_ok script calls
  end.
