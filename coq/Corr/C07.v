(* Corr/C07.v -- correspondence glue for C07: concrete stream callables (mirrored in harness/props/C07.py),
   the case type carrying inputs and the implementation's observations, and check_case. *)
From Coq Require Import List Bool NArith ZArith.
From MV Require Import Base.Bytes Model.HttpBody Model.H2SendBuf.
Import ListNotations.
Open Scope Z_scope.

(* the stream callables used by the harness; state = (held bytes, number of calls so far) *)
Inductive callable := KIdent | KDropAll | KDouble | KSplit | KDropOdd | KHold | KIter.
Definition kstate := (bytes * N)%type.
Definition k0 : kstate := ([], 0%N).

Definition call (k : callable) (s : kstate) (d : bytes) : kstate * sres :=
  let '(held, n) := s in
  match k with
  | KIdent => (s, RB d)                                    (* lambda d: d *)
  | KDropAll => (s, RB [])                                 (* lambda d: b"" *)
  | KDouble => (s, RB (d ++ d))                            (* lambda d: d + d *)
  | KSplit => let h := Nat.div2 (length d) in              (* lambda d: [d[:len(d)//2], d[len(d)//2:]] *)
              (s, RL [firstn h d; skipn h d])
  | KDropOdd => ((held, n + 1)%N,                          (* every odd call returns b"" *)
                 if N.even n then RB [] else RB d)
  | KHold =>                                               (* keeps the last byte back until the next call *)
      match d with
      | [] => (([], n), RB held)
      | _ => let data := held ++ d in
             ((skipn (length data - 1) data, n), RB (firstn (length data - 1) data))
      end
  | KIter => (s, RL [d])                                   (* lambda d: iter([d]) *)
  end.

Definition psz_eqb (a b : psz) : bool :=
  match a, b with
  | PNone, PNone | PErr, PErr => true
  | PVal x, PVal y => x =? y
  | _, _ => false
  end.
Definition hook_eqb (a b : hook) : bool :=
  match a, b with
  | HRequestHeaders, HRequestHeaders | HRequest, HRequest | HResponseHeaders, HResponseHeaders
  | HResponse, HResponse | HError, HError => true
  | _, _ => false
  end.
Definition peer_eqb (a b : peer) : bool :=
  match a, b with Client, Client | Server, Server => true | _, _ => false end.
Definition titem_eqb (a b : titem) : bool :=
  match a, b with
  | THook x, THook y => hook_eqb x y
  | TOpen, TOpen => true
  | TSend p x, TSend q y => peer_eqb p q && bytes_eqb x y
  | TErrPage x, TErrPage y => x =? y
  | TClose p, TClose q => peer_eqb p q
  | THalfClose p, THalfClose q => peer_eqb p q
  | _, _ => false
  end.
Definition zz_eqb (a b : Z * Z) : bool := (fst a =? fst b) && (snd a =? snd b).

Definition frame_eqb (a b : frame) : bool :=
  match a, b with Frame k d e, Frame k' d' e' => N.eqb k k' && bytes_eqb d d' && Bool.eqb e e' end.
Definition chunk_eqb (a b : chunk) : bool := bytes_eqb (fst a) (fst b) && Bool.eqb (snd a) (snd b).
Definition sbuf_eqb (a b : N * list chunk) : bool := N.eqb (fst a) (fst b) && list_eqb chunk_eqb (snd a) (snd b).

Inductive case :=
| CH2 (sids : list N) (w0 c0 : Z) (ops : list op)
      (out : list (list frame)) (rest : smap (list chunk)) (cw : Z)
| CSize (s : option bytes) (impl : psz)
| CRun (cfg : config) (kq ks : callable) (steps : list step)
       (trace : list titem) (bufs : list (Z * Z))
       (req_c resp_c : option bytes) (err live crashed : bool).

Definition check_case (c : case) : bool :=
  match c with
  | CH2 sids w0 c0 ops out rest cw =>
      (* a real BufferedH2Connection (peer MAX_FRAME_SIZE 16384): frames written per operation, what is left in
         stream_buffers (dict order), and the connection window *)
      match run_ops ops (init_sb sids w0 c0 16384) with
      | Some (s, fss) =>
          list_eqb (list_eqb frame_eqb) fss out && list_eqb sbuf_eqb (bufs s) rest && (cwin s =? cw)
      | None => false
      end
  | CSize s impl => psz_eqb (parse_size s) impl
  | CRun cfg kq ks steps trace bufs rc sc err live crashed =>
      let '(t, b, w, cr) := wrun kstate (call kq) (call ks) cfg (winit kstate k0 k0) steps in
      list_eqb titem_eqb t trace
      && list_eqb zz_eqb b bufs
      && option_eqb bytes_eqb (req_content (hs kstate w)) rc
      && option_eqb bytes_eqb (resp_content (hs kstate w)) sc
      && Bool.eqb (flow_error (hs kstate w)) err
      && Bool.eqb (flow_live (hs kstate w)) live
      && Bool.eqb cr crashed
  end.
