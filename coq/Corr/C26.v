(* Corr/C26.v -- correspondence glue for C26.  Fwd: one datagram pushed through the real
   DNSLayer with no addon change; the model recomputes the bytes sent on (or the error
   class), and recomputes with the Gallina reference decoder the verdict (meaning preserved
   or not) that the harness obtained with its own Python reference decoder.  Ref: the two
   reference decoders agree on the canonical meaning of a byte string. *)
From Coq Require Import List Bool Arith NArith.
From MV Require Import Base.Bytes Model.DnsNames Model.DnsMessage Model.DnsRef.
Import ListNotations.

Definition result_eqb {A} (eqb : A -> A -> bool) (model impl : result A) : bool :=
  match model, impl with
  | Err EAce, _ => true
  | Ok a, Ok b => eqb a b
  | Err a, Err b => pyexc_eqb a b
  | _, _ => false
  end.

Inductive case :=
| Fwd (buf : bytes) (from_client : bool) (sent : result bytes) (preserved : bool)
| Ref (buf : bytes) (canon : option bytes)
(* record_data_can_have_compression t, pinned against the list in Model/DnsNames.v *)
| Comp (t : N) (b : bool)
(* length-prefixed pipelined messages over TCP through the real layer: every byte sent on, and whether a connection was closed *)
| Tcp (msgs : list bytes) (out : bytes) (closed : bool).

Definition check_case (c : case) : bool :=
  match c with
  | Fwd buf _ sent preserved =>
      result_eqb bytes_eqb (forward_udp buf) sent
      && match sent, ref_canon buf with
         | Ok out, Some w => Bool.eqb (option_eqb bytes_eqb (ref_canon out) (Some w)) preserved
         | _, _ => true
         end
  | Ref buf canon => option_eqb bytes_eqb (ref_canon buf) canon
  | Comp t b => Bool.eqb (record_data_can_have_compression t) b
  | Tcp msgs out closed =>
      match forward_tcp_stream msgs with
      | Some o => bytes_eqb o out && negb closed
      | None => true     (* a message that is rejected, fails, or is outside the IDNA fragment: segment-level behaviour is C27 *)
      end
  end.
