(* Corr/C03.v -- correspondence glue for C03: a case carries the schedule, the addon policy, the connect
   outcomes and the options, next to what the real HttpLayer did (command trace, flow states, connection
   states, crash / tunnel / settled flags); check_case recomputes all of it with the model. *)
From Coq Require Import List Bool NArith.
From MV Require Import Base.Bytes Model.HttpStream Model.HttpSys.
Import ListNotations.
Local Open Scope N_scope.

Inductive case :=
| Run (o : opts) (pol : list (N * hook * act)) (dfr : list (N * hook)) (conn : list (N * connres)) (ops : list op)
      (impl_trace : list ocmd) (impl_flows : list flowobs) (impl_conns : list (bool * bool))
      (impl_crash impl_tunnel impl_settled : bool).

Fixpoint pol_lookup (l : list (N * hook * act)) (o : N) (h : hook) : act :=
  match l with
  | [] => APass
  | (o1, h1, a) :: r => if N.eqb o1 o && hook_eqb h1 h then a else pol_lookup r o h
  end.
Definition dfr_lookup (l : list (N * hook)) (o : N) (h : hook) : bool :=
  existsb (fun p => N.eqb (fst p) o && hook_eqb (snd p) h) l.
Fixpoint conn_lookup (l : list (N * connres)) (k : N) : connres :=
  match l with [] => COk | (k1, r) :: t => if N.eqb k1 k then r else conn_lookup t k end.
Definition mk_env (o : opts) pol dfr conn : env := mkEnv o (pol_lookup pol) (dfr_lookup dfr) (conn_lookup conn).

Definition ocmd_eqb (a b : ocmd) : bool :=
  match a, b with
  | OHook h o, OHook h' o' => hook_eqb h h' && N.eqb o o'
  | OOpen k, OOpen k' => N.eqb k k'
  | OSend k x, OSend k' x' => N.eqb k k' && bytes_eqb x x'
  | OErrPage k s, OErrPage k' s' => N.eqb k k' && N.eqb s s'
  | OClose k h, OClose k' h' => N.eqb k k' && Bool.eqb h h'
  | OCrash, OCrash => true
  | _, _ => false
  end.
Definition flowobs_eqb (a b : flowobs) : bool :=
  Bool.eqb (fo_live a) (fo_live b) && Bool.eqb (fo_resp a) (fo_resp b) && Bool.eqb (fo_err a) (fo_err b)
  && Bool.eqb (fo_connect a) (fo_connect b) && Bool.eqb (fo_101 a) (fo_101 b).

(* the environment contract and the closure fact the theorems assume, checked on every case in the model:
   no stream ever handled an event outside the contract, and once everything is closed and idle every stream that
   fired requestheaders has both sides finished *)
Definition fired_reqheaders (s : stream) : bool := existsb (hook_eqb HkReqHeaders) (hooks s).
Definition contract_ok (y : sys) : bool :=
  forallb (fun p => negb (venv (fst p))) (streams y)
  && (negb (settled y) || ended y || crashedS y
      || forallb (fun p => negb (fired_reqheaders (fst p)) || is_some (pc (fst p)) || closed_s (fst p)) (streams y)).

Definition check_case (c : case) : bool :=
  match c with
  | Run o pol dfr conn ops tr fl cn crash tun setl =>
      let y := run_ops (mk_env o pol dfr conn) ops in
      negb (nofuel y)
      && contract_ok y
      && list_eqb ocmd_eqb (trace y) tr
      && list_eqb flowobs_eqb (obs_flows y) fl
      && Bool.eqb (crashedS y) crash
      && Bool.eqb (ended y) tun
      && (ended y || crashedS y
          || (list_eqb (pair_eqb Bool.eqb Bool.eqb) (obs_conns y) cn && Bool.eqb (settled y) setl))
  end.
