(* Corr/C52.v -- correspondence glue for C52: the harness drives the real ServerPlayback addon
   through a history and records, after every operation, what happened to the request flow, the
   result of count() and the bucket structure of flowmap (recording ids per bucket, in dict
   order); check_case recomputes all of it with the model.  Hash cases compare the key list that
   _hash built (captured before hashing) with the key of the model. *)
From Coq Require Import List Bool NArith.
From MV Require Import Base.Bytes Model.ServerPlayback.
Import ListNotations.

Inductive oobs := OServed (id : N) | OKilled | OStatus (code : N) | OForward | ORaised.

Record sobs := {
  so_out : option oobs;          (* None for operations other than a request *)
  so_is_replay : bool;           (* f.is_replay == response *)
  so_count : N;                  (* count() *)
  so_map : list (list N)         (* [[id of f for f in lst] for lst in flowmap.values()] *)
}.

Inductive case :=
| Hist (o0 : options) (ops : list op) (observed : list sobs)
| HashC (o : options) (rq : request) (impl_key : key).

Definition view_outcome (x : outcome) : oobs :=
  match x with
  | Served r => OServed (rec_id r)
  | Killed => OKilled
  | Status c => OStatus c
  | Forward => OForward
  | Raised => ORaised
  end.

Definition view (x : state * option outcome) : sobs :=
  let '(s, out) := x in
  Build_sobs (option_map view_outcome out)
             (match out with Some y => is_replay y | None => false end)
             (count (st_map s))
             (map (fun b => map rec_id (snd b)) (st_map s)).

Definition oobs_eqb (a b : oobs) : bool :=
  match a, b with
  | OServed x, OServed y => N.eqb x y
  | OKilled, OKilled => true
  | OStatus x, OStatus y => N.eqb x y
  | OForward, OForward => true
  | ORaised, ORaised => true
  | _, _ => false
  end.

Definition sobs_eqb (a b : sobs) : bool :=
  option_eqb oobs_eqb (so_out a) (so_out b)
  && Bool.eqb (so_is_replay a) (so_is_replay b)
  && N.eqb (so_count a) (so_count b)
  && list_eqb (list_eqb N.eqb) (so_map a) (so_map b).

Definition check_case (c : case) : bool :=
  match c with
  | Hist o0 ops observed => list_eqb sobs_eqb (map view (run (init o0) ops)) observed
  | HashC o rq k => key_eqb (_hash o rq) k
  end.
