(* Corr/C21.v -- correspondence glue for C21: the harness drives the real Socks5Proxy
   layer with Start and one DataReceived per segment, answers the blocking hooks, and
   writes what it observed next to the inputs; check_case recomputes everything with
   the model (Model.Socks5.run) and compares exactly. *)
From Coq Require Import List Bool NArith.
From MV Require Import Base.Bytes Model.Socks5 Model.Socks5Sched.
Import ListNotations.

(* implementation side of the server address: the host str as UTF-8 bytes, the 16
   packed bytes if that str parses as an IPv6 literal (ipaddress), and the port *)
Definition idest := (bytes * option bytes * N)%type.

Inductive case :=
| Case (pa av eg fl : bool)            (* proxyauth, hook sets valid, eager, OpenConnection fails *)
       (evs : list ev)                 (* delivered events in order: client segments and late/prompt completions *)
       (i_state : N)                   (* 0 greet 1 auth 2 connect (self.state), 3 relaying to child, 4 done, 5 exception *)
       (i_buf : bytes)                 (* self.buf, compared while the handshake runs *)
       (i_sent : bytes) (i_dest : option idest) (i_opened i_closed : bool)
       (i_creds : option (option bytes * option bytes))  (* None inside = str had a backslash, not comparable *)
       (i_child : bytes).

Definition host_matches (h : host) (d : idest) : bool :=
  match h, d with
  | HText s, (t, _, _) => bytes_eqb s t
  | HV6 raw, (_, Some p, _) => bytes_eqb raw p
  | HV6 _, (_, None, _) => false
  end.

Definition dest_matches (m : option (host * N)) (i : option idest) : bool :=
  match m, i with
  | None, None => true
  | Some (h, p), Some d => host_matches h d && N.eqb p (snd d)
  | _, _ => false
  end.

Definition cred_matches (m : bytes) (i : option bytes) : bool :=
  match i with Some b => bytes_eqb m b | None => true end.

Definition creds_match (m : option (bytes * bytes)) (i : option (option bytes * option bytes)) : bool :=
  match m, i with
  | None, None => true
  | Some (u, p), Some (iu, ip) => cred_matches u iu && cred_matches p ip
  | _, _ => false
  end.

Definition phase_matches (p : phase) (i_state : N) (i_buf : bytes) : bool :=
  match p with
  | Greet b => N.eqb i_state 0 && bytes_eqb b i_buf
  | Auth b => N.eqb i_state 1 && bytes_eqb b i_buf
  | Connect b => N.eqb i_state 2 && bytes_eqb b i_buf
  | Relay => N.eqb i_state 3
  | Done => N.eqb i_state 4
  | Crashed => N.eqb i_state 5
  end.

(* the scheduled model (pause, queue, replay) must have settled in exactly the state the
   plain model reaches on the same segments; structural comparison of the two states *)
Definition host_eqb (a b : host) : bool :=
  match a, b with
  | HText x, HText y => bytes_eqb x y
  | HV6 x, HV6 y => bytes_eqb x y
  | _, _ => false
  end.
Definition obs_eqb (a b : obs) : bool :=
  bytes_eqb (sent a) (sent b)
  && option_eqb (pair_eqb host_eqb N.eqb) (dest a) (dest b)
  && Bool.eqb (opened a) (opened b) && Bool.eqb (closed a) (closed b)
  && option_eqb (pair_eqb bytes_eqb bytes_eqb) (creds a) (creds b)
  && bytes_eqb (child a) (child b).
Definition phase_eqb (a b : phase) : bool :=
  match a, b with
  | Greet x, Greet y | Auth x, Auth y | Connect x, Connect y => bytes_eqb x y
  | Relay, Relay | Done, Done | Crashed, Crashed => true
  | _, _ => false
  end.
Definition settled_matches (l : lstate) (s : st) : bool :=
  match l with
  | LRun s' => phase_eqb (fst s') (fst s) && obs_eqb (snd s') (snd s)
  | _ => false
  end.

Definition check_case (c : case) : bool :=
  match c with
  | Case pa av eg fl evs i_state i_buf i_sent i_dest i_opened i_closed i_creds i_child =>
      let cf := mkCfg pa (fun _ _ => av) eg fl in
      let '(p, o) := run cf (data_of evs) in
      settled_matches (run_sched cf evs) (p, o) &&
      phase_matches p i_state i_buf
      && bytes_eqb (sent o) i_sent
      && dest_matches (dest o) i_dest
      && Bool.eqb (opened o) i_opened
      && Bool.eqb (closed o) i_closed
      && creds_match (creds o) i_creds
      && bytes_eqb (child o) i_child
  end.
