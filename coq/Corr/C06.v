(* Corr/C06.v -- correspondence glue for C06: inputs and the outputs observed on the real hyper-h2 / mitmproxy code;
   check_case recomputes them with Model/HttpTranslate.v. *)
From Coq Require Import List Bool NArith ZArith.
From MV Require Import Base.Bytes Model.Http1Msg Model.HttpTranslate.
Import ListNotations.

Definition header_eqb (a b : header) : bool := pair_eqb bytes_eqb bytes_eqb a b.
Definition headers_eqb (a b : headers) : bool := list_eqb header_eqb a b.

Definition outcome_eqb (a b : outcome) : bool :=
  match a, b with
  | OConnError, OConnError | OInvalid, OInvalid | OInformational, OInformational
  | OUndecided, OUndecided | OCrashTrailers, OCrashTrailers => true
  | OForward x c, OForward y d => bytes_eqb x y && Bool.eqb c d
  | _, _ => false
  end.

Inductive case :=
(* h2.utilities.validate_headers(headers, flags) fully consumed: no ProtocolError *)
| H2Val (is_response is_trailer : bool) (h : headers) (impl_ok : bool)
(* parse_h2_request_headers with the observed result of url.parse_authority *)
| ParseReq (pa_ok : bool) (h : headers) (impl : option (bytes * bytes * bytes * bytes * headers))
| ParseResp (h : headers) (impl : option (Z * headers))
(* format_h2_request_headers / format_h2_response_headers (direct call, or as decoded by a real h2 peer) *)
| FmtReq (normalize is_h2 : bool) (method scheme authority path : bytes) (fields : headers) (impl : headers)
| FmtResp (normalize is_h2 : bool) (st : Z) (fields : headers) (impl : headers)
(* net/http/validate.validate_headers on a message without Transfer-Encoding *)
| ValHdr (h : headers) (impl_ok : bool)
(* real h2 client -> HttpLayer -> Http1Client: the bytes written upstream *)
| DownReq (pa_ok : bool) (h : headers) (body : option bytes) (trailers : option headers) (impl : outcome)
(* real h2 server -> HttpLayer -> Http1Server: the bytes written to the HTTP/1 client *)
| DownResp (req_method : bytes) (h : headers) (body : option bytes) (trailers : option headers) (impl : outcome)
(* the same request object emitted twice (second pass = client replay): both header lists as decoded by real h2 peers /
   returned by two calls, and the fields of the live request after the first emission *)
| EmitTwice (normalize is_h2 : bool) (method scheme authority path : bytes) (fields : headers)
            (impl_first impl_second impl_fields_after : headers)
(* Http1Client.send conversion: fields of the live HTTP/2 request after it was written as HTTP/1 *)
| EmitH1State (fields impl_fields_after : headers)
| Both (a b : case).

Fixpoint check_case (c : case) : bool :=
  match c with
  | H2Val r t h ok => Bool.eqb (h2_validate r t h) ok
  | ParseReq pa h impl =>
      option_eqb (fun a b => match a, b with
                             | (m1, s1, a1, p1, f1), (m2, s2, a2, p2, f2) =>
                                 bytes_eqb m1 m2 && bytes_eqb s1 s2 && bytes_eqb a1 a2 && bytes_eqb p1 p2 && headers_eqb f1 f2
                             end)
        (match parse_h2_request_headers (fun _ => pa) h with
         | Some r => Some (hq_method r, hq_scheme r, hq_authority r, hq_path r, hq_fields r)
         | None => None
         end) impl
  | ParseResp h impl =>
      option_eqb (fun a b => Z.eqb (fst a) (fst b) && headers_eqb (snd a) (snd b)) (parse_h2_response_headers h) impl
  | FmtReq n v m s a p f impl => headers_eqb (format_h2_request_headers n v m s a p f) impl
  | FmtResp n v st f impl => headers_eqb (format_h2_response_headers n v st f) impl
  | ValHdr h ok => match validate_headers h with VOk => ok | VReject => negb ok | VTe => false end
  | DownReq pa h body tr impl => outcome_eqb (down_request (fun _ => pa) h body tr) impl
  | DownResp m h body tr impl => outcome_eqb (down_response m h body tr) impl
  | EmitTwice n v m s a p f i1 i2 fa =>
      let (e1, st1) := emit_request n v m s a p f in
      let (e2, _) := emit_request n v m s a p st1 in
      headers_eqb e1 i1 && headers_eqb e2 i2 && headers_eqb st1 fa
  | EmitH1State f fa => headers_eqb (snd (emit_h1_request (mkH2Req [] [] [] [] f))) fa
  | Both a b => check_case a && check_case b
  end.
