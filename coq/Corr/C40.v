(* Corr/C40.v -- correspondence glue for C40.  A case is the first flow of the store (id token,
   content token, live) and a history of operations, each with what the real flows showed after
   it, for EVERY flow of the store: live, modified(), the attribute _backup and get_state(), the
   last two abstracted to St id content backup with interned tokens.  An Edit carries the content
   token observed after the real edit (the model does not predict what an edit does to the
   content, only that it touches nothing else); a Copy carries the id token the copy received.
   check_case replays the history through Model.FlowBackup.step at the token instance and compares
   the whole store after every operation.  Raised = the implementation raised an exception (the
   model has no error path, so this is always a disagreement). *)
From Coq Require Import List Bool NArith.
From MV Require Import Base.Bytes Model.FlowBackup.
Import ListNotations.
Open Scope N_scope.

Inductive obs := Ob (live modified : bool) (bk : option (state N)) (st : state N).

Inductive case :=
| Case (id0 c0 : N) (live0 : bool) (o0 : obs) (steps : list (op N * list obs))
| Raised.

Definition tstate_eqb : state N -> state N -> bool := state_eqb N N.eqb.

Definition obs_ok (f : tflow) (o : obs) : bool :=
  match o with
  | Ob l m bk st =>
      Bool.eqb (flive f) l && Bool.eqb (tmodified f) m
      && option_eqb tstate_eqb (fbackup f) bk && tstate_eqb (tget_state f) st
  end.

Fixpoint store_ok (s : list tflow) (os : list obs) : bool :=
  match s, os with
  | [], [] => true
  | f :: r, o :: q => obs_ok f o && store_ok r q
  | _, _ => false
  end.

Fixpoint check_steps (s : list tflow) (steps : list (op N * list obs)) : bool :=
  match steps with
  | [] => true
  | (o, os) :: r => let s1 := tstep s o in store_ok s1 os && check_steps s1 r
  end.

Definition check_case (c : case) : bool :=
  match c with
  | Raised => false
  | Case i c0 l o0 steps =>
      let s := [Flow i c0 l None] in
      store_ok s [o0] && check_steps s steps
  end.
