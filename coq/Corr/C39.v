(* Corr/C39.v -- correspondence glue for C39.  A case is a table of flows and a list of events,
   each with what the real Save addon showed after it: whether options.update raised OptionsError,
   whether an addon error (the AssertionError of `assert self.stream`) was logged,
   whether self.stream is set, the ordinals in self.active_flows (sorted) and the record sequence
   (flow ordinals) of the two stream files as read back by io.FlowReader (None = no such file).
   check_case replays the events through Model.Save.step, applies the file operations it returns
   and compares after every event. *)
From Coq Require Import List Bool NArith.
From MV Require Import Base.Bytes Model.SavePrelude Model.Save.
Import ListNotations.
Open Scope N_scope.

Inductive obs := Ob (err alog opened : bool) (act : list N) (f0 f1 : option (list N)).
Inductive case := Case (infos : list finfo) (steps : list (event * obs)).

Definition obs_ok (s : st) (f : fs) (er : bool * bool) (o : obs) : bool :=
  match o with
  | Ob e al op act f0 f1 =>
      Bool.eqb (fst er) e && Bool.eqb (snd er) al && Bool.eqb (is_some (stream s)) op
      && list_eqb N.eqb (sortN (active s)) act
      && option_eqb (list_eqb N.eqb) (fs_get f 0) f0
      && option_eqb (list_eqb N.eqb) (fs_get f 1) f1
  end.

Fixpoint check_steps (infos : list finfo) (s : st) (f : fs) (steps : list (event * obs)) : bool :=
  match steps with
  | [] => true
  | (e, o) :: r =>
      let '(s1, ops, er) := step infos s e in
      let f1 := fs_apply f ops in
      obs_ok s1 f1 er o && check_steps infos s1 f1 r
  end.

Definition check_case (c : case) : bool :=
  match c with Case infos steps => check_steps infos init [] steps end.
