(* Corr/C25.v -- correspondence glue for C25.  Each case carries the inputs and the
   outputs observed on mitmproxy; check_case recomputes them with the model.
   When the model stops with EAce (a label or name outside the modelled IDNA fragment)
   the implementation outcome is not compared. *)
From Coq Require Import List Bool Arith NArith.
From MV Require Import Base.Bytes Model.DnsNames Model.DnsMessage.
Import ListNotations.

Definition result_eqb {A} (eqb : A -> A -> bool) (model impl : result A) : bool :=
  match model, impl with
  | Err EAce, _ => true
  | Ok a, Ok b => eqb a b
  | Err a, Err b => pyexc_eqb a b
  | _, _ => false
  end.

Definition q_eqb (a b : question) : bool :=
  bytes_eqb (q_name a) (q_name b) && N.eqb (q_type a) (q_type b) && N.eqb (q_class a) (q_class b).
Definition rr_eqb (a b : rr) : bool :=
  bytes_eqb (r_name a) (r_name b) && N.eqb (r_type a) (r_type b) && N.eqb (r_class a) (r_class b)
  && N.eqb (r_ttl a) (r_ttl b) && bytes_eqb (r_data a) (r_data b).
Definition msg_eqb (a b : message) : bool :=
  N.eqb (m_id a) (m_id b) && Bool.eqb (m_query a) (m_query b) && N.eqb (m_op_code a) (m_op_code b)
  && Bool.eqb (m_aa a) (m_aa b) && Bool.eqb (m_tc a) (m_tc b) && Bool.eqb (m_rd a) (m_rd b)
  && Bool.eqb (m_ra a) (m_ra b) && N.eqb (m_reserved a) (m_reserved b) && N.eqb (m_rcode a) (m_rcode b)
  && list_eqb q_eqb (m_questions a) (m_questions b) && list_eqb rr_eqb (m_answers a) (m_answers b)
  && list_eqb rr_eqb (m_authorities a) (m_authorities b)
  && list_eqb rr_eqb (m_additionals a) (m_additionals b).

Definition name_nat_eqb (a b : name * nat) : bool :=
  bytes_eqb (fst a) (fst b) && Nat.eqb (snd a) (snd b).

Inductive case :=
(* DNSMessage.unpack(buf); if it returned a message, its .packed *)
| Unp (buf : bytes) (r : result message) (repacked : result bytes)
(* m.packed; if that returned bytes, DNSMessage.unpack of them *)
| Pk (m : message) (p : result bytes) (back : result message)
| NPack (n : name) (r : result bytes)
| NUnpack (buf : bytes) (r : result name)
| NUnpackFrom (buf : bytes) (off : nat) (r : result (name * nat))
| NUnpackC (buf : bytes) (off : nat) (r : result (name * nat))
| Decomp (buf : bytes) (off end_data : nat) (r : result bytes)
| Compr (t : N) (b : bool)
(* one process, in this order: domain_names.pack of each name, then packed/unpack of each message;
   names are case variants of each other.  The model has no state to carry. *)
| Hist (packs : list (name * result bytes)) (msgs : list (message * result bytes * result message)).

Definition check_case (c : case) : bool :=
  match c with
  | Unp buf r repacked =>
      match DnsMessage.unpack buf with
      | Ok m => result_eqb msg_eqb (Ok m) r && result_eqb bytes_eqb (packed m) repacked
      | e => result_eqb msg_eqb e r
      end
  | Pk m p back =>
      match packed m with
      | Ok b => result_eqb bytes_eqb (Ok b) p && result_eqb msg_eqb (DnsMessage.unpack b) back
      | e => result_eqb bytes_eqb e p
      end
  | NPack n r => result_eqb bytes_eqb (pack n) r
  | NUnpack buf r => result_eqb bytes_eqb (DnsNames.unpack buf) r
  | NUnpackFrom buf off r => result_eqb name_nat_eqb (DnsNames.unpack_from buf off) r
  | NUnpackC buf off r => result_eqb name_nat_eqb (fst (unpack_fwc buf off [])) r
  | Decomp buf off e r => result_eqb bytes_eqb (fst (decompress_from_record_data buf off e [])) r
  | Compr t b => Bool.eqb (record_data_can_have_compression t) b
  | Hist packs msgs =>
      list_eqb (result_eqb bytes_eqb) (pack_history (map fst packs)) (map snd packs)
      && forallb (fun x => match x with (m, p, back) =>
           match packed m with
           | Ok b => result_eqb bytes_eqb (Ok b) p && result_eqb msg_eqb (DnsMessage.unpack b) back
           | e => result_eqb bytes_eqb e p
           end end) msgs
  end.
