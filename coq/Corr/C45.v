(* Corr/C45.v -- correspondence glue for C45: the harness writes the observations made on the
   real command_lexer / CommandManager next to the inputs; check_case recomputes them with
   the model of Model/Command.v. *)
From Coq Require Import List Bool NArith.
From MV Require Import Base.Bytes Model.Command.
Import ListNotations.
Open Scope N_scope.

(* observation of CommandManager.execute on the test manager *)
Inductive obs :=
| OReceived (name : str) (args : list str)
| OInvalid | OUnpack | OUnknown | OMismatch | OParse
| OOther.   (* any other exception type: never accepted *)

(* the commands registered by the harness: t.raw (var-positional CmdArgs), t.str (var-positional str),
   t.two (a: str, b: CmdArgs) -- names as code points *)
Definition n_raw : str := [116; 46; 114; 97; 119].
Definition n_str : str := [116; 46; 115; 116; 114].
Definition n_two : str := [116; 46; 116; 119; 111].
Definition commands (name : str) : option signature :=
  if str_eqb name n_raw then Some (SigVar TArg)
  else if str_eqb name n_str then Some (SigVar TStr)
  else if str_eqb name n_two then Some (SigFixed [TStr; TArg])
  else None.

Inductive case :=
(* expr.parse_string(s, parse_all=True): tokens, None = ParseException *)
| Lex (kt : bool) (s : str) (impl_tokens : option (list str))
(* quote(s), unquote(quote(s)) *)
| Quote (s : str) (impl_quoted impl_back : str)
| Unq (s : str) (impl : str)
| IsSpace (s : str) (impl : bool)
(* every code point c with chr(c).isspace() *)
| SpTable (impl : list N)
(* execute(line): what call_strings saw (None = not reached) and the final outcome *)
| Exec (kt : bool) (line : str) (impl_call : option (str * list str)) (impl : obs)
(* cmd + concatenation of (space + quote(a)) over args, executed *)
| RoundTrip (kt : bool) (cmd : str) (args : list str) (impl_line : str)
            (impl_call : option (str * list str)) (impl : obs)
(* one CommandManager: parse_partial(line) snapshot (value, is Space) before and after driving the
   real console CommandEdit (typing, Tab, Shift-Tab), then execute(line) on the same manager *)
| Session (kt : bool) (line : str) (pp_before pp_after : list (str * bool))
          (impl_call : option (str * list str)) (impl : obs)
(* _StrType.parse(s): None = ValueError *)
| StrParse (s : str) (impl : option str).

Definition strs_eqb := list_eqb str_eqb.

Definition call_matches (r : call_result) (o : option (str * list str)) : bool :=
  match r, o with
  | CallStrings n a, Some (n', a') => str_eqb n n' && strs_eqb a a'
  | CallInvalid, None | CallUnpackError, None => true
  | _, _ => false
  end.

Definition outcome_matches (r : outcome) (o : obs) : bool :=
  match r, o with
  | Received n a, OReceived n' a' => str_eqb n n' && strs_eqb a a'
  | ErrInvalid, OInvalid | ErrUnpack, OUnpack | ErrUnknown, OUnknown
  | ErrMismatch, OMismatch | ErrParse, OParse => true
  | Unsupported, _ => true      (* input outside the model (named unicode escapes): skipped *)
  | _, _ => false
  end.

(* all code points below 0x110000 with is_uspace, ascending *)
Definition spaces_all : list N :=
  rev (snd (N.iter 1114112 (fun st => let c := fst st in
                 (c + 1, if is_uspace c then c :: snd st else snd st)) (0, []))).

Definition parts_eqb : list (str * bool) -> list (str * bool) -> bool :=
  list_eqb (pair_eqb str_eqb Bool.eqb).

Definition check_case (c : case) : bool :=
  match c with
  | Lex kt s impl =>
      match parse_string kt s, impl with
      | LexOk ts, Some ts' => strs_eqb ts ts'
      | LexFail, None => true
      | _, _ => false
      end
  | Quote s q b => str_eqb (quote s) q && str_eqb (unquote q) b
  | Unq s r => str_eqb (unquote s) r
  | IsSpace s b => Bool.eqb (isspace s) b
  | SpTable l => list_eqb N.eqb spaces_all l
  | Exec kt line call o =>
      call_matches (execute_call kt line) call && outcome_matches (execute kt commands line) o
  | RoundTrip kt cmd args line call o =>
      str_eqb (cmd ++ flat_map (fun a => c_sp :: quote a) args) line
      && call_matches (execute_call kt line) call && outcome_matches (execute kt commands line) o
  | Session kt line pb pa call o =>
      match run_session kt commands [SParse line; SParse line; SExec line] with
      | [RParse (PPOk p1); RParse (PPOk p2); RExec r] =>
          parts_eqb p1 pb && parts_eqb p2 pa
          && call_matches (execute_call kt line) call && outcome_matches r o
      | _ => false
      end
  | StrParse s r =>
      match str_parse s, r with
      | ParseOk v, Some v' => str_eqb v v'
      | ParseValueError, None => true
      | ParseUnsupported, _ => true
      | _, _ => false
      end
  end.
