(* Corr/C20.v -- correspondence glue for C20.  Every case carries inputs and what the real code did
   (binascii / bytes.decode / parse_http_basic_auth / the ProxyAuth hooks on real flows / real
   HttpLayer and Socks5Proxy driven through harness/lib/sansio.py); check_case recomputes it with
   Model/ProxyAuth.v. *)
From Coq Require Import List Bool NArith.
From MV Require Import Base.Bytes Model.ProxyAuth.
Import ListNotations.
Local Open Scope N_scope.

Definition pair_str_eqb (a b : str * str) : bool := str_eqb (fst a) (fst b) && str_eqb (snd a) (snd b).
Definition triple_eqb (a b : str * str * str) : bool :=
  str_eqb (fst (fst a)) (fst (fst b)) && str_eqb (snd (fst a)) (snd (fst b)) && str_eqb (snd a) (snd b).
Definition header_eqb (a b : header) : bool := bytes_eqb (fst a) (fst b) && bytes_eqb (snd a) (snd b).
Definition headers_eqb : headers -> headers -> bool := list_eqb header_eqb.

Definition cmd_eqb (a b : cmd) : bool :=
  match a, b with
  | ToClient s, ToClient t => s =? t
  | OpenServer, OpenServer => true
  | ToServer h, ToServer k => headers_eqb h k
  | Tunnel, Tunnel => true
  | Crash, Crash => true
  | _, _ => false
  end.
(* a later request on the same connection reuses the server connection: OpenServer is compared by the oracle only *)
Definition strip_open (l : list cmd) : list cmd :=
  filter (fun c => match c with OpenServer => false | _ => true end) l.

(* per event of an addon-level sequence: what the hook left in the flow / the auth data, and whether
   the connection is in ProxyAuth.authenticated afterwards *)
Inductive aobs :=
| AHttp (resp : option N) (hs : headers) (meta : option (str * str)) (authd : bool)
| ASocks (valid authd : bool).
Definition aobs_eqb (a b : aobs) : bool :=
  match a, b with
  | AHttp r h m x, AHttp r' h' m' x' =>
      option_eqb N.eqb r r' && headers_eqb h h' && option_eqb pair_str_eqb m m' && Bool.eqb x x'
  | ASocks v x, ASocks v' x' => Bool.eqb v v' && Bool.eqb x x'
  | _, _ => false
  end.
Definition is_some {A} (o : option A) : bool := match o with Some _ => true | None => false end.
Fixpoint arun (ms1 : bool) (V : option validator) (st : authstate) (es : list event) : list aobs :=
  match es with
  | [] => []
  | e :: r =>
    let (st', o) := step ms1 V st e in
    let a := is_some (lookup (ev_conn e) st') in
    match o with
    | OHttp f _ => AHttp (f_resp f) (f_hdrs f) (f_meta f) a
    | OSocks v => ASocks v a
    end :: arun ms1 V st' r
  end.

(* end-to-end steps on one client connection (identity 0) *)
Inductive estep :=
| SReq (is_connect streaming : bool) (hook_hs : headers) (cmds : list cmd)   (* request.stream and headers the hook saw; what the core then did *)
| SAuth (buf : bytes) (kind : N) (to_client : bytes).               (* 0 waits, 1 failed + closed, 2 accepted *)
Fixpoint erun (ms1 : bool) (V : option validator) (is_proxy : bool) (st : authstate) (ss : list estep) : bool :=
  match ss with
  | [] => true
  | SReq ic sm hs cmds :: r =>
    let (st', o) := step ms1 V st (EReq 0 is_proxy ic false sm hs) in
    match o with
    | OHttp _ c => list_eqb cmd_eqb (strip_open c) (strip_open cmds)
    | OSocks _ => false
    end && erun ms1 V is_proxy st' r
  | SAuth buf kind tc :: r =>
    let (st', o) := state_auth V st 0 buf in
    match o with
    | SWait => (kind =? 0) && bytes_eqb tc []
    | SFail b => (kind =? 1) && bytes_eqb tc b
    | SOk b _ => (kind =? 2) && bytes_eqb tc b
    end && erun ms1 V is_proxy st' r
  end.

Inductive case :=
| B64 (input : bytes) (obs : option bytes)                       (* binascii.a2b_base64 *)
| B64Enc (input : bytes) (obs : bytes)                           (* binascii.b2a_base64(newline=False) *)
| Utf (h : N) (input : bytes) (obs : str) (back : option bytes)  (* input.decode(utf-8, h), then .encode() of the result *)
| Parse (ms1 : bool) (value : bytes) (obs : option (str * str * str))   (* header value -> _native -> parse_http_basic_auth *)
| Addon (ms1 : bool) (v : vspec) (evs : list event) (obs : list aobs)
| E2E (ms1 : bool) (v : vspec) (is_proxy : bool) (steps : list estep).

Definition handler (h : N) : bytes -> str :=
  if h =? 0 then h_replace else if h =? 1 then h_surrogateescape else h_backslashreplace.

Definition check_case (c : case) : bool :=
  match c with
  | B64 i o => option_eqb bytes_eqb (a2b_base64 i) o
  | B64Enc i o => bytes_eqb (b64encode i) o
  | Utf h i o back =>
      str_eqb (decode_with (handler h) i) o && option_eqb bytes_eqb (encode_strict o) back
  | Parse ms1 v o => option_eqb triple_eqb (parse_http_basic_auth ms1 (decode_with h_surrogateescape v)) o
  | Addon ms1 v evs o => list_eqb aobs_eqb (arun ms1 (validator_of v) [] evs) o
  | E2E ms1 v ip steps => erun ms1 (validator_of v) ip [] steps
  end.
