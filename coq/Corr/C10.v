(* Corr/C10.v — correspondence glue for C10: the real TimeoutWatchdog is driven under a
   virtual clock; after every schedule step the harness records (now, last_activity, blocker,
   can_timeout, fired, pending sleep target). *)
From Coq Require Import ZArith List Bool.
From MV Require Import Base.Bytes Model.Watchdog.
Import ListNotations.
Local Open Scope Z_scope.

Record obs := mkObs { o_now : Z; o_la : Z; o_blocker : Z; o_ct : bool; o_fired : bool; o_tgt : option Z }.
Record case := mkCase { c_T : Z; c_evs : list wevent; c_obs : list obs }.

Definition obs_of (s : wd) : obs :=
  mkObs (now s) (la s) (blocker s) (can_timeout s) (is_fired s)
        (match pc s with Sleeping t => Some t | _ => None end).

Definition obs_eqb (a b : obs) : bool :=
  (o_now a =? o_now b) && (o_la a =? o_la b) && (o_blocker a =? o_blocker b)
  && Bool.eqb (o_ct a) (o_ct b) && Bool.eqb (o_fired a) (o_fired b)
  && option_eqb Z.eqb (o_tgt a) (o_tgt b).

Definition check_case (c : case) : bool :=
  list_eqb obs_eqb (map obs_of (run_trace (init (c_T c) 0) (c_evs c))) (c_obs c).
