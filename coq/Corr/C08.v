(* Corr/C08.v -- correspondence glue for C08.  A case carries the configuration of a real HttpLayer, the
   history of calls it received (get_connection / register_connection at nesting depth 0, and every attribute
   change of a connection object in between) and, per step, what the implementation did: the
   GetHttpConnectionCompleted replies in order (with the attributes of the replied connection and the handler
   the request head is dispatched to), HttpLayer.connections and waiting_for_establishment after the call, the
   attributes of the Server objects the call created; finally the shape of every layer stack.
   check_case recomputes all of it with the model, and evaluates the environment contract step_ok (the
   hypothesis of the routing theorem) on every step of the observed history. *)
From Coq Require Import List Bool NArith.
From MV Require Import Base.Bytes Model.HttpRoutingBase Gen.ConnSpec Model.HttpRouting.
Import ListNotations.
Open Scope N_scope.

Inductive obs :=
| ObsCall (outs : list out) (conns : list (N * N)) (waiting : list (N * list N)) (new : list (N * conn))
| ObsSet (ok : bool).

Inductive case :=
| Case (cf : cfg) (ctx : conn) (steps : list step) (observed : list obs) (stacks : list (N * stackinfo)).

Definition reply_eqb (a b : option (N * conn * N)) : bool :=
  option_eqb (fun x y => N.eqb (fst (fst x)) (fst (fst y)) && conn_eqb (snd (fst x)) (snd (fst y)) && N.eqb (snd x) (snd y)) a b.

Definition out_eqb (a b : out) : bool :=
  match a, b with
  | OReply r g x, OReply r' g' x' => N.eqb r r' && get_eqb g g' && reply_eqb x x'
  | OSet x, OSet y => Bool.eqb x y
  | OKeyError, OKeyError => true
  | OFuel, OFuel => true
  | _, _ => false
  end.

Definition stack_eqb (a b : N * stackinfo) : bool :=
  N.eqb (fst a) (fst b) && option_eqb N.eqb (sk_carrier (snd a)) (sk_carrier (snd b))
  && Bool.eqb (sk_connect (snd a)) (sk_connect (snd b)) && Bool.eqb (sk_tls (snd a)) (sk_tls (snd b)).

Definition waiting_rids (w : list (N * list waiter)) : list (N * list N) :=
  map (fun x => (fst x, map fst (snd x))) w.

Definition obs_ok (s s1 : lstate) (outs : list out) (o : obs) : bool :=
  match o with
  | ObsSet ok => list_eqb out_eqb outs [OSet ok]
  | ObsCall outs' conns waiting new =>
      list_eqb out_eqb outs outs'
      && list_eqb (pair_eqb N.eqb N.eqb) (l_conns s1) conns
      && list_eqb (pair_eqb N.eqb (list_eqb N.eqb)) (waiting_rids (l_waiting s1)) waiting
      && forallb (fun x => conn_eqb (hget (l_heap s1) (fst x)) (snd x)) new
      && N.eqb (l_next s1) (l_next s + N.of_nat (length new))
  end.

Fixpoint check_steps (cf : cfg) (s : lstate) (steps : list step) (observed : list obs)
                     (stacks : list (N * stackinfo)) : bool :=
  match steps, observed with
  | [], [] => list_eqb stack_eqb (l_stacks s) stacks
  | e :: es, o :: os =>
      let (s1, outs) := step_fn cf s e in
      step_ok s e && obs_ok s s1 outs o && check_steps cf s1 es os stacks
  | _, _ => false
  end.

Definition check_case (c : case) : bool :=
  match c with
  | Case cf ctx steps observed stacks => check_steps cf (init_state ctx) steps observed stacks
  end.
