(* Corr/C53.v -- correspondence glue for C53.  Sched: the real ClientPlayback addon (real playback
   task, real ReplayHandler / HttpLayer / MockServer, harness-controlled event loop and fake
   network) is driven with the same operations as the model; after the initial state and after
   every operation the harness records the queue, inflight, count(), the packed state of every
   flow (content, live, saved backup) and the events that operation produced.  Chk: one call of
   the real check() on a flow built from the seven inputs of its decision table. *)
From Coq Require Import List Bool Arith NArith.
From MV Require Import Base.Bytes Model.FlowBackup Model.ClientPlayback.
Import ListNotations.

Definition b2N (b : bool) : N := if b then 1%N else 0%N.
Definition oc (x : option nat) : N := match x with None => 0%N | Some t => (1 + N.of_nat t)%N end.

(* content tokens are below 15 *)
Definition pack_obj (o : obj) : N :=
  (b2N (o_req o) + 2 * b2N (o_ws o) + 4 * b2N (o_err o) + 8 * b2N (o_int o) + 16 * b2N (o_replay o)
   + 32 * oc (o_content o) + 512 * oc (o_resp o))%N.

(* saved backup: 0 = none; the saved state never embeds a further backup (flag 2 if it does) *)
Definition pack_backup (b : option (state obj)) : N :=
  match b with
  | None => 0%N
  | Some (St _ c None) => (4 * pack_obj c + 1)%N
  | Some (St _ c (Some _)) => (4 * pack_obj c + 3)%N
  end.

Definition pack_cflow (f : cflow) : list N :=
  [b2N (c_http f); b2N (flive (cf f)); pack_obj (fo (cf f)); pack_backup (fbackup (cf f))].

Inductive lev :=
| VUpd (l : list nat) | VStart (i : nat) | VReq (i : nat)
| VFin (i : nat) (r : option nat) (e : bool) | VCrash (i : nat).

Definition lev_of (e : ev) : list lev :=
  match e with
  | LSubmit _ acc => [VUpd acc]
  | LStopped q => [VUpd (map snd q)]
  | LStart _ i => [VStart i]
  | LReq _ i => [VReq i]
  | LFin _ i r e => [VFin i r e]
  | LCrash _ i => [VCrash i]
  | LStale _ _ => []
  end.

Definition onat_eqb := option_eqb Nat.eqb.
Definition lev_eqb (a b : lev) : bool :=
  match a, b with
  | VUpd x, VUpd y => list_eqb Nat.eqb x y
  | VStart i, VStart j | VReq i, VReq j | VCrash i, VCrash j => Nat.eqb i j
  | VFin i r e, VFin j r2 e2 => Nat.eqb i j && onat_eqb r r2 && Bool.eqb e e2
  | _, _ => false
  end.

Record row := mkRow {
  r_queue : list nat; r_inflight : option nat; r_count : nat;
  r_flows : list (list N); r_log : list lev }.

Definition observe (prev cur : st) : row :=
  mkRow (map snd (queue cur)) (inflight cur) (count cur) (map pack_cflow (flows cur))
        (flat_map lev_of (skipn (length (log prev)) (log cur))).

Definition row_eqb (a b : row) : bool :=
  list_eqb Nat.eqb (r_queue a) (r_queue b) && onat_eqb (r_inflight a) (r_inflight b)
  && Nat.eqb (r_count a) (r_count b) && list_eqb (list_eqb N.eqb) (r_flows a) (r_flows b)
  && list_eqb lev_eqb (r_log a) (r_log b).

Fixpoint rows_of (s : st) (ops : list op) : list row :=
  match ops with
  | [] => []
  | o :: r => let s' := step s o in observe s s' :: rows_of s' r
  end.

Definition reason_code (r : option reason) : nat :=
  match r with
  | None => 0 | Some RLive => 1 | Some RIntercepted => 2 | Some RNoRequest => 3
  | Some RNoContent => 4 | Some RWebsocket => 5 | Some RNotHttp => 6
  end.

Inductive case :=
| Sched (fs : list cflow) (ops : list op) (rows : list row)
| Chk (infl : bool) (f : cflow) (res : nat).

Definition check_case (c : case) : bool :=
  match c with
  | Sched fs ops rows =>
      let s0 := init fs in
      list_eqb row_eqb (observe s0 s0 :: rows_of s0 ops) rows
  | Chk infl f res => Nat.eqb (reason_code (check infl f)) res
  end.
