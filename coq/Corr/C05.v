(* Corr/C05.v -- correspondence glue for C05.  A case carries, for every real Http2Server / Http2Client object of one
   run, the inputs it received in order (Start, HttpEvents with their stream ids as given, the frames completed by each
   DataReceived segment, ConnectionClosed) and, per input, what the implementation did: the commands it yielded in order
   (frames on the wire decoded by hyperframe/hpack, ReceiveHttp events with their stream ids, CloseConnection) and the
   dicts after the call (streams, stream_buffers as chunk lengths, stream_trailers keys, our/their_stream_id,
   stream_queue as event counts, provisional_max_concurrency, handler replaced by done); a step on which the real code
   raised is StepCrash.  check_case replays the inputs through the model and compares everything exactly; for logs taken
   from a complete proxy (expect_wf) it also evaluates the environment contract wf_first of the mapping theorems. *)
From Coq Require Import List Bool NArith ZArith.
From MV Require Import Base.Bytes Model.Http2Streams.
Import ListNotations.
Open Scope N_scope.

Inductive snap :=
| Snap (sstreams : list (N * bool)) (sbufs : list (N * list (N * bool))) (strl : list N) (sdead : bool)
       (sour stheir : list (N * N)) (squeue : list (N * N)) (sprov : bool).

Inductive step := Step (i : input) (outs : list out) (s : snap) | StepCrash (i : input).

Inductive connlog :=
| LogClient (fixd fixq expect_wf : bool) (steps : list step)
| LogServer (fixd : bool) (steps : list step).

Inductive case := Case (logs : list connlog).

Definition hkind_eqb (a b : hkind) : bool :=
  match a, b with HReq, HReq | HResp, HResp | HInfo, HInfo | HTrail, HTrail | HErr, HErr => true | _, _ => false end.

Definition frame_eqb (a b : frame) : bool :=
  match a, b with
  | FHeaders s k t e, FHeaders s' k' t' e' => (s =? s') && hkind_eqb k k' && (t =? t') && Bool.eqb e e'
  | FData s d e, FData s' d' e' => (s =? s') && bytes_eqb d d' && Bool.eqb e e'
  | FRst s c, FRst s' c' => (s =? s') && (c =? c')
  | FGoaway c, FGoaway c' => c =? c'
  | _, _ => false
  end.

Definition hev_eqb (a b : hev) : bool :=
  match a, b with
  | EHeaders s t e, EHeaders s' t' e' => (s =? s') && (t =? t') && Bool.eqb e e'
  | EData s d, EData s' d' => (s =? s') && bytes_eqb d d'
  | ETrailers s t, ETrailers s' t' => (s =? s') && (t =? t')
  | EEom s, EEom s' => s =? s'
  | EErr s c _ r, EErr s' c' _ r' => (s =? s') && (c =? c') && Bool.eqb r r'
  | _, _ => false
  end.

Definition out_eqb (a b : out) : bool :=
  match a, b with
  | OFrame f, OFrame g => frame_eqb f g
  | ORecv e, ORecv e' => hev_eqb e e'
  | OClose, OClose => true
  | _, _ => false
  end.

Definition NN_eqb := pair_eqb N.eqb N.eqb.

Definition conn_snap_ok (c : conn) (s : snap) : bool :=
  match s with
  | Snap ss sb st sd _ _ _ sp =>
      list_eqb (pair_eqb N.eqb Bool.eqb)
               (map (fun p => (fst p, match snd p with HeadersReceived => true | ExpectingHeaders => false end)) (streams c)) ss
      && list_eqb (pair_eqb N.eqb (list_eqb (pair_eqb N.eqb Bool.eqb)))
                  (map (fun p => (fst p, map (fun ch => (N.of_nat (length (fst ch)), snd ch)) (snd p))) (bufs (cb c))) sb
      && list_eqb N.eqb (dkeys (trls (cb c))) st
      && Bool.eqb (dead c) sd
      && Bool.eqb (prov c) sp
  end.

Definition client_snap_ok (s : h2client) (sn : snap) : bool :=
  match sn with
  | Snap _ _ _ _ so sth sq _ =>
      conn_snap_ok (cc s) sn
      && list_eqb NN_eqb (our s) so && list_eqb NN_eqb (their s) sth
      && list_eqb NN_eqb (map (fun p => (fst p, N.of_nat (length (snd p)))) (queue s)) sq
  end.

Fixpoint check_client (fq : bool) (s : h2client) (l : list step) : bool :=
  match l with
  | [] => true
  | Step i outs sn :: t =>
      match client_step fq s i with
      | Ok (s1, o) => list_eqb out_eqb o outs && client_snap_ok s1 sn && check_client fq s1 t
      | _ => false
      end
  | StepCrash i :: _ => match client_step fq s i with Crash => true | _ => false end
  end.

Fixpoint check_server (c : conn) (l : list step) : bool :=
  match l with
  | [] => true
  | Step i outs sn :: t =>
      match server_step c i with
      | Ok (c1, o) => list_eqb out_eqb o outs && conn_snap_ok c1 sn && check_server c1 t
      | _ => false
      end
  | StepCrash i :: _ => match server_step c i with Crash => true | _ => false end
  end.

Definition step_input (s : step) : input := match s with Step i _ _ | StepCrash i => i end.

Definition check_log (l : connlog) : bool :=
  match l with
  | LogClient fixd fixq ewf steps =>
      check_client fixq (client_init fixd) steps && (negb ewf || wf_first [] (map step_input steps))
  | LogServer fixd steps => check_server (server_init fixd) steps
  end.

Definition check_case (c : case) : bool := match c with Case logs => forallb check_log logs end.
