(* Corr/C41.v -- correspondence glue for C41.  A case carries the flows handed to the real SaveHar.export_har, the
   results the real codec library returned during the run (tables; the model's abstract library is instantiated with
   them and answers Missing / a sentinel for any call the implementation did not make), the entries read from the
   written HAR file and the flows the real FlowReader yielded.  check_case recomputes entries and imported flows with
   the model and compares them exactly. *)
From Coq Require Import List Bool NArith.
From MV Require Import Base.Bytes Model.Headers Model.Har.
Import ListNotations.

Definition str_eqb (a b : str) : bool := list_eqb N.eqb a b.
Definition val_eqb (a b : val) : bool :=
  match a, b with VB x, VB y => bytes_eqb x y | VS x, VS y => str_eqb x y | _, _ => false end.

Record tables := mkTables {
  t_dec : list (val * bytes * res val);
  t_enc : list (val * bytes * res val);
  t_infer : list (bytes * bytes * bytes);
  t_b64e : list (bytes * res val);
  t_b64d : list (str * res val);
  t_utf8 : list (bytes * bool);
  t_decse : list (bytes * str);
  t_encse : list (str * res val);
  t_url : list (str * res (bytes * str));
  t_ctfix : list (bytes * bytes);
  t_auth : list (bytes * bytes);
  t_pauth : list (bytes * (bytes * option N));
  t_unparse : list (bytes * bytes * N * bytes * str) }.

Fixpoint lookup {K V} (eqb : K -> K -> bool) (t : list (K * V)) (k : K) : option V :=
  match t with
  | [] => None
  | (k', v) :: t' => if eqb k k' then Some v else lookup eqb t' k
  end.

Definition key2_eqb {A B} (ea : A -> A -> bool) (eb : B -> B -> bool) (x y : A * B) : bool :=
  ea (fst x) (fst y) && eb (snd x) (snd y).
Definition or_missing {A} (o : option (res A)) : res A := match o with Some r => r | None => Missing end.

(* sentinels that no real call returns *)
Definition NO_ENC : bytes := [x00; x4d; x49; x53; x53].
Definition NO_STR : str := [1114112%N].

Definition lib_of (T : tables) : lib :=
  mkLib (fun v e => or_missing (lookup (key2_eqb val_eqb bytes_eqb) (t_dec T) (v, e)))
        (fun v e => or_missing (lookup (key2_eqb val_eqb bytes_eqb) (t_enc T) (v, e)))
        (fun ct c => match lookup (key2_eqb bytes_eqb bytes_eqb) (t_infer T) (ct, c) with Some e => e | None => NO_ENC end)
        (fun b => or_missing (lookup bytes_eqb (t_b64e T) b))
        (fun s => or_missing (lookup str_eqb (t_b64d T) s))
        (fun b => match lookup bytes_eqb (t_utf8 T) b with Some r => Ok r | None => Missing end)
        (fun b => match lookup bytes_eqb (t_decse T) b with Some s => s | None => NO_STR end)
        (fun s => or_missing (lookup str_eqb (t_encse T) s))
        (fun u => or_missing (lookup str_eqb (t_url T) u))
        (fun ct => match lookup bytes_eqb (t_ctfix T) ct with Some r => r | None => NO_ENC end)
        (fun a => match lookup bytes_eqb (t_auth T) a with Some r => r | None => NO_ENC end)
        (fun hh => match lookup bytes_eqb (t_pauth T) hh with Some r => r | None => (NO_ENC, None) end)
        (fun scheme host port path =>
           match lookup (fun x y : bytes * bytes * N * bytes =>
                           let '(a, b, c, d) := x in let '(a', b', c', d') := y in
                           bytes_eqb a a' && bytes_eqb b b' && N.eqb c c' && bytes_eqb d d')
                        (t_unparse T) (scheme, host, port, path) with
           | Some r => r | None => NO_STR end).

Definition fields_eqb (a b : list field) : bool := list_eqb field_eqb a b.
Definition ob_eqb := option_eqb bytes_eqb.

Definition entry_eqb (a b : entry) : bool :=
  bytes_eqb (e_method a) (e_method b) && str_eqb (e_url a) (e_url b) && bytes_eqb (e_rver a) (e_rver b)
  && fields_eqb (e_rh a) (e_rh b) && option_eqb (option_eqb str_eqb) (e_post a) (e_post b)
  && N.eqb (e_status a) (e_status b) && bytes_eqb (e_sver a) (e_sver b) && fields_eqb (e_sh a) (e_sh b)
  && option_eqb str_eqb (e_ctext a) (e_ctext b) && ob_eqb (e_enc a) (e_enc b).

Definition iflow_eqb (a b : iflow) : bool :=
  bytes_eqb (i_method a) (i_method b) && str_eqb (i_url a) (i_url b) && bytes_eqb (i_version a) (i_version b)
  && fields_eqb (i_rh a) (i_rh b) && ob_eqb (i_rraw a) (i_rraw b)
  && N.eqb (i_status a) (i_status b) && bytes_eqb (i_sversion a) (i_sversion b) && fields_eqb (i_sh a) (i_sh b)
  && ob_eqb (i_sraw a) (i_sraw b).

Definition stop_eqb (a b : stop) : bool :=
  match a, b with Clean, Clean | Raised, Raised | NoTable, NoTable => true | _, _ => false end.

Inductive case :=
| Case (hdr_se : bool) (T : tables) (flows : list flow)
       (impl_entries : list entry) (impl_flows : list iflow) (impl_failed : bool)
| ExportCrash (T : tables) (flows : list flow).

Definition check_case (c : case) : bool :=
  match c with
  | Case se T flows ents imps failed =>
      let L := lib_of T in
      match make_har L flows with
      | Ok es => list_eqb entry_eqb es ents
      | _ => false
      end
      && (let '(fs, st) := import_har se L ents in
          list_eqb iflow_eqb fs imps && stop_eqb st (if failed then Raised else Clean))
  | ExportCrash T flows =>
      match make_har (lib_of T) flows with
      | EOther => true
      | EValue => true
      | _ => false
      end
  end.
