(* Corr/C46.v -- correspondence glue for C46.  A case is one HTTP request sent over a socket to a
   real mitmweb Application plus what was observed.  The harness describes HOW it built the
   signed auth cookie and the XSRF cookie/token pair (the forms below); this file states what
   tornado makes of each form (get_signed_cookie value, check_xsrf_cookie verdict) -- that
   table is the model of the abstracted tornado parts and is tied only by this check. *)
From Coq Require Import List Bool NArith.
From MV Require Import Base.Bytes Model.WebAuth Gen.WebRoutes.
Import ListNotations.

Inductive cookie_form :=
| CkNone | CkValid | CkBadSig | CkWrongSecret | CkWrongValue | CkWrongName | CkOtherNameSig
| CkExpired | CkV1 | CkUnsigned | CkGarbage.

(* get_signed_cookie(auth_cookie_name(), min_version=2) *)
Definition cookie_value (f : cookie_form) : option bytes :=
  match f with
  | CkValid => Some s_y
  | CkWrongValue => Some [x6e]
  | _ => None
  end.

Inductive xsrf_form :=
| XNone | XCookieOnly | XHeader | XCsrfHeader | XArg | XBodyArg | XMismatch | XTokenOnly
| XV2 | XMalformed | XOldName | XEmpty.

(* check_xsrf_cookie passes *)
Definition xsrf_ok (f : xsrf_form) : bool :=
  match f with
  | XHeader | XCsrfHeader | XArg | XBodyArg | XV2 => true
  | _ => false
  end.

Inductive body_kind := KLoginInvalid | KLoginRequired | KEmpty | KErrorPage | KOther.

Definition body_matches (b : body unit) (k : body_kind) : bool :=
  match b, k with
  | BLogin true, KLoginInvalid | BLogin false, KLoginRequired | BEmpty, KEmpty | BError, KErrorPage => true
  | _, _ => false
  end.

(* what was observed for one request *)
Inductive obs := Obs (status : N) (ran : bool) (cookie_set : bool) (bk : body_kind) (state_changed leaked : bool).

Inductive hstep :=
| HSet (opt fresh : bytes)
| HReq (route : option nat) (m : meth) (ck : cookie_form) (authz : option bytes)
       (tokens : list (option bytes)) (xf : xsrf_form) (sfs : option bytes) (o : obs).

Inductive case :=
| Req (route : option nat) (m : meth) (ck : cookie_form) (authz : option bytes)
      (tokens : list (option bytes)) (xf : xsrf_form) (sfs : option bytes) (stored : bytes)
      (* observed on the implementation *)
      (status : N) (ran : bool) (cookie_set : bool) (bk : body_kind) (state_changed leaked : bool)
| Hist (initial : bytes) (steps : list hstep).

(* the harness uses two argon2 hashes (cheap parameters): A of the plaintext test, B of test2 *)
Definition hash_A : bytes := [x24;x61;x72;x67;x6f;x6e;x32;x69;x64;x24;x76;x3d;x31;x39;x24;x6d;x3d;x38;x2c;x74;x3d;x31;x2c;x70;x3d;x31;x24;x63;x32;x46;x73;x64;x48;x4e;x68;x62;x48;x51;x24;x69;x65;x56;x67;x47;x35;x79;x73;x54;x4a;x46;x78;x34;x6b;x2f;x4b;x76;x6d;x43;x39;x61;x51].
Definition hash_B : bytes := [x24;x61;x72;x67;x6f;x6e;x32;x69;x64;x24;x76;x3d;x31;x39;x24;x6d;x3d;x38;x2c;x74;x3d;x31;x2c;x70;x3d;x31;x24;x63;x32;x46;x73;x64;x48;x4e;x68;x62;x48;x51;x79;x24;x45;x4b;x6a;x76;x30;x30;x34;x58;x4c;x2b;x46;x42;x72;x7a;x6f;x54;x4d;x79;x6f;x4a;x74;x50;x5a;x6e;x31;x2f;x34;x2b;x61;x52;x65;x79;x38;x6b;x5a;x69;x49;x51;x67;x54;x77;x51;x73].
Definition corr_argon (stored pw : bytes) : bool :=
  (bytes_eqb stored hash_A && bytes_eqb pw [x74;x65;x73;x74])
  || (bytes_eqb stored hash_B && bytes_eqb pw [x74;x65;x73;x74;x32]).
Definition corr_hash_ok (h : bytes) : bool := bytes_eqb h hash_A || bytes_eqb h hash_B.
Definition corr_inner (_ : nat) (_ : meth) (s : unit) (_ : request) : unit * (N * unit) := (s, (200%N, tt)).

Definition check_resp (rs : response unit) (m : meth) (o : obs) : bool :=
  match o with
  | Obs status ran cookie_set bk state_changed leaked =>
      match rs_body rs with
      | BInner _ => ran && Bool.eqb cookie_set (rs_cookie rs)
      | b => negb ran && N.eqb status (rs_status rs) && Bool.eqb cookie_set (rs_cookie rs)
             && negb state_changed && negb leaked
             && (meth_eqb m HEAD || body_matches b bk)
      end
  end.

Definition step_of (h : hstep) : step :=
  match h with
  | HSet opt fresh => SetPassword opt fresh
  | HReq route m ck authz tokens xf sfs _ =>
      Request (Build_request route m (cookie_value ck) authz tokens (xsrf_ok xf) sfs)
  end.

Fixpoint check_all (rs : list (response unit)) (hs : list hstep) : bool :=
  match hs with
  | [] => match rs with [] => true | _ => false end
  | HSet _ _ :: r => check_all rs r
  | HReq _ m _ _ _ _ _ o :: r =>
      match rs with
      | x :: rs' => check_resp x m o && check_all rs' r
      | [] => false
      end
  end.

Definition check_case (c : case) : bool :=
  match c with
  | Req route m ck authz tokens xf sfs stored status ran cookie_set bk state_changed leaked =>
      let q := Build_request route m (cookie_value ck) authz tokens (xsrf_ok xf) sfs in
      let rs := snd (handle unit unit corr_inner corr_argon stored mitmweb tt q) in
      check_resp rs m (Obs status ran cookie_set bk state_changed leaked)
  | Hist initial steps =>
      check_all (run_history unit unit corr_inner corr_argon corr_hash_ok mitmweb (false, initial) tt (map step_of steps)) steps
  end.
