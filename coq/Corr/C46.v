(* Corr/C46.v -- correspondence glue for C46.  A case is one HTTP request sent over a socket to a
   real mitmweb Application plus what was observed.  The harness describes HOW it built the
   signed auth cookie and the XSRF cookie/token pair (the forms below); this file states what
   tornado makes of each form (get_signed_cookie value, check_xsrf_cookie verdict) -- that
   table is the model of the abstracted tornado parts and is tied only by this check. *)
From Coq Require Import List Bool NArith.
From MV Require Import Base.Bytes Model.WebAuth Gen.WebRoutes.
Import ListNotations.

Inductive cookie_form :=
| CkNone | CkValid | CkBadSig | CkWrongSecret | CkWrongValue | CkWrongName | CkOtherNameSig
| CkExpired | CkV1 | CkUnsigned | CkGarbage.

(* get_signed_cookie(auth_cookie_name(), min_version=2) *)
Definition cookie_value (f : cookie_form) : option bytes :=
  match f with
  | CkValid => Some s_y
  | CkWrongValue => Some [x6e]
  | _ => None
  end.

Inductive xsrf_form :=
| XNone | XCookieOnly | XHeader | XCsrfHeader | XArg | XBodyArg | XMismatch | XTokenOnly
| XV2 | XMalformed | XOldName | XEmpty.

(* check_xsrf_cookie passes *)
Definition xsrf_ok (f : xsrf_form) : bool :=
  match f with
  | XHeader | XCsrfHeader | XArg | XBodyArg | XV2 => true
  | _ => false
  end.

Inductive body_kind := KLoginInvalid | KLoginRequired | KEmpty | KErrorPage | KOther.

Definition body_matches (b : body unit) (k : body_kind) : bool :=
  match b, k with
  | BLogin true, KLoginInvalid | BLogin false, KLoginRequired | BEmpty, KEmpty | BError, KErrorPage => true
  | _, _ => false
  end.

Inductive case :=
| Req (route : option nat) (m : meth) (ck : cookie_form) (authz : option bytes)
      (tokens : list (option bytes)) (xf : xsrf_form) (sfs : option bytes) (stored : bytes)
      (* observed on the implementation *)
      (status : N) (ran : bool) (cookie_set : bool) (bk : body_kind) (state_changed leaked : bool).

(* the harness hashes the plaintext test with argon2 when it runs in hash mode *)
Definition corr_argon (_ pw : bytes) : bool := bytes_eqb pw [x74;x65;x73;x74].
Definition corr_inner (_ : nat) (_ : meth) (s : unit) (_ : request) : unit * (N * unit) := (s, (200%N, tt)).

Definition check_case (c : case) : bool :=
  match c with
  | Req route m ck authz tokens xf sfs stored status ran cookie_set bk state_changed leaked =>
      let q := Build_request route m (cookie_value ck) authz tokens (xsrf_ok xf) sfs in
      let rs := snd (handle unit unit corr_inner corr_argon stored mitmweb tt q) in
      match rs_body rs with
      | BInner _ => ran && Bool.eqb cookie_set (rs_cookie rs)
      | b => negb ran && N.eqb status (rs_status rs) && Bool.eqb cookie_set (rs_cookie rs)
             && negb state_changed && negb leaked
             && (meth_eqb m HEAD || body_matches b bk)
      end
  end.
