(* Corr/C30.v -- correspondence glue for C30.  The harness records, for a schedule of QUIC stream
   events fed to the real RawQuicLayer (children: real TCPLayer(ignore=True) or a scripted child),
   every QUIC command that left the layer, the failed assertion if any, and the final maps,
   counters and per-stream connection states.  check_case recomputes all of it with the model. *)
From Coq Require Import NArith List Bool.
From MV Require Import Base.Bytes Model.QuicIdsPrelude Gen.QuicIds Model.QuicDemux.
Import ListNotations.
Open Scope N_scope.

Definition olayer := (N * option N * connst * connst)%type.

Inductive case :=
| Demux (kinds : list kchild) (evs : list sevent)
        (o_outs : list out) (o_err : option errk)
        (o_cids o_sids : list (N * nat)) (o_next : list N) (o_layers : list olayer) (o_done : bool)
| IdBits (id : N) (client_initiated unidirectional : bool)
| AllocSeq (calls : list (bool * bool)) (ids : list N) (final : list N).

Definition side_eqb (a b : side) : bool := match a, b with Cl, Cl | Sv, Sv => true | _, _ => false end.
(* ghost layer tag erased *)
Definition out_eqb (a b : out) : bool :=
  match a, b with
  | OSend _ t i d f, OSend _ t' i' d' f' => side_eqb t t' && (i =? i') && bytes_eqb d d' && Bool.eqb f f'
  | OReset _ t i c, OReset _ t' i' c' => side_eqb t t' && (i =? i') && (c =? c')
  | OStop _ t i c, OStop _ t' i' c' => side_eqb t t' && (i =? i') && (c =? c')
  | OPass _ n, OPass _ n' => n =? n'
  | OCloseConn t c, OCloseConn t' c' => side_eqb t t' && (c =? c')
  | _, _ => false
  end.
Definition errk_eqb (a b : errk) : bool :=
  match a, b with
  | AssertInitiator, AssertInitiator | UnexpectedStreamEvent, UnexpectedStreamEvent
  | AssertStreamId, AssertStreamId | AssertOpenClient, AssertOpenClient | AssertOpenTwice, AssertOpenTwice
  | AssertTsStart, AssertTsStart | CounterIndex, CounterIndex | Internal, Internal
  | OutOfFuel, OutOfFuel | OtherExc, OtherExc => true
  | _, _ => false
  end.
Definition connst_eqb (a b : connst) : bool :=
  Bool.eqb (can_read a) (can_read b) && Bool.eqb (can_write a) (can_write b)
  && Bool.eqb (ts_start a) (ts_start b) && Bool.eqb (ts_end a) (ts_end b).
Definition olayer_eqb (a b : olayer) : bool :=
  let '(c, s, cc, sc) := a in let '(c', s', cc', sc') := b in
  (c =? c') && option_eqb N.eqb s s' && connst_eqb cc cc' && connst_eqb sc sc'.
Definition dict_eqb := list_eqb (pair_eqb N.eqb Nat.eqb).

Definition check_case (c : case) : bool :=
  match c with
  | Demux kinds evs o_outs o_err o_cids o_sids o_next o_layers o_done =>
    let st := run kchild kstep (spawn kinds) evs in
    list_eqb out_eqb (rev (outs st)) o_outs
    && option_eqb errk_eqb (err st) o_err
    && dict_eqb (client_ids st) o_cids && dict_eqb (server_ids st) o_sids
    && list_eqb N.eqb (next_ids st) o_next
    && list_eqb olayer_eqb (map (fun l => (cid l, sid l, cconn l, sconn l)) (layers st)) o_layers
    && Bool.eqb (done st) o_done
  | IdBits id ci uni =>
    Bool.eqb (stream_is_client_initiated id) ci && Bool.eqb (stream_is_unidirectional id) uni
  | AllocSeq calls ids final =>
    match alloc_seq NEXT_STREAM_ID_INIT calls with
    | Some (ids', f) => list_eqb N.eqb ids' ids && list_eqb N.eqb f final
    | None => false
    end
  end.
