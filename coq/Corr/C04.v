(* Corr/C04.v — correspondence glue for C04. *)
From Coq Require Import List Bool Arith.
From MV Require Import Base.Bytes Model.LayerCore.
Import ListNotations.

Definition ME := 7.        (* identity of the test layer / child layer *)
Definition NL := 9.        (* identity of the NextLayer *)
Definition NLCTR := 2000.  (* first command id used by NextLayer *)

Inductive case :=
| CLayer (table : list ast) (evs : list event)
         (out : list cmd) (tr : list titem) (waiting : option nat) (q : list event)
| CNext (ask_on_start : bool) (table : list ast) (evs : list event)
        (out : list cmd) (chosen : bool) (delivered buffered pq : list event)
        (child_waiting : option nat) (child_q : list event).

Definition no_pause (tr : list titem) : list titem :=
  filter (fun t => match t with TPause _ => false | _ => true end) tr.
Definition wait_of {S} (r : runstate S) : option nat :=
  match r with Waiting c _ => Some c | Idle _ => None end.

Definition check_case (c : case) : bool :=
  match c with
  | CLayer table evs out tr w q =>
    let '(st, out', tr', _) := run_events (table_handler table) ME (init (0, 0)) evs in
    list_eqb cmd_eqb out' out && list_eqb titem_eqb (no_pause tr') tr
    && option_eqb Nat.eqb (wait_of (run st)) w && list_eqb event_eqb (queue st) q
  | CNext aos table evs out chosen delivered buffered pq cw cq =>
    let '(s, out', _) := nl_run (table_handler table) ME NL aos (nl_init (0, 0) NLCTR) evs in
    list_eqb cmd_eqb out' out && Bool.eqb (nl_chosen s) chosen
    && list_eqb event_eqb (nl_delivered s) delivered
    && list_eqb event_eqb (nl_events s) buffered
    && list_eqb event_eqb (nl_pq s) pq
    && option_eqb Nat.eqb (wait_of (run (nl_child s))) cw
    && list_eqb event_eqb (queue (nl_child s)) cq
  end.
