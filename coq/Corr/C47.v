(* Corr/C47.v -- correspondence glue for C47: a case is a history of PUT /flows/<id> requests against one flow;
   each step carries the flow state observed before the request, the submitted body (None = no JSON document
   could be read), and what the real handler did: outcome (exception class), HTTP status, flow state afterwards.
   check_case recomputes outcome and final state with the model and compares exactly. A model result
   OutOfModel is a failure here: the harness only sends steps it believes to be inside the model. *)
From Coq Require Import List Bool NArith ZArith.
From MV Require Import Base.Bytes Model.WebFlowEdit.
From MV Require Model.Headers.
Import ListNotations.

(* compact literal for strings whose code points are all below 256 *)
Definition ub (b : bytes) : ustr := map bN b.

Fixpoint jv_eqb (a b : jv) {struct a} : bool :=
  match a, b with
  | JNull, JNull => true
  | JBool x, JBool y => Bool.eqb x y
  | JInt x, JInt y => Z.eqb x y
  | JStr x, JStr y => ustr_eqb x y
  | JList x, JList y =>
      (fix go (x y : list jv) {struct x} : bool :=
         match x, y with
         | [], [] => true
         | a' :: x', b' :: y' => jv_eqb a' b' && go x' y'
         | _, _ => false
         end) x y
  | JDict x, JDict y =>
      (fix go (x y : list (ustr * jv)) {struct x} : bool :=
         match x, y with
         | [], [] => true
         | (k, a') :: x', (k', b') :: y' => ustr_eqb k k' && jv_eqb a' b' && go x' y'
         | _, _ => false
         end) x y
  | _, _ => false
  end.

Definition hdrs_eqb (a b : hdrs) : bool := list_eqb Headers.field_eqb a b.

Definition msg_eqb (a b : msgdata) : bool :=
  bytes_eqb (m_version a) (m_version b) && hdrs_eqb (m_headers a) (m_headers b)
  && option_eqb hdrs_eqb (m_trailers a) (m_trailers b)
  && option_eqb bytes_eqb (m_content a) (m_content b).

Definition request_eqb (a b : request) : bool :=
  msg_eqb (q_msg a) (q_msg b) && bytes_eqb (q_method a) (q_method b) && bytes_eqb (q_scheme a) (q_scheme b)
  && ustr_eqb (q_host a) (q_host b) && Z.eqb (q_port a) (q_port b) && bytes_eqb (q_path a) (q_path b)
  && bytes_eqb (q_authority a) (q_authority b).

Definition response_eqb (a b : response) : bool :=
  msg_eqb (p_msg a) (p_msg b) && Z.eqb (p_code a) (p_code b) && bytes_eqb (p_reason a) (p_reason b).

Definition core_eqb (a b : core) : bool :=
  request_eqb (c_request a) (c_request b) && option_eqb response_eqb (c_response a) (c_response b)
  && jv_eqb (c_marked a) (c_marked b) && jv_eqb (c_comment a) (c_comment b).

Definition flow_eqb (a b : flow) : bool :=
  core_eqb (f_cur a) (f_cur b) && option_eqb core_eqb (f_backup a) (f_backup b).

Definition exn_eqb (a b : exn) : bool :=
  match a, b with
  | EApi, EApi | EValue, EValue | EType, EType | EUnicode, EUnicode | EAttr, EAttr => true
  | _, _ => false
  end.

(* tornado: HTTPError (APIError) -> its own status; any other exception -> 500 *)
Definition status_of (o : outcome) : N :=
  match o with Done => 200 | Failed EApi => 400 | Failed _ => 500 | OutOfModel => 0 end%N.

(* s_init = None: the step starts from the state observed after the previous step of the same history *)
Record step := mkStep {
  s_init : option flow;
  s_body : option jv;
  s_impl_out : outcome;
  s_impl_status : N;
  s_impl_final : flow }.

Definition check_step (vx vb : bool) (init : flow) (s : step) : bool :=
  let '(final, out) := put vx vb (s_body s) init in
  match out, s_impl_out s with
  | Done, Done => true
  | Failed e, Failed e' => exn_eqb e e'
  | _, _ => false
  end
  && N.eqb (status_of out) (s_impl_status s)
  && flow_eqb final (s_impl_final s).

Inductive case :=
| Hist (vx vb : bool) (steps : list step).

Fixpoint check_steps (vx vb : bool) (prev : option flow) (steps : list step) : bool :=
  match steps with
  | [] => true
  | s :: rest =>
      match (match s_init s with Some i => Some i | None => prev end) with
      | Some init => check_step vx vb init s && check_steps vx vb (Some (s_impl_final s)) rest
      | None => false
      end
  end.

Definition check_case (c : case) : bool :=
  match c with
  | Hist vx vb steps => check_steps vx vb None steps
  end.
