(* Corr/C15.v -- correspondence glue for C15.  A case carries the inputs of one upstream handshake
   (options, names, abstract certificates from which the harness made real ones, scenario) next to
   what was observed on the real TlsConfig.tls_start_server + ServerTLSLayer + OpenSSL; check_case
   recomputes every observation with Model/TlsStartServer.v, Model/X509Verify.v and
   Model/ServerTlsLayer.v instantiated with the specification engine below. *)
From Coq Require Import List Bool NArith ZArith.
From MV Require Import Base.Bytes Model.X509Verify Model.TlsStartServer Model.ServerTlsLayer.
Import ListNotations.

(* ---- the OpenSSL connection object as the specification sees it ---- *)
Inductive sseg := SPartial | SFlight | SGarbage.
Inductive phase := Fresh | HelloSent | Done | Dead.
Definition phase_eqb (a b : phase) : bool :=
  match a, b with Fresh, Fresh | HelloSent, HelloSent | Done, Done | Dead, Dead => true | _, _ => false end.

(* accept = peer_acceptable of the configuration: OpenSSL completes the handshake iff the
   specification accepts the chain, or verification is off *)
Definition spec_hs (accept : bool) (e : phase) (d : option sseg) : phase * hs_result :=
  match e, d with
  | Fresh, None => (HelloSent, WantRead)
  | HelloSent, Some SPartial => (HelloSent, WantRead)
  | HelloSent, Some SFlight => if accept then (Done, HsDone) else (Dead, HsError)
  | _, _ => (Dead, HsError)
  end.
Definition spec_send (e : phase) (d : bytes) : phase * send_result :=
  if phase_eqb e Done then (e, Sent d) else (e, SendRaises).
Definition spec_recv (e : phase) (d : option sseg) : phase * (bytes * bool) := (e, ([], false)).
Definition spec_shutdown (e : phase) : bool := false.

(* ---- the two child layers of the harness ---- *)
Definition appdata : bytes := [x41; x50; x50; x44; x41; x54; x41].   (* APPDATA *)
(* kind 0: opens the server connection on Start and sends APPDATA once it is told the connection is up.
   kind 1: server connection already open; sends APPDATA on Start if TLS is established; echoes client data *)
Definition child_step (k : N) (est : bool) (e : cev) : N * list ccmd :=
  (k, match k, e with
      | 0%N, CevStart => [CmdOpen]
      | 0%N, CevOpenReply false => [CmdSend appdata]
      | 0%N, _ => []
      | _, CevStart => if est then [CmdSend appdata] else []
      | _, CevClient d => [CmdOther d]
      | _, _ => []
      end).

Definition ev' := ev sseg.

(* scenario: 0 full handshake, 1 server closes after the ClientHello, 2 server answers garbage,
   3 TCP connect fails (child kind 0 only) *)
Definition server_events (scen : N) (split : bool) : list ev' :=
  (if split then [EData sseg SPartial] else [])
  ++ match scen with
     | 0%N => [EData sseg SFlight]
     | 1%N => [EClosed sseg]
     | _ => [EData sseg SGarbage]
     end.

Definition script (scen : N) (split : bool) (childk : N) (cdata : bool) (hello : bool) : list ev' :=
  [EStart sseg]
  ++ (if cdata then [EClient sseg [x78]] else [])
  ++ (if (childk =? 0)%N then [EOpenReply sseg (scen =? 3)%N] else [])
  ++ (if hello && negb (scen =? 3)%N then server_events scen split else []).

Definition is_close (c : cmd) : bool := match c with CClose => true | _ => false end.

Definition run_case (accept : bool) (conn : option phase) (scen : N) (split : bool) (childk : N) (cdata : bool)
  : list cmd :=
  let R := run phase sseg (spec_hs accept) spec_send spec_recv spec_shutdown conn N child_step in
  let s0 := init phase sseg N childk (childk =? 0)%N in
  let '(s1, t1) := R s0 (script scen split childk cdata (match conn with Some _ => true | None => false end)) in
  (* proxy/server.py: a connection closed by command is followed by its ConnectionClosed event *)
  if existsb is_close t1 && negb ((scen =? 1)%N && match conn with Some _ => true | None => false end)
  then t1 ++ snd (R s1 [EClosed sseg]) else t1.

Definition cmd_code (c : cmd) : list N :=
  match c with
  | COpen => [1] | CHook HStart => [2] | CHook HEstablished => [3] | CHook HFailed => [4]
  | CClose => [5] | COther _ => [6] | CCrash => [7]
  | _ => []
  end%N.
Definition cev_code (e : cev) : N :=
  match e with
  | CevStart => 1 | CevClient _ => 2 | CevOpenReply false => 3 | CevOpenReply true => 4
  | CevServerData _ => 5 | CevServerClosed => 6
  end%N.
Definition child_code (c : cmd) : list N :=
  match c with CChild e est => [2 * cev_code e + (if est then 1 else 0)]%N | _ => [] end.
Definition app_of (c : cmd) : bytes := match c with CSendApp p => p | _ => [] end.
Definition count (f : cmd -> bool) (l : list cmd) : N := N.of_nat (length (filter f l)).

Definition exn_code (r : exn + ts_conf) : N :=
  match r with inr _ => 0 | inl ValueError => 1 | inl UnicodeError => 2 | inl TypeError => 3 | inl SslError => 4 end%N.

(* the class of the OpenSSL verify error must name an aspect the specification also rejects
   (0 = not a verification failure or an unclassified code) *)
Definition class_ok (cls : N) (cf : ts_conf) (trust chain : list cert) (now : Z) : bool :=
  match cls, cf_target cf, chain with
  | 0%N, _, _ => true
  | 1%N, Some _, leaf :: extra => negb (chain_ok_notime trust extra now leaf)
  | 2%N, Some _, leaf :: extra =>
      negb (chain_ok trust extra now leaf) && existsb (fun c => negb (time_ok now c)) (chain ++ trust)
  | 3%N, Some t, leaf :: _ => negb (name_ok leaf t)
  | _, _, _ => false
  end.

Inductive case :=
| Hs (i : ts_in) (tc : trust_cfg) (chain : list cert) (now : Z)
     (scen : N) (split : bool) (childk : N) (cdata : bool)
     (obs_sni : bytes) (obs_exc : N) (obs_hello : bool) (obs_servername : option bytes)
     (obs_cmds obs_child : list N) (obs_app : bytes) (obs_errlogs obs_warnlogs : N) (obs_class : N)
| Ip (s : bytes) (packed : option bytes)
| Idna (s : bytes) (encoded : option bytes)
| Hostok (s : bytes) (accepted : bool).

Definition check_case (c : case) : bool :=
  match c with
  | Hs i tc chain now scen split childk cdata o_sni' o_exc o_hello o_name o_cmds o_child o_app o_el o_wl o_cls =>
      let o := tls_start_server i in
      let trust := loaded_trust tc in     (* create_proxy_server_context: the stores that are loaded *)
      let accept := match o_res o with inr cf => peer_acceptable cf trust chain now | inl _ => false end in
      let conn := match o_res o with inr _ => Some Fresh | inl _ => None end in
      let tr := run_case accept conn scen split childk cdata in
      let hello := match conn with Some _ => negb (scen =? 3)%N | None => false end in
      let hooked := negb (scen =? 3)%N in      (* the hook runs unless the TCP connect failed *)
      (negb hooked || bytes_eqb (o_sni o) o_sni')
      && ((if hooked then exn_code (o_res o) else 0) =? o_exc)%N
      && Bool.eqb hello o_hello
      && option_eqb bytes_eqb
           (if hello then match o_res o with inr cf => cf_sni_ext cf | inl _ => None end else None) o_name
      && list_eqb N.eqb (flat_map cmd_code tr) o_cmds
      && list_eqb N.eqb (flat_map child_code tr) o_child
      && bytes_eqb (flat_map app_of tr) o_app
      && (count (fun c => match c with CLogError => true | _ => false end) tr =? o_el)%N
      && (count (fun c => match c with CLogWarn => true | _ => false end) tr =? o_wl)%N
      && match o_res o with
         | inr cf => if hooked then class_ok o_cls cf trust chain now else (o_cls =? 0)%N
         | inl _ => (o_cls =? 0)%N
         end
  | Ip s r => option_eqb bytes_eqb (ip_address s) r
  | Idna s r => option_eqb bytes_eqb (idna_ascii s) r
  | Hostok s r => Bool.eqb (host_syntax_ok s) r
  end.
