(* Corr/C24.v -- correspondence glue for C24: the harness writes what the real layers did next to the inputs;
   check_case recomputes it with Model/UpstreamAuth.v and compares exactly. *)
From Coq Require Import List Bool NArith.
From MV Require Import Base.Bytes Model.UpstreamAuth.
Import ListNotations.
Open Scope N_scope.

Inductive oparse := OOk (v : bytes) | OOptions | OUnicode | OOther.

(* one request head as received by a peer: connection ordinal, TCP peer, peer is the upstream proxy, received inside
   the CONNECT tunnel, it is a CONNECT head, number of header fields (CONNECT heads only are compared on it),
   the Authorization / Proxy-Authorization fields in order *)
Inductive owrite := OW (ord : N) (hop : addr) (via tunnelled connect : bool) (nfields : N) (auth : list field).
(* one step: heads received during it, the client connection is still open afterwards, a layer raised *)
Inductive ostep :=
| OStep (ws : list owrite) (alive crashed : bool)
| OConf (impl_auth : option bytes).      (* UpstreamAuth.auth after a configure step *)

Inductive case :=
| Parse (auth : list N) (impl : oparse)
| Session (send_host eager fixed : bool) (evs : list wevent) (impl : list ostep).

Definition is_auth_field (f : field) : bool := name_eqb (fst f) PA || name_eqb (fst f) AZ.
Definition field_eqb (a b : field) : bool := bytes_eqb (fst a) (fst b) && bytes_eqb (snd a) (snd b).

Fixpoint all2 {A B} (f : A -> B -> bool) (a : list A) (b : list B) : bool :=
  match a, b with
  | [], [] => true
  | x :: r, y :: t => f x y && all2 f r t
  | _, _ => false
  end.

Definition write_eqb (c : N) (mw : N * write) (o : owrite) : bool :=
  let w := snd mw in
  match o with
  | OW ord hop via tun conn nf auth =>
      (fst mw =? c) && (w.(w_ord) =? ord) && addr_eqb w.(w_hop) hop && Bool.eqb w.(w_via) via
      && Bool.eqb w.(w_tunnelled) tun
      && Bool.eqb (match w.(w_kind) with WConnect => true | WRequest => false end) conn
      && (if conn then N.of_nat (length w.(w_fields)) =? nf else true)
      && list_eqb field_eqb (filter is_auth_field w.(w_fields)) auth
  end.

Definition ev_conn (e : wevent) : N :=
  match e with WOpen c _ => c | WEv c _ => c | WClose c => c | WConfigure _ => 0 end.

Definition alive_of (c : N) (ws : wstate) : bool :=
  match lookup c ws.(ws_conns) with Some st => st.(cs_alive) | None => false end.

Fixpoint check_steps (cfg : config) (ws : wstate) (es : list wevent) (os : list ostep) : bool :=
  match es, os with
  | [], [] => true
  | WConfigure opt :: er, OConf a :: orr =>
      let (ws1, w1) := wstep cfg ws (WConfigure opt) in
      option_eqb bytes_eqb ws1.(ws_auth) a && check_steps cfg ws1 er orr
  | WConfigure _ :: _, _ => false
  | e :: er, OStep ows alive crashed :: orr =>
      let (ws1, w1) := wstep cfg ws e in
      negb crashed
      && all2 (write_eqb (ev_conn e)) w1 ows
      && Bool.eqb (alive_of (ev_conn e) ws1) alive
      && check_steps cfg ws1 er orr
  | _, _ => false
  end.

Definition check_case (c : case) : bool :=
  match c with
  | Parse auth impl =>
      match parse_upstream_auth auth, impl with
      | POk v, OOk v' => bytes_eqb v v'
      | POptionsError, OOptions => true
      | PUnicodeError, OUnicode => true
      | _, _ => false
      end
  | Session send_host eager fixed evs impl =>
      let cfg := {| c_auth := None; c_send_host := send_host; c_eager := eager; c_fixed := fixed |} in
      check_steps cfg ws_init evs impl
  end.
