(* Corr/C54.v -- correspondence glue for C54.  A case is one history driven through the real
   StickyCookie addon: for every response event the parsed Set-Cookie entries (inputs), whether the hook
   returned normally and the complete ordered jar afterwards (observed); for every request event the
   inputs and the Cookie header after the hook (observed; None = the hook raised).  check_case replays the
   history on the model, threading the model jar, and compares every observation exactly. *)
From Coq Require Import List Bool NArith.
From MV Require Import Base.Bytes Model.StickyCookie.
Import ListNotations.

Inductive obs :=
| ORsp (host : str) (port : N) (cs : list cookie) (ok : bool) (jar_after : jar)
| ORq (host : str) (port : N) (path : str) (fmatch : bool) (orig : option str)
      (result : option (option str)).

(* DM / PM: the two predicates called directly (stickycookie.domain_match(a, b); the request path test on
   (request target, cookie path)) with the boolean the implementation returned *)
Inductive case :=
| Case (v : variant) (flt_on : bool) (evs : list obs)
| DM (v : variant) (a b : str) (impl : bool)
| PM (v : variant) (target cpath : str) (impl : bool)
(* EX: cookies.is_expired on an attribute set; expires = the outcome of the email.utils calls (computed by the
   harness with the same library calls), impl None = it raised *)
| EX (expires : option (option bool)) (max_age : option (option str)) (impl : option bool).

Definition dict_eqb : list (str * option str) -> list (str * option str) -> bool :=
  list_eqb (pair_eqb bytes_eqb ostr_eqb).
Definition jar_eqb : jar -> jar -> bool := list_eqb (pair_eqb key_eqb dict_eqb).

Fixpoint replay (v : variant) (flt_on : bool) (j : jar) (evs : list obs) : bool :=
  match evs with
  | [] => true
  | ORsp host port cs ok jar_after :: evs' =>
    let '(j', ok') := response v flt_on host port cs j in
    Bool.eqb ok ok' && jar_eqb j' jar_after && replay v flt_on j' evs'
  | ORq host port path fmatch orig result :: evs' =>
    option_eqb ostr_eqb (request v flt_on fmatch host port path orig j) result
    && replay v flt_on (step v flt_on j (Req host port path fmatch orig)) evs'
  end.

Definition check_case (c : case) : bool :=
  match c with
  | Case v flt_on evs => replay v flt_on [] evs
  | DM v a b impl => Bool.eqb (domain_match v a b) impl
  | PM v t cp impl => Bool.eqb (path_match v t cp) impl
  | EX e m impl => option_eqb Bool.eqb (is_expired e m) impl
  end.
