(* Corr/C37.v -- correspondence glue for C37: truncated flow files and files observed on disk
   after every FilteredFlowWriter.add. Observations of the real FlowReader next to the inputs;
   check_case recomputes them with Model/Tnet.v (same tables/handler sets as Corr/C36.v). *)
From Coq Require Import List Bool NArith ZArith.
From MV Require Import Base.Bytes Model.Tnet Gen.FlowReaderExcept Corr.C36 Model.SaveStream.
Import ListNotations.

Definition run (depth : nat) (ft : ftable) (fs : stable) (file : bytes) : list tv * final :=
  stream (flookup ft) outer_gen inner_gen (slookup fs) depth file.

Inductive case37 :=
(* the first k bytes of [file] delivered the first n of [values] and then ended with [fin] *)
| Trunc (depth : nat) (ft : ftable) (fs : stable) (file : bytes) (values : list tv)
        (offsets : list (nat * (nat * final)))
(* disk content seen after each add: [lens] = its length each time, [counts] = flows read from it *)
| AfterAdds (depth : nat) (ft : ftable) (fs : stable) (file : bytes) (values : list tv)
            (snapshots : list (nat * nat))
(* Save addon under option changes: paths are numbers, [bad] cannot be opened, [init] = files that
   exist beforehand; per event: did options.update raise, and the record ids in each of the files
   [0..npaths) as re-read from disk *)
| SaveOps (bad : list nat) (init : list (nat * list nat)) (npaths : nat)
          (steps : list (sev * (bool * list (list nat)))).

Definition openable_of (bad : list nat) (p : nat) : bool := negb (existsb (Nat.eqb p) bad).
Fixpoint fs_of (init : list (nat * list nat)) (p : nat) : list nat :=
  match init with [] => [] | (q, v) :: r => if Nat.eqb p q then v else fs_of r p end.
Fixpoint check_ops (openable : nat -> bool) (npaths : nat) (s : sstate)
         (steps : list (sev * (bool * list (list nat)))) : bool :=
  match steps with
  | [] => true
  | (e, (raised, files)) :: r =>
      let s' := step openable s e in
      Bool.eqb (snd s') raised && negb (crashed (fst s'))
      && list_eqb (list_eqb Nat.eqb) (map (fs (fst s')) (seq 0 npaths)) files
      && check_ops openable npaths (fst s') r
  end.

Definition check_case (c : case37) : bool :=
  match c with
  | Trunc depth ft fs file values offsets =>
      forallb (fun o =>
                 let r := run depth ft fs (firstn (fst o) file) in
                 list_eqb tv_eqb (fst r) (firstn (fst (snd o)) values) && final_eqb (snd r) (snd (snd o)))
              offsets
  | AfterAdds depth ft fs file values snapshots =>
      forallb (fun s =>
                 let r := run depth ft fs (firstn (fst s) file) in
                 list_eqb tv_eqb (fst r) (firstn (snd s) values) && final_eqb (snd r) Clean)
              snapshots
  | SaveOps bad init npaths steps => check_ops (openable_of bad) npaths (init_state (fs_of init)) steps
  end.
