(* Corr/C09.v -- correspondence glue for C09.  The real ConnectionHandler runs on a real asyncio
   loop; the harness records the interleaved log of external completions, task steps (which task
   the loop stepped, and whether CancelledError was thrown into it), and snapshots of
   handler.transports and the per-address semaphores at every quiescent point.  The model replays
   the same schedule: every item must be enabled, every snapshot must agree, and the event trace
   (hook calls, layer events, connect/read/write/close calls, coroutine exits) must be identical. *)
From Coq Require Import List Bool Arith.
From MV Require Import Base.Bytes Model.ConnHandler.
Import ListNotations.

Inductive sitem :=
| I (i : item)
| Snap (tr : list (nat * (bool * bool))) (sems : list (nat * (nat * nat))).

Record case := mkCase { k_script : list (list cmd); k_sched : list sitem; k_trace : list ev; k_main_done : bool }.

Definition hook_eqb (a b : hookname) : bool :=
  match a, b with
  | HClientConnected, HClientConnected | HClientDisconnected, HClientDisconnected
  | HServerConnect, HServerConnect | HServerConnected, HServerConnected
  | HServerConnectError, HServerConnectError | HServerDisconnected, HServerDisconnected
  | HLayer, HLayer => true
  | _, _ => false
  end.
Definition tid_eqb (a b : tid) : bool :=
  match a, b with
  | TMain, TMain => true
  | TConn x, TConn y | THook x, THook y => Nat.eqb x y
  | _, _ => false
  end.
Definition lev_eqb (a b : levent) : bool :=
  match a, b with
  | LStart, LStart => true
  | LData x, LData y | LClosed x, LClosed y | LHookDone x, LHookDone y => Nat.eqb x y
  | LOcc x e, LOcc y f => Nat.eqb x y && Bool.eqb e f
  | _, _ => false
  end.
Definition ev_eqb (a b : ev) : bool :=
  match a, b with
  | EHook h x, EHook g y => hook_eqb h g && Nat.eqb x y
  | ELayer e, ELayer f => lev_eqb e f
  | EConnect x, EConnect y | ERead x, ERead y | EWrite x, EWrite y | EEof x, EEof y | EClose x, EClose y => Nat.eqb x y
  | ECrash, ECrash => true
  | EDone t k, EDone u j => tid_eqb t u && Nat.eqb k j
  | _, _ => false
  end.

Fixpoint entries (l : list conn) (i : nat) : list (nat * (bool * bool)) :=
  match l with
  | [] => []
  | x :: l' =>
    let rest := entries l' (S i) in
    if c_entry x then (i, (match c_writer x with WNone => false | _ => true end,
                           match c_writer x with WClosed => true | _ => false end)) :: rest
    else rest
  end.

Definition tr_eqb (a b : nat * (bool * bool)) : bool :=
  Nat.eqb (fst a) (fst b) && Bool.eqb (fst (snd a)) (fst (snd b)) && Bool.eqb (snd (snd a)) (snd (snd b)).

Definition snap_ok (s : st) (tr : list (nat * (bool * bool))) (sems : list (nat * (nat * nat))) : bool :=
  list_eqb tr_eqb (entries (conns s) 0) tr &&
  forallb (fun x => Nat.eqb (semval s (fst x)) (fst (snd x)) && Nat.eqb (length (semq s (fst x))) (snd (snd x))) sems.

Fixpoint replay (s : st) (l : list sitem) : option st :=
  match l with
  | [] => Some s
  | I i :: l' => match step s i with Some s' => replay s' l' | None => None end
  | Snap tr sems :: l' => if snap_ok s tr sems then replay s l' else None
  end.

Definition main_done (s : st) : bool := match mainpc s with MDone _ => true | _ => false end.

Definition check_case (c : case) : bool :=
  match replay (init (k_script c)) (k_sched c) with
  | None => false
  | Some s => list_eqb ev_eqb (rev (trace s)) (k_trace c) && Bool.eqb (main_done s) (k_main_done c)
  end.
