(* Corr/C09.v -- correspondence glue for C09.  The real ConnectionHandler runs on a real asyncio
   loop; the harness records the interleaved log of external completions, task steps (which task
   the loop stepped, and whether CancelledError was thrown into it), and snapshots of
   handler.transports and the per-address semaphores at every quiescent point.  The model replays
   the same schedule: every item must be enabled, every snapshot must agree, and the event trace
   (hook calls, layer events, connect/read/write/close calls, coroutine exits) must be identical. *)
From Coq Require Import List Bool Arith NArith.
From MV Require Import Base.Bytes Model.ConnHandler.
Import ListNotations.

(* numerals as named constants and rows as plain constructors: generated case files elaborate faster *)
Definition n0 := 0. Definition n1 := 1. Definition n2 := 2. Definition n3 := 3. Definition n4 := 4.
Definition n5 := 5. Definition n6 := 6. Definition n7 := 7. Definition n8 := 8. Definition n9 := 9.
Inductive trow := TR (c : nat) (has_writer closed : bool).
Inductive srow := SR (a v waiters : nat).

Inductive sitem :=
| I (i : item)
| Snap (tr : list trow) (sems : list srow) (locked : bool) (lockw : nat)
| SnapSame.   (* the snapshot taken here equals the previous one *)

Record dcase := mkCase { k_script : list (list cmd); k_sched : list sitem; k_trace : list ev; k_main_done : bool }.

Definition hook_eqb (a b : hookname) : bool :=
  match a, b with
  | HClientConnected, HClientConnected | HClientDisconnected, HClientDisconnected
  | HServerConnect, HServerConnect | HServerConnected, HServerConnected
  | HServerConnectError, HServerConnectError | HServerDisconnected, HServerDisconnected
  | HLayer, HLayer => true
  | _, _ => false
  end.
Definition tid_eqb (a b : tid) : bool :=
  match a, b with
  | TMain, TMain => true
  | TConn x, TConn y | THook x, THook y => Nat.eqb x y
  | _, _ => false
  end.
Definition lev_eqb (a b : levent) : bool :=
  match a, b with
  | LStart, LStart => true
  | LData x, LData y | LClosed x, LClosed y | LHookDone x, LHookDone y => Nat.eqb x y
  | LOcc x e, LOcc y f => Nat.eqb x y && Bool.eqb e f
  | _, _ => false
  end.
Definition ev_eqb (a b : ev) : bool :=
  match a, b with
  | EHook h x, EHook g y => hook_eqb h g && Nat.eqb x y
  | ELayer e, ELayer f => lev_eqb e f
  | EConnect x, EConnect y | ERead x, ERead y | EWrite x, EWrite y | EEof x, EEof y | EClose x, EClose y => Nat.eqb x y
  | ECrash, ECrash => true
  | EDrainWait x, EDrainWait y => Nat.eqb x y
  | EDone t k, EDone u j => tid_eqb t u && Nat.eqb k j
  | _, _ => false
  end.

Fixpoint entries (l : list conn) (i : nat) : list trow :=
  match l with
  | [] => []
  | x :: l' =>
    let rest := entries l' (S i) in
    if c_entry x then TR i (match c_writer x with WNone => false | _ => true end)
                              (match c_writer x with WClosed => true | _ => false end) :: rest
    else rest
  end.

Definition tr_eqb (a b : trow) : bool :=
  match a, b with TR c w k, TR c' w' k' => Nat.eqb c c' && Bool.eqb w w' && Bool.eqb k k' end.

Definition snap_ok (s : st) (tr : list trow) (sems : list srow) (lk : bool) (lw : nat) : bool :=
  Bool.eqb (dlocked s) lk && Nat.eqb (length (dlockq s)) lw &&
  list_eqb tr_eqb (entries (conns s) 0) tr &&
  forallb (fun x => match x with SR a v w => Nat.eqb (semval s a) v && Nat.eqb (length (semq s a)) w end) sems.

Definition snapshot := (list trow * list srow * (bool * nat))%type.

Fixpoint replay (s : st) (last : snapshot) (l : list sitem) : option st :=
  match l with
  | [] => Some s
  | I i :: l' => match step s i with Some s' => replay s' last l' | None => None end
  | Snap tr sems lk lw :: l' => if snap_ok s tr sems lk lw then replay s (tr, sems, (lk, lw)) l' else None
  | SnapSame :: l' =>
    if snap_ok s (fst (fst last)) (snd (fst last)) (fst (snd last)) (snd (snd last)) then replay s last l' else None
  end.

Definition main_done (s : st) : bool := match mainpc s with MDone _ => true | _ => false end.

Definition check_dcase (c : dcase) : bool :=
  match replay (init (k_script c)) ([], [], (false, 0)) (k_sched c) with
  | None => false
  | Some s => list_eqb ev_eqb (rev (trace s)) (k_trace c) && Bool.eqb (main_done s) (k_main_done c)
  end.

(* ---------------------------------------------------------------- compact encoding of a case
   Generated case files carry each case as one byte list (elaborating constructor terms of this
   size is several times slower).  A number n < 255 is the byte n, larger numbers are 255 followed
   by two bytes (n = 256*hi + lo).  The token stream is: script (command lists, each closed by 0;
   END) sched (END) trace (END) main_done.  Any decoding failure makes check_case false. *)
Fixpoint toks (s : bytes) (stt acc : nat) : list nat :=
  match s with
  | [] => []
  | a :: s' =>
    let n := N.to_nat (bN a) in
    match stt with
    | 0 => if Nat.eqb n 255 then toks s' 1 0 else n :: toks s' 0 0
    | 1 => toks s' 2 (n * 256)
    | _ => (acc + n) :: toks s' 0 0
    end
  end.

Definition END := 63.
Definition opt_cons {A B} (x : A) (r : option (list A * B)) : option (list A * B) :=
  match r with Some (l, rest) => Some (x :: l, rest) | None => None end.
Definition nb (n : nat) : bool := negb (Nat.eqb n 0).

Fixpoint pcmds (f : nat) (l : list nat) : option (list cmd * list nat) :=
  match f with O => None | S f' =>
    match l with
    | 0 :: r => Some ([], r)
    | 1 :: a :: r => opt_cons (COpen (Some a)) (pcmds f' r)
    | 2 :: r => opt_cons (COpen None) (pcmds f' r)
    | 3 :: c :: r => opt_cons (CClose c) (pcmds f' r)
    | 4 :: c :: r => opt_cons (CHalf c) (pcmds f' r)
    | 5 :: c :: r => opt_cons (CSend c) (pcmds f' r)
    | 6 :: r => opt_cons CHook (pcmds f' r)
    | 7 :: r => opt_cons CLog (pcmds f' r)
    | _ => None
    end
  end.
Fixpoint pscript (f : nat) (l : list nat) : option (list (list cmd) * list nat) :=
  match f with O => None | S f' =>
    match l with
    | [] => None
    | x :: r => if Nat.eqb x END then Some ([], r)
                else match pcmds f' l with
                     | Some (ks, r') => opt_cons ks (pscript f' r')
                     | None => None
                     end
    end
  end.
Definition ptid (l : list nat) : option (tid * list nat) :=
  match l with
  | 0 :: r => Some (TMain, r)
  | 1 :: c :: r => Some (TConn c, r)
  | 2 :: k :: r => Some (THook k, r)
  | _ => None
  end.
Definition prres (n : nat) : rres := match n with 0 => RData | 1 => REof | _ => RErr end.
Fixpoint ptrows (n : nat) (l : list nat) : option (list trow * list nat) :=
  match n with O => Some ([], l) | S n' =>
    match l with c :: w :: k :: r => opt_cons (TR c (nb w) (nb k)) (ptrows n' r) | _ => None end end.
Fixpoint psrows (n : nat) (l : list nat) : option (list srow * list nat) :=
  match n with O => Some ([], l) | S n' =>
    match l with a :: v :: w :: r => opt_cons (SR a v w) (psrows n' r) | _ => None end end.
Fixpoint psched (f : nat) (l : list nat) : option (list sitem * list nat) :=
  match f with O => None | S f' =>
    match l with
    | 0 :: r => match ptid r with Some (t, k :: r') => opt_cons (I (AHook t (nb k))) (psched f' r') | _ => None end
    | 1 :: c :: x :: r => opt_cons (I (ARead c (prres x))) (psched f' r)
    | 2 :: c :: x :: r => opt_cons (I (AConn c (nb x))) (psched f' r)
    | 3 :: r => opt_cons (I ATimeout) (psched f' r)
    | 4 :: c :: r => opt_cons (I (ABreak c)) (psched f' r)
    | 5 :: r => match ptid r with Some (t, k :: r') => opt_cons (I (Run t (nb k))) (psched f' r') | _ => None end
    | 6 :: n :: r => match ptrows n r with
                     | Some (tr, m :: r') => match psrows m r' with
                                             | Some (sm, lk :: lw :: r'') => opt_cons (Snap tr sm (nb lk) lw) (psched f' r'')
                                             | _ => None end
                     | _ => None end
    | 7 :: r => opt_cons SnapSame (psched f' r)
    | 8 :: c :: r => opt_cons (I (ACongest c)) (psched f' r)
    | 9 :: c :: x :: r => opt_cons (I (ADrainDone c (nb x))) (psched f' r)
    | x :: r => if Nat.eqb x END then Some ([], r) else None
    | [] => None
    end
  end.
Definition phook (n : nat) : hookname :=
  match n with 0 => HClientConnected | 1 => HClientDisconnected | 2 => HServerConnect | 3 => HServerConnected
             | 4 => HServerConnectError | 5 => HServerDisconnected | _ => HLayer end.
Fixpoint ptrace (f : nat) (l : list nat) : option (list ev * list nat) :=
  match f with O => None | S f' =>
    match l with
    | 0 :: h :: c :: r => opt_cons (EHook (phook h) c) (ptrace f' r)
    | 1 :: r => opt_cons (ELayer LStart) (ptrace f' r)
    | 2 :: c :: r => opt_cons (ELayer (LData c)) (ptrace f' r)
    | 3 :: c :: r => opt_cons (ELayer (LClosed c)) (ptrace f' r)
    | 4 :: c :: e :: r => opt_cons (ELayer (LOcc c (nb e))) (ptrace f' r)
    | 5 :: k :: r => opt_cons (ELayer (LHookDone k)) (ptrace f' r)
    | 6 :: c :: r => opt_cons (EConnect c) (ptrace f' r)
    | 7 :: c :: r => opt_cons (ERead c) (ptrace f' r)
    | 8 :: c :: r => opt_cons (EWrite c) (ptrace f' r)
    | 9 :: c :: r => opt_cons (EEof c) (ptrace f' r)
    | 10 :: c :: r => opt_cons (EClose c) (ptrace f' r)
    | 11 :: r => opt_cons ECrash (ptrace f' r)
    | 12 :: r => match ptid r with Some (t, k :: r') => opt_cons (EDone t k) (ptrace f' r') | _ => None end
    | 13 :: d :: r => opt_cons (EDrainWait d) (ptrace f' r)
    | x :: r => if Nat.eqb x END then Some ([], r) else None
    | [] => None
    end
  end.

Definition decode (s : bytes) : option dcase :=
  let l := toks s 0 0 in
  let f := S (length l) in
  match pscript f l with
  | Some (sc, r1) =>
    match psched f r1 with
    | Some (sd, r2) =>
      match ptrace f r2 with
      | Some (tr, [d]) => Some (mkCase sc sd tr (nb d))
      | _ => None
      end
    | None => None
    end
  | None => None
  end.

Definition case := bytes.
Definition check_case (c : case) : bool :=
  match decode c with Some d => check_dcase d | None => false end.
