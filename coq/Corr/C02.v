(* Corr/C02.v -- correspondence cases for Model/Http1Seg.v.
   Conn: a real Http1Server / Http1Client object was driven with the listed events (data segments, peer close,
   HttpEvents passed to send); the message-level functions are given as the tables of what the real
   read_request_head / read_response_head + expected_http_body_size, _decode_header_lines and the mark_done decision
   returned during that run (requests and responses are numbered); observed: the commands / ReceiveHttp events per event.
   Buf: a real h11 ReceiveBuffer was driven with the listed operations; observed: every result and len(buf). *)
From Coq Require Import List Bool NArith ZArith.
From MV Require Import Base.Bytes Model.Http1Seg.
Import ListNotations.

Definition lines_eqb : list bytes -> list bytes -> bool := list_eqb bytes_eqb.

Fixpoint lookup_head (tbl : list (list bytes * head_result N)) (ls : list bytes) : head_result N :=
  match tbl with
  | [] => HeadCrashed
  | (k, v) :: t => if lines_eqb k ls then v else lookup_head t ls
  end.
Fixpoint lookup_chead (tbl : list (N * list bytes * head_result N)) (r : N) (ls : list bytes) : head_result N :=
  match tbl with
  | [] => HeadCrashed
  | (k, l, v) :: t => if N.eqb k r && lines_eqb l ls then v else lookup_chead t r ls
  end.
Fixpoint lookup_after (tbl : list (N * N * after_done)) (rq rs : N) : after_done :=
  match tbl with
  | [] => NextMessage
  | (a, b, v) :: t => if N.eqb a rq && N.eqb b rs then v else lookup_after t rq rs
  end.
Fixpoint lookup_trailer (tbl : list (list bytes * bool)) (ls : list bytes) : trailer_result :=
  match tbl with
  | [] => TrailerPresent
  | (k, v) :: t => if lines_eqb k ls then (if v then TrailerPresent else TrailerInvalid) else lookup_trailer t ls
  end.

Definition err_eqb (a b : err_kind) : bool :=
  match a, b with
  | ErrProtocol, ErrProtocol | ErrHead, ErrHead | ErrDisconnect, ErrDisconnect
  | ErrServerClosed, ErrServerClosed | ErrUnexpectedResponse, ErrUnexpectedResponse => true
  | _, _ => false
  end.
Definition crash_eqb (a b : crash_kind) : bool :=
  match a, b with
  | CrashTrailers, CrashTrailers | CrashAssert, CrashAssert | CrashOther, CrashOther => true
  | _, _ => false
  end.
Definition out_eqb (a b : out N N) : bool :=
  match a, b with
  | OReqHeaders s r e, OReqHeaders s' r' e' => N.eqb s s' && N.eqb r r' && Bool.eqb e e'
  | ORespHeaders s r e, ORespHeaders s' r' e' => N.eqb s s' && N.eqb r r' && Bool.eqb e e'
  | OData s d, OData s' d' => N.eqb s s' && bytes_eqb d d'
  | OEndOfMessage s, OEndOfMessage s' => N.eqb s s'
  | OProtocolError s k, OProtocolError s' k' => N.eqb s s' && err_eqb k k'
  | OSendError, OSendError | OSendHead, OSendHead | OSendData, OSendData | OSendLastChunk, OSendLastChunk
  | OHalfClose, OHalfClose | OClose, OClose | OLog, OLog => true
  | OCrash k, OCrash k' => crash_eqb k k'
  | _, _ => false
  end.

Inductive bufop := BAdd (d : bytes) | BAtMost (n : N) | BNextLine | BLines.
Inductive bufobs := RNothing | RBytes (d : bytes) | RLines (ls : list bytes).

Definition bufobs_eqb (a b : bufobs) : bool :=
  match a, b with
  | RNothing, RNothing => true
  | RBytes d, RBytes d' => bytes_eqb d d'
  | RLines l, RLines l' => lines_eqb l l'
  | _, _ => false
  end.

Fixpoint run_bufops (b : rbuf) (ops : list bufop) : list (bufobs * nat) :=
  match ops with
  | [] => []
  | op :: t =>
      let '(r, b') := match op with
                      | BAdd d => (RNothing, buf_add b d)
                      | BAtMost n => let (r, b') := maybe_extract_at_most b n in
                                     (match r with Some d => RBytes d | None => RNothing end, b')
                      | BNextLine => let (r, b') := maybe_extract_next_line b in
                                     (match r with Some d => RBytes d | None => RNothing end, b')
                      | BLines => let (r, b') := maybe_extract_lines b in
                                  (match r with Some l => RLines l | None => RNothing end, b')
                      end in
      (r, length (b_data b')) :: run_bufops b' t
  end.

Inductive case :=
| Conn (r : role)
       (heads : list (list bytes * head_result N))
       (cheads : list (N * list bytes * head_result N))
       (connects : list N)
       (afters : list (N * N * after_done))
       (trailers : list (list bytes * bool))
       (events : list (event N N))
       (impl : list (list (out N N)))
| Buf (ops : list bufop) (impl : list (bufobs * nat)).

Definition check_case (c : case) : bool :=
  match c with
  | Conn r heads cheads connects afters trailers events impl =>
      let '(os, _, _) := handle_all N N (lookup_head heads) (lookup_chead cheads)
                           (fun q => existsb (N.eqb q) connects) (fun _ => lookup_after afters)
                           (lookup_trailer trailers) true (init_conn N N r) empty_buf events in
      list_eqb (option_eqb (list_eqb out_eqb)) os (map Some impl)
  | Buf ops impl =>
      list_eqb (pair_eqb bufobs_eqb Nat.eqb) (run_bufops empty_buf ops) impl
  end.
