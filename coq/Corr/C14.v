(* Corr/C14.v -- correspondence glue for C14.  The record layer is instantiated by a replay of
   the calls the real SSL.Connection object answered (the model must make exactly the same
   calls, with the same arguments, in the same order); the child is a small policy layer that
   the harness implements identically in Python. *)
From Coq Require Import List Bool Arith NArith.
From MV Require Import Base.Bytes Model.TlsTunnel.
Import ListNotations.

Definition FUEL : nat := 400.

(* hex literal -> bytes (keeps the generated files small): "1603"%hex is parsed by the String
   Notation into the list of the ASCII bytes of its characters, hx decodes pairs of them *)
Inductive hexs := Hx (l : list Byte.byte).
Definition unHx (h : hexs) : list Byte.byte := match h with Hx l => l end.
Declare Scope hex_scope.
Delimit Scope hex_scope with hex.
String Notation hexs Hx unHx : hex_scope.
Definition hexval (b : byte) : N :=
  let n := bN b in
  if (48 <=? n)%N && (n <=? 57)%N then (n - 48)%N
  else if (97 <=? n)%N && (n <=? 102)%N then (n - 87)%N else 0%N.
Fixpoint hx_list (l : list byte) : bytes :=
  match l with
  | a :: b :: l' => Nb (hexval a * 16 + hexval b) :: hx_list l'
  | _ => []
  end.
Definition hx (h : hexs) : bytes := hx_list (unHx h).
Arguments hx _%hex.

(* ---- equality tests *)
Definition hook_eqb (a b : hook) : bool :=
  match a, b with
  | HClientHello, HClientHello => true
  | HTlsStart x, HTlsStart y | HTlsEstablished x, HTlsEstablished y | HTlsFailed x, HTlsFailed y => conn_eqb x y
  | _, _ => false
  end.
Definition event_eqb (a b : event) : bool :=
  match a, b with
  | EStart, EStart => true
  | EData c d, EData c' d' => conn_eqb c c' && bytes_eqb d d'
  | EClose c, EClose c' => conn_eqb c c'
  | EOpened c e, EOpened c' e' => conn_eqb c c' && Bool.eqb e e'
  | EOther t, EOther t' => N.eqb t t'
  | _, _ => false
  end.
Definition cmd_eqb (a b : cmd) : bool :=
  match a, b with
  | CSend c d, CSend c' d' => conn_eqb c c' && bytes_eqb d d'
  | CClose c h, CClose c' h' => conn_eqb c c' && Bool.eqb h h'
  | COpen c, COpen c' => conn_eqb c c'
  | CHook h, CHook h' => hook_eqb h h'
  | CLog, CLog => true
  | COther t, COther t' => N.eqb t t'
  | _, _ => false
  end.
Definition titem_eqb (a b : titem) : bool :=
  match a, b with
  | TCmd c, TCmd c' | TFromChild c, TFromChild c' => cmd_eqb c c'
  | TChild e, TChild e' => event_eqb e e'
  | _, _ => false
  end.
Definition crash_eqb (a b : crash) : bool :=
  match a, b with
  | NoTls, NoTls | AssertTls, AssertTls | SendRaise, SendRaise | RecvRaise, RecvRaise
  | ChildRaise, ChildRaise | OutOfFuel, OutOfFuel => true
  | _, _ => false
  end.
Definition no_ghost (tr : list titem) : list titem :=
  filter (fun t => match t with TDrop _ | TReplay _ => false | _ => true end) tr.

(* ---- the replayed record layer *)
Inductive call :=
| KBioWrite (d : bytes) | KRecv (r : recv_res) | KBioRead (r : option bytes)
| KSendall (d : bytes) (r : send_res) | KHandshake (r : hs_res).
Definition RS := option (list call).     (* None: the model made a call the implementation did not make *)

Definition r_bio_write (r : RS) (d : bytes) : RS :=
  match r with Some (KBioWrite d' :: t) => if bytes_eqb d d' then Some t else None | _ => None end.
Definition r_recv (r : RS) : RS * recv_res :=
  match r with Some (KRecv x :: t) => (Some t, x) | _ => (None, RRaise) end.
Definition r_bio_read (r : RS) : RS * option bytes :=
  match r with Some (KBioRead x :: t) => (Some t, x) | _ => (None, None) end.
Definition r_sendall (r : RS) (d : bytes) : RS * send_res :=
  match r with Some (KSendall d' x :: t) => if bytes_eqb d d' then (Some t, x) else (None, SRaise) | _ => (None, SRaise) end.
Definition r_do_handshake (r : RS) : RS * hs_res :=
  match r with Some (KHandshake x :: t) => (Some t, x) | _ => (None, HsError) end.
Definition consumed (r : RS) : bool := match r with Some [] => true | _ => false end.

Definition hello_of (tbl : list (N * hello_res)) (b : bytes) : hello_res :=
  match find (fun p => N.eqb (fst p) (N.of_nat (length b))) tbl with
  | Some p => snd p
  | None => HelloIncomplete
  end.

(* ---- the policy child *)
Inductive dmode := DIgnore | DEcho | DRelay.
Record pol := mkPol {
  p_start : list cmd; p_data_c : dmode; p_data_s : dmode;
  p_close_c : list cmd; p_close_s : list cmd; p_opened : list cmd; p_other : list (N * list cmd) }.
Definition other_conn (c : conn) : conn := match c with Client => Server | Server => Client end.
Definition pol_cmds (p : pol) (e : event) : list cmd :=
  match e with
  | EStart => p_start p
  | EData c d =>
    match (match c with Client => p_data_c p | Server => p_data_s p end) with
    | DIgnore => [] | DEcho => [CSend c d] | DRelay => [CSend (other_conn c) d]
    end
  | EClose c => match c with Client => p_close_c p | Server => p_close_s p end
  | EOpened _ _ => p_opened p
  | EOther t => match find (fun x => N.eqb (fst x) t) (p_other p) with Some x => snd x | None => [] end
  end.
Definition pol_child (p : pol) (log : list event) (e : event) : list event * list cmd * bool :=
  (log ++ [e], pol_cmds p e, false).

Definition LS (CS : Type) := @st RS CS.
Definition layer_step {CS} (hello : list (N * hello_res)) (child : CS -> event -> CS * list cmd * bool) (cf : cfg) :=
  step RS r_bio_write r_recv r_bio_read r_sendall r_do_handshake (hello_of hello) CS child cf.
Definition layer_run {CS} (hello : list (N * hello_res)) (child : CS -> event -> CS * list cmd * bool) (cf : cfg) :=
  run RS r_bio_write r_recv r_bio_read r_sendall r_do_handshake (hello_of hello) CS child cf.

(* a TLS layer used as the child of another one *)
Definition layer_as_child {CS} (hello : list (N * hello_res)) (child : CS -> event -> CS * list cmd * bool) (cf : cfg)
  (s : LS CS) (e : event) : LS CS * list cmd * bool :=
  let '(s', tr) := layer_step hello child cf s e in
  (s', cmds_of tr, match crashed s' with Some _ => true | None => false end).

Inductive case :=
| CBad
| CSingle (cf : cfg) (script : list call) (hello : list (N * hello_res)) (replies : list bool) (p : pol)
          (evs : list event) (tr : list titem) (clog : list event) (final : tstate) (crash : option crash)
| CStack (cfs cfc : cfg) (script_s script_c : list call) (hello : list (N * hello_res)) (replies : list bool)
         (p : pol) (evs : list event) (tr : list titem) (clog : list event) (final_s final_c : tstate)
         (crash_s crash_c : option crash).

Definition check_case (c : case) : bool :=
  match c with
  | CBad => false
  | CSingle cf script hello replies p evs tr clog final cr =>
    let '(s, tr') := layer_run hello (pol_child p) cf (init (Some script) replies []) evs in
    list_eqb titem_eqb (no_ghost tr') tr
    && list_eqb event_eqb (cstate s) clog
    && tstate_eqb (tunnel_state s) final
    && option_eqb crash_eqb (crashed s) cr
    && consumed (tls s)
  | CStack cfs cfc ss sc hello replies p evs tr clog fs fc crs crc =>
    let inner0 : LS (list event) := init (Some sc) [] [] in
    let '(s, tr') := layer_run hello (layer_as_child hello (pol_child p) cfc) cfs (init (Some ss) replies inner0) evs in
    let i := cstate s in
    list_eqb titem_eqb (no_ghost tr') tr
    && tstate_eqb (tunnel_state s) fs && option_eqb crash_eqb (crashed s) crs && consumed (tls s)
    && (* Python hands the commands of the child to the parent one by one, the model all at once:
          after an exception raised by the parent itself the state of the child is not comparable *)
       (match crashed s with
        | Some ChildRaise | None =>
          list_eqb event_eqb (cstate i) clog && tstate_eqb (tunnel_state i) fc
          && option_eqb crash_eqb (crashed i) crc && consumed (tls i)
        | Some _ => true
        end)
  end.

(* ---- diagnostics for a disagreeing case (not used by check_case): index of the first differing
   trace item, length of the model trace, and the individual comparisons *)
Fixpoint first_diff {A} (eqb : A -> A -> bool) (a b : list A) (i : nat) : option nat :=
  match a, b with
  | [], [] => None
  | x :: a', y :: b' => if eqb x y then first_diff eqb a' b' (S i) else Some i
  | _, _ => Some i
  end.
Definition diag (c : case) :=
  match c with
  | CBad => (None, 0, [], None)
  | CSingle cf script hello replies p evs tr clog final cr =>
    let '(s, tr') := layer_run hello (pol_child p) cf (init (Some script) replies []) evs in
    (first_diff titem_eqb (no_ghost tr') tr 0, List.length (no_ghost tr'),
     [list_eqb event_eqb (cstate s) clog; tstate_eqb (tunnel_state s) final;
      option_eqb crash_eqb (crashed s) cr; consumed (tls s)], crashed s)
  | CStack cfs cfc ss sc hello replies p evs tr clog fs fc crs crc =>
    let inner0 : LS (list event) := init (Some sc) [] [] in
    let '(s, tr') := layer_run hello (layer_as_child hello (pol_child p) cfc) cfs (init (Some ss) replies inner0) evs in
    let i := cstate s in
    (first_diff titem_eqb (no_ghost tr') tr 0, List.length (no_ghost tr'),
     [list_eqb event_eqb (cstate i) clog; tstate_eqb (tunnel_state s) fs; tstate_eqb (tunnel_state i) fc;
      option_eqb crash_eqb (crashed s) crs; option_eqb crash_eqb (crashed i) crc; consumed (tls s); consumed (tls i)],
     crashed s)
  end.
