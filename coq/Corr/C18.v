(* Corr/C18.v — correspondence glue for C18: inputs next to the outputs observed on the real
   alpn_select_callback / tls_start_client / tls_start_server; check_case recomputes them with
   the translated function (Gen/AlpnSelect.v) and the hand model (Model/Alpn.v). *)
From Coq Require Import List Bool NArith.
From MV Require Import Base.Bytes Model.AlpnPrelude Gen.AlpnSelect Gen.ClientTlsReset Model.Alpn.
Import ListNotations.

(* protocol classes of the exhaustive sweep; the printer in harness/props/C18.py uses the same table *)
Definition tok (n : N) : bytes :=
  match n with
  | 0%N => [x68;x32]                               (* h2 *)
  | 1%N => [x68;x33]                               (* h3 *)
  | 2%N => [x68;x74;x74;x70;x2f;x31;x2e;x31]       (* http/1.1 *)
  | 3%N => [x68;x74;x74;x70;x2f;x31;x2e;x30]       (* http/1.0 *)
  | 4%N => [x68;x74;x74;x70;x2f;x30;x2e;x39]       (* http/0.9 *)
  | _ => [x68;x32;x63]                             (* unknown class: h2c *)
  end.

(* what was observed: a value the model can produce, or anything else (exception, other type) *)
Inductive oresult := R (r : result) | Weird.

Definition oresult_eqb (a b : oresult) : bool :=
  match a, b with R x, R y => result_eqb x y | Weird, Weird => true | _, _ => false end.

(* server_alpn code: 0 None, 1 empty string, 2+k class k.  client_alpn code: 0 None, 1+k class k.
   result code: 0 NO_OVERLAPPING_PROTOCOLS, 1+k class k, 7 Python None, 8+ anything else *)
Definition dec_server (n : N) : option bytes :=
  match n with 0%N => None | 1%N => Some [] | _ => Some (tok (n - 2)) end.
Definition dec_client (n : N) : option bytes :=
  match n with 0%N => None | _ => Some (tok (n - 1)) end.
Definition dec_res (n : N) : oresult :=
  match n with
  | 0%N => R NO_OVERLAPPING_PROTOCOLS
  | 7%N => R RetNone
  | _ => if (n <=? 6)%N then R (Sel (tok (n - 1))) else Weird
  end.

(* one row of the exhaustive sweep: all 8 x 7 (server_alpn, client_alpn) codes, server-major *)
Definition combos : list (N * N) :=
  flat_map (fun s => map (fun c => (s, c)) [0; 1; 2; 3; 4; 5; 6]%N) [0; 1; 2; 3; 4; 5; 6; 7]%N.

Inductive case :=
| KR (offers : list N) (h2 : bool) (res : list N)
| K (offers : list N) (server client : N) (h2 : bool) (res : N)
| G (offers : list bytes) (server client : option bytes) (h2 : bool) (res : oresult)
| U (server_offers : option (list bytes)) (client_offers : list bytes) (h2 : bool) (observed : list bytes)
| H (fixed : bool) (layers : list layer_kind) (client_attr server_attr : option bytes) (h2 : bool)
    (offers : list bytes)
    (obs_client_alpn obs_server_alpn : option bytes) (obs_http2 : bool) (obs_negotiated : option bytes)
(* real ClientTLSLayer.__init__ on a client with the given TLS state *)
| Init (tls : bool) (alpn : option bytes) (alpn_offers : list bytes)
    (obs_tls : bool) (obs_alpn : option bytes) (obs_offers : list bytes)
(* nested client TLS through the real layers: outer handshake on outer_layers (fresh client), then the inner
   ClientTLSLayer is constructed and the inner handshake runs on inner_layers with server.alpn = sa *)
| Nest (fixed : bool) (outer_layers : list layer_kind) (outer_offers : list bytes) (h2 : bool)
    (inner_layers : list layer_kind) (sa : option bytes) (inner_offers : list bytes)
    (obs_outer_neg : option bytes) (obs_alpn_after_init : option bytes) (obs_offers_after_init : list bytes)
    (obs_inner_client_alpn : option bytes) (obs_inner_neg : option bytes).

Definition check_case (c : case) : bool :=
  match c with
  | KR offers h res =>
      list_eqb oresult_eqb
        (map (fun sc => R (alpn_select_callback
                             {| client_alpn := dec_client (snd sc); server_alpn := dec_server (fst sc); http2 := h |}
                             (map tok offers))) combos)
        (map dec_res res)
  | K offers s cl h res =>
      oresult_eqb
        (R (alpn_select_callback {| client_alpn := dec_client cl; server_alpn := dec_server s; http2 := h |}
              (map tok offers)))
        (dec_res res)
  | G offers s cl h res =>
      oresult_eqb (R (alpn_select_callback {| client_alpn := cl; server_alpn := s; http2 := h |} offers)) res
  | U so co h obs => list_eqb bytes_eqb (tls_start_server_offers so co h) obs
  | Init t a o ot oa oo =>
      let st := client_tls_layer_init {| c_tls := t; c_alpn := a; c_alpn_offers := o |} in
      Bool.eqb (c_tls st) ot && option_eqb bytes_eqb (c_alpn st) oa && list_eqb bytes_eqb (c_alpn_offers st) oo
  | Nest fixed lo oo h li sa io o_neg o_alpn o_offers o_ca o_ineg =>
      let ad_o := tls_start_client_app_data fixed lo None None h in
      let neg_o := negotiated_with_client ad_o oo in
      (* ClientTLSLayer records conn.alpn = negotiated protocol (empty when none), alpn_offers = the ClientHello offers *)
      let st := client_tls_layer_init {| c_tls := true; c_alpn := neg_o; c_alpn_offers := oo |} in
      let ad_i := tls_start_client_app_data fixed li (c_alpn st) sa h in
      option_eqb bytes_eqb neg_o o_neg
      && option_eqb bytes_eqb (c_alpn st) o_alpn
      && list_eqb bytes_eqb (c_alpn_offers st) o_offers
      && option_eqb bytes_eqb (client_alpn ad_i) o_ca
      && option_eqb bytes_eqb (negotiated_with_client ad_i io) o_ineg
  | H fixed layers ca sa h offers oc os oh oneg =>
      let ad := tls_start_client_app_data fixed layers ca sa h in
      option_eqb bytes_eqb (client_alpn ad) oc
      && option_eqb bytes_eqb (server_alpn ad) os
      && Bool.eqb (http2 ad) oh
      && option_eqb bytes_eqb (negotiated_with_client ad offers) oneg
  end.
