(* Corr/C01.v -- correspondence glue for C01.  Each case carries inputs and the outputs observed on the real code
   (read.py / validate.py / assemble.py / Http1Client.send / Http1Server.send), or the output of the harness's
   Python port of the reference parser; check_case recomputes them with the models. *)
From Coq Require Import List Bool NArith ZArith.
From MV Require Import Base.Bytes Model.Http1Msg Model.BodySizePrelude Gen.BodySize Model.Http1Conn Model.Rfc9112 Model.Http1Edit.
Import ListNotations.

Definition hdr_eqb (a b : header) : bool := bytes_eqb (fst a) (fst b) && bytes_eqb (snd a) (snd b).
Definition hdrs_eqb : headers -> headers -> bool := list_eqb hdr_eqb.
Definition optZ_eqb : option Z -> option Z -> bool := option_eqb Z.eqb.

(* url module results observed for this case: the (single) argument of parse_authority with its result, and the
   result of url.parse; a call with another argument makes the model fail differently from the implementation *)
Definition table_url (pa_arg : option bytes) (pa_res : option (bytes * option N)) (up_ok : bool) : url_lib :=
  mkUrl (fun a => match pa_arg with
                  | Some a' => if bytes_eqb a a' then pa_res else Some ([x3f], Some 1%N)
                  | None => Some ([x3f], Some 1%N)
                  end)
        (fun _ => up_ok).

(* observed outcome of read_headers + check_invalid: 0 BadHead, 1 BadSize, 2 Accepted, 3 Crashed *)
Inductive req_obs :=
| RO (kind : N) (method scheme authority path version : bytes) (port : N) (hs : headers)
     (size : option Z) (valid : bool).
Inductive resp_obs :=
| PO (kind : N) (version : bytes) (status : Z) (reason : bytes) (hs : headers) (size : option Z) (valid : bool).

Inductive rres (A : Type) := ROk (a : A) | RValueError | ROther.
Arguments ROk {A} a. Arguments RValueError {A}. Arguments ROther {A}.
Definition rres_eqb {A} (eqb : A -> A -> bool) (m : res A) (i : rres A) : bool :=
  match m, i with
  | Ok a, ROk b => eqb a b
  | ValueError, RValueError => true
  | OtherError, ROther => true
  | _, _ => false
  end.

Definition cmd_eqb (a b : cmd) : bool :=
  match a, b with
  | Send x, Send y => bytes_eqb x y
  | HalfClose, HalfClose => true
  | _, _ => false
  end.

(* results of the Python port of the reference parser *)
Inductive ref_out (A : Type) := FOk (a : A) | FIncomplete | FInvalid.
Arguments FOk {A} a. Arguments FIncomplete {A}. Arguments FInvalid {A}.
Definition pres_eqb {A} (eqb : A -> A -> bool) (m : pres A) (i : ref_out A) : bool :=
  match m, i with
  | POk a, FOk b => eqb a b
  | PErr Incomplete, FIncomplete => true
  | PErr Invalid, FInvalid => true
  | _, _ => false
  end.
Definition fields_eqb : list field -> list field -> bool := list_eqb hdr_eqb.
Definition refreq_eqb (a b : ref_request) : bool :=
  bytes_eqb (q_method a) (q_method b) && bytes_eqb (q_target a) (q_target b) && bytes_eqb (q_version a) (q_version b)
  && fields_eqb (q_fields a) (q_fields b) && bytes_eqb (q_body a) (q_body b) && fields_eqb (q_trailers a) (q_trailers b).
Definition refresp_eqb (a b : ref_response) : bool :=
  bytes_eqb (p_version a) (p_version b) && N.eqb (p_status a) (p_status b) && bytes_eqb (p_reason a) (p_reason b)
  && fields_eqb (p_fields a) (p_fields b) && bytes_eqb (p_body a) (p_body b) && fields_eqb (p_trailers a) (p_trailers b)
  && Bool.eqb (p_until_close a) (p_until_close b).

Inductive case :=
| ReqHead (lines : list bytes) (pa_arg : option bytes) (pa_res : option (bytes * option N)) (up_ok : bool) (impl : req_obs)
| RespHead (req_method : bytes) (lines : list bytes) (impl : resp_obs)
| Te (is_str : bool) (value : bytes) (impl : rres bytes)
| Cl (is_str : bool) (value : bytes) (impl : rres Z)
| FwdReq (r : request_head) (chunks : list bytes) (impl : rres (list cmd))
| FwdResp (q : request_head) (r : response_head) (chunks : list bytes) (impl : list cmd)
| AsmBody (hs : headers) (chunks : list bytes) (trailers : bytes) (impl : rres bytes)
| SetContent (hs : headers) (value : bytes) (enc : option bytes) (impl_hs : headers) (impl_raw : bytes)
| RefReqs (o : ref_opts) (s : bytes) (impl : ref_out (list ref_request))
| RefResps (o : ref_opts) (methods : list bytes) (s : bytes) (impl : ref_out (list ref_response)).

Definition check_req (r : head_result request_head) (o : req_obs) : bool :=
  let '(RO kind m sc au pa ve po hs size valid) := o in
  let same_head (h : request_head) :=
    bytes_eqb (rq_method h) m && bytes_eqb (rq_scheme h) sc && bytes_eqb (rq_authority h) au
    && bytes_eqb (rq_path h) pa && bytes_eqb (rq_version h) ve && N.eqb (rq_port h) po && hdrs_eqb (rq_headers h) hs in
  match r with
  | BadHead => N.eqb kind 0
  | BadSize h => N.eqb kind 1 && same_head h
  | Accepted h sz => N.eqb kind 2 && same_head h && optZ_eqb sz size && Bool.eqb (validate_request false h true) valid
  | Crashed => N.eqb kind 3
  end.

Definition check_resp (r : head_result response_head) (o : resp_obs) : bool :=
  let '(PO kind ve st re hs size valid) := o in
  let same_head (h : response_head) :=
    bytes_eqb (rs_version h) ve && Z.eqb (rs_status h) st && bytes_eqb (rs_reason h) re && hdrs_eqb (rs_headers h) hs in
  match r with
  | BadHead => N.eqb kind 0
  | BadSize h => N.eqb kind 1 && same_head h
  | Accepted h sz => N.eqb kind 2 && same_head h && optZ_eqb sz size && Bool.eqb (validate_response h true) valid
  | Crashed => N.eqb kind 3
  end.

Definition dummy_req (m : bytes) : request_head := mkReq [] 0 m [] [] [x2f] HTTP11 [].

Definition check_case (c : case) : bool :=
  match c with
  | ReqHead lines pa_arg pa_res up_ok impl => check_req (server_read_headers (table_url pa_arg pa_res up_ok) lines) impl
  | RespHead m lines impl => check_resp (client_read_headers (dummy_req m) lines) impl
  | Te is_str v impl => rres_eqb bytes_eqb (parse_transfer_encoding is_str v) impl
  | Cl is_str v impl => rres_eqb Z.eqb (parse_content_length is_str v) impl
  | FwdReq r chunks impl => rres_eqb (list_eqb cmd_eqb) (forward_request r chunks) impl
  | FwdResp q r chunks impl => list_eqb cmd_eqb (forward_response q r chunks) impl
  | AsmBody hs chunks tr impl => rres_eqb bytes_eqb (assemble_body hs chunks tr) impl
  | SetContent hs value enc ihs iraw =>
      let (mhs, mraw) := set_content enc hs value in hdrs_eqb mhs ihs && bytes_eqb mraw iraw
  | RefReqs o s impl => pres_eqb (list_eqb refreq_eqb) (parse_requests o (S (length s)) s) impl
  | RefResps o ms s impl => pres_eqb (list_eqb refresp_eqb) (parse_responses o ms s) impl
  end.
