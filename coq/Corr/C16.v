(* Corr/C16.v -- correspondence glue for C16.  The harness writes the inputs of TlsConfig.get_cert,
   the fields of the REAL certificate handed to the client connection (parsed back with cryptography)
   and the verdicts of real verifiers (OpenSSL strict, Python ssl) for several reference identities
   and times; check_case recomputes all of it with the model (LeafCert.issue, LeafCertSpec.x509_ok). *)
From Coq Require Import List Bool NArith ZArith.
From MV Require Import Base.Bytes Model.LeafCert Model.LeafCertSpec Gen.LeafCertConst.
From MV Require Model.LeafCertCtx.
Import ListNotations.

(* the idna codec on the non-ASCII strings of this case, as computed by CPython *)
Definition idna_tab := list (bytes * option bytes).
Fixpoint tab_lookup (t : idna_tab) (s : bytes) : option bytes :=
  match t with
  | [] => None
  | (k, v) :: r => if bytes_eqb k s then v else tab_lookup r s
  end.

Inductive outcome := OErr (e : err) | OCert (c : cert) (extra_extensions : list bytes) | OOther.

(* one verification of the served certificate by a real verifier *)
Record verdict := mkV { v_check_subject : bool; v_time_off : Z; v_target : target; v_ok : bool }.

Inductive case :=
| Issue (tab : idna_tab) (issuer : ca) (serial : N) (now tz : Z) (r : req) (out : outcome) (vs : list verdict)
| Pair (tab : idna_tab) (issuer : ca) (serial : N) (now tz : Z) (r1 r2 : req) (out1 out2 : outcome) (same : bool)
| Ip (s : bytes) (impl : option (bytes * option bytes * bytes))       (* packed, scope id, str(ip) *)
| Idna (s : bytes) (impl : option bytes)                              (* ASCII str.encode(idna) *)
| Ctx (ops : list LeafCertCtx.op) (shown : list (N * bool)).          (* per handshake: CA that issued the leaf,
                                                                          its chain presented along *)

Definition err_eqb (a b : err) : bool :=
  match a, b with EIdna, EIdna => true | EValue, EValue => true | _, _ => false end.

Definition cert_eqb (a b : cert) : bool :=
  (c_issuer a =? c_issuer b)%N && (c_signer a =? c_signer b)%N && (c_pubkey a =? c_pubkey b)%N
  && option_eqb bytes_eqb (c_cn a) (c_cn b) && option_eqb bytes_eqb (c_org a) (c_org b)
  && list_eqb gname_eqb (c_sans a) (c_sans b) && Bool.eqb (c_san_critical a) (c_san_critical b)
  && list_eqb N.eqb (c_eku a) (c_eku b)
  && (c_nb a =? c_nb b)%Z && (c_na a =? c_na b)%Z
  && bytes_eqb (c_aki a) (c_aki b) && option_eqb bytes_eqb (c_crl a) (c_crl b).

Definition outcome_matches (m : res cert) (o : outcome) : bool :=
  match m, o with
  | Ok c, OCert c' extra => cert_eqb c c' && is_nil extra
  | Err e, OErr e' => err_eqb e e'
  | _, _ => false
  end.

Definition verdict_ok (issuer : ca) (now : Z) (c : cert) (v : verdict) : bool :=
  Bool.eqb (x509_ok (v_check_subject v) issuer c (now + v_time_off v)%Z (v_target v)) (v_ok v).

Definition model_issue_on (tab : idna_tab) :=
  issue_on (tab_lookup tab) VALIDITY_OFFSET CERT_EXPIRY CN_GUARDED SAN_CRIT_BY_SUBJECT.

Definition check_case (c : case) : bool :=
  match c with
  | Issue tab issuer serial now tz r out vs =>
      let m := issue (tab_lookup tab) VALIDITY_OFFSET CERT_EXPIRY CN_GUARDED SAN_CRIT_BY_SUBJECT issuer serial (now + tz)%Z r in
      outcome_matches m out
      && match m with
         | Ok c => forallb (verdict_ok issuer now c) vs
         | Err _ => is_nil vs
         end
  | Pair tab issuer serial now tz r1 r2 out1 out2 same =>
      match model_issue_on tab issuer serial (now + tz)%Z [] r1 with
      | Ok (st, c1) =>
          outcome_matches (Ok c1) out1
          && match model_issue_on tab issuer serial (now + tz)%Z st r2 with
             | Ok (st2, c2) => outcome_matches (Ok c2) out2
                               && Bool.eqb same (Nat.eqb (length st2) (length st))
             | Err e => outcome_matches (Err e) out2 && negb same
             end
      | Err e => outcome_matches (Err e) out1
      end
  | Ip s impl =>
      match ip_address s, impl with
      | Some a, Some (p, sc, txt) =>
          bytes_eqb (packed a) p
          && option_eqb bytes_eqb (match a with V6 _ x => x | V4 _ => None end) sc
          && bytes_eqb (ip_str a) txt
      | None, None => true
      | _, _ => false
      end
  | Idna s impl => option_eqb bytes_eqb (idna_ascii s) impl
  | Ctx ops shown =>
      list_eqb (fun a b => (fst a =? fst b)%N && Bool.eqb (snd a) (snd b))
               (map (fun x => (LeafCertCtx.leaf_ca x, LeafCertCtx.complete x))
                    (LeafCertCtx.run DH_SHARED LeafCertCtx.init ops))
               shown
  end.
