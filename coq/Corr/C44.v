(* Corr/C44.v -- correspondence glue for C44: a case is a history of calls on one OptManager with concrete
   listeners (given by rules), together with what the real object showed after every call (result / exception
   class, every option with its unset flag and current value, the deferred dict, the notifications delivered
   during the call with the values each listener saw).  check_case replays the history on Model/OptManager.v. *)
From Coq Require Import List Bool NArith ZArith.
From MV Require Import Base.Bytes Model.OptManager.
Import ListNotations.

(* concrete listener behaviours: a listener rejects (raises OptionsError) iff one of its Rej rules fires;
   otherwise the first NestIf rule that fires makes it call self.update(kw) (exceptions propagate); else it returns *)
Inductive rule :=
| RejValue (n : name) (v : val)    (* option n exists and its current value == v *)
| RejUpdated (n : name)            (* n is in the updated set *)
| RejCall (k : N)                  (* this is the k-th call of this listener (from 0) *)
| NestIf (x : name) (v : val) (kw : list (name * val)).  (* x is in the updated set and its current value == v *)

Fixpoint count_calls (l : N) (lg : list event) : N :=
  match lg with
  | [] => 0
  | Notified l' _ _ _ :: t => (if N.eqb l l' then 1 else 0) + count_calls l t
  | Errored :: t => count_calls l t
  end%N.

Definition fires (l : N) (s : state) (updated : list name) (r : rule) : bool :=
  match r with
  | RejValue n v => match dget n (options s) with Some o => py_eq (current o) v | None => false end
  | RejUpdated n => nmem n updated
  | RejCall k => N.eqb (count_calls l (log s)) k
  | NestIf _ _ _ => false
  end.

Fixpoint first_nest (s : state) (updated : list name) (rules : list rule) : reaction :=
  match rules with
  | [] => Accept
  | NestIf x v kw :: t =>
      if nmem x updated && match dget x (options s) with Some o => py_eq (current o) v | None => false end
      then Nested kw else first_nest s updated t
  | _ :: t => first_nest s updated t
  end.

Definition interp (specs : list (N * list rule)) (l : N) (s : state) (updated : list name) : reaction :=
  match dget l specs with
  | Some rules => if existsb (fires l s updated) rules then Reject else first_nest s updated rules
  | None => Accept
  end.

Definition FUEL : nat := 20.   (* nesting depth bound of the replay; generated listeners nest at most 6 deep *)

Inductive obs :=
| Obs (r : result) (opts : list (name * (bool * val))) (defd : list (name * dval)) (evs : list event).

Inductive case := Hist (vt vu : bool) (specs : list (N * list rule)) (steps : list (op * obs)).

(* exact (structural) comparison of observables *)
Definition val_eqb (a b : val) : bool :=
  match a, b with
  | VNone, VNone => true
  | VBool x, VBool y => Bool.eqb x y
  | VInt x, VInt y => Z.eqb x y
  | VStr x, VStr y => bytes_eqb x y
  | VSeq t1 l1, VSeq t2 l2 => Bool.eqb t1 t2 && list_eqb item_eqb l1 l2
  | VOther x, VOther y => N.eqb x y
  | _, _ => false
  end.
Definition err_eqb (a b : err) : bool :=
  match a, b with
  | ETypeError, ETypeError | EOptionsError, EOptionsError | EKeyError, EKeyError
  | ENotImplemented, ENotImplemented | EFuel, EFuel => true
  | _, _ => false
  end.
Definition nv_eqb := pair_eqb N.eqb val_eqb.
Definition result_eqb (a b : result) : bool :=
  match a, b with
  | ROk, ROk => true
  | RUnknown x, RUnknown y => list_eqb nv_eqb x y
  | RErr x, RErr y => err_eqb x y
  | _, _ => false
  end.
Definition event_eqb (a b : event) : bool :=
  match a, b with
  | Notified l1 s1 u1 k1, Notified l2 s2 u2 k2 =>
      N.eqb l1 l2 && list_eqb nv_eqb s1 s2 && list_eqb N.eqb u1 u2
      && match k1, k2 with KAccept, KAccept | KReject, KReject | KNested, KNested => true | _, _ => false end
  | Errored, Errored => true
  | _, _ => false
  end.
Definition dval_eqb (a b : dval) : bool :=
  match a, b with
  | DVal x, DVal y => val_eqb x y
  | DStrings x, DStrings y => list_eqb bytes_eqb x y
  | _, _ => false
  end.

Definition opt_view (o : opt) : bool * val :=
  (match ovalue o with None => true | Some _ => false end, current o).

Definition obs_ok (before after : state) (r : result) (o : obs) : bool :=
  match o with
  | Obs r' opts defd evs =>
      result_eqb r r'
      && list_eqb (pair_eqb N.eqb (pair_eqb Bool.eqb val_eqb)) (dmap opt_view (options after)) opts
      && list_eqb (pair_eqb N.eqb dval_eqb) (deferred after) defd
      && list_eqb event_eqb
           (rev (firstn (length (log after) - length (log before)) (log after))) evs
  end.

Fixpoint replay (behave : N -> state -> list name -> reaction) (vt vu : bool)
                (steps : list (op * obs)) (s : state) : bool :=
  match steps with
  | [] => true
  | (c, o) :: t =>
      let (s', r) := tstep behave vt vu FUEL c s in
      obs_ok s s' r o && replay behave vt vu t s'
  end.

Definition check_case (c : case) : bool :=
  match c with Hist vt vu specs steps => replay (interp specs) vt vu steps init end.
