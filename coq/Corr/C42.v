(* Corr/C42.v -- correspondence glue for C42.  The harness writes, for every generated filter string, what the
   real flowfilter.parse returned (the FAnd / FOr / FNot / atom structure, or None for ValueError) and the
   arguments that re.compile rejects; check_case re-parses the string with the model and compares exactly.
   For rendered cases it also checks that the harness renderer and guard agree with the model's. *)
From Coq Require Import List Bool NArith.
From MV Require Import Base.Bytes Gen.FlowFilterAtoms Model.FilterGrammar Model.FilterBody Model.FilterHeader.
Import ListNotations.

Definition atom_eqb (a b : atom) : bool :=
  match a, b with
  | AUnary c, AUnary d => bytes_eqb c d
  | ARex c x, ARex d y => bytes_eqb c d && bytes_eqb x y
  | AInt c n, AInt d m => bytes_eqb c d && N.eqb n m
  | _, _ => false
  end.
Fixpoint ast_eqb (a b : ast) : bool :=
  match a, b with
  | Atom x, Atom y => atom_eqb x y
  | Not x, Not y => ast_eqb x y
  | And l, And m =>
      (fix go (l m : list ast) : bool :=
         match l, m with [], [] => true | x :: l', y :: m' => ast_eqb x y && go l' m' | _, _ => false end) l m
  | Or l, Or m =>
      (fix go (l m : list ast) : bool :=
         match l, m with [], [] => true | x :: l', y :: m' => ast_eqb x y && go l' m' | _, _ => false end) l m
  | _, _ => false
  end.

(* src: the tree, style, leading / trailing whitespace the string was rendered from, and the harness's value of
   the guard (atoms_ok && quoting_ok && juxt_top); s: the filter string (UTF-8); bad_bin / bad_str: arguments
   rejected by re.compile as bytes / str patterns; impl: structure returned by flowfilter.parse. *)
(* Body: operator (0 = b, 1 = bq, 2 = bs), the shape of the real flow, the table of the regex engine's answers
   (re.search of the pattern, compiled by the harness, on every byte string of the flow) and the verdict of the
   real filter object on the real flow. *)
Inductive case :=
| Body (op : N) (f : flowb) (tbl : list (bytes * bool)) (impl : bool)
| Hdr (op : N) (f : flowh) (tbls : list (list (bytes * bool))) (impl : bool)
      (* op 0..6 = t tq ts h hq hs a; the fields of the real messages; engine answers (one table, or one per
         asset pattern for a) on every Content-Type value and on the harness-serialised header blocks *)
| Case (src : option (expr * style * ws * ws * bool)) (s : bytes) (bad_bin bad_str : list bytes) (impl : option ast).

Definition rex_ok_of (bad_bin bad_str : list bytes) (c a : bytes) : bool :=
  negb (mem_bytes a (if mem_bytes c bin_rex_codes then bad_bin else bad_str)).

Fixpoint lookup (tbl : list (bytes * bool)) (b : bytes) : bool :=
  match tbl with [] => false | (k, v) :: r => if bytes_eqb k b then v else lookup r b end.

Definition check_case (c : case) : bool :=
  match c with
  | Hdr op f tbls impl =>
      let s := lookup (hd [] tbls) in
      Bool.eqb (match op with
                | 0%N => fcontent_type s f | 1%N => fcontent_type_request s f | 2%N => fcontent_type_response s f
                | 3%N => fhead s f | 4%N => fhead_request s f | 5%N => fhead_response s f
                | _ => fasset (map lookup tbls) f
                end) impl
  | Body op f tbl impl =>
      Bool.eqb (match op with 0%N => fbod | 1%N => fbod_request | _ => fbod_response end (lookup tbl) f) impl
  | Case src s bb bs impl =>
      (match src with
       | Some (e, st, lead, trail, g) =>
           bytes_eqb (render_top e st lead trail) s
           && Bool.eqb (atoms_ok e && quoting_ok e st && juxt_top e st) g
       | None => true
       end)
      && match parse_filter (rex_ok_of bb bs) s, impl with
         | Ok t, Some t' => ast_eqb t t'
         | Fail, None => true
         | _, _ => false
         end
  end.
