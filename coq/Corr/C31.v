(* Corr/C31.v -- correspondence glue for C31.  A case is one history (the cache starts empty):
   every step carries its inputs and the outputs observed on the real mitmproxy code; the model
   threads its own cache state through the steps and every output is compared exactly.
   The library primitives (zlib / gzip / brotli / zstd / py codecs) are instantiated by a finite
   table that the harness fills by calling the libraries directly (not through mitmproxy).
   A primitive call that is not in the table yields the sentinel MISS, which no real codec
   produced, so an unexpected library call shows up as a mismatch. *)
From Coq Require Import List Bool NArith.
From MV Require Import Base.Bytes Model.Encoding.
Import ListNotations.

Definition table := list (N * bytes * bytes * bytes * pres).   (* prim, name, errors, arg, result *)

Fixpoint lookup (t : table) (prim : N) (name errors arg : bytes) : option pres :=
  match t with
  | [] => None
  | (p, n, e, a, r) :: t' =>
      if N.eqb p prim && bytes_eqb n name && bytes_eqb e errors && bytes_eqb a arg
      then Some r else lookup t' prim name errors arg
  end.

Definition miss : bytes := [x4d; x49; x53; x53].

Definition comp (t : table) (prim : N) (x : bytes) : bytes :=
  match lookup t prim [] [] x with Some (PBytes b) => b | _ => miss end.
Definition decomp (t : table) (prim : N) (x : bytes) : option bytes :=
  match lookup t prim [] [] x with Some (PBytes b) => Some b | Some PExc => None | _ => Some miss end.
Definition pyc (t : table) (prim : N) (name errors x : bytes) : pres :=
  match lookup t prim name errors x with Some p => p | None => PBytes miss end.

Definition codecs_of (t : table) : codecs :=
  Build_codecs (comp t 0) (decomp t 1) (comp t 2) (decomp t 3) (decomp t 4)
               (comp t 5) (decomp t 6) (comp t 7) (decomp t 8) (pyc t 9) (pyc t 10).

Definition res_eqb (a b : res) : bool :=
  match a, b with
  | RNone, RNone | RStr, RStr | RValueError, RValueError | RTypeError, RTypeError => true
  | RBytes x, RBytes y => bytes_eqb x y
  | _, _ => false
  end.
Definition gres_eqb (a b : gres) : bool :=
  match a, b with
  | GNone, GNone | GValueError, GValueError | GTypeError, GTypeError => true
  | GBytes x, GBytes y => bytes_eqb x y
  | _, _ => false
  end.
Definition outcome_eqb (a b : outcome) : bool :=
  match a, b with
  | Done, Done | RaisedValueError, RaisedValueError | RaisedTypeError, RaisedTypeError => true
  | _, _ => false            (* OutOfModel never matches an observation *)
  end.
Definition msg_eqb (a b : msg) : bool :=
  option_eqb bytes_eqb (m_ce a) (m_ce b) && Bool.eqb (m_te a) (m_te b)
  && option_eqb bytes_eqb (m_cl a) (m_cl b) && option_eqb bytes_eqb (m_raw a) (m_raw b).

Inductive stepc :=
| SDecode (e : option bytes) (n err : bytes) (obs : res)
| SEncode (d : option bytes) (n err : bytes) (obs : res)
| SSet (m : msg) (v : option bytes) (o : outcome) (m' : msg)
| SGet (m : msg) (strict : bool) (g : gres)
| SMDecode (m : msg) (strict : bool) (o : outcome) (m' : msg)
| SMEncode (m : msg) (n : bytes) (o : outcome) (m' : msg).

Inductive case := Case (lenient : bool) (tbl : table) (steps : list stepc).

Definition check_step (C : codecs) (lenient : bool) (st : cstate) (s : stepc) : bool * cstate :=
  match s with
  | SDecode e n err obs => let '(r, st1) := decode C st e n err in (res_eqb r obs, st1)
  | SEncode d n err obs => let '(r, st1) := encode C st d n err in (res_eqb r obs, st1)
  | SSet m v o m' =>
      let '(o1, m1, st1) := set_content C lenient st m v in (outcome_eqb o1 o && msg_eqb m1 m', st1)
  | SGet m strict g => let '(g1, st1) := get_content C lenient st m strict in (gres_eqb g1 g, st1)
  | SMDecode m strict o m' =>
      let '(o1, m1, st1) := msg_decode C lenient st m strict in (outcome_eqb o1 o && msg_eqb m1 m', st1)
  | SMEncode m n o m' =>
      let '(o1, m1, st1) := msg_encode C lenient st m n in (outcome_eqb o1 o && msg_eqb m1 m', st1)
  end.

Fixpoint check_steps (C : codecs) (lenient : bool) (st : cstate) (l : list stepc) : bool :=
  match l with
  | [] => true
  | s :: l' => let '(ok, st1) := check_step C lenient st s in ok && check_steps C lenient st1 l'
  end.

Definition check_case (c : case) : bool :=
  match c with
  | Case lenient tbl steps => check_steps (codecs_of tbl) lenient None steps
  end.
