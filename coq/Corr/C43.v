(* Corr/C43.v -- correspondence glue for C43: a case is a history of calls on one View together with
   what the real addon showed after every call; check_case replays the history on the model. *)
From Coq Require Import List Bool Arith NArith ZArith.
From MV Require Import Base.Bytes Model.View.
Import ListNotations.

(* calls: the single-flow operations of the theorems, plus multi-flow calls of the same model functions *)
Inductive cop :=
| Single (o : op)
| AddMany (fs : list flow) | UpdateMany (fs : list flow) | RemoveMany (ids : list N)
| MutateOnly (fs : list flow).      (* attributes change, the view is not (yet) told *)

Inductive obs :=
| Obs (visible : list N) (focus : option N) (settings : list N) (store : list N) (log : list sig)
| Raised (e : err).

Inductive case := Hist (steps : list (cop * obs)).

Definition do_cop (c : cop) : M unit :=
  match c with
  | Single o => do_op o
  | AddMany fs => add fs
  | UpdateMany fs => mutate fs ;;; update (map fid fs)
  | RemoveMany ids => remove ids
  | MutateOnly fs => mutate fs
  end.

Definition sig_eqb (a b : sig) : bool :=
  match a, b with
  | ViewAdd x, ViewAdd y => N.eqb x y
  | ViewRemove x i, ViewRemove y j => N.eqb x y && Nat.eqb i j
  | ViewUpdate x, ViewUpdate y => N.eqb x y
  | ViewRefresh, ViewRefresh => true
  | StoreRemove x, StoreRemove y => N.eqb x y
  | StoreRefresh, StoreRefresh => true
  | _, _ => false
  end.
Definition err_eqb (a b : err) : bool :=
  match a, b with EValue, EValue | EKey, EKey | EIndex, EIndex => true | _, _ => false end.

Fixpoint insN (x : N) (l : list N) : list N :=
  match l with [] => [x] | y :: t => if N.leb x y then x :: l else y :: insN x t end.
Definition sortN (l : list N) : list N := fold_right insN [] l.

Definition obs_ok (s : state) (o : obs) : bool :=
  match o with
  | Obs vis foc sets sto lg =>
      list_eqb N.eqb (visible s) vis
      && option_eqb N.eqb (focus s) foc
      && list_eqb N.eqb (sortN (settings_ids s)) sets
      && list_eqb N.eqb (store s) sto
      && list_eqb sig_eqb (log s) lg
  | Raised _ => false
  end.

Fixpoint replay (steps : list (cop * obs)) (s : state) : bool :=
  match steps with
  | [] => true
  | (c, o) :: t =>
      match do_cop c (set_log [] s), o with
      | Ok (_, s'), _ => obs_ok s' o && replay t s'
      | Err e, Raised e' => err_eqb e e'          (* the history stops at the first exception *)
      | Err _, _ => false
      end
  end.

Definition check_case (c : case) : bool :=
  match c with Hist steps => replay steps init end.
