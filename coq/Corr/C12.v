(* Corr/C12.v — correspondence glue for C12. *)
From Coq Require Import List Bool NArith.
From MV Require Import Base.Bytes Model.ErrorPage.
Import ListNotations.

Inductive case :=
| Page (code : N) (reason message : list N) (impl_page : bytes)
| Resp (code : N) (line_reason : bytes) (page_reason : list N) (server_ver : bytes) (message : list N) (impl : bytes).

Definition check_case (c : case) : bool :=
  match c with
  | Page code reason msg p => bytes_eqb (format_error code reason msg) p
  | Resp code lreason preason ver msg r =>
    bytes_eqb (make_error_response code lreason ver (format_error code preason msg)) r
    && match ref_read_response r with
       | Some rr => bytes_eqb (r_body rr) (format_error code preason msg)
                    && match r_rest rr with [] => true | _ => false end
       | None => false
       end
  end.
