(* Corr/C35.v -- correspondence glue for C35: the harness writes the observations of the real
   Headers / _read_headers / h11 code next to the inputs; check_case recomputes them with the model. *)
From Coq Require Import List Bool NArith ZArith.
From MV Require Import Base.Bytes Model.Headers.
Import ListNotations.

Inductive case :=
(* two header objects built from init0/init1, a history of operations, the result of every
   operation with the fields tuple of the touched object after it, and both final fields tuples *)
| Hist (init0 init1 : list field) (ops : list op)
       (impl_obs : list (result * list field)) (impl_final0 impl_final1 : list field)
(* bytes(Headers(fields)); h11 lines of bytes + CRLF; _read_headers of those lines *)
| Rt (fields : list field) (impl_bytes : bytes) (impl_lines : option (list bytes))
     (impl_parsed : option rh_result)
(* _read_headers on arbitrary lines *)
| Rd (lines : list bytes) (impl : rh_result)
(* h11 maybe_extract_lines on arbitrary data *)
| Ex (data : bytes) (impl_lines : option (list bytes)).

Definition fields_eqb (a b : list field) : bool := list_eqb field_eqb a b.

Definition result_eqb (a b : result) : bool :=
  match a, b with
  | RNone, RNone => true
  | RKeyError, RKeyError => true
  | RVal x, RVal y => bytes_eqb x y
  | RVals x, RVals y => list_eqb bytes_eqb x y
  | RKeys x, RKeys y => list_eqb bytes_eqb x y
  | RBool x, RBool y => Bool.eqb x y
  | RLen x, RLen y => N.eqb x y
  | ROther, ROther => true
  | _, _ => false
  end.

Definition rh_eqb (a b : rh_result) : bool :=
  match a, b with
  | RhOk x, RhOk y => fields_eqb x y
  | RhValueError, RhValueError => true
  | RhIndexError, RhIndexError => true
  | _, _ => false
  end.

Definition check_case (c : case) : bool :=
  match c with
  | Hist i0 i1 ops obs f0 f1 =>
      let '(mobs, mst) := run_ops (i0, i1) ops in
      list_eqb (pair_eqb result_eqb fields_eqb) mobs obs
      && fields_eqb (fst mst) f0 && fields_eqb (snd mst) f1
  | Rt fs b ls p =>
      bytes_eqb (headers_bytes fs) b
      && option_eqb (list_eqb bytes_eqb) (maybe_extract_lines (b ++ CRLF)) ls
      && option_eqb rh_eqb (read_back fs) p
  | Rd lines r => rh_eqb (_read_headers lines) r
  | Ex data ls => option_eqb (list_eqb bytes_eqb) (maybe_extract_lines data) ls
  end.
