(* Corr/C35.v -- correspondence glue for C35: the harness writes the observations of the real
   Headers / _read_headers / h11 code next to the inputs; check_case recomputes them with the model. *)
From Coq Require Import List Bool NArith ZArith.
From MV Require Import Base.Bytes Model.Headers.
Import ListNotations.

(* every read view of the real Headers object, observed on object 0 before the history and on the
   touched object after every operation: items(), keys(), values() (None = an exception escaped),
   items/keys/values(multi=True), list(h), len(h), bytes(h), h.copy() == h, h.copy().fields, and
   get_all / __getitem__ / __contains__ for a few probe names *)
Inductive view :=
| View (its : option (list field)) (ks vs : option (list bytes))
       (itm : list field) (km vm : list bytes) (it : list bytes) (ln : N) (b : bytes)
       (ceq : bool) (cf : list field)
       (probes : list (bytes * list bytes * option bytes * bool)).

Inductive case :=
(* two header objects built from init0/init1, a history of operations, the result of every
   operation with the fields tuple of the touched object after it, both final fields tuples, and
   the read views (one for init0, then one per operation) *)
| Hist (init0 init1 : list field) (ops : list op)
       (impl_obs : list (result * list field)) (impl_final0 impl_final1 : list field)
       (impl_views : list view)
(* bytes(Headers(fields)); h11 lines of bytes + CRLF; _read_headers of those lines *)
| Rt (fields : list field) (impl_bytes : bytes) (impl_lines : option (list bytes))
     (impl_parsed : option rh_result)
(* _read_headers on arbitrary lines *)
| Rd (lines : list bytes) (impl : rh_result)
(* h11 maybe_extract_lines on arbitrary data *)
| Ex (data : bytes) (impl_lines : option (list bytes)).

Definition fields_eqb (a b : list field) : bool := list_eqb field_eqb a b.

Definition result_eqb (a b : result) : bool :=
  match a, b with
  | RNone, RNone => true
  | RKeyError, RKeyError => true
  | RVal x, RVal y => bytes_eqb x y
  | RVals x, RVals y => list_eqb bytes_eqb x y
  | RKeys x, RKeys y => list_eqb bytes_eqb x y
  | RBool x, RBool y => Bool.eqb x y
  | RLen x, RLen y => N.eqb x y
  | ROther, ROther => true
  | _, _ => false
  end.

Definition rh_eqb (a b : rh_result) : bool :=
  match a, b with
  | RhOk x, RhOk y => fields_eqb x y
  | RhValueError, RhValueError => true
  | RhIndexError, RhIndexError => true
  | _, _ => false
  end.

Definition obl_eqb := option_eqb (list_eqb bytes_eqb).

Definition probe_ok (fs : list field) (p : bytes * list bytes * option bytes * bool) : bool :=
  let '(k, ga, gi, co) := p in
  list_eqb bytes_eqb (get_all fs k) ga && option_eqb bytes_eqb (getitem fs k) gi
  && Bool.eqb (contains fs k) co.

Definition view_ok (fs : list field) (v : view) : bool :=
  match v with
  | View its ks vs itm km vm it ln b ceq cf probes =>
      option_eqb fields_eqb (items fs) its && obl_eqb (keys fs) ks && obl_eqb (values fs) vs
      && fields_eqb (items_multi fs) itm && list_eqb bytes_eqb (keys_multi fs) km
      && list_eqb bytes_eqb (values_multi fs) vm && list_eqb bytes_eqb (iter fs) it
      && N.eqb (len fs) ln && bytes_eqb (headers_bytes fs) b
      && Bool.eqb (eq (copy fs) fs) ceq && fields_eqb (copy fs) cf
      && forallb (probe_ok fs) probes
  end.

Fixpoint views_ok (fss : list (list field)) (vs : list view) : bool :=
  match fss, vs with
  | [], [] => true
  | fs :: fss', v :: vs' => view_ok fs v && views_ok fss' vs'
  | _, _ => false
  end.

Definition check_case (c : case) : bool :=
  match c with
  | Hist i0 i1 ops obs f0 f1 views =>
      let '(mobs, mst) := run_ops (i0, i1) ops in
      list_eqb (pair_eqb result_eqb fields_eqb) mobs obs
      && fields_eqb (fst mst) f0 && fields_eqb (snd mst) f1
      && views_ok (i0 :: map snd mobs) views
  | Rt fs b ls p =>
      bytes_eqb (headers_bytes fs) b
      && option_eqb (list_eqb bytes_eqb) (maybe_extract_lines (b ++ CRLF)) ls
      && option_eqb rh_eqb (read_back fs) p
  | Rd lines r => rh_eqb (_read_headers lines) r
  | Ex data ls => option_eqb (list_eqb bytes_eqb) (maybe_extract_lines data) ls
  end.
