(* Corr/C17.v -- correspondence glue for C17: a case is one history run against a real
   CertStore; after every call the harness records what the implementation returned (entry
   identity as an ordinal, the certificate's CN and SANs), the number of generated keys and the
   queue length; at the end the whole dict (in order) and the queue. check_case replays the
   history on the model and compares everything. *)
From Coq Require Import List Bool Arith.
From MV Require Import Base.Bytes Model.CertStore Gen.CertsConst.
Import ListNotations.

(* what the harness can see of an entry: pool index of a custom entry, or creation ordinal of a
   generated entry with the CN and SANs read from the real certificate *)
Inductive oentry := OCustom (i : nat) | OGen (i : nat) (cert_cn : option name) (cert_sans : list san).

(* dummy_cert only writes a CN shorter than 64 characters *)
Definition cert_cn (cn : option name) : option name :=
  match cn with
  | Some n => if length n <? 64 then Some n else None
  | None => None
  end.

Definition view (e : entry) : oentry :=
  match e with
  | ECustom i => OCustom i
  | EGen i cn sans => OGen i (cert_cn cn) sans
  end.

Definition oentry_eqb (a b : oentry) : bool :=
  match a, b with
  | OCustom i, OCustom j => Nat.eqb i j
  | OGen i c1 s1, OGen j c2 s2 => Nat.eqb i j && option_eqb bytes_eqb c1 c2 && list_eqb san_eqb s1 s2
  | _, _ => false
  end.

Inductive obs_op :=
| OAdd (i : nat) (cn : option name) (altnames : list san) (names : list name) (ngen qlen : nat)
| OGet (cn : option name) (sans : list san) (ret : option oentry) (ngen qlen : nat).

Inductive case :=
| Hist (cap : option nat) (ops : list obs_op) (final_certs : list (key * oentry)) (final_queue : list oentry).

Definition counts_ok (st : store) (ngen qlen : nat) : bool :=
  Nat.eqb (gen_count (certs st)) ngen && Nat.eqb (length (expire_queue st)) qlen.

Fixpoint replay (cap : nat) (st : store) (ops : list obs_op) : option store :=
  match ops with
  | [] => Some st
  | OAdd i cn alt names ngen qlen :: r =>
      let (st', ret) := step NAME_TEST_TRUTHY cap st (AddCert i cn alt names) in
      if counts_ok st' ngen qlen then replay cap st' r else None
  | OGet cn sans oret ngen qlen :: r =>
      let (st', ret) := step NAME_TEST_TRUTHY cap st (GetCert cn sans) in
      if option_eqb oentry_eqb (option_map view ret) oret && counts_ok st' ngen qlen
      then replay cap st' r else None
  end.

Definition check_case (c : case) : bool :=
  match c with
  | Hist cap ops fc fq =>
      let cap' := match cap with Some n => n | None => STORE_CAP end in
      match replay cap' empty_store ops with
      | Some st =>
          list_eqb (pair_eqb key_eqb oentry_eqb) (map (fun kv => (fst kv, view (snd kv))) (certs st)) fc
          && list_eqb oentry_eqb (map view (expire_queue st)) fq
      | None => false
      end
  end.
