(* Corr/C48.v -- correspondence glue for C48.  The harness writes, next to the inputs, the command text produced by
   the real export.py and what a real bash executed for it (argv and standard input received by the stub
   curl / http executables); check_case recomputes the text with Model/Export.v and the execution with Model/Sh.v. *)
From Coq Require Import List Bool NArith.
From MV Require Import Base.Bytes Model.Http1Msg Model.Sh Model.Export.
Import ListNotations.

(* what bash did: Some (argv, stdin) when exactly one stub was executed, the shell exited 0 and nothing else
   happened (no other stub, no file created); stdin None = nothing on standard input.  None otherwise. *)
Definition shobs := option (list bytes * option bytes).

Inductive case :=
| Req (fp fg : bool) (preserve : bool) (addr : option bytes) (r : xreq)
      (impl_curl impl_httpie : xres bytes) (bash must : bool) (sh_curl sh_httpie : shobs)
| ShCmd (cmd : bytes) (must : bool) (obs : shobs)
| Quote (args : list bytes) (impl_cmd : bytes) (must : bool) (obs : shobs)
| Raw (r : request_head) (content : option bytes) (trailers : bytes) (impl : res bytes)
(* several exports of the same flow object; the model inputs are read from a copy made before the first export *)
| Hist (fp fg preserve : bool) (addr : option bytes) (s : flowst) (fs : list fmt) (impl : list eout).

Definition xres_eqb (a b : xres bytes) : bool :=
  match a, b with
  | XOk x, XOk y => bytes_eqb x y
  | XCommandError, XCommandError | XAssertionError, XAssertionError | XKeyError, XKeyError | XOther, XOther => true
  | _, _ => false
  end.

Definition res_eqb (a b : res bytes) : bool :=
  match a, b with
  | Ok x, Ok y => bytes_eqb x y
  | ValueError, ValueError | OtherError, OtherError => true
  | _, _ => false
  end.

Definition eout_eqb (a b : eout) : bool :=
  match a, b with
  | OX x, OX y => xres_eqb x y
  | OR x, OR y => res_eqb x y
  | _, _ => false
  end.

Definition is_stub (name : bytes) : bool := bytes_eqb name CURL || bytes_eqb name HTTP.

(* the model of bash against the observed execution; nothing is compared when the command is outside the
   modelled fragment (unless [must]) or would run something that is not one of the stubs *)
Definition sh_agrees (must : bool) (cmd : bytes) (obs : shobs) : bool :=
  match sh_eval cmd with
  | ShUnsupported => negb must
  | ShRun argv stdin =>
      match argv with
      | name :: _ =>
          if is_stub name then
            match obs with
            | Some (argv', stdin') => list_eqb bytes_eqb argv argv' && option_eqb bytes_eqb stdin stdin'
            | None => false
            end
          else negb must
      | [] => false
      end
  end.

Definition sh_agrees_x (bash must : bool) (c : xres bytes) (obs : shobs) : bool :=
  match c with
  | XOk cmd => if bash then sh_agrees must cmd obs else true
  | _ => true
  end.

Definition check_case (c : case) : bool :=
  match c with
  | Req fp fg preserve addr r ic ih bash must oc oh =>
      let v := mkVar fp fg in
      xres_eqb (curl_command v preserve addr r) ic && xres_eqb (httpie_command v r) ih
      && sh_agrees_x bash must ic oc && sh_agrees_x bash must ih oh
  | ShCmd cmd must obs => sh_agrees must cmd obs
  | Quote args impl must obs =>
      bytes_eqb (join_sp (map quote args)) impl && sh_agrees must impl obs
  | Raw r content trailers impl => res_eqb (raw_request r content trailers) impl
  | Hist fp fg preserve addr s fs impl =>
      list_eqb eout_eqb (fst (export_history (mkVar fp fg) preserve addr s fs)) impl
  end.
