(* Corr/C32.v -- correspondence glue for C32. Each case carries inputs plus what the real
   code returned; check_case recomputes with Model/MsgText.v and compares exactly.
   Codecs the model treats as abstract are instantiated by the one observed result the case
   carries (name, result); any other name yields EMissing/DMissing, which never compares equal. *)
From Coq Require Import List Bool NArith.
From MV Require Import Base.Bytes Model.MsgText.
Import ListNotations.

Definition text_eqb (a b : text) : bool := list_eqb N.eqb a b.

Definition eres_eqb (a b : eres) : bool :=
  match a, b with
  | EBytes x, EBytes y => bytes_eqb x y
  | EStr, EStr | EValueErr, EValueErr | ETypeErr, ETypeErr => true
  | _, _ => false
  end.

Definition dres_eqb (a b : dres) : bool :=
  match a, b with
  | DStr x, DStr y => text_eqb x y
  | DBytes x, DBytes y => bytes_eqb x y
  | DValueErr, DValueErr | DTypeErr, DTypeErr => true
  | _, _ => false
  end.

Definition msg_eqb (a b : msg) : bool :=
  option_eqb bytes_eqb (ctype a) (ctype b) && option_eqb bytes_eqb (content a) (content b).

Definition setres_eqb (a b : setres) : bool :=
  match a, b with
  | SetOk x, SetOk y => msg_eqb x y
  | SetTypeErr, SetTypeErr | SetUnicodeErr, SetUnicodeErr => true
  | _, _ => false
  end.

Definition getres_eqb (a b : getres) : bool :=
  match a, b with
  | GNone, GNone | GValueErr, GValueErr | GTypeErr, GTypeErr => true
  | GStr x, GStr y => text_eqb x y
  | GBytes x, GBytes y => bytes_eqb x y
  | _, _ => false
  end.

Definition table (en : bytes) (oe : eres) (dn : bytes) (od : dres) : codecs :=
  {| oenc := fun n _ => if bytes_eqb n en then oe else EMissing;
     odec := fun n _ => if bytes_eqb n dn then od else DMissing |}.

Definition no_codecs : codecs := {| oenc := fun _ _ => EMissing; odec := fun _ _ => DMissing |}.

Definition parsed_eqb (a b : option (bytes * bytes * dict)) : bool :=
  option_eqb (pair_eqb (pair_eqb bytes_eqb bytes_eqb) (list_eqb (pair_eqb bytes_eqb bytes_eqb))) a b.

Inductive case :=
(* parse_content_type(ct) and assemble_content_type of its result *)
| Parse (ct : bytes) (impl : option (bytes * bytes * dict)) (impl_asm : option bytes)
(* infer_content_encoding(ct, content) *)
| Infer (ct body : bytes) (impl : bytes)
(* encoding.encode(text, name) / encoding.decode(bytes, name); compared when the model resolves
   the name to an exact codec *)
| Enc (name : bytes) (s : text) (impl : eres)
| Dec (name : bytes) (b : bytes) (impl : dres)
(* bytes.decode(utf8, surrogateescape) and str.encode(utf8, surrogateescape) *)
| DecSE (b : bytes) (impl : text)
| EncSE (s : text) (impl : option bytes)
(* on a message whose stored body is init: m.set_text(s); m.get_text(strict).
   impl_set/impl_get = None: the code raised something the model has no value for *)
| SetGet (ct : option bytes) (init : option bytes) (s : text) (strict : bool)
         (en : bytes) (oe : eres) (dn : bytes) (od : dres)
         (impl_set : option setres) (impl_get : option getres)
(* get_text on an arbitrary stored body *)
| Get (ct : option bytes) (b : bytes) (strict : bool) (dn : bytes) (od : dres)
      (impl_get : option getres).

Definition is_other (c : codec) : bool := match c with COther _ => true | _ => false end.

Definition check_case (c : case) : bool :=
  match c with
  | Parse ct impl asm =>
      let p := parse_content_type ct in
      parsed_eqb p impl
      && option_eqb bytes_eqb
           (match p with Some (t, st, d) => Some (assemble_content_type t st d) | None => None end) asm
  | Infer ct body impl => bytes_eqb (infer_content_encoding ct body) impl
  | Enc name s impl =>
      if is_other (resolve (lower name)) then true else eres_eqb (encode no_codecs name s) impl
  | Dec name b impl =>
      if is_other (resolve (lower name)) then true else dres_eqb (decode no_codecs name b) impl
  | DecSE b impl => text_eqb (utf8_decode_se b) impl
  | EncSE s impl => option_eqb bytes_eqb (utf8_encode_se s) impl
  | SetGet ct init s strict en oe dn od iset iget =>
      let C := table en oe dn od in
      let r := set_text C {| ctype := ct; content := init |} (Some s) in
      match iset with
      | None => false
      | Some i =>
          setres_eqb r i
          && match r with
             | SetOk m' => match iget with
                           | Some g => getres_eqb (get_text C m' strict) g
                           | None => false
                           end
             | _ => true
             end
      end
  | Get ct b strict dn od iget =>
      match iget with
      | Some g => getres_eqb (get_text (table [] EMissing dn od) {| ctype := ct; content := Some b |} strict) g
      | None => false
      end
  end.
