(* Corr/C19.v -- correspondence glue for C19.  The harness writes the inputs next to what the real
   NextLayer addon / NextLayer + TCPLayer(ignore=True) did; check_case recomputes it with the model.
   User patterns are restricted (in these cases only) to four shapes whose meaning under
   re.search(p, host, re.IGNORECASE) the glue can compute: an escaped literal (substring), literal + $
   (suffix), .+ and a pattern that never matches.  SNI names carry no ACE labels (ace_ok := false). *)
From Coq Require Import List Bool NArith.
From MV Require Import Base.Bytes Model.ClientHello Model.IgnoreHosts.
Import ListNotations.
Local Open Scope N_scope.

Inductive cpat := PLit (lower : bytes) | PSuffix (lower : bytes) | PAll | PNone.

Fixpoint contains_ci (p s : bytes) : bool :=
  starts_with_ci p s || match s with _ :: r => contains_ci p r | [] => false end.
Fixpoint ends_ci (p s : bytes) : bool :=
  (starts_with_ci p s && Nat.eqb (length s) (length p)) || match s with _ :: r => ends_ci p r | [] => false end.
Definition cre_search (p : cpat) (h : bytes) : bool :=
  match p with
  | PLit l => contains_ci l h
  | PSuffix l => ends_ci l h
  | PAll => existsb (fun b => negb (is_lf b)) h
  | PNone => false
  end.
Definition no_ace (_ : bytes) : bool := false.

(* observations *)
Inductive hobs := OHdr (h : hh) | OHdrOther.                      (* other = any other exception *)
Inductive dobs := ONeeds | OIgnore (b : bool) | ODecOther.

Definition hh_eqb (a b : hh) : bool :=
  match a, b with
  | HNeeds, HNeeds => true | HNone, HNone => true
  | HSome x, HSome y => bytes_eqb x y | _, _ => false end.
Definition cmd_eqb (a b : cmd) : bool :=
  match a, b with
  | CAsk, CAsk => true | CIntercept, CIntercept => true | COpen, COpen => true
  | CSend t d, CSend t' d' => Bool.eqb t t' && bytes_eqb d d'
  | CClose x, CClose y => Bool.eqb x y | CHalf x, CHalf y => Bool.eqb x y
  | _, _ => false end.
Definition phase_N (p : phase) : N :=
  match p with PUndecided => 0 | PWaitOpen => 1 | PRelay => 2 | PDone => 3 | POther => 4 end.

Inductive case :=
| Hdr (dc ds : bytes) (impl : hobs)
| Port (s : bytes) (impl : bool)
  (* names = hostnames seen by re.search under a never-matching ignore pattern (None: NeedsMoreData) *)
| Dec (c : cfg cpat) (dc ds : bytes) (names : option (list bytes)) (impl : dobs)
| Run (c : cfg cpat) (server_open : bool) (evs : list ev) (cmds : list cmd) (final : N).

Definition check_case (c : case) : bool :=
  match c with
  | Hdr dc ds (OHdr h) => hh_eqb (get_host_header dc ds) h
  | Hdr _ _ OHdrOther => false
  | Port s b => Bool.eqb (has_port s) b
  | Dec c dc ds names impl =>
      (wg_exempt c ||
       match hostnames_of no_ace c dc ds, names with
       | NNeeds, None => true
       | Names l, Some l' => list_eqb bytes_eqb l l'
       | _, _ => false end)
      && match ignore_connection cre_search no_ace c dc ds, impl with
         | NeedsMore, ONeeds => true
         | Decided b _, OIgnore b' => Bool.eqb b b'
         | _, _ => false end
  | Run c so evs cmds final =>
      let '(s, o) := run cre_search no_ace c (init so) evs in
      list_eqb cmd_eqb o cmds && (phase_N (ph s) =? final)
  end.
