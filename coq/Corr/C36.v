(* Corr/C36.v -- correspondence glue for C36. Each case carries inputs and what the real
   mitmproxy.io.tnetstring / FlowReader did; check_case recomputes it with Model/Tnet.v.
   float() and Flow.from_state(compat.migrate_flow(.)) are parameters of the model: their
   observed results on exactly the arguments they were called with come as tables. The handler
   sets of FlowReader.stream are translated from the source (Gen/FlowReaderExcept.v). *)
From Coq Require Import List Bool NArith ZArith.
From MV Require Import Base.Bytes Model.Tnet Gen.FlowReaderExcept Model.ConnLiterals Gen.ConnectionLiterals.
Import ListNotations.

Definition ftable := list (bytes * option (bytes * option Z)).
Fixpoint flookup (t : ftable) (tok : bytes) : option (bytes * option Z) :=
  match t with
  | [] => None
  | (k, r) :: t' => if bytes_eqb k tok then r else flookup t' tok
  end.

Definition stable := list (tv * option pyexc).
(* a state that was never handed to from_state by the implementation: OtherExc makes the
   comparison fail instead of guessing *)
Fixpoint slookup (t : stable) (v : tv) : option pyexc :=
  match t with
  | [] => Some OtherExc
  | (k, r) :: t' => if tv_eqb k v then r else slookup t' v
  end.

(* n singleton-list wrappers around v (printing aid for deeply nested observed values) *)
Fixpoint nest (n : nat) (v : tv) : tv := match n with O => v | S n' => TList [nest n' v] end.

Inductive outcome := OVal (v : tv) (rest : bytes) | OEof | OExc (e : pyexc).

Definition outcome_eqb (a b : outcome) : bool :=
  match a, b with
  | OVal v r, OVal v' r' => tv_eqb v v' && bytes_eqb r r'
  | OEof, OEof => true
  | OExc e, OExc e' => pyexc_eqb e e'
  | _, _ => false
  end.

Definition of_load (r : load_result) : option outcome :=
  match r with
  | LValue v rest => Some (OVal v rest) | LEof => Some OEof | LExc e => Some (OExc e) | LFuel => None
  end.
Definition of_pop (r : res (tv * bytes)) : option outcome :=
  match r with Ok (v, rest) => Some (OVal v rest) | Exc e => Some (OExc e) | OutOfFuel => None end.

Inductive case :=
| Dumps (v : tv) (impl : bytes)
| Load (depth : nat) (ft : ftable) (file : bytes) (impl : outcome)
| Pop (depth : nat) (ft : ftable) (data : bytes) (impl : outcome)
(* Connection(tls_version = v / transport_protocol = v): did get_state and from_state accept it *)
| TlsVersionField (v : option bytes) (impl_ok : bool)
| TransportField (v : bytes) (impl_ok : bool)
| Stream (depth : nat) (ft : ftable) (fs : stable) (file : bytes) (impl_values : list tv) (impl_final : final).

Definition check_case (c : case) : bool :=
  match c with
  | Dumps v impl => bytes_eqb (dumps v) impl
  | Load depth ft file impl => option_eqb outcome_eqb (of_load (load (flookup ft) depth file)) (Some impl)
  | Pop depth ft data impl => option_eqb outcome_eqb (of_pop (pop (flookup ft) depth data)) (Some impl)
  | TlsVersionField v ok => Bool.eqb (opt_literal_ok tls_version_src v) ok
  | TransportField v ok => Bool.eqb (literal_ok transport_protocol_src v) ok
  | Stream depth ft fs file vals fin =>
      let r := stream (flookup ft) outer_gen inner_gen (slookup fs) depth file in
      list_eqb tv_eqb (fst r) vals && final_eqb (snd r) fin
  end.
