(* Corr/C22.v -- correspondence glue for C22: the harness spells an address (family, integer) as a
   peer name, runs the real Block.client_connected (or the real ConnectionHandler.handle_client around
   it) and records client.error; check_case recomputes it with the generated model Gen/Block.v.
   The error text is compared exactly: the model is regenerated from the source, so it carries the
   same literal.  Diffs ties the finding keys to the table difference computed in Coq. *)
From Coq Require Import List Bool NArith String.
From MV Require Import Base.Bytes Model.Ipaddr Model.Iana Gen.Block Model.Pexp Model.BlockDiff.
Import ListNotations.

Inductive obs := ObsError (e : option string) | ObsRaised.

Inductive case :=
| Conn (bp bg : bool) (m : proxy_mode) (a : ip) (impl : obs)
| E2E (bp bg : bool) (m : proxy_mode) (a : ip) (impl : obs) (impl_actions : list action)
| Diffs (impl_diff4 impl_diff6 : list (N * N))
(* a sequence of connections served by ONE addon instance, with the error observed after each *)
| Hist (steps : list (conn * obs)).

Definition action_eqb (x y : action) : bool :=
  match x, y with
  | CloseWriter, CloseWriter | StartEvent, StartEvent | HandleConnection, HandleConnection => true
  | _, _ => false
  end.

Definition net_eqb (x y : N * N) : bool := N.eqb (fst x) (fst y) && N.eqb (snd x) (snd y).

Definition conn_ok (bp bg : bool) (m : proxy_mode) (a : ip) (impl : obs) : bool :=
  match impl with
  | ObsError e => option_eqb String.eqb (client_connected bp bg m a) e
  | ObsRaised => false
  end.

Definition check_case (c : case) : bool :=
  match c with
  | Conn bp bg m a impl => conn_ok bp bg m a impl
  | E2E bp bg m a impl acts =>
      conn_ok bp bg m a impl
      && list_eqb action_eqb (handle_client_after_hook (refused bp bg m a)) acts
  | Hist steps =>
      let outs := run_history initial_state (map fst steps) in
      Nat.eqb (List.length outs) (List.length steps)
      && forallb (fun p => match snd p with ObsError x => option_eqb String.eqb (fst p) x | ObsRaised => false end)
                 (combine outs (map snd steps))
  | Diffs d4 d6 => list_eqb net_eqb diff4 d4 && list_eqb net_eqb diff6 d6
  end.
