(* Model/Url.v -- executable model for C33 (no proofs):
   mitmproxy/net/http/url.py  parse, unparse, hostport, default_port, parse_authority
   mitmproxy/net/check.py     is_valid_host, is_valid_port
   mitmproxy/http.py          Request.url/host/port/authority/host_header, _update_host_and_authority
   and the parts of CPython 3.12 they call: urllib.parse.urlparse/urlsplit/urlunparse and the
   hostname/port accessors, ipaddress.ip_address (validity only), the ASCII paths of the idna codec.

   Python str values are represented by their UTF-8/surrogateescape bytes.  Everything that
   needs Unicode tables (punycode labels, nameprep) is a parameter of the model:
     ace  : an ASCII-compatible-encoding label (starts with xn--) -> its ToUnicode result, None = UnicodeError
     uenc : a non-ASCII str -> str.encode(idna), None = UnicodeError
   The model of url.parse answers ValueError for every non-ASCII URL (ParseResult.encode(ascii) raises).
   hostport is modelled WITH the proposed repair fixes/C33-hostport-brackets-ipv6.diff. *)
From Coq Require Import List Bool NArith ZArith.
From Coq Require Strings.String.
From MV Require Import Base.Bytes.
Import ListNotations.

Definition str := bytes.

(* ---------- characters and small string helpers ---------- *)
Definition cTAB := x09. Definition cLF := x0a. Definition cCR := x0d.
Definition cHASH := x23. Definition cPCT := x25. Definition cSTAR := x2a. Definition cPLUS := x2b.
Definition cMINUS := x2d. Definition cDOT := x2e. Definition cSLASH := x2f. Definition cZERO := x30.
Definition cCOLON := x3a. Definition cSEMI := x3b. Definition cQM := x3f. Definition cAT := x40.
Definition cLBR := x5b. Definition cRBR := x5d. Definition cUNDER := x5f. Definition cV := x76.

Module UrlLit.
Import Strings.String.
Definition B (s : string) : bytes := list_byte_of_string s.
Definition s_http : bytes := Eval compute in B "http"%string.
Definition s_https : bytes := Eval compute in B "https"%string.
Definition s_ace : bytes := Eval compute in B "xn--"%string.
Definition s_Host : bytes := Eval compute in B "Host"%string.
Definition s_host : bytes := Eval compute in B "host"%string.
Definition s_sep : bytes := Eval compute in B "://"%string.
Definition s_comma : bytes := Eval compute in B ", "%string.
Definition uses_params : list bytes := Eval compute in
  map B [""; "ftp"; "hdl"; "prospero"; "http"; "imap"; "https"; "shttp"; "rtsp"; "rtsps"; "rtspu";
         "sip"; "sips"; "mms"; "sftp"; "tel"]%string.
End UrlLit.
Export UrlLit.

Definition is_nil {A} (l : list A) : bool := match l with [] => true | _ => false end.
Definition is_ascii (b : byte) : bool := (bN b <? 128)%N.
Definition all_ascii (s : bytes) : bool := forallb is_ascii s.
Definition mem (c : byte) (s : bytes) : bool := existsb (byte_eqb c) s.
Definition in_list (s : bytes) (l : list bytes) : bool := existsb (bytes_eqb s) l.
Definition is_hex (b : byte) : bool :=
  is_digit b || ((97 <=? bN b) && (bN b <=? 102))%N || ((65 <=? bN b) && (bN b <=? 70))%N.

(* str.partition(c) = (before, found, after); not found = (s, false, []) *)
Fixpoint partition (c : byte) (s : bytes) : bytes * bool * bytes :=
  match s with
  | [] => ([], false, [])
  | x :: t => if byte_eqb x c then ([], true, t)
              else let '(a, f, b) := partition c t in (x :: a, f, b)
  end.

(* str.rpartition(c) = (before, found, after); not found = ([], false, s) *)
Fixpoint rpartition (c : byte) (s : bytes) : bytes * bool * bytes :=
  match s with
  | [] => ([], false, [])
  | x :: t => let '(a, f, b) := rpartition c t in
              if f then (x :: a, true, b)
              else if byte_eqb x c then ([], true, t) else ([], false, x :: b)
  end.

(* str.split(c): always at least one element *)
Fixpoint split (c : byte) (s : bytes) : list bytes :=
  match s with
  | [] => [[]]
  | x :: t => if byte_eqb x c then [] :: split c t
              else match split c t with h :: r => (x :: h) :: r | [] => [[x]] end
  end.

(* maximal prefix whose bytes satisfy p, and the rest *)
Fixpoint span (p : byte -> bool) (s : bytes) : bytes * bytes :=
  match s with
  | [] => ([], [])
  | x :: t => if p x then let '(a, b) := span p t in (x :: a, b) else ([], s)
  end.

Fixpoint ends_with (c : byte) (s : bytes) : bool :=
  match s with [] => false | [x] => byte_eqb x c | _ :: t => ends_with c t end.

Fixpoint contains (p s : bytes) : bool :=
  match s with
  | [] => is_nil p
  | _ :: t => starts_with p s || contains p t
  end.

Fixpoint join (sep : bytes) (l : list bytes) : bytes :=
  match l with [] => [] | [x] => x | x :: r => x ++ sep ++ join sep r end.

Definition dec_value (ds : bytes) : N := fold_left (fun acc d => (acc * 10 + (bN d - 48))%N) ds 0%N.
Definition dec_of_Z (z : Z) : bytes :=
  if (z <? 0)%Z then cMINUS :: dec_of_N (Z.abs_N z) else dec_of_N (Z.to_N z).

(* ---------- ipaddress.ip_address: which class accepts the text ---------- *)
Definition parse_octet_ok (o : bytes) : bool :=
  negb (is_nil o) && forallb is_digit o && (length o <=? 3)%nat
  && negb (match o with x :: _ :: _ => byte_eqb x cZERO | _ => false end)
  && (dec_value o <=? 255)%N.

Definition is_ipv4 (s : bytes) : bool :=
  negb (mem cSLASH s) && negb (is_nil s) &&
  (let os := split cDOT s in (length os =? 4)%nat && forallb parse_octet_ok os).

Definition hextet_ok (h : bytes) : bool :=
  forallb is_hex h && (length h <=? 4)%nat && negb (is_nil h).

(* positions 1 .. len-2 holding an empty part *)
Fixpoint inner_empty (i : nat) (l : list bytes) : list nat :=
  match l with
  | [] | [_] => []
  | x :: r => (if is_nil x then [i] else []) ++ inner_empty (S i) r
  end.

Definition ipv6_parts_ok (parts : list bytes) : bool :=
  let n := length parts in
  if (9 <? n)%nat then false else
  match inner_empty 1 (tl parts) with
  | _ :: _ :: _ => false
  | [i] =>
      let first_empty := is_nil (hd [] parts) in
      let last_empty := is_nil (last parts []) in
      let hi := if first_empty then (i - 1)%nat else i in
      let lo := if last_empty then (n - i - 2)%nat else (n - i - 1)%nat in
      if first_empty && negb (hi =? 0)%nat then false else
      if last_empty && negb (lo =? 0)%nat then false else
      if (8 - (hi + lo) <? 1)%nat then false else
      forallb hextet_ok (firstn hi parts) && forallb hextet_ok (skipn (n - lo) parts)
  | [] =>
      (n =? 8)%nat && negb (is_nil (hd [] parts)) && negb (is_nil (last parts []))
      && forallb hextet_ok parts
  end.

Definition is_ipv6 (s : bytes) : bool :=
  if mem cSLASH s then false else
  let '(addr, sep, scope) := partition cPCT s in
  if sep && (is_nil scope || mem cPCT scope) then false else
  if is_nil addr then false else
  let parts := split cCOLON addr in
  if (length parts <? 3)%nat then false else
  let lst := last parts [] in
  if mem cDOT lst then
    is_ipv4 lst && ipv6_parts_ok (removelast parts ++ [[cZERO]; [cZERO]])
  else ipv6_parts_ok parts.

Definition ip_address_ok (s : bytes) : bool := is_ipv4 s || is_ipv6 s.

(* ---------- encodings.idna (CPython 3.12.1), ASCII paths concrete ---------- *)
Section Codec.
Variable ace : bytes -> option str.
Variable uenc : str -> option bytes.

Definition to_unicode (label : bytes) : option str :=
  if (1024 <? length label)%nat then None
  else if negb (starts_with s_ace label) then (if all_ascii label then Some label else None)
  else ace label.

Fixpoint map_opt {A C} (f : A -> option C) (l : list A) : option (list C) :=
  match l with
  | [] => Some []
  | x :: r => match f x, map_opt f r with Some y, Some ys => Some (y :: ys) | _, _ => None end
  end.

(* bytes.decode(idna) *)
Definition idna_decode (b : bytes) : option str :=
  if is_nil b then Some []
  else if negb (contains s_ace b) && all_ascii b then Some b
  else
    let labels := split cDOT b in
    let '(labels, dot) := if is_nil (last labels [cDOT]) then (removelast labels, [cDOT]) else (labels, []) in
    match map_opt to_unicode labels with
    | Some us => Some (join [cDOT] us ++ dot)
    | None => None
    end.

Definition label_len_ok (labels : list bytes) : bool :=
  forallb (fun l => negb (is_nil l) && (length l <? 64)%nat) (removelast labels)
  && (length (last labels []) <? 64)%nat.

(* str.encode(idna) *)
Definition idna_encode (s : str) : option bytes :=
  if is_nil s then Some []
  else if all_ascii s then (if label_len_ok (split cDOT s) then Some s else None)
  else uenc s.

(* ---------- net/check.py ---------- *)
Definition label_char (b : byte) : bool := is_alpha b || is_digit b || byte_eqb b cMINUS || byte_eqb b cUNDER.

(* _label_valid.match(x): [A-Z\d\-_]{1,63}$ with IGNORECASE; $ also matches before one final newline *)
Definition label_valid (l : bytes) : bool :=
  let '(run, rest) := span label_char l in
  negb (is_nil run) &&
  (if is_nil rest then (length run <=? 63)%nat
   else if bytes_eqb rest [cLF] then (length run <=? 63)%nat
   else false).

Definition is_valid_host_b (hb : bytes) : bool :=
  match idna_decode hb with
  | None => false
  | Some _ =>
    if (255 <? length hb)%nat then false else
    let hb' := if ends_with cDOT hb then removelast hb else hb in
    if forallb label_valid (split cDOT hb') then true
    else match idna_decode hb' with Some s => ip_address_ok s | None => false end
  end.

Definition is_valid_host_s (h : str) : bool :=
  match idna_encode h with None => false | Some hb => is_valid_host_b hb end.

Definition is_valid_port (p : Z) : bool := (0 <=? p)%Z && (p <=? 65535)%Z.

(* ---------- urllib.parse (ASCII str input) ---------- *)
Definition c0_or_space (b : byte) : bool := (bN b <=? 32)%N.
Fixpoint lstrip_c0 (s : bytes) : bytes :=
  match s with x :: t => if c0_or_space x then lstrip_c0 t else s | [] => [] end.
Definition unsafe (b : byte) : bool := byte_eqb b cTAB || byte_eqb b cCR || byte_eqb b cLF.
Definition remove_unsafe (s : bytes) : bytes := filter (fun b => negb (unsafe b)) s.
Definition scheme_char (b : byte) : bool :=
  is_alpha b || is_digit b || byte_eqb b cPLUS || byte_eqb b cMINUS || byte_eqb b cDOT.
Definition is_delim (b : byte) : bool := byte_eqb b cSLASH || byte_eqb b cQM || byte_eqb b cHASH.

Definition split_scheme (url : bytes) : bytes * bytes :=
  let '(pre, found, post) := partition cCOLON url in
  match pre with
  | c :: _ => if found && is_alpha c && forallb scheme_char pre then (lower pre, post) else ([], url)
  | [] => ([], url)
  end.

(* _check_bracketed_host: true = accepted *)
Definition check_bracketed_host (h : bytes) : bool :=
  if starts_with [cV] h then
    let '(hexs, rest) := span is_hex (tl h) in
    negb (is_nil hexs) &&
    match rest with c :: r => byte_eqb c cDOT && negb (is_nil r) && negb (mem cLF r) | [] => false end
  else if is_ipv4 h then false else is_ipv6 h.

Definition bracketed_host (netloc : bytes) : bytes :=
  fst (fst (partition cRBR (snd (partition cLBR netloc)))).

Definition netloc_ok (netloc : bytes) : bool :=
  let ob := mem cLBR netloc in let cb := mem cRBR netloc in
  if xorb ob cb then false
  else if ob then check_bracketed_host (bracketed_host netloc) else true.

(* fragment and query split of the rest *)
Definition split_fq (url : bytes) : bytes * bytes * bytes :=
  let '(url1, _, fragment) := partition cHASH url in
  let '(url2, _, query) := partition cQM url1 in
  (url2, query, fragment).

(* urlsplit after the scheme has been taken off *)
Definition urlsplit_rest (scheme url : bytes) : option (bytes * bytes * bytes * bytes * bytes) :=
  if starts_with [cSLASH; cSLASH] url then
    let '(netloc, rest') := span (fun b => negb (is_delim b)) (skipn 2 url) in
    if netloc_ok netloc then
      let '(p, q, f) := split_fq rest' in Some (scheme, netloc, p, q, f)
    else None
  else let '(p, q, f) := split_fq url in Some (scheme, [], p, q, f).

(* urlsplit: None = ValueError; result (scheme, netloc, path, query, fragment) *)
Definition urlsplit (url0 : bytes) : option (bytes * bytes * bytes * bytes * bytes) :=
  let '(scheme, url) := split_scheme (remove_unsafe (lstrip_c0 url0)) in
  urlsplit_rest scheme url.

Definition splitparams (url : bytes) : bytes * bytes :=
  if mem cSLASH url then
    let '(a, _, seg) := rpartition cSLASH url in      (* seg = text after the last slash *)
    let '(s1, found, params) := partition cSEMI seg in
    if found then (a ++ cSLASH :: s1, params) else (url, [])
  else
    let '(s1, _, params) := partition cSEMI url in (s1, params).

(* the params split of urlparse *)
Definition split_params_of (scheme url : bytes) : bytes * bytes :=
  if in_list scheme uses_params && mem cSEMI url then splitparams url else (url, []).

Definition urlparse (url0 : bytes)
  : option (bytes * bytes * bytes * bytes * bytes * bytes) :=
  match urlsplit url0 with
  | None => None
  | Some (scheme, netloc, url, query, fragment) =>
      let '(path, params) := split_params_of scheme url in
      Some (scheme, netloc, path, params, query, fragment)
  end.

(* _hostinfo: raw hostname and port text *)
Definition hostinfo (netloc : bytes) : bytes * option bytes :=
  let '(_, _, hi) := rpartition cAT netloc in
  let '(_, have_open, bracketed) := partition cLBR hi in
  let '(hn, port) :=
    if have_open then
      let '(hn, _, p) := partition cRBR bracketed in
      let '(_, _, p') := partition cCOLON p in (hn, p')
    else
      let '(hn, _, p) := partition cCOLON hi in (hn, p) in
  (hn, if is_nil port then None else Some port).

Definition hostname (netloc : bytes) : option bytes :=
  let h := fst (hostinfo netloc) in
  if is_nil h then None else
  let '(a, pc, zone) := partition cPCT h in
  Some (lower a ++ (if pc then cPCT :: zone else [])).

(* .port: None = ValueError, Some None = no port *)
Definition port_of (netloc : bytes) : option (option N) :=
  match snd (hostinfo netloc) with
  | None => Some None
  | Some p => if forallb is_digit p then
                (if (dec_value p <=? 65535)%N then Some (Some (dec_value p)) else None)
              else None
  end.

(* urlunparse((empty, empty, path, params, query, fragment)) *)
Definition unparse_path (path params query fragment : bytes) : bytes :=
  let u := if is_nil params then path else path ++ cSEMI :: params in
  let u := if is_nil query then u else u ++ cQM :: query in
  if is_nil fragment then u else u ++ cHASH :: fragment.

(* ---------- net/http/url.py ---------- *)
(* url.parse on a str: None = ValueError *)
Definition parse (u : str) : option (bytes * bytes * Z * bytes) :=
  if negb (all_ascii u) then None else
  match urlparse u with
  | None => None
  | Some (scheme, netloc, path, params, query, fragment) =>
    match hostname netloc with
    | None => None
    | Some hn =>
      match idna_encode hn with
      | None => None
      | Some host =>
        match port_of netloc with
        | None => None
        | Some po =>
          let defp := if bytes_eqb scheme s_https then 443%N else 80%N in
          let port := match po with Some p => if (p =? 0)%N then defp else p | None => defp end in
          let full := unparse_path path params query fragment in
          let full := if starts_with [cSLASH] full then full else cSLASH :: full in
          if is_valid_host_b host then Some (scheme, host, Z.of_N port, full) else None
        end
      end
    end
  end.

Definition default_port (scheme : bytes) : option Z :=
  if bytes_eqb scheme s_http then Some 80%Z
  else if bytes_eqb scheme s_https then Some 443%Z else None.

(* with fixes/C33-hostport-brackets-ipv6.diff *)
Definition bracket (host : bytes) : bytes :=
  if mem cCOLON host && negb (starts_with [cLBR] host) then cLBR :: host ++ [cRBR] else host.

Definition hostport (scheme host : bytes) (port : Z) : bytes :=
  let host := bracket host in
  match default_port scheme with
  | Some d => if (d =? port)%Z then host else host ++ cCOLON :: dec_of_Z port
  | None => host ++ cCOLON :: dec_of_Z port
  end.

Definition unparse (scheme host : bytes) (port : Z) (path : bytes) : bytes :=
  scheme ++ s_sep ++ hostport scheme host port ++ path.

(* tail of _authority_re after the host group: optional :digits, then $ *)
Definition match_tail (t : bytes) : option (option bytes) :=
  let strip_nl (x : bytes) := if bytes_eqb x [cLF] then [] else x in
  match t with
  | [] => Some None
  | c :: r =>
      if bytes_eqb t [cLF] then Some None
      else if byte_eqb c cCOLON then
        let '(ds, rest) := span is_digit r in
        if negb (is_nil ds) && is_nil (strip_nl rest) then Some (Some ds) else None
      else None
  end.

(* _authority_re.match on an ASCII str: (host group, port group) *)
Definition authority_match (a : bytes) : option (bytes * option bytes) :=
  let '(run, rem) := span (fun b => negb (byte_eqb b cCOLON)) a in
  let alt1 := if is_nil run then None
              else match match_tail rem with Some p => Some (run, p) | None => None end in
  match alt1 with
  | Some r => Some r
  | None =>
    match a with
    | c :: rest =>
        if byte_eqb c cLBR then
          let '(body, found, tail) := rpartition cRBR rest in
          if found && negb (is_nil body) && negb (mem cLF body) then
            match match_tail tail with
            | Some p => Some (cLBR :: body ++ [cRBR], p)
            | None => None
            end
          else None
        else None
    | [] => None
    end
  end.

Inductive pa_result :=
| PA_ok (host : str) (port : option Z)
| PA_err                                   (* ValueError with check=True *)
| PA_unmodelled.                           (* non-ASCII authority: regex over Unicode not modelled *)

(* parse_authority(authority: str, check=True) *)
Definition parse_authority (a : str) : pa_result :=
  if negb (all_ascii a) then PA_unmodelled else
  match authority_match a with
  | None => PA_err
  | Some (h, p) =>
    let h := if starts_with [cLBR] h && ends_with cRBR h then removelast (tl h) else h in
    if negb (is_valid_host_s h) then PA_err else
    match p with
    | Some ds => let v := Z.of_N (dec_value ds) in
                 if is_valid_port v then PA_ok h (Some v) else PA_err
    | None => PA_ok h None
    end
  end.

(* ---------- mitmproxy/http.py Request ---------- *)
Record request := mkReq {
  r_scheme : bytes; r_host : str; r_port : Z; r_path : bytes; r_authority : bytes;
  r_headers : list (bytes * bytes);
  r_h2 : bool;         (* is_http2 or is_http3 *)
  r_connect : bool     (* method.upper() == CONNECT *)
}.

Definition key_is (k : bytes) (f : bytes * bytes) : bool := bytes_eqb (lower (fst f)) (lower k).
Definition has_header (k : bytes) (h : list (bytes * bytes)) : bool := existsb (key_is k) h.

(* MultiDict.set_all(k, [v]) *)
Fixpoint set_header_go (k v : bytes) (placed : bool) (h : list (bytes * bytes)) : list (bytes * bytes) * bool :=
  match h with
  | [] => ([], placed)
  | f :: r =>
      if key_is k f then
        if placed then set_header_go k v true r
        else let '(r', _) := set_header_go k v true r in ((fst f, v) :: r', true)
      else let '(r', p) := set_header_go k v placed r in (f :: r', p)
  end.
Definition set_header (k v : bytes) (h : list (bytes * bytes)) : list (bytes * bytes) :=
  let '(h', placed) := set_header_go k v false h in
  if placed then h' else h' ++ [(k, v)].

Definition get_all (k : bytes) (h : list (bytes * bytes)) : list bytes :=
  map snd (filter (key_is k) h).
(* Headers.get(k, None): folded with comma-space *)
Definition get_header (k : bytes) (h : list (bytes * bytes)) : option bytes :=
  match get_all k h with [] => None | vs => Some (join s_comma vs) end.

Definition with_host (r : request) (h : str) : request :=
  mkReq (r_scheme r) h (r_port r) (r_path r) (r_authority r) (r_headers r) (r_h2 r) (r_connect r).
Definition with_port (r : request) (p : Z) : request :=
  mkReq (r_scheme r) (r_host r) p (r_path r) (r_authority r) (r_headers r) (r_h2 r) (r_connect r).
Definition with_scheme (r : request) (s : bytes) : request :=
  mkReq s (r_host r) (r_port r) (r_path r) (r_authority r) (r_headers r) (r_h2 r) (r_connect r).
Definition with_path (r : request) (p : bytes) : request :=
  mkReq (r_scheme r) (r_host r) (r_port r) p (r_authority r) (r_headers r) (r_h2 r) (r_connect r).
Definition with_authority (r : request) (a : bytes) : request :=
  mkReq (r_scheme r) (r_host r) (r_port r) (r_path r) a (r_headers r) (r_h2 r) (r_connect r).
Definition with_headers (r : request) (h : list (bytes * bytes)) : request :=
  mkReq (r_scheme r) (r_host r) (r_port r) (r_path r) (r_authority r) h (r_h2 r) (r_connect r).

(* authority setter with a str value *)
Definition encode_authority (v : str) : bytes :=
  match idna_encode v with Some b => b | None => v end.

Definition update_host_and_authority (r : request) : request :=
  let v := hostport (r_scheme r) (r_host r) (r_port r) in
  let r1 := if has_header s_Host (r_headers r) then with_headers r (set_header s_Host v (r_headers r)) else r in
  if is_nil (r_authority r1) then r1 else with_authority r1 (encode_authority v).

(* host setter, str value *)
Definition set_host (r : request) (h : str) : request := update_host_and_authority (with_host r h).
(* host setter, bytes value: always_str(val, idna, strict); false = UnicodeError, nothing assigned *)
Definition set_host_bytes (r : request) (hb : bytes) : request * bool :=
  match idna_decode hb with
  | Some h => (set_host r h, true)
  | None => (r, false)
  end.
Definition set_port (r : request) (p : Z) : request := update_host_and_authority (with_port r p).

(* url setter: false = ValueError *)
Definition set_url (r : request) (u : str) : request * bool :=
  match parse u with
  | None => (r, false)
  | Some (s, hb, p, pa) =>
      let r1 := with_scheme r s in
      match set_host_bytes r1 hb with
      | (r2, false) => (r2, false)
      | (r2, true) => (with_path (set_port r2 p) pa, true)
      end
  end.

(* url getter *)
Definition get_url (r : request) : str :=
  if r_connect r then r_host r ++ cCOLON :: dec_of_Z (r_port r)
  else
    let path := if bytes_eqb (r_path r) [cSTAR] then [] else r_path r in
    unparse (r_scheme r) (r_host r) (r_port r) path.

(* authority getter *)
Definition get_authority (r : request) : str :=
  match idna_decode (r_authority r) with Some s => s | None => r_authority r end.

(* host_header getter *)
Definition host_header (r : request) : option str :=
  if r_h2 r then
    let a := get_authority r in
    if is_nil a then get_header s_Host (r_headers r) else Some a
  else get_header s_Host (r_headers r).

(* executable form of the host condition under which a URL that was read back can be assigned again
   (Proofs/UrlNormal.v: host_wf); the correspondence evaluates it on every accepted URL *)
Definition host_char_b (b : byte) : bool :=
  negb (is_delim b) && negb (unsafe b) && is_ascii b && negb (byte_eqb b cAT) && negb (byte_eqb b cRBR).
Definition host_wf_b (h : bytes) : bool :=
  negb (is_nil h) && forallb host_char_b h
  && (if mem cCOLON h then negb (starts_with [cLBR] h) && check_bracketed_host h else negb (mem cLBR h))
  && bytes_eqb (lower (fst (fst (partition cPCT h)))) (fst (fst (partition cPCT h)))
  && label_len_ok (split cDOT h) && is_valid_host_b h.

(* ---------- edit histories ---------- *)
Inductive op :=
| SetUrl (u : str)
| SetHost (h : str)
| SetHostB (h : bytes)
| SetPort (p : Z).

Definition step (r : request) (o : op) : request * bool :=
  match o with
  | SetUrl u => set_url r u
  | SetHost h => (set_host r h, true)
  | SetHostB h => set_host_bytes r h
  | SetPort p => (set_port r p, true)
  end.

Definition run (r : request) (ops : list op) : request :=
  fold_left (fun r o => fst (step r o)) ops r.

End Codec.
