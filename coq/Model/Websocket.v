(* Model/Websocket.v -- mitmproxy/proxy/layers/websocket.py: Fragmentizer and
   WebsocketLayer.relay_messages / done.  Executable definitions only.

   wsproto is a contract: the events it yields for received data are INPUT (each paired with the
   state of the source connection right after the event was yielded); the events handed to
   WebsocketConnection.send2 are OUTPUT.  FRAGMENT_SIZE is a parameter (it is a class attribute
   that addons are told to monkeypatch).  The addon is a function from the message list (the new
   message last) to the new content and dropped flag of that message. *)
From Coq Require Import List Bool Arith NArith.
From MV Require Import Base.Bytes Model.WsUtf8.
Import ListNotations.

Inductive wsstate := OPEN | REMOTE_CLOSING | LOCAL_CLOSING | CLOSED.

Inductive wsevent :=
| WText (data : str) (frame_finished message_finished : bool)
| WBytes (data : bytes) (frame_finished message_finished : bool)
| WPing (payload : bytes)
| WPong (payload : bytes)
| WClose (code : N) (reason : option str).

(* ------------------------------------------------------------------ Fragmentizer *)

(* Fragmentizer.msg *)
Definition msg (is_text : bool) (data : bytes) (message_finished : bool) : wsevent :=
  if is_text then WText (decode_replace data) true message_finished
  else WBytes data true message_finished.

(* first branch of __call__: for fl in lens[:-1]: content[offset:offset+fl] ... then content[offset:] *)
Fixpoint reuse (lens : list nat) (content : bytes) : list (bytes * bool) :=
  match lens with
  | [] => [(content, true)]
  | l :: rest =>
    match rest with
    | [] => [(content, true)]
    | _ :: _ => (firstn l content, false) :: reuse rest (skipn l content)
    end
  end.

(* second branch: while offset < len(content) - FRAGMENT_SIZE (c is content[offset:]);
   None = out of fuel (FRAGMENT_SIZE = 0 loops forever in Python) *)
Fixpoint rechunk (fuel fs : nat) (c : bytes) : option (list (bytes * bool)) :=
  match fuel with
  | O => None
  | S f =>
    if fs <? length c
    then option_map (cons (firstn fs c, false)) (rechunk f fs (skipn fs c))
    else Some [(c, true)]
  end.

Definition sum_nat (l : list nat) : nat := fold_right Nat.add 0 l.

(* Fragmentizer(fragments, _).__call__(content) as raw slices; lens = [len(x) for x in fragments] *)
Definition fragments (fs : nat) (lens : list nat) (content : bytes) : option (list (bytes * bool)) :=
  if length content =? sum_nat lens then Some (reuse lens content)
  else rechunk (S (length content)) fs content.

Definition fragmentize (fs : nat) (lens : list nat) (is_text : bool) (content : bytes) : option (list wsevent) :=
  option_map (map (fun df => msg is_text (fst df) (snd df))) (fragments fs lens content).

(* what wsproto puts on the wire for a Message event (contract: str is encoded as UTF-8) *)
Definition payload_as_sent (is_text : bool) (frag : bytes) : bytes :=
  if is_text then encode (decode_replace frag) else frag.

(* ------------------------------------------------------------------ layer state *)

Record wsmessage := mkMsg {
  m_text : bool; m_from_client : bool; m_content : bytes; m_dropped : bool; m_injected : bool;
  m_lens : list nat;  (* ghost: fragment_lengths of the Fragmentizer created for this message *)
  m_orig : bytes      (* ghost: the content when the message hook fired, before addons edited it *)
}.

(* frame_buf is the non-empty list fb_done ++ [fb_cur] *)
Record conn := mkConn { fb_done : list bytes; fb_cur : bytes; cstate : wsstate }.

Inductive pyexc := LocalProtocolError | Hang.

Record lstate := mkL {
  client_ws : conn; server_ws : conn;
  messages : list wsmessage;
  closed : option (bool * N * option str);   (* closed_by_client, close_code, close_reason *)
  finished : bool;                            (* _handle_event = done *)
  crashed : option pyexc
}.

Definition init_conn : conn := mkConn [] [] OPEN.
Definition init : lstate := mkL init_conn init_conn [] None false None.

Inductive cmd :=
| CSend (to_client : bool) (e : wsevent)   (* SendData produced by ws.send2(e) *)
| CCloseConn (client : bool)
| CMsgHook | CEndHook | CLog.

Definition addon_t := list wsmessage -> bytes * bool.

Definition get_ws (client : bool) (s : lstate) : conn := if client then client_ws s else server_ws s.
Definition set_ws (client : bool) (c : conn) (s : lstate) : lstate :=
  if client then mkL c (server_ws s) (messages s) (closed s) (finished s) (crashed s)
  else mkL (client_ws s) c (messages s) (closed s) (finished s) (crashed s).
Definition set_messages (m : list wsmessage) (s : lstate) : lstate :=
  mkL (client_ws s) (server_ws s) m (closed s) (finished s) (crashed s).
Definition set_closed (c : bool * N * option str) (s : lstate) : lstate :=
  mkL (client_ws s) (server_ws s) (messages s) (Some c) (finished s) (crashed s).
Definition set_finished (s : lstate) : lstate :=
  mkL (client_ws s) (server_ws s) (messages s) (closed s) true (crashed s).
Definition set_crashed (e : pyexc) (s : lstate) : lstate :=
  mkL (client_ws s) (server_ws s) (messages s) (closed s) (finished s) (Some e).
Definition is_crashed (s : lstate) : bool := match crashed s with Some _ => true | None => false end.

(* wsproto Connection.send: state check and transition; None = LocalProtocolError *)
Definition ws_send (c : conn) (e : wsevent) : option conn :=
  match e with
  | WClose _ _ =>
    match cstate c with
    | OPEN => Some (mkConn (fb_done c) (fb_cur c) LOCAL_CLOSING)
    | REMOTE_CLOSING => Some (mkConn (fb_done c) (fb_cur c) CLOSED)
    | _ => None
    end
  | _ => match cstate c with OPEN => Some c | _ => None end
  end.

(* yield ws.send2(e) *)
Definition send2 (to_client : bool) (e : wsevent) (s : lstate) : lstate * list cmd :=
  if is_crashed s then (s, [])
  else match ws_send (get_ws to_client s) e with
       | Some c' => (set_ws to_client c' s, [CSend to_client e])
       | None => (set_crashed LocalProtocolError s, [])
       end.

Fixpoint send_all (to_client : bool) (es : list wsevent) (s : lstate) : lstate * list cmd :=
  match es with
  | [] => (s, [])
  | e :: es' =>
    let (s1, c1) := send2 to_client e s in
    let (s2, c2) := send_all to_client es' s1 in
    (s2, c1 ++ c2)
  end.

Definition sendable (st : wsstate) : bool :=
  match st with OPEN | REMOTE_CLOSING => true | _ => false end.

(* for ws in [self.server_ws, self.client_ws]: if ws.state in {OPEN, REMOTE_CLOSING}: yield ws.send2(ev); yield CloseConnection *)
Definition close_one (client : bool) (ev : wsevent) (s : lstate) : lstate * list cmd :=
  if sendable (cstate (get_ws client s))
  then let (s1, c1) := send2 client ev s in (s1, c1 ++ [CCloseConn client])
  else (s, [CCloseConn client]).

(* the Message branch of the event loop *)
Definition on_message (fs : nat) (addon : addon_t) (from_client injected : bool)
           (is_text : bool) (data : bytes) (ff mf : bool) (s : lstate) : lstate * list cmd :=
  let src := get_ws from_client s in
  let cur := fb_cur src ++ data in                                  (* frame_buf[-1] += data *)
  if mf then
    let bufs := fb_done src ++ [cur] in
    let content := concat bufs in
    let lens := map (@length byte) bufs in                          (* Fragmentizer(src_ws.frame_buf, is_text) *)
    let s1 := set_ws from_client (mkConn [] [] (cstate src)) s in   (* frame_buf = [b""] *)
    let m := mkMsg is_text from_client content false injected lens content in
    let (content', dropped') := addon (messages s1 ++ [m]) in       (* the hook: addons edit the message *)
    let m' := mkMsg is_text from_client content' dropped' injected lens content in
    let s2 := set_messages (messages s1 ++ [m']) s1 in
    if dropped' then (s2, [CMsgHook])
    else match fragmentize fs lens is_text content' with
         | None => (set_crashed Hang s2, [CMsgHook])
         | Some es => let (s3, c3) := send_all (negb from_client) es s2 in (s3, CMsgHook :: c3)
         end
  else if ff then
    (set_ws from_client (mkConn (fb_done src ++ [cur]) [] (cstate src)) s, [])   (* frame_buf.append(b"") *)
  else
    (set_ws from_client (mkConn (fb_done src) cur (cstate src)) s, []).

Definition set_cstate (st : wsstate) (c : conn) : conn := mkConn (fb_done c) (fb_cur c) st.

(* one iteration of: for ws_event in src_ws.events(); st = src_ws.state once the event has been yielded *)
Definition process_event (fs : nat) (addon : addon_t) (from_client injected : bool)
           (s : lstate) (evst : wsevent * wsstate) : lstate * list cmd :=
  if is_crashed s then (s, []) else
  let (ev, st) := evst in
  let s := set_ws from_client (set_cstate st (get_ws from_client s)) s in
  match ev with
  | WText d ff mf => on_message fs addon from_client injected true (encode d) ff mf s
  | WBytes d ff mf => on_message fs addon from_client injected false d ff mf s
  | WPing _ | WPong _ =>
    let (s1, c1) := send2 (negb from_client) ev s in (s1, CLog :: c1)
  | WClose code reason =>
    let s0 := set_closed (from_client, code, reason) s in
    let (s1, c1) := close_one false ev s0 in
    let (s2, c2) := close_one true ev s1 in
    (set_finished s2, c1 ++ c2 ++ [CEndHook])
  end.

Fixpoint process_events (fs : nat) (addon : addon_t) (from_client injected : bool)
         (s : lstate) (evs : list (wsevent * wsstate)) : lstate * list cmd :=
  match evs with
  | [] => (s, [])
  | e :: evs' =>
    let (s1, c1) := process_event fs addon from_client injected s e in
    let (s2, c2) := process_events fs addon from_client injected s1 evs' in
    (s2, c1 ++ c2)
  end.

(* events the layer handles after start *)
Inductive levent :=
| LData (from_client : bool) (evs : list (wsevent * wsstate))   (* DataReceived; evs = what src_ws.events() yields *)
| LClosed (from_client : bool)                                  (* ConnectionClosed: receive_data(None) *)
| LInject (from_client is_text : bool) (content : bytes).       (* WebSocketMessageInjected *)

(* relay_messages, or done once the connection has been closed *)
Definition handle_event (fs : nat) (addon : addon_t) (s : lstate) (e : levent) : lstate * list cmd :=
  if finished s || is_crashed s then (s, [])
  else match e with
       | LData fc evs => process_events fs addon fc false s evs
       | LClosed fc => process_events fs addon fc false s [(WClose 1006 None, CLOSED)]
       | LInject fc is_text content =>
         match fragmentize fs [] is_text content with          (* src_ws._events.extend(Fragmentizer([], is_text)(content)) *)
         | None => (set_crashed Hang s, [])
         | Some es => process_events fs addon fc true s (map (fun e => (e, cstate (get_ws fc s))) es)
         end
       end.

Fixpoint run (fs : nat) (addon : addon_t) (s : lstate) (evs : list levent) : lstate * list cmd :=
  match evs with
  | [] => (s, [])
  | e :: evs' =>
    let (s1, c1) := handle_event fs addon s e in
    let (s2, c2) := run fs addon s1 evs' in
    (s2, c1 ++ c2)
  end.
