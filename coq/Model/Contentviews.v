(* Model/Contentviews.v -- mitmproxy/contentviews/__init__.py (prettify_message),
   _registry.py (ContentviewRegistry.register / __getitem__ / get_view), _view_raw.py
   (bytes.decode(utf-8, backslashreplace)) and the final filter
   utils/strutils.py escape_control_characters(text) (keep_spacing defaults to True).

   A str is a list of code points (N).  A content view is an ARBITRARY pair of partial
   functions (render_priority: None = raised or did not return a number; prettify: inr err =
   raised, err being the formatted exception text that prettify_message would display).
   Metadata is an abstract type M.  Priorities are integers: get_view only compares them
   with <, so any order-preserving image of the Python numbers is exact (NaN excluded).
   The flag c1 says whether the live escape_control_characters also replaces U+0080-U+009F
   (it does not on the unchanged tree; the harness reads it from the real function).
   Executable definitions only. *)
From Coq Require Import List Bool NArith ZArith.
From MV Require Import Base.Bytes Model.Strutils Model.WsUtf8.
Import ListNotations.
Local Open Scope N_scope.

Definition text := list N.

Fixpoint text_eqb (a b : text) : bool :=
  match a, b with
  | [], [] => true
  | x :: a', y :: b' => (x =? y) && text_eqb a' b'
  | _, _ => false
  end.

Definition T (s : bytes) : text := map bN s.   (* an ASCII literal as a str *)

(* str.lower() restricted to ASCII (view names outside ASCII are outside the model) *)
Definition lower_cp (c : N) : N := if (65 <=? c) && (c <=? 90) then c + 32 else c.
Definition lower_text (t : text) : text := map lower_cp t.

(* ---------- strutils.escape_control_characters(text, keep_spacing=True) ---------- *)
Definition is_c1 (n : N) : bool := (128 <=? n) && (n <=? 159).
Definition replaced (c1 : bool) (c : N) : bool :=
  (is_c0_or_del c && negb (is_spacing c)) || (c1 && is_c1 c).
Definition ecc (c1 : bool) (t : text) : text :=
  map (fun c => if replaced c1 c then 46 else c) t.

(* ---------- _view_raw.py: data.decode(utf-8, backslashreplace) ----------
   Every byte that is not part of a well-formed UTF-8 sequence becomes the four characters
   backslash x h h (lower-case hex); CPython reports the maximal invalid subpart as one error
   range and the handler escapes each byte of it, then decoding resumes at the offending
   byte, which yields the same text as escaping the first byte and resuming right after it
   (the skipped bytes are continuation bytes, never valid start bytes). *)
Definition bsr (b : byte) : text :=
  [92; 120; bN (hexdigit (bN b / 16)); bN (hexdigit (bN b mod 16))].

Fixpoint decode_bsr (s : bytes) : text :=
  match s with
  | [] => []
  | b0 :: r0 =>
    if bN b0 <? 128 then bN b0 :: decode_bsr r0
    else if bN b0 <? 194 then bsr b0 ++ decode_bsr r0
    else if bN b0 <? 224 then
      match r0 with
      | b1 :: r1 => if is_cont b1 then cp2 b0 b1 :: decode_bsr r1 else bsr b0 ++ decode_bsr r0
      | [] => bsr b0
      end
    else if bN b0 <? 240 then
      match r0 with
      | b1 :: b2 :: r2 =>
          if second_ok b0 b1 && is_cont b2 then cp3 b0 b1 b2 :: decode_bsr r2
          else bsr b0 ++ decode_bsr r0
      | _ => bsr b0 ++ decode_bsr r0
      end
    else if bN b0 <? 245 then
      match r0 with
      | b1 :: b2 :: b3 :: r3 =>
          if second_ok b0 b1 && is_cont b2 && is_cont b3 then cp4 b0 b1 b2 b3 :: decode_bsr r3
          else bsr b0 ++ decode_bsr r0
      | _ => bsr b0 ++ decode_bsr r0
      end
    else bsr b0 ++ decode_bsr r0
  end.

(* ---------- string constants ---------- *)
Definition AUTO : text := T [x61; x75; x74; x6f].
Definition S_ERROR : text := T [x65; x72; x72; x6f; x72].
Definition S_NONE : text := T [x6e; x6f; x6e; x65].
Definition RAW_NAME : text := T [x52; x61; x77].
(* Content is missing. *)
Definition CONTENT_MISSING : text :=
  T [x43; x6f; x6e; x74; x65; x6e; x74; x20; x69; x73; x20; x6d; x69; x73; x73; x69; x6e; x67; x2e].
(* [failed to parse as  *)
Definition FAILED_PREFIX : text :=
  T [x5b; x66; x61; x69; x6c; x65; x64; x20; x74; x6f; x20; x70; x61; x72; x73; x65; x20; x61; x73; x20].
(* Couldn't parse as  (with an apostrophe) *)
Definition COULDNT_PREFIX : text :=
  T [x43; x6f; x75; x6c; x64; x6e; x27; x74; x20; x70; x61; x72; x73; x65; x20; x61; x73; x20].

Section Views.
Variable M : Type.   (* contentviews.Metadata *)

Record view := mkView {
  v_name : text;                                  (* Contentview.name *)
  v_syntax : text;                                (* Contentview.syntax_highlight *)
  v_prio : bytes -> M -> option Z;                (* render_priority; None = raised / not a number *)
  v_prettify : bytes -> M -> text + text          (* prettify; inr = raised (formatted exception) *)
}.

Definition v_key (v : view) : text := lower_text (v_name v).

(* ContentviewRegistry: the dict _by_name in insertion order *)
Definition registry := list view.

(* register: self._by_name[name] = instance (an existing key keeps its position) *)
Fixpoint register (reg : registry) (v : view) : registry :=
  match reg with
  | [] => [v]
  | w :: r => if text_eqb (v_key w) (v_key v) then v :: r else w :: register r v
  end.

(* __getitem__: self._by_name[item.lower()]; None = KeyError *)
Fixpoint getitem (reg : registry) (item : text) : option view :=
  match reg with
  | [] => None
  | w :: r => if text_eqb (v_key w) (lower_text item) then Some w else getitem r item
  end.

(* the max_prio loop of get_view *)
Fixpoint best (reg : registry) (d : bytes) (m : M) (cur : option (Z * view)) : option (Z * view) :=
  match reg with
  | [] => cur
  | v :: r =>
      match v_prio v d m with
      | None => best r d m cur                               (* logger.exception, continue *)
      | Some p =>
          match cur with
          | None => best r d m (Some (p, v))
          | Some (q, _) => if (q <? p)%Z then best r d m (Some (p, v)) else best r d m cur
          end
      end
  end.

(* get_view; None = AssertionError (no view has a working render_priority) *)
Definition get_view (reg : registry) (d : bytes) (m : M) (view_name : text) : option view :=
  match (if text_eqb view_name AUTO then None else getitem reg (lower_text view_name)) with
  | Some v => Some v
  | None => option_map snd (best reg d m None)
  end.

Record result := mkRes {
  r_text : text; r_syntax : text; r_view_name : option text; r_description : text }.

Definition set_text (r : result) (t : text) : result :=
  mkRes t (r_syntax r) (r_view_name r) (r_description r).

(* prettify_message after get_data / make_metadata: data = None is message.content is None,
   enc is the description computed by get_data.  rawv is the module-level raw view used by
   the fallback (not looked up in the registry).  None = an exception leaves prettify_message. *)
Definition prettify_message (c1 : bool) (rawv : view) (reg : registry)
    (data : option bytes) (enc : text) (m : M) (view_name : text) : option result :=
  match data with
  | None => Some (mkRes CONTENT_MISSING S_ERROR None [])
  | Some d =>
    match get_view reg d m view_name with
    | None => None
    | Some v =>
      let ret :=
        match v_prettify v d m with
        | inl t => Some (mkRes t (v_syntax v) (Some (v_name v)) enc)
        | inr err =>
            if text_eqb view_name AUTO then
              match v_prettify rawv d m with
              | inl t => Some (mkRes t (v_syntax rawv) (Some (v_name rawv))
                                 (enc ++ FAILED_PREFIX ++ v_name v ++ [93]))
              | inr _ => None
              end
            else
              Some (mkRes (COULDNT_PREFIX ++ v_name v ++ [58; 10] ++ err) S_ERROR (Some (v_name v)) enc)
        end in
      match ret with
      | Some r => Some (set_text r (ecc c1 (r_text r)))
      | None => None
      end
    end
  end.

(* the module-level raw view (its priority is the constant 0.1; only its order matters) *)
Definition raw_view (p : Z) : view :=
  mkView RAW_NAME S_NONE (fun _ _ => Some p) (fun d _ => inl (decode_bsr d)).

End Views.

Arguments mkView {M}. Arguments v_name {M}. Arguments v_syntax {M}. Arguments v_prio {M}.
Arguments v_prettify {M}. Arguments v_key {M}. Arguments register {M}. Arguments getitem {M}.
Arguments best {M}. Arguments get_view {M}. Arguments prettify_message {M}. Arguments raw_view {M}.
