(* Model/SelfConnectBase.v -- run-time vocabulary of the generated model Gen/SelfConnect.v (C23):
   host names as UTF-8 byte strings (Python str equality = byte-wise equality of the encodings),
   ports as N, transport protocols as the three values of mode_specs (tcp / udp / both).
   Executable definitions only. *)
From Coq Require Import NArith List Bool.
From MV Require Import Base.Bytes.
Import ListNotations.

Inductive transport := TCP | UDP | BOTH.

Definition transport_eqb (a b : transport) : bool :=
  match a, b with TCP, TCP | UDP, UDP | BOTH, BOTH => true | _, _ => false end.

(* Python: x in (e1, ..., en)  -- identity-or-equality against each element in order *)
Definition in_tuple {A : Type} (eqb : A -> A -> bool) (x : A) (t : list A) : bool := existsb (eqb x) t.

Record server := { mode_transport : transport; listen_addrs : list (bytes * N) }.
