(* Model/AlpnPrelude.v — the fixed Python-semantics primitives that the translated
   Gen/AlpnSelect.v (written by harness/translators/alpn_select.py) is expressed in.
   Executable definitions only. *)
From Coq Require Import List Bool.
From MV Require Import Base.Bytes.
Import ListNotations.

(* What the ALPN select callback hands back to pyOpenSSL: a protocol, the
   SSL.NO_OVERLAPPING_PROTOCOLS sentinel, or (falling off the end / returning an
   Optional that is None) Python None, which pyOpenSSL would reject. *)
Inductive result :=
| Sel (p : bytes)
| NO_OVERLAPPING_PROTOCOLS
| RetNone.

Definition result_eqb (a b : result) : bool :=
  match a, b with
  | Sel x, Sel y => bytes_eqb x y
  | NO_OVERLAPPING_PROTOCOLS, NO_OVERLAPPING_PROTOCOLS => true
  | RetNone, RetNone => true
  | _, _ => false
  end.

(* x in seq, for a bytes x and a list/tuple of bytes *)
Definition py_in (x : bytes) (l : list bytes) : bool := existsb (bytes_eqb x) l.

(* o in seq for an Optional[bytes] o: None is never a member of a list of bytes *)
Definition py_in_opt (o : option bytes) (l : list bytes) : bool :=
  match o with Some x => py_in x l | None => false end.

(* truthiness of bytes / Optional[bytes] *)
Definition py_truthy_bytes (b : bytes) : bool := match b with [] => false | _ :: _ => true end.
Definition py_truthy_opt (o : option bytes) : bool :=
  match o with Some b => py_truthy_bytes b | None => false end.

(* o == b for an Optional[bytes] o and bytes b *)
Definition py_eq_opt (o : option bytes) (b : bytes) : bool :=
  match o with Some x => bytes_eqb x b | None => false end.

Definition py_is_none (o : option bytes) : bool := match o with Some _ => false | None => true end.

(* return o, for an Optional[bytes] o *)
Definition py_ret_opt (o : option bytes) : result :=
  match o with Some x => Sel x | None => RetNone end.

(* for x in l: <body> else: <k>      where the body either returns (Some r) or falls
   through to the next iteration (None); there is no break, so the else clause and
   whatever follows the loop (k) run exactly when no iteration returned. *)
Fixpoint py_for (l : list bytes) (body : bytes -> option result) (k : result) : result :=
  match l with
  | [] => k
  | x :: rest => match body x with Some r => r | None => py_for rest body k end
  end.

(* what ClientTLSLayer.__init__ resets a client attribute to in the TLS-over-TLS case
   (used by the generated Gen/ClientTlsReset.v) *)
Inductive reset_val := ResetNone | ResetEmptyList.

Fixpoint reset_lookup (name : bytes) (l : list (bytes * reset_val)) : option reset_val :=
  match l with
  | [] => None
  | (n, v) :: rest => if bytes_eqb n name then Some v else reset_lookup name rest
  end.
