(* Model/Dumper.v -- mitmproxy/addons/dumper.py (all echo paths of class Dumper), the final
   filter of contentviews.prettify_message, strutils.escape_control_characters (with the C1
   repair of fixes/C49-c1-controls.diff), strutils.cut_after_n_lines, contrib/click style().
   Text is a list of code points (N).  Output is a list of tokens: a data character, or one
   SGR styling sequence that the dumper added itself (kept whole so that the theorems can
   tell them apart; [flatten] gives the stream that is really written).
   Executable definitions only. *)
From Coq Require Import List Bool NArith String Ascii.
From MV Require Import Base.Bytes Model.Strutils.
Import ListNotations.
Local Open Scope N_scope.

Definition text := list N.
Inductive tok := Ch (c : N) | Sgr (s : text).
Definition ttext := list tok.

Definition T (s : string) : text := map N_of_ascii (list_ascii_of_string s).
Definition plain (t : text) : ttext := map Ch t.
Definition P (s : string) : ttext := plain (T s).
Definition flatten (t : ttext) : text :=
  flat_map (fun k => match k with Ch c => [c] | Sgr s => s end) t.

Fixpoint text_eqb (a b : text) : bool :=
  match a, b with
  | [], [] => true
  | x :: a', y :: b' => (x =? y) && text_eqb a' b'
  | _, _ => false
  end.

Definition tlen (t : text) : N := N.of_nat (List.length t).

(* ---- strutils.escape_control_characters (shadows the pre-repair model of Model.Strutils):
   str.translate with the table range(32) + [127] + range(0x80, 0xA0) -> ord(dot),
   minus CR, LF, TAB when keep_spacing. *)
Definition escape_control_characters (t : text) (keep_spacing : bool) : text :=
  map (fun c => if is_cc c && negb (keep_spacing && is_spacing c) then 46 else c) t.

(* ---- strutils.cut_after_n_lines (n > 0 asserted by the code) *)
Fixpoint cut_after_n_lines (c : text) (n : nat) : text :=
  match c with
  | [] => []
  | x :: r =>
    if x =? 10 then
      match n with
      | O => [x]
      | S O => [x]
      | S m => x :: cut_after_n_lines r m
      end
    else x :: cut_after_n_lines r n
  end.

(* ---- contrib/click style(): only the keyword arguments the dumper uses.
   fg: colour code (None = fg=None or absent); the three flags: None = not passed. *)
Record style := { fg : option N; bold : option bool; dim : option bool; blink : option bool }.
Definition dec (n : N) : text := map bN (dec_of_N n).
Definition sgr (n : N) : tok := Sgr ([27; 91] ++ dec n ++ [109]).
Definition flag (o : option bool) (on off : N) : ttext :=
  match o with Some true => [sgr on] | Some false => [sgr off] | None => [] end.
Definition miniclick_style (t : ttext) (s : style) : ttext :=
  (match fg s with Some c => [sgr c] | None => [] end)
  ++ flag (bold s) 1 22 ++ flag (dim s) 2 22 ++ flag (blink s) 5 25 ++ t ++ [sgr 0].

(* Dumper.style: [None] = called without keyword arguments *)
Definition style_ (vt : bool) (t : ttext) (s : option style) : ttext :=
  match s with
  | Some st => if vt then miniclick_style t st else t
  | None => t
  end.

Definition st_fg (c : N) := Some {| fg := Some c; bold := None; dim := None; blink := None |}.
Definition st_fg_bold (c : option N) := Some {| fg := c; bold := Some true; dim := None; blink := None |}.
Definition st_bold := st_fg_bold None.
Definition st_dim := Some {| fg := None; bold := None; dim := Some true; blink := None |}.
Definition BLACK := 30. Definition RED := 31. Definition GREEN := 32. Definition YELLOW := 33.
Definition BLUE := 34. Definition MAGENTA := 35. Definition BRIGHT_BLUE := 94.

(* ---- indent(n, text): str(text).strip().splitlines(), pad every line, join with LF.
   Py_UNICODE_ISSPACE / Py_UNICODE_ISLINEBREAK; an SGR token is neither. *)
Definition is_space (c : N) : bool :=
  ((9 <=? c) && (c <=? 13)) || ((28 <=? c) && (c <=? 32)) || (c =? 133) || (c =? 160)
  || (c =? 5760) || ((8192 <=? c) && (c <=? 8202)) || (c =? 8232) || (c =? 8233)
  || (c =? 8239) || (c =? 8287) || (c =? 12288).
Definition is_linebreak (c : N) : bool :=
  ((10 <=? c) && (c <=? 13)) || ((28 <=? c) && (c <=? 30)) || (c =? 133) || (c =? 8232) || (c =? 8233).
Definition tok_space (k : tok) : bool := match k with Ch c => is_space c | Sgr _ => false end.

Fixpoint lstrip (t : ttext) : ttext :=
  match t with
  | k :: r => if tok_space k then lstrip r else t
  | [] => []
  end.
Definition strip (t : ttext) : ttext := rev (lstrip (rev (lstrip t))).

Fixpoint splitlines (t : ttext) (cur : ttext) : list ttext :=
  match t with
  | [] => match cur with [] => [] | _ => [rev cur] end
  | Ch c :: r =>
    if is_linebreak c then
      match r with
      | Ch d :: r' => if (c =? 13) && (d =? 10) then rev cur :: splitlines r' [] else rev cur :: splitlines r []
      | _ => rev cur :: splitlines r []
      end
    else splitlines r (Ch c :: cur)
  | k :: r => splitlines r (k :: cur)
  end.

Fixpoint join_lines (pad : ttext) (ls : list ttext) : ttext :=
  match ls with
  | [] => []
  | [l] => pad ++ l
  | l :: r => pad ++ l ++ Ch 10 :: join_lines pad r
  end.

Definition indent (n : nat) (t : ttext) : ttext :=
  join_lines (repeat (Ch 32) n) (splitlines (strip t) []).

(* Dumper.echo: one printed line (print appends LF). ident = 0 means no indent. *)
Definition echo (vt : bool) (t : ttext) (ident : nat) (s : option style) : ttext :=
  let t1 := match ident with O => t | _ => indent ident t end in
  style_ vt t1 s ++ [Ch 10].

Definition esc (t : text) : ttext := plain (escape_control_characters t true).

(* ---- run options *)
Record opts := { detail : N; vt : bool; cutoff : nat; term_limit : N }.

(* ---- _echo_headers / _echo_trailers *)
Definition hdr := (bytes * bytes)%type.
Definition b2e (b : bytes) : ttext := plain (map bN (bytes_to_escaped_str b false false)).
Definition echo_headers (o : opts) (hs : list hdr) : ttext :=
  flat_map (fun h => echo (vt o) (style_ (vt o) (b2e (fst h)) (st_fg BLUE) ++ P ": " ++ b2e (snd h)) 4 None) hs.
Definition echo_trailers (o : opts) (tr : option (list hdr)) : ttext :=
  match tr with
  | None => []
  | Some [] => []
  | Some hs => echo (vt o) (P "--- HTTP Trailers") 4 (st_fg MAGENTA) ++ echo_headers o hs
  end.

(* ---- contentviews.prettify_message: missing content gives a literal, everything else
   (view output, raw fallback, error text) goes through the final filter. [pm_raw] is the
   text handed to that filter. [pm_chunks] is what syntax_highlight.highlight returned. *)
Record pmsg := { pm_raw : option text; pm_chunks : list (N * text) }.
Definition prettify_message (m : pmsg) : text :=
  match pm_raw m with
  | None => T "Content is missing."
  | Some t => escape_control_characters t true
  end.

(* CONTENTVIEW_STYLES; tags: 1 name 2 string 3 number 4 boolean 5 comment 6 error, other: {} *)
Definition contentview_style (tag : N) : option style :=
  match tag with
  | 1 => st_fg YELLOW | 2 => st_fg GREEN | 3 => st_fg BLUE | 4 => st_fg MAGENTA
  | 5 => st_dim | 6 => st_fg RED | _ => None
  end.

Definition echo_message (o : opts) (m : pmsg) : ttext :=
  let pretty := prettify_message m in
  let content_to_echo := if detail o =? 3 then cut_after_n_lines pretty (cutoff o) else pretty in
  (match content_to_echo with
   | [] => []
   | _ => echo (vt o) [] 0 None
          ++ echo (vt o) (flat_map (fun c => style_ (vt o) (plain (snd c)) (contentview_style (fst c))) (pm_chunks m)) 4 None
   end)
  ++ (if tlen content_to_echo <? tlen pretty then echo (vt o) (P "(cut off)") 4 st_dim else [])
  ++ (if 2 <=? detail o then echo (vt o) [] 0 None else []).

(* ---- _fmt_client *)
Inductive client := CReplay | CPeer (addr : text) | CNone.
Definition fmt_client (o : opts) (c : client) : ttext :=
  match c with
  | CReplay => style_ (vt o) (P "[replay]") (st_fg_bold (Some YELLOW))
  | CPeer a => style_ (vt o) (esc a) None
  | CNone => []
  end.

(* str.upper() compared with an ASCII word: only ASCII letters map to G E T D L (checked by the harness) *)
Definition ascii_upper (c : N) : N := if (97 <=? c) && (c <=? 122) then c - 32 else c.
Definition upper_is (t : text) (w : string) : bool := text_eqb (map ascii_upper t) (T w).

(* ---- HTTP *)
Record req := { rq_client : client; rq_pushed : bool; rq_method : text; rq_url : text; rq_ver : text;
                rq_headers : list hdr; rq_msg : pmsg; rq_trailers : option (list hdr) }.
Record resp := { rs_replay : bool; rs_code : N; rs_reason : text; rs_reason_tbl : text; rs_size : option text;
                 rs_ver : text; rs_headers : list hdr; rs_msg : pmsg; rs_trailers : option (list hdr);
                 rs_addr_len : N }.

Definition is_h1 (v : text) : bool := text_eqb v (T "HTTP/1.0") || text_eqb v (T "HTTP/1.1").
Definition is_h23 (v : text) : bool := text_eqb v (T "HTTP/2.0") || text_eqb v (T "HTTP/3").

Definition echo_request_line (o : opts) (r : req) (rs : option resp) : ttext :=
  let client := fmt_client o (rq_client r) in
  let method := rq_method r ++ (if rq_pushed r then T " PUSH_PROMISE" else []) in
  let method_color := if upper_is method "GET" then GREEN else if upper_is method "DELETE" then RED else MAGENTA in
  let method_s := style_ (vt o) (esc method) (st_fg_bold (Some method_color)) in
  let url := rq_url r in
  let url := if (detail o =? 1) && (term_limit o <? tlen url)
             then firstn (N.to_nat (term_limit o)) url ++ [8230] else url in
  let url_s := style_ (vt o) (esc url) st_bold in
  let resp_ver := match rs with Some x => rs_ver x | None => T "HTTP/1.1" end in
  let http_version := if negb (is_h1 (rq_ver r)) || negb (text_eqb (rq_ver r) resp_ver)
                      then P " " ++ esc (rq_ver r) else [] in
  echo (vt o) (client ++ P ": " ++ method_s ++ P " " ++ url_s ++ http_version) 0 None.

Definition echo_response_line (o : opts) (r : req) (x : resp) : ttext :=
  let replay_len := if rs_replay x then 8 else 0 in
  let replay := if rs_replay x then style_ (vt o) (P "[replay]") (st_fg_bold (Some YELLOW)) else [] in
  let c := rs_code x in
  let code_color := if (200 <=? c) && (c <? 300) then Some GREEN
                    else if (300 <=? c) && (c <? 400) then Some MAGENTA
                    else if (400 <=? c) && (c <? 600) then Some RED else None in
  let code := style_ (vt o) (plain (dec c))
                (Some {| fg := code_color; bold := Some true; dim := None; blink := Some (c =? 418) |}) in
  let reason := if negb (is_h23 (rs_ver x)) then rs_reason x else rs_reason_tbl x in
  let reason_s := style_ (vt o) (esc reason) (st_fg_bold code_color) in
  let size := match rs_size x with None => T "(content missing)" | Some s => s end in
  let size_s := style_ (vt o) (plain size) st_bold in
  let shown := negb (is_h1 (rs_ver x)) || negb (text_eqb (rq_ver r) (rs_ver x)) in
  let http_version := if shown then esc (rs_ver x) ++ P " " else [] in
  let hv_len := if shown then tlen (rs_ver x) + 1 else 0 in
  let arrows := style_ (vt o) (P " <<") st_bold in
  let arrows := if detail o =? 1
                then repeat (Ch 32) (N.to_nat (rs_addr_len x - (2 + hv_len + replay_len))) ++ arrows
                else arrows in
  echo (vt o) (replay ++ arrows ++ P " " ++ http_version ++ code ++ P " " ++ reason_s ++ P " " ++ size_s) 0 None.

Definition st_err := st_fg_bold (Some RED).

Definition echo_flow (o : opts) (r : req) (rs : option resp) (err : option text) : ttext :=
  (echo_request_line o r rs
   ++ (if 2 <=? detail o then echo_headers o (rq_headers r) else [])
   ++ (if 3 <=? detail o then echo_message o (rq_msg r) else [])
   ++ (if 2 <=? detail o then echo_trailers o (rq_trailers r) else []))
  ++ (match rs with
      | None => []
      | Some x =>
        echo_response_line o r x
        ++ (if 2 <=? detail o then echo_headers o (rs_headers x) else [])
        ++ (if 3 <=? detail o then echo_message o (rs_msg x) else [])
        ++ (if 2 <=? detail o then echo_trailers o (rs_trailers x) else [])
      end)
  ++ (match err with
      | None => []
      | Some m => echo (vt o) (P " << " ++ esc m) 0 st_err
      end).

(* Dumper.match with no filter *)
Definition matched (o : opts) (t : ttext) : ttext := if detail o =? 0 then [] else t.

(* response / error / http_connect_error hooks *)
Definition hook_http (o : opts) (r : req) (rs : option resp) (err : option text) : ttext :=
  matched o (echo_flow o r rs err).

Definition arrow (from_client : bool) : text := if from_client then T "->" else T "<-".

(* ---- websocket_message *)
Definition hook_websocket_message (o : opts) (client_addr server_addr path : text)
    (from_client is_text : bool) (m : pmsg) : ttext :=
  matched o (
    echo (vt o) (esc (client_addr ++ T " " ++ arrow from_client ++ T " WebSocket "
                      ++ (if is_text then T "text" else T "binary") ++ T " message "
                      ++ arrow from_client ++ T " " ++ server_addr ++ path)) 0 None
    ++ (if 3 <=? detail o then echo_message o m else [])).

(* ---- websocket_end; format_websocket_error: [name] = CloseReason(code).name, None = ValueError *)
Definition format_websocket_error (code : N) (name : option text) (reason : text) : text :=
  (match name with Some n => n | None => T "UNKNOWN_ERROR=" ++ dec code end)
  ++ (match reason with [] => [] | _ => T " (reason: " ++ reason ++ T ")" end).

Definition hook_websocket_end (o : opts) (code : N) (name : option text) (by_client : bool)
    (reason server_addr : text) : ttext :=
  matched o (
    if (code =? 1000) || (code =? 1001) || (code =? 1005) then
      echo (vt o) (esc (T "WebSocket connection closed by " ++ (if by_client then T "client" else T "server")
                        ++ T ": " ++ dec code ++ T " " ++ reason)) 0 None
    else
      echo (vt o) (esc (T "Error in WebSocket connection to " ++ server_addr ++ T ": WebSocket Error: "
                        ++ format_websocket_error code name reason)) 0 (st_fg RED)).

(* ---- tcp_error / udp_error *)
Definition hook_proto_error (o : opts) (is_tcp : bool) (server_addr msg : text) : ttext :=
  matched o (
    echo (vt o) (esc (T "Error in " ++ (if is_tcp then T "TCP" else T "UDP") ++ T " connection to "
                      ++ server_addr ++ T ": " ++ msg)) 0 (st_fg RED)).

(* ---- tcp_message / udp_message; quic = Some (stream id client, stream id server) *)
Definition hook_proto_message (o : opts) (is_tcp from_client : bool) (client_addr server_addr : text)
    (quic : option (text * text)) (m : pmsg) : ttext :=
  let d := arrow from_client in
  let ty := if is_tcp then T "tcp" else T "udp" in
  let flow_type :=
    match quic with
    | Some (a, b) =>
      let q := if is_tcp then T "stream" else T "dgrams" in
      T "quic " ++ q ++ T " " ++ a ++ T " " ++ d ++ T " mitmproxy " ++ d ++ T " quic " ++ q ++ T " " ++ b
    | None => ty
    end in
  matched o (
    echo (vt o) (esc (client_addr ++ T " " ++ d ++ T " " ++ flow_type ++ T " " ++ d ++ T " " ++ server_addr)) 0 None
    ++ (if 3 <=? detail o then echo_message o m else [])).

(* ---- DNS; opcode / qtype / rcode are the texts of the to_str tables *)
Definition echo_dns_query (o : opts) (c : client) (opcode qtype qname : text) : ttext :=
  let desc := T "DNS " ++ opcode ++ T " (" ++ qtype ++ T ")" in
  let desc_color := if text_eqb qtype (T "A") then GREEN else if text_eqb qtype (T "AAAA") then MAGENTA else RED in
  echo (vt o) (fmt_client o c ++ P ": " ++ style_ (vt o) (plain desc) (st_fg desc_color) ++ P " "
               ++ style_ (vt o) (esc qname) st_bold) 0 None.

Fixpoint join_tt (sep : ttext) (l : list ttext) : ttext :=
  match l with
  | [] => []
  | [x] => x
  | x :: r => x ++ sep ++ join_tt sep r
  end.

Definition hook_dns_response (o : opts) (c : client) (opcode qtype qname : text)
    (answers : list text) (rcode : text) : ttext :=
  matched o (
    echo_dns_query o c opcode qtype qname
    ++ echo (vt o) (style_ (vt o) (P " <<") st_bold ++ P " "
                    ++ (match answers with
                        | [] => style_ (vt o) (plain rcode) (st_fg RED)
                        | _ => join_tt (P ", ") (map (fun a => style_ (vt o) (esc a) (st_fg BRIGHT_BLUE)) answers)
                        end)) 0 None).

Definition hook_dns_error (o : opts) (c : client) (opcode qtype qname msg : text) : ttext :=
  matched o (
    echo_dns_query o c opcode qtype qname
    ++ echo (vt o) (P " << " ++ esc msg) 0 st_err).

(* ---- what the theorems say about a token *)
Definition okc (c : N) : bool := negb (is_cc c) || is_spacing c.
Definition is_digit_n (c : N) : bool := (48 <=? c) && (c <=? 57).
(* a styling sequence of the dumper: ESC [ digits m *)
Definition own_sgr (s : text) : bool :=
  match s with
  | a :: b :: r =>
    (a =? 27) && (b =? 91)
    && match rev r with
       | l :: d => (l =? 109) && negb (match d with [] => true | _ => false end) && forallb is_digit_n d
       | [] => false
       end
  | _ => false
  end.
Definition ok_tok (vt : bool) (k : tok) : bool :=
  match k with Ch c => okc c | Sgr s => vt && own_sgr s end.
Definition ok_tt (vt : bool) (t : ttext) : bool := forallb (ok_tok vt) t.
Definition ok_text (t : text) : bool := forallb okc t.

(* ---- contracts about code that is not modelled, as executable checks (used by the
   correspondence on every case, and as hypotheses of the theorems) *)
(* mitmproxy_rs.syntax_highlight.highlight: the chunks concatenate to its input *)
Definition pm_ok (m : pmsg) : bool :=
  match pm_chunks m with
  | [] => true
  | cs => text_eqb (List.concat (map snd cs)) (prettify_message m)
  end.
(* human.pretty_size prints digits, a dot and a unit *)
Definition resp_ok (x : resp) : bool :=
  pm_ok (rs_msg x) && match rs_size x with Some s => ok_text s | None => true end.

(* ---- the echo-path algebra produced by harness/translators/dumper_paths.py (coq/Gen/DumperPaths.v):
   what reaches Dumper.echo at one call site, as a function of flow fields. *)
Inductive sexp :=
| Empty
| Lit (s : text)              (* string constant of the source *)
| Num (name : string)         (* integer, enum member name, entry of a fixed table *)
| Raw (name : string)         (* anything read from the flow: attacker-controlled text *)
| EscB (name : string)        (* strutils.bytes_to_escaped_str of attacker-controlled bytes *)
| Esc (e : sexp)              (* strutils.escape_control_characters(e) *)
| Sty (e : sexp)              (* Dumper.style(e, constant keyword arguments) *)
| Ind (e : sexp)              (* indent(n, e) *)
| Sub (e : sexp)              (* slice, cut_after_n_lines, one chunk of the highlighter *)
| Cat (a b : sexp)
| Alt (a b : sexp)            (* either, depending on a branch *)
| Rep (sep : text) (e : sexp) (* sep.join of any number of instances of e *).

Fixpoint sanitized (e : sexp) : bool :=
  match e with
  | Empty => true
  | Lit s => ok_text s
  | Num _ => true
  | Raw _ => false
  | EscB _ => true
  | Esc _ => true
  | Sty e | Ind e | Sub e => sanitized e
  | Cat a b | Alt a b => sanitized a && sanitized b
  | Rep sep e => ok_text sep && sanitized e
  end.

(* the echo call sites this model covers: method name . index of the call in the method *)
Definition sites : list string :=
  ["_echo_headers.0"; "_echo_trailers.0"; "_echo_message.0"; "_echo_message.1"; "_echo_message.2";
   "_echo_message.3"; "_echo_request_line.0"; "_echo_response_line.0"; "echo_flow.0";
   "websocket_message.0"; "websocket_end.0"; "websocket_end.1"; "_proto_error.0"; "_proto_message.0";
   "_echo_dns_query.0"; "dns_response.0"; "dns_error.0"]%string.

(* str.translate with a table mapping every listed code point to a dot *)
Definition in_table (tbl : list N) (c : N) : bool := existsb (N.eqb c) tbl.
Definition translate_with (tbl : list N) (t : text) : text :=
  map (fun c => if in_table tbl c then 46 else c) t.
