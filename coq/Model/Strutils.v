(* Model/Strutils.v — mitmproxy/utils/strutils.py: bytes_to_escaped_str,
   escaped_str_to_bytes (codecs.escape_decode, CPython Objects/bytesobject.c
   _PyBytes_DecodeEscape), escape_control_characters.
   Text is modelled as a list of code points (N); the escaped text is pure ASCII
   so it is carried as bytes.  Executable definitions only. *)
From Coq Require Import List Bool NArith Lia.
From MV Require Import Base.Bytes.
Import ListNotations.
Local Open Scope N_scope.

Definition BSL : byte := x5c.  (* backslash *)
Definition SQ  : byte := x27.  (* single quote *)
Definition DQ  : byte := x22.  (* double quote *)

Definition hexdigit (n : N) : byte := if n <? 10 then Nb (48 + n) else Nb (87 + n).

(* --- Python bytes.__repr__ with single-quote delimiters, one byte --- *)
Definition repr_byte (b : byte) : bytes :=
  let n := bN b in
  if byte_eqb b BSL then [BSL; BSL]
  else if byte_eqb b SQ then [BSL; SQ]
  else if n =? 9 then [BSL; x74]
  else if n =? 10 then [BSL; x6e]
  else if n =? 13 then [BSL; x72]
  else if (n <? 32) || (127 <=? n) then [BSL; x78; hexdigit (n / 16); hexdigit (n mod 16)]
  else [b].

Definition py_repr_body (data : bytes) : bytes := flat_map repr_byte data.

(* --- the two re.sub rewrites, as one scanner over maximal backslash runs ---
   pattern 1: (?<!BSL)(BSL BSL)* BSL SQ        replaced by group1 + SQ
   pattern 2: (?<!BSL)(BSL BSL)* BSL [nrt]     replaced by group1 + LF, CR or TAB
   A match can only start at the first backslash of a maximal run (look-behind),
   consumes the whole run iff its length is odd and the next char is in the target
   set, and then drops exactly the last backslash.  n = backslashes pending in the
   current run. *)
Definition rewrite_target := byte -> option byte.
Definition tgt_quote : rewrite_target := fun c => if byte_eqb c SQ then Some SQ else None.
Definition tgt_spacing : rewrite_target := fun c =>
  if byte_eqb c x6e then Some x0a else if byte_eqb c x72 then Some x0d
  else if byte_eqb c x74 then Some x09 else None.

Fixpoint resub (tgt : rewrite_target) (n : nat) (s : bytes) : bytes :=
  match s with
  | [] => repeat BSL n
  | c :: s' =>
    if byte_eqb c BSL then resub tgt (S n) s'
    else match tgt c with
         | Some d => if Nat.odd n then repeat BSL (n - 1) ++ d :: resub tgt O s'
                     else repeat BSL n ++ c :: resub tgt O s'
         | None => repeat BSL n ++ c :: resub tgt O s'
         end
  end.

Definition bytes_to_escaped_str (data : bytes) (keep_spacing escape_single_quotes : bool) : bytes :=
  let r0 := py_repr_body data in
  let r1 := if escape_single_quotes then r0 else resub tgt_quote O r0 in
  if keep_spacing then resub tgt_spacing O r1 else r1.

(* --- the closed per-byte form the pipeline is proved equal to --- *)
Definition esc_byte (ks eq : bool) (b : byte) : bytes :=
  let n := bN b in
  if byte_eqb b SQ then (if eq then [BSL; SQ] else [SQ])
  else if (n =? 9) || (n =? 10) || (n =? 13) then (if ks then [b] else repr_byte b)
  else repr_byte b.

Definition escape_direct (data : bytes) (ks eq : bool) : bytes := flat_map (esc_byte ks eq) data.

(* --- codecs.escape_decode (strict errors) --- *)
Definition hexval (c : byte) : option N :=
  let n := bN c in
  if (48 <=? n) && (n <=? 57) then Some (n - 48)
  else if (97 <=? n) && (n <=? 102) then Some (n - 87)
  else if (65 <=? n) && (n <=? 70) then Some (n - 55)
  else None.
Definition octval (c : byte) : option N :=
  let n := bN c in if (48 <=? n) && (n <=? 55) then Some (n - 48) else None.

Definition simple_escape (c : byte) : option (option byte) :=
  (* Some None: line continuation; Some (Some b): one byte; None: not a simple escape *)
  let n := bN c in
  if n =? 10 then Some None
  else if byte_eqb c BSL then Some (Some BSL)
  else if byte_eqb c SQ then Some (Some SQ)
  else if byte_eqb c DQ then Some (Some DQ)
  else if n =? 98 then Some (Some x08)   (* b *)
  else if n =? 102 then Some (Some x0c)  (* f *)
  else if n =? 116 then Some (Some x09)  (* t *)
  else if n =? 110 then Some (Some x0a)  (* n *)
  else if n =? 114 then Some (Some x0d)  (* r *)
  else if n =? 118 then Some (Some x0b)  (* v *)
  else if n =? 97 then Some (Some x07)   (* a *)
  else None.

Definition ocons (o : option byte) (r : option bytes) : option bytes :=
  match r with
  | None => None
  | Some l => match o with Some b => Some (b :: l) | None => Some l end
  end.

(* None = ValueError *)
Fixpoint escape_decode (s : bytes) : option bytes :=
  match s with
  | [] => Some []
  | c :: s1 =>
    if negb (byte_eqb c BSL) then ocons (Some c) (escape_decode s1)
    else
      match s1 with
      | [] => None (* trailing backslash *)
      | e :: s2 =>
        match simple_escape e with
        | Some ob => ocons ob (escape_decode s2)
        | None =>
          match octval e with
          | Some d1 =>
            match s2 with
            | e2 :: s3 =>
              match octval e2 with
              | Some d2 =>
                match s3 with
                | e3 :: s4 =>
                  match octval e3 with
                  | Some d3 => ocons (Some (Nb ((d1 * 64 + d2 * 8 + d3) mod 256))) (escape_decode s4)
                  | None => ocons (Some (Nb (d1 * 8 + d2))) (escape_decode s3)
                  end
                | [] => Some [Nb (d1 * 8 + d2)]
                end
              | None => ocons (Some (Nb d1)) (escape_decode s2)
              end
            | [] => Some [Nb d1]
            end
          | None =>
            if bN e =? 120 then (* x *)
              match s2 with
              | h1 :: h2 :: s4 =>
                match hexval h1, hexval h2 with
                | Some a, Some b => ocons (Some (Nb (a * 16 + b))) (escape_decode s4)
                | _, _ => None
                end
              | _ => None
              end
            else (* unknown escape: backslash kept, char re-read as ordinary *)
              ocons (Some BSL) (ocons (Some e) (escape_decode s2))
          end
        end
      end
  end.

Definition escaped_str_to_bytes := escape_decode.

(* --- control characters --- *)
Definition is_cc (n : N) : bool := (n <? 32) || (n =? 127) || ((128 <=? n) && (n <=? 159)).
Definition is_c0_or_del (n : N) : bool := (n <? 32) || (n =? 127).
Definition is_spacing (n : N) : bool := (n =? 9) || (n =? 10) || (n =? 13).

(* escape_control_characters on a list of code points *)
Definition escape_control_characters (text : list N) (keep_spacing : bool) : list N :=
  map (fun c => if is_c0_or_del c && negb (keep_spacing && is_spacing c) then 46 else c) text.
