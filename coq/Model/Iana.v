(* Model/Iana.v -- the SPECIFICATION side of C22: the IANA special-purpose address registries
   as interval tables with their Globally Reachable column, hand-entered from

     IANA IPv4 Special-Purpose Address Registry (iana-ipv4-special-registry, RFC 6890 format)
     IANA IPv6 Special-Purpose Address Registry (iana-ipv6-special-registry)

   Snapshot: every entry the author could cite up to RFC 9780 (2025).  Entries whose Globally
   Reachable column is N/A or empty make no statement and are omitted: 192.88.99.0/24
   (deprecated 6to4 relay anycast, RFC 7526), 2001::/32 (TEREDO, N/A: inherits 2001::/23),
   2001:10::/28 (deprecated ORCHID: inherits 2001::/23), 2002::/16 (6to4, N/A).
   Multicast (224.0.0.0/4, ff00::/8) is not part of these registries.

   Reading: an address is globally reachable iff the MOST SPECIFIC registry entry containing it
   says so, or no entry contains it.  The tables are listed from general to specific, so the most
   specific entry is the last one that matches (Proofs/BlockC22.v checks the ordering).
   private = not globally reachable and not Shared Address Space 100.64.0.0/10 (RFC 6598), which
   is neither private nor global (the documented meaning of ipaddress.is_private / is_global).
   loopback = 127.0.0.0/8 (RFC 1122) and ::1/128 (RFC 4291).
   An IPv4-mapped IPv6 address ::ffff:a.b.c.d (RFC 4291 2.5.5.2) denotes the IPv4 peer a.b.c.d.

   Executable definitions only.  harness/props/C22.py reads the e4/e6 lines of this file, so the
   oracle and the theorems use one table. *)
From Coq Require Import NArith List Bool.
From MV Require Import Model.Ipaddr.
Import ListNotations.
Open Scope N_scope.

Definition entry := (net * bool)%type.     (* block, Globally Reachable *)

Definition cidr (bits : N) (base len : N) : net := (base, base + 2 ^ (bits - len) - 1).

Definition e4 (a b c d len : N) (reach : bool) : entry :=
  (cidr 32 (((a * 256 + b) * 256 + c) * 256 + d) len, reach).

Definition g8 (g0 g1 g2 g3 g4 g5 g6 g7 : N) : N :=
  ((((((g0 * 65536 + g1) * 65536 + g2) * 65536 + g3) * 65536 + g4) * 65536 + g5) * 65536 + g6) * 65536 + g7.

Definition e6 (g0 g1 g2 g3 g4 g5 g6 g7 len : N) (reach : bool) : entry :=
  (cidr 128 (g8 g0 g1 g2 g3 g4 g5 g6 g7) len, reach).

Definition iana_v4 : list entry := [
  e4 0 0 0 0 8 false;            (* This network, RFC 791 *)
  e4 10 0 0 0 8 false;           (* Private-Use, RFC 1918 *)
  e4 100 64 0 0 10 false;        (* Shared Address Space, RFC 6598 *)
  e4 127 0 0 0 8 false;          (* Loopback, RFC 1122 *)
  e4 169 254 0 0 16 false;       (* Link Local, RFC 3927 *)
  e4 172 16 0 0 12 false;        (* Private-Use, RFC 1918 *)
  e4 192 0 0 0 24 false;         (* IETF Protocol Assignments, RFC 6890 *)
  e4 192 0 2 0 24 false;         (* Documentation TEST-NET-1, RFC 5737 *)
  e4 192 31 196 0 24 true;       (* AS112-v4, RFC 7535 *)
  e4 192 52 193 0 24 true;       (* AMT, RFC 7450 *)
  e4 192 168 0 0 16 false;       (* Private-Use, RFC 1918 *)
  e4 192 175 48 0 24 true;       (* Direct Delegation AS112 Service, RFC 7534 *)
  e4 198 18 0 0 15 false;        (* Benchmarking, RFC 2544 *)
  e4 198 51 100 0 24 false;      (* Documentation TEST-NET-2, RFC 5737 *)
  e4 203 0 113 0 24 false;       (* Documentation TEST-NET-3, RFC 5737 *)
  e4 240 0 0 0 4 false;          (* Reserved, RFC 1112 *)
  e4 192 0 0 0 29 false;         (* IPv4 Service Continuity Prefix, RFC 7335 *)
  e4 192 0 0 8 32 false;         (* IPv4 dummy address, RFC 7600 *)
  e4 192 0 0 9 32 true;          (* Port Control Protocol Anycast, RFC 7723 *)
  e4 192 0 0 10 32 true;         (* TURN Anycast, RFC 8155 *)
  e4 192 0 0 170 32 false;       (* NAT64/DNS64 Discovery, RFC 8880, RFC 7050 *)
  e4 192 0 0 171 32 false;       (* NAT64/DNS64 Discovery, RFC 8880, RFC 7050 *)
  e4 0 0 0 0 32 false;           (* This host on this network, RFC 1122 *)
  e4 255 255 255 255 32 false    (* Limited Broadcast, RFC 8190, RFC 919 *)
].

Definition iana_v6 : list entry := [
  e6 0xfc00 0 0 0 0 0 0 0 7 false;          (* Unique-Local, RFC 4193, RFC 8190 *)
  e6 0xfe80 0 0 0 0 0 0 0 10 false;         (* Link-Local Unicast, RFC 4291 *)
  e6 0x5f00 0 0 0 0 0 0 0 16 false;         (* Segment Routing SRv6 SIDs, RFC 9602 *)
  e6 0x3fff 0 0 0 0 0 0 0 20 false;         (* Documentation, RFC 9637 *)
  e6 0x2001 0 0 0 0 0 0 0 23 false;         (* IETF Protocol Assignments, RFC 2928 *)
  e6 0x2001 0x0db8 0 0 0 0 0 0 32 false;    (* Documentation, RFC 3849 *)
  e6 0x2001 0x0003 0 0 0 0 0 0 32 true;     (* AMT, RFC 7450 *)
  e6 0x2001 0x0020 0 0 0 0 0 0 28 true;     (* ORCHIDv2, RFC 7343 *)
  e6 0x2001 0x0030 0 0 0 0 0 0 28 true;     (* Drone Remote ID Protocol Entity Tags, RFC 9374 *)
  e6 0x2001 0x0002 0 0 0 0 0 0 48 false;    (* Benchmarking, RFC 5180, RFC Errata 1752 *)
  e6 0x2001 0x0004 0x0112 0 0 0 0 0 48 true;   (* AS112-v6, RFC 7535 *)
  e6 0x2620 0x004f 0x8000 0 0 0 0 0 48 true;   (* Direct Delegation AS112 Service, RFC 7534 *)
  e6 0x0064 0xff9b 0x0001 0 0 0 0 0 48 false;  (* IPv4-IPv6 Translation local use, RFC 8215 *)
  e6 0x0100 0 0 0 0 0 0 0 64 false;         (* Discard-Only Address Block, RFC 6666 *)
  e6 0x0100 0 0 1 0 0 0 0 64 false;         (* Dummy IPv6 Prefix, RFC 9780 *)
  e6 0x0064 0xff9b 0 0 0 0 0 0 96 true;     (* IPv4-IPv6 Translation, RFC 6052 *)
  e6 0 0 0 0 0 0xffff 0 0 96 false;         (* IPv4-mapped Address, RFC 4291 *)
  e6 0 0 0 0 0 0 0 1 128 false;             (* Loopback Address, RFC 4291 *)
  e6 0 0 0 0 0 0 0 0 128 false;             (* Unspecified Address, RFC 4291 *)
  e6 0x2001 0x0001 0 0 0 0 0 1 128 true;    (* Port Control Protocol Anycast, RFC 7723 *)
  e6 0x2001 0x0001 0 0 0 0 0 2 128 true;    (* TURN Anycast, RFC 8155 *)
  e6 0x2001 0x0001 0 0 0 0 0 3 128 true     (* DNS-SD Service Registration Protocol Anycast, RFC 9665 *)
].

Definition shared_space_v4 : net := cidr 32 ((100 * 256 + 64) * 65536) 10.   (* 100.64.0.0/10 *)
Definition loopback_v4 : net := cidr 32 (127 * 16777216) 8.                  (* 127.0.0.0/8 *)
Definition loopback_v6 : net := (1, 1).                                      (* ::1/128 *)
Definition mapped_base : N := 0xffff00000000.                                (* ::ffff:0:0 *)
Definition mapped_range : net := (mapped_base, mapped_base + max_v4).        (* ::ffff:0:0/96 *)

(* last matching entry wins; unlisted addresses are globally reachable *)
Definition reach (t : list entry) (a : N) : bool :=
  fold_left (fun acc e => if in_net a (fst e) then snd e else acc) t true.

Definition spec_global4 (a : N) : bool := reach iana_v4 a.
Definition spec_private4 (a : N) : bool := negb (reach iana_v4 a) && negb (in_net a shared_space_v4).
Definition spec_loopback4 (a : N) : bool := in_net a loopback_v4.
Definition spec_global6 (a : N) : bool := reach iana_v6 a.
Definition spec_private6 (a : N) : bool := negb (reach iana_v6 a).
Definition spec_loopback6 (a : N) : bool := in_net a loopback_v6.

(* the peer an address denotes: IPv4-mapped IPv6 is the embedded IPv4 address *)
Definition effective (a : ip) : ip :=
  match a with
  | IPv6 n => if in_net n mapped_range then IPv4 (n - mapped_base) else a
  | IPv4 _ => a
  end.

Definition spec_global (a : ip) : bool :=
  match effective a with IPv4 n => spec_global4 n | IPv6 n => spec_global6 n end.
Definition spec_private (a : ip) : bool :=
  match effective a with IPv4 n => spec_private4 n | IPv6 n => spec_private6 n end.
Definition spec_loopback (a : ip) : bool :=
  match effective a with IPv4 n => spec_loopback4 n | IPv6 n => spec_loopback6 n end.

(* C22: the connection must be refused iff ... *)
Definition spec_refused (block_private block_global local_mode : bool) (a : ip) : bool :=
  negb (spec_loopback a || local_mode)
  && ((block_private && spec_private a) || (block_global && spec_global a)).
