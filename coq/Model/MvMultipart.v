(* Model/MvMultipart.v -- mitmproxy/net/http/multipart.py encode_multipart / decode_multipart and
   Request._get_multipart_form / _set_multipart_form. headers.parse_content_type is abstract: the
   model receives the raw boundary parameter (None = content type missing / unparsable / without an
   ASCII boundary, where both functions return the empty result). mimetypes.guess_type(str(key)) is
   applied to the repr of a bytes object (ends with a quote character), so it never recognises an
   extension: the Content-Type line is constant. *)
From Coq Require Import String.
From Coq Require Import List Bool NArith.
From MV Require Import Base.Bytes Model.MvCommon Model.MvUrl.
Import ListNotations.

Definition DD : bytes := [x2d; x2d].
Definition CD_PREFIX : bytes := Eval compute in B "Content-Disposition: form-data; name=""".
Definition CT_LINE : bytes := Eval compute in B "Content-Type: text/plain; charset=utf-8".
Definition NAMEEQ : bytes := Eval compute in B "name=""".

(* re.search of ^--BOUNDARY$ (escaped, no MULTILINE) in value: the whole value, or the value
   without one final LF *)
Definition boundary_in_value (qb value : bytes) : bool :=
  bytes_eqb value (DD ++ qb) || bytes_eqb value (DD ++ qb ++ [LF]).

Definition part_hdrs (qb : bytes) (kv : bytes * bytes) : list bytes :=
  (if nonempty (fst kv) then [DD ++ qb; CD_PREFIX ++ fst kv ++ [DQ]; CT_LINE; []; snd kv] else [])
  ++ [[]].

(* encode_multipart; result None = ValueError(boundary found in encoded string) *)
Definition encode_multipart (ob : option bytes) (parts : pairs) : option bytes :=
  match ob with
  | None => Some []
  | Some rawb =>
      let qb := quote [SLASH] rawb in
      if existsb (fun kv => boundary_in_value qb (snd kv)) parts then None
      else Some (join CRLF (flat_map (part_hdrs qb) parts ++ [DD ++ qb ++ DD ++ CRLF]))
  end.

Definition is_word (b : byte) : bool := is_alpha b || is_digit b || byte_eqb b x5f.

(* the compiled rx: word boundary, name=, double quote, one or more non-quote bytes (group 1),
   double quote; search(line) -> group(1) *)
Fixpoint rx_search_go (prev_word : bool) (s : bytes) : option bytes :=
  match s with
  | [] => None
  | c :: s' =>
      let here :=
        if negb prev_word && starts_with NAMEEQ s then
          let (k, r) := span (fun b => negb (byte_eqb b DQ)) (skipn 6 s) in
          match k, r with
          | _ :: _, _ :: _ => Some k
          | _, _ => None
          end
        else None in
      match here with
      | Some k => Some k
      | None => rx_search_go (is_word c) s'
      end
  end.
Definition rx_search (line : bytes) : option bytes := rx_search_go false line.

Fixpoint index_empty (l : list bytes) : option nat :=
  match l with
  | [] => None
  | x :: l' => match x with
               | [] => Some O
               | _ => match index_empty l' with Some n => Some (S n) | None => None end
               end
  end.

Inductive chunk_res := Skip | Add (kv : bytes * bytes) | Raise.

Definition decode_chunk (chunk : bytes) : chunk_res :=
  match splitlines chunk with
  | p0 :: p1 :: rest =>
      if negb (starts_with DD p0) then
        match rx_search p1 with
        | Some key =>
            match index_empty rest with
            | Some n => Add (key, concat (skipn (S n) rest))
            | None => Raise
            end
        | None => Skip
        end
      else Skip
  | _ => Skip
  end.

Fixpoint collect (l : list chunk_res) : option pairs :=
  match l with
  | [] => Some []
  | Skip :: l' => collect l'
  | Add kv :: l' => match collect l' with Some r => Some (kv :: r) | None => None end
  | Raise :: _ => None
  end.

(* decode_multipart; result None = ValueError (no empty line after the part headers) *)
Definition decode_multipart (ob : option bytes) (content : bytes) : option pairs :=
  match ob with
  | None => Some []
  | Some rawb => collect (map decode_chunk (split_sub (DD ++ rawb) content))
  end.

(* Request._set_multipart_form then _get_multipart_form with content-type boundary b (either the
   existing multipart/form-data header or the freshly generated one); the setter propagates the
   ValueError (None), the getter maps a decoder ValueError to the empty list. *)
Definition set_multipart_form (b : bytes) (parts : pairs) : option bytes := encode_multipart (Some b) parts.
Definition get_multipart_form (b : bytes) (content : bytes) : pairs :=
  match decode_multipart (Some b) content with Some r => r | None => [] end.
