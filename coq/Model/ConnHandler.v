(* Model/ConnHandler.v -- mitmproxy/proxy/server.py ConnectionHandler as a small-step semantics of
   a set of tasks suspended at their await points.  One schedule item either is an external
   completion (a hook returns, a read / connect completes, the idle timeout fires, a writer breaks)
   or lets ONE ready task run up to its next await point (Run t).  Any ready task may run: the
   theorems quantify over every schedule, CPython's FIFO loop is one of them.
   Task.cancel is modelled as in CPython 3.12: a cancelled task is made ready and its next step
   raises CancelledError at the await point where it is suspended (the payload it was woken with is
   lost); a task cancelled before its first step never runs.  asyncio.Semaphore is the 3.12 one
   (value pre-decremented for a woken waiter, FIFO, cancelled waiters skipped by locked()). *)
From Coq Require Import List Bool Arith.
Import ListNotations.

Inductive hookname :=
| HClientConnected | HClientDisconnected | HServerConnect | HServerConnected
| HServerConnectError | HServerDisconnected | HLayer.

Inductive tid := TMain | TConn (c : nat) | THook (k : nat).
Inductive rres := RData | REof | RErr.
Inductive cmd := COpen (a : option nat) | CClose (c : nat) | CHalf (c : nat) | CSend (c : nat) | CHook | CLog.
Inductive levent := LStart | LData (c : nat) | LClosed (c : nat) | LOcc (c : nat) (err : bool) | LHookDone (k : nat).

Inductive ev :=
| EHook (h : hookname) (c : nat)     (* handle_hook called *)
| ELayer (e : levent)                (* layer.handle_event called *)
| EConnect (c : nat)                 (* asyncio.open_connection called *)
| ERead (c : nat)                    (* reader.read called *)
| EWrite (c : nat) | EEof (c : nat) | EClose (c : nat)   (* writer.write / write_eof / close *)
| EDrainWait (d : nat)               (* writer d: drain() blocks *)
| ECrash                             (* server_event: except Exception *)
| EDone (t : tid) (k : nat).         (* coroutine finished: 0 returned, 1 CancelledError, 2 other exception *)

Inductive payload := PNone | PKill (b : bool) | PReadR (r : rres) | PConnR (ok : bool) | PDrainR (ok : bool).
Inductive wstat := WPending | WWoken | WCancelled.
Inductive wst := WNone | WOpen | WClosed.

(* how an open_connection / handle_connection coroutine ended *)
Inductive exitk :=
| XNoAddr                 (* no address: OpenConnectionCompleted(err), no hooks *)
| XLostStart              (* cancelled before its first step: the coroutine never ran *)
| XLostConnectHook        (* CancelledError while awaiting the server_connect hook *)
| XLostSem                (* CancelledError while waiting for the per-address semaphore *)
| XErr (canc : bool)      (* server_connect_error path (killed, refused, cancelled while connecting) *)
| XLostConnectedHook      (* CancelledError while awaiting the server_connected hook *)
| XClosed (canc : bool).  (* connected ... disconnected (server) / handle_connection over (client) *)

Inductive cpc :=
| P0 | PHookConnect | PHookErrKilled | PSem (w : wstat) | PConnecting | PHookErr (canc : bool)
| PHookConnected | PRead | PDrainLock (w : wstat) | PDrain (d : nat) (rest : list nat) | PEvent
| PHookDisc (canc : bool) | PDone (x : exitk).

Record conn := mkConn {
  c_addr : option nat; c_pc : cpc; c_wk : option payload; c_cf : bool; c_task : bool;
  c_entry : bool; c_writer : wst; c_broken : bool; c_rd : bool; c_wr : bool; c_err : bool;
  c_cong : bool (* writer above its high-water mark: drain() blocks *) }.

Inductive mpc := M0 | MHookConn | MWaitHandler | MHookDisc | MWaitAll (ws : list nat) | MDone (k : nat).
Inductive hpc := H0 | HHook (completed : bool) | HDone.

Record st := mkSt {
  conns : list conn; mainpc : mpc; mwk : option bool; client_err : bool; hooks : list hpc;
  semval : nat -> nat; semq : nat -> list nat; script : list (list cmd); trace : list ev;
  teardown_n : option nat;
  dlocked : bool; dlockq : list nat (* self._drain_lock: held, FIFO waiters *) }.

Inductive item :=
| AHook (t : tid) (kill : bool) | ARead (c : nat) (r : rres) | AConn (c : nat) (ok : bool)
| ATimeout | ABreak (c : nat)
| ACongest (c : nat)                 (* writer c is above its high-water mark from now on *)
| ADrainDone (c : nat) (ok : bool)   (* the drain() task c is blocked in returns / raises OSError *)
| Run (t : tid) (thrown : bool).

(* ---------------------------------------------------------------- helpers *)
Fixpoint upd {A} (l : list A) (n : nat) (x : A) : list A :=
  match l, n with
  | [], _ => []
  | _ :: t, O => x :: t
  | h :: t, S n' => h :: upd t n' x
  end.

Definition dconn : conn := mkConn None (PDone XNoAddr) None false false false WNone false false false false false.
Definition getc (s : st) (c : nat) : conn := nth c (conns s) dconn.

Definition set_conns (s : st) (l : list conn) : st :=
  mkSt l (mainpc s) (mwk s) (client_err s) (hooks s) (semval s) (semq s) (script s) (trace s) (teardown_n s) (dlocked s) (dlockq s).
Definition setc (s : st) (c : nat) (x : conn) : st := set_conns s (upd (conns s) c x).
Definition emit (s : st) (e : ev) : st :=
  mkSt (conns s) (mainpc s) (mwk s) (client_err s) (hooks s) (semval s) (semq s) (script s) (e :: trace s) (teardown_n s) (dlocked s) (dlockq s).
Definition set_main (s : st) (p : mpc) (w : option bool) : st :=
  mkSt (conns s) p w (client_err s) (hooks s) (semval s) (semq s) (script s) (trace s) (teardown_n s) (dlocked s) (dlockq s).
Definition set_sem (s : st) (a v : nat) (q : list nat) : st :=
  mkSt (conns s) (mainpc s) (mwk s) (client_err s) (hooks s)
       (fun b => if Nat.eqb b a then v else semval s b) (fun b => if Nat.eqb b a then q else semq s b)
       (script s) (trace s) (teardown_n s) (dlocked s) (dlockq s).

Definition with_pc (x : conn) (p : cpc) : conn :=
  mkConn (c_addr x) p (c_wk x) (c_cf x) (c_task x) (c_entry x) (c_writer x) (c_broken x) (c_rd x) (c_wr x) (c_err x) (c_cong x).
Definition with_wake (x : conn) (w : option payload) (cf : bool) : conn :=
  mkConn (c_addr x) (c_pc x) w cf (c_task x) (c_entry x) (c_writer x) (c_broken x) (c_rd x) (c_wr x) (c_err x) (c_cong x).
Definition with_state (x : conn) (rd wr : bool) : conn :=
  mkConn (c_addr x) (c_pc x) (c_wk x) (c_cf x) (c_task x) (c_entry x) (c_writer x) (c_broken x) rd wr (c_err x) (c_cong x).
Definition with_io (x : conn) (entry : bool) (w : wst) : conn :=
  mkConn (c_addr x) (c_pc x) (c_wk x) (c_cf x) (c_task x) entry w (c_broken x) (c_rd x) (c_wr x) (c_err x) (c_cong x).

Definition with_err (x : conn) : conn :=
  mkConn (c_addr x) (c_pc x) (c_wk x) (c_cf x) (c_task x) (c_entry x) (c_writer x) (c_broken x) (c_rd x) (c_wr x) true (c_cong x).

Definition with_cong (x : conn) (b : bool) : conn :=
  mkConn (c_addr x) (c_pc x) (c_wk x) (c_cf x) (c_task x) (c_entry x) (c_writer x) (c_broken x) (c_rd x) (c_wr x) (c_err x) b.
Definition set_lock (s : st) (b : bool) (q : list nat) : st :=
  mkSt (conns s) (mainpc s) (mwk s) (client_err s) (hooks s) (semval s) (semq s) (script s) (trace s) (teardown_n s) b q.

Definition is_done (p : cpc) : bool := match p with PDone _ => true | _ => false end.

(* Task.cancel() *)
Definition cancel_conn (x : conn) : conn :=
  if is_done (c_pc x) then x
  else with_wake (with_pc x (match c_pc x with PSem WPending => PSem WCancelled | PDrainLock WPending => PDrainLock WCancelled | p => p end)) (c_wk x) true.
Definition cancel (s : st) (c : nat) : st := setc s c (cancel_conn (getc s c)).

(* ---------------------------------------------------------------- asyncio.Semaphore (3.12) *)
Definition waiter_live (s : st) (c : nat) : bool :=
  match c_pc (getc s c) with PSem WPending => true | PSem WWoken => true | _ => false end.
Definition sem_locked (s : st) (a : nat) : bool :=
  Nat.eqb (semval s a) 0 || existsb (waiter_live s) (semq s a).

Fixpoint first_pending (s : st) (q : list nat) : option nat :=
  match q with
  | [] => None
  | c :: q' => match c_pc (getc s c) with PSem WPending => Some c | _ => first_pending s q' end
  end.
(* _wake_up_next *)
Definition wake_next (s : st) (a : nat) : st :=
  match first_pending s (semq s a) with
  | None => s
  | Some c => set_sem (setc s c (with_wake (with_pc (getc s c) (PSem WWoken)) (Some PNone) (c_cf (getc s c))))
                      a (semval s a - 1) (semq s a)
  end.
Definition sem_release (s : st) (a : nat) : st := wake_next (set_sem s a (semval s a + 1) (semq s a)) a.
(* self._waiters.remove(fut): a task waits at most once, all occurrences are dropped *)
Fixpoint remove1 (c : nat) (q : list nat) : list nat :=
  match q with [] => [] | d :: q' => if Nat.eqb d c then remove1 c q' else d :: remove1 c q' end.

(* the semaphore of a connection; a connection without address never gets this far
   (open_connection returns early), the None branches below are unreachable no-ops *)
Definition release_of (s : st) (c : nat) : st :=
  match c_addr (getc s c) with Some a => sem_release s a | None => s end.

(* ---------------------------------------------------------------- server_event *)
Definition new_conn (a : option nat) : conn :=
  mkConn a P0 (Some PNone) false true true WNone false false false false false.

(* close_connection; result false = an exception other than OSError escaped (assert) *)
Definition close_connection (s : st) (c : nat) (half : bool) : st * bool :=
  let x := getc s c in
  let after (s1 : st) : st * bool :=
    let y := getc s1 c in
    if negb (c_rd y) && negb (c_wr y) then
      if c_task y then (cancel s1 c, true) else (s1, false)
    else (s1, true) in
  if half then
    if negb (c_wr x) then (s, true)
    else match c_writer x with
         | WNone => (s, false)
         | WClosed => after (setc s c (with_state x (c_rd x) false))
         | WOpen => if c_broken x then after (setc s c (with_state x false false))
                    else after (setc (emit s (EEof c)) c (with_state x (c_rd x) false))
         end
  else after (setc s c (with_state x false false)).

Definition do_cmd (s : st) (k : cmd) : st * bool :=
  match k with
  | COpen a => (set_conns s (conns s ++ [new_conn a]), true)
  | CHook => (mkSt (conns s) (mainpc s) (mwk s) (client_err s) (hooks s ++ [H0]) (semval s) (semq s)
                   (script s) (trace s) (teardown_n s) (dlocked s) (dlockq s), true)
  | CLog => (s, true)
  | CSend c =>
    if negb (Nat.ltb c (length (conns s))) then (s, true)
    else if negb (c_entry (getc s c)) then (s, true)
    else match c_writer (getc s c) with
         | WNone => (s, false)
         | WClosed => (s, true)
         | WOpen => (emit s (EWrite c), true)
         end
  | CClose c =>
    if negb (Nat.ltb c (length (conns s))) then (s, true)
    else if negb (c_entry (getc s c)) then (s, true)
    else close_connection s c false
  | CHalf c =>
    if negb (Nat.ltb c (length (conns s))) then (s, true)
    else if negb (c_entry (getc s c)) then (s, true)
    else close_connection s c true
  end.

Fixpoint do_cmds (s : st) (ks : list cmd) : st :=
  match ks with
  | [] => s
  | k :: ks' => match do_cmd s k with
                | (s', true) => do_cmds s' ks'
                | (s', false) => emit s' ECrash
                end
  end.

Definition server_event (s : st) (e : levent) : st :=
  let s1 := emit s (ELayer e) in
  match script s1 with
  | [] => s1
  | ks :: rest =>
    do_cmds (mkSt (conns s1) (mainpc s1) (mwk s1) (client_err s1) (hooks s1) (semval s1) (semq s1) rest
                  (trace s1) (teardown_n s1) (dlocked s1) (dlockq s1)) ks
  end.

(* ---------------------------------------------------------------- a connection task runs *)
Definition finish (s : st) (c : nat) (x : exitk) (k : nat) : st :=
  emit (setc s c (with_wake (with_pc (getc s c) (PDone x)) None false)) (EDone (TConn c) k).
Definition goto (s : st) (c : nat) (p : cpc) : st := setc s c (with_pc (getc s c) p).
Definition hook_at (s : st) (c : nat) (h : hookname) (p : cpc) : st := goto (emit s (EHook h c)) c p.
Definition bnat (b : bool) : nat := if b then 1 else 0.

(* end of handle_connection: writer.close(); transports.pop; then the caller continues *)
Definition hc_cleanup (s : st) (c : nat) (canc : bool) : st :=
  let s1 := emit s (EClose c) in
  let s2 := setc s1 c (with_io (getc s1 c) false WClosed) in
  if Nat.eqb c 0 then finish s2 c (XClosed canc) (bnat canc)
  else hook_at s2 c HServerDisconnected (PHookDisc canc).

(* after the read loop: canc = the loop was left by CancelledError *)
Definition hc_after_loop (s : st) (c : nat) (canc : bool) : st :=
  let x := getc s c in
  let s1 := if canc then setc s c (with_state x false false) else setc s c (with_state x false (c_wr x)) in
  let s2 := server_event s1 (LClosed c) in
  let y := getc s2 c in
  if c_wr y && negb (c_rd y) then goto s2 c PEvent     (* state is CAN_WRITE: wait for cancellation *)
  else hc_cleanup s2 c canc.

Definition hc_read (s : st) (c : nat) : st := goto (emit s (ERead c)) c PRead.

(* ---------------------------------------------------------------- drain_writers
   async with self._drain_lock (asyncio.Lock 3.12: FIFO, acquire succeeds at once iff unlocked and
   every queued waiter is cancelled, _wake_up_first looks at the first queued future only), then
   for every transport of a snapshot that has a writer: await writer.drain().  drain() returns at
   once, raises OSError at once (broken writer), or -- writer above its high-water mark -- blocks
   until the schedule completes it (ok / OSError) or the task is cancelled. *)
Definition lock_waiter_live (s : st) (c : nat) : bool :=
  match c_pc (getc s c) with PDrainLock WPending => true | PDrainLock WWoken => true | _ => false end.
Definition lock_free (s : st) : bool := negb (dlocked s) && negb (existsb (lock_waiter_live s) (dlockq s)).
Definition wake_first (s : st) : st :=
  match dlockq s with
  | [] => s
  | d :: _ => match c_pc (getc s d) with
              | PDrainLock WPending =>
                setc s d (with_wake (with_pc (getc s d) (PDrainLock WWoken)) (Some PNone) (c_cf (getc s d)))
              | _ => s
              end
  end.
Definition lock_release (s : st) : st := if dlocked s then wake_first (set_lock s false (dlockq s)) else s.

(* list(self.transports.values()) restricted to entries with a writer, in insertion order *)
Fixpoint with_writer (l : list conn) (i : nat) : list nat :=
  match l with
  | [] => []
  | x :: l' => if c_entry x && match c_writer x with WNone => false | _ => true end
               then i :: with_writer l' (S i) else with_writer l' (S i)
  end.

(* handler.cancel after OSError in drain *)
Definition drain_error (s : st) (d : nat) : st := if c_task (getc s d) then cancel s d else s.

Fixpoint drain_go (s : st) (c : nat) (l : list nat) : st :=
  match l with
  | [] => hc_read (lock_release s) c       (* lock released; back to reader.read *)
  | d :: l' =>
    let x := getc s d in
    match c_writer x with
    | WOpen =>
      if c_broken x then drain_go (drain_error s d) c l'
      else if c_cong x then goto (emit s (EDrainWait d)) c (PDrain d l')
      else drain_go s c l'
    | _ => drain_go s c l'
    end
  end.

Definition drain_start (s : st) (c : nat) : st :=
  if lock_free s then drain_go (set_lock s true (dlockq s)) c (with_writer (conns s) 0)
  else goto (set_lock s (dlocked s) (dlockq s ++ [c])) c
            (* a task that cancelled itself in server_event cancels the new waiter future at once *)
            (PDrainLock (if c_cf (getc s c) then WCancelled else WPending)).

(* body of async with: the connect attempt starts *)
Definition enter_sem_body (s : st) (c : nat) : st := goto (emit s (EConnect c)) c PConnecting.

Definition run_conn (s0 : st) (c : nat) : st :=
  let x0 := getc s0 c in
  let cf := c_cf x0 in
  let wk := c_wk x0 in
  let s := setc s0 c (with_wake x0 None false) in
  match c_pc x0 with
  | P0 =>
    if cf then finish s c XLostStart 1
    else if Nat.eqb c 0 then hc_read s c
    else match c_addr x0 with
         | None => finish (server_event s (LOcc c true)) c XNoAddr 0
         | Some _ => hook_at s c HServerConnect PHookConnect
         end
  | PHookConnect =>
    if cf then finish s c XLostConnectHook 1
    else
      let kill := match wk with Some (PKill true) => true | _ => false end in
      let s1 := if kill then setc s c (with_err (getc s c)) else s in
      if c_err (getc s1 c) then hook_at s1 c HServerConnectError PHookErrKilled
      else
        match c_addr (getc s1 c) with
        | None => s0
        | Some a =>
          if sem_locked s1 a then goto (set_sem s1 a (semval s1 a) (semq s1 a ++ [c])) c (PSem WPending)
          else enter_sem_body (set_sem s1 a (semval s1 a - 1) (semq s1 a)) c
        end
  | PHookErrKilled =>
    if cf then finish s c (XErr true) 1
    else finish (server_event s (LOcc c true)) c (XErr false) 0
  | PSem w =>
    match c_addr x0 with
    | None => s0
    | Some a =>
      let s1 := set_sem s a (semval s a) (remove1 c (semq s a)) in
      if cf then
        let s2 := match w with
                  | WWoken => wake_next (set_sem s1 a (semval s1 a + 1) (semq s1 a)) a
                  | _ => s1
                  end in
        finish s2 c XLostSem 1
      else
        match w with
        | WWoken => let s2 := if Nat.ltb 0 (semval s1 a) then wake_next s1 a else s1 in
                    enter_sem_body s2 c
        | _ => s0     (* a waiter whose future has no result is never stepped normally *)
        end
    end
  | PConnecting =>
    if cf then hook_at s c HServerConnectError (PHookErr true)
    else match wk with
         | Some (PConnR true) =>
           let s1 := setc s c (with_io (with_state (getc s c) true true) true WOpen) in
           hook_at s1 c HServerConnected PHookConnected
         | _ => hook_at s c HServerConnectError (PHookErr false)
         end
  | PHookErr canc =>
    if cf then finish (release_of s c) c (XErr true) 1
    else let s1 := server_event s (LOcc c true) in finish (release_of s1 c) c (XErr canc) (bnat canc)
  | PHookConnected =>
    if cf then finish (release_of s c) c XLostConnectedHook 1
    else hc_read (server_event s (LOcc c false)) c
  | PRead =>
    if cf then hc_after_loop s c true
    else match wk with
         | Some (PReadR RData) => drain_start (server_event s (LData c)) c
         | _ => hc_after_loop s c false
         end
  | PDrainLock w =>
    let s1 := set_lock s (dlocked s) (remove1 c (dlockq s)) in
    if cf then
      match w with
      | WPending => s0    (* cancel() turns a pending waiter into a cancelled one: not reachable *)
      | _ => hc_after_loop (if dlocked s1 then s1 else wake_first s1) c true
      end
    else
      match w with
      | WWoken => drain_go (set_lock s1 true (dlockq s1)) c (with_writer (conns s1) 0)
      | _ => s0
      end
  | PDrain d rest =>
    if cf then hc_after_loop (lock_release s) c true
    else match wk with
         | Some (PDrainR ok) =>
           let s1 := setc s d (with_cong (getc s d) false) in
           drain_go (if ok then s1 else drain_error s1 d) c rest
         | _ => s0
         end
  | PEvent =>
    if cf then hc_cleanup s c true else s
  | PHookDisc canc =>
    if cf then finish (release_of s c) c (XClosed true) 1
    else finish (release_of s c) c (XClosed canc) (bnat canc)
  | PDone _ => s0
  end.

Definition conn_ready (s : st) (c : nat) : bool :=
  let x := getc s c in
  Nat.ltb c (length (conns s)) && c_task x && negb (is_done (c_pc x)) &&
  (c_cf x || match c_wk x with Some _ => true | None => false end).

(* ---------------------------------------------------------------- handle_client *)
Fixpoint cancel_all (s : st) (n i : nat) : st :=
  match n with
  | O => s
  | S n' => let x := getc s i in
            cancel_all (if c_entry x && c_task x then cancel s i else s) n' (S i)
  end.
Fixpoint waited (l : list conn) (i : nat) : list nat :=
  match l with
  | [] => []
  | x :: l' => if c_entry x && c_task x then i :: waited l' (S i) else waited l' (S i)
  end.
Definition all_done (s : st) (ws : list nat) : bool := forallb (fun c => is_done (c_pc (getc s c))) ws.

Definition main_finish (s : st) (k : nat) : st := emit (set_main s (MDone k) None) (EDone TMain k).

Definition main_disconnect (s : st) : st :=
  set_main (emit s (EHook HClientDisconnected 0)) MHookDisc None.

Definition main_ready (s : st) : bool :=
  match mainpc s with
  | M0 => true
  | MHookConn | MHookDisc => match mwk s with Some _ => true | None => false end
  | MWaitHandler => is_done (c_pc (getc s 0))
  | MWaitAll ws => all_done s ws
  | MDone _ => false
  end.

Definition run_main (s : st) : st :=
  match mainpc s with
  | M0 => set_main (emit s (EHook HClientConnected 0)) MHookConn None
  | MHookConn =>
    let kill := match mwk s with Some true => true | _ => false end in
    let s1 := mkSt (conns s) (mainpc s) None (client_err s || kill) (hooks s) (semval s) (semq s)
                   (script s) (trace s) (teardown_n s) (dlocked s) (dlockq s) in
    if client_err s1 then
      let s2 := emit (setc s1 0 (with_io (getc s1 0) false WClosed)) (EClose 0) in
      main_disconnect s2
    else
      let s2 := server_event s1 LStart in
      let x := getc s2 0 in
      let s3 := setc s2 0 (mkConn (c_addr x) P0 (Some PNone) false true (c_entry x) (c_writer x) (c_broken x)
                                  (c_rd x) (c_wr x) (c_err x) (c_cong x)) in
      set_main s3 MWaitHandler None
  | MWaitHandler => main_disconnect s
  | MHookDisc =>
    let n := length (conns s) in
    let s0 := mkSt (conns s) (mainpc s) None (client_err s) (hooks s) (semval s) (semq s) (script s) (trace s) (Some n) (dlocked s) (dlockq s) in
    if existsb c_entry (conns s0) then
      let ws := waited (conns s0) 0 in
      let s1 := cancel_all s0 n 0 in
      match ws with
      | [] => main_finish s1 2      (* asyncio.wait([]) raises ValueError *)
      | _ => set_main s1 (MWaitAll ws) None
      end
    else main_finish s0 0
  | MWaitAll _ => main_finish s 0
  | MDone _ => s
  end.

(* ---------------------------------------------------------------- hook_task *)
Definition geth (s : st) (k : nat) : hpc := nth k (hooks s) HDone.
Definition seth (s : st) (k : nat) (p : hpc) : st :=
  mkSt (conns s) (mainpc s) (mwk s) (client_err s) (upd (hooks s) k p) (semval s) (semq s) (script s) (trace s) (teardown_n s) (dlocked s) (dlockq s).
Definition hook_ready (s : st) (k : nat) : bool :=
  Nat.ltb k (length (hooks s)) && match geth s k with H0 => true | HHook b => b | HDone => false end.
Definition run_hook (s : st) (k : nat) : st :=
  match geth s k with
  | H0 => seth (emit s (EHook HLayer k)) k (HHook false)
  | HHook _ => emit (seth (server_event s (LHookDone k)) k HDone) (EDone (THook k) 0)
  | HDone => s
  end.

(* ---------------------------------------------------------------- schedule items *)
Definition at_hook (p : cpc) : bool :=
  match p with PHookConnect | PHookErrKilled | PHookErr _ | PHookConnected | PHookDisc _ => true | _ => false end.
Definition blocked (x : conn) : bool :=
  c_task x && negb (c_cf x) && match c_wk x with None => true | Some _ => false end.

Definition thrown_of (s : st) (t : tid) : bool :=
  match t with TConn c => c_cf (getc s c) | _ => false end.

(* None = the item is not enabled in this state *)
Definition step (s : st) (i : item) : option st :=
  match i with
  | Run TMain b => if main_ready s && negb b then Some (run_main s) else None
  | Run (TConn c) b => if conn_ready s c && Bool.eqb b (c_cf (getc s c)) then Some (run_conn s c) else None
  | Run (THook k) b => if hook_ready s k && negb b then Some (run_hook s k) else None
  | AHook TMain kill =>
    match mainpc s, mwk s with
    | MHookConn, None | MHookDisc, None => Some (set_main s (mainpc s) (Some kill))
    | _, _ => None
    end
  | AHook (TConn c) kill =>
    let x := getc s c in
    if Nat.ltb c (length (conns s)) && at_hook (c_pc x) && blocked x
    then Some (setc s c (with_wake x (Some (PKill kill)) false)) else None
  | AHook (THook k) _ =>
    match geth s k with
    | HHook false => if Nat.ltb k (length (hooks s)) then Some (seth s k (HHook true)) else None
    | _ => None
    end
  | ARead c r =>
    let x := getc s c in
    match c_pc x with
    | PRead => if Nat.ltb c (length (conns s)) && blocked x
               then Some (setc s c (with_wake x (Some (PReadR r)) false)) else None
    | _ => None
    end
  | AConn c ok =>
    let x := getc s c in
    match c_pc x with
    | PConnecting => if Nat.ltb c (length (conns s)) && blocked x
                     then Some (setc s c (with_wake x (Some (PConnR ok)) false)) else None
    | _ => None
    end
  | ATimeout =>
    let x := getc s 0 in
    Some (if c_entry x && c_task x then cancel s 0 else s)
  | ACongest c =>
    let x := getc s c in
    if Nat.ltb c (length (conns s)) && match c_writer x with WNone => false | _ => true end
    then Some (setc s c (with_cong x true)) else None
  | ADrainDone c ok =>
    let x := getc s c in
    match c_pc x with
    | PDrain _ _ => if Nat.ltb c (length (conns s)) && blocked x
                    then Some (setc s c (with_wake x (Some (PDrainR ok)) false)) else None
    | _ => None
    end
  | ABreak c =>
    let x := getc s c in
    if Nat.ltb c (length (conns s)) && match c_writer x with WNone => false | _ => true end then
      Some (setc s c (mkConn (c_addr x) (c_pc x) (c_wk x) (c_cf x) (c_task x) (c_entry x) (c_writer x) true
                             (c_rd x) (c_wr x) (c_err x) (c_cong x)))
    else None
  end.

Definition client0 : conn := mkConn None P0 None false false true WOpen false true true false false.
Definition init (sc : list (list cmd)) : st :=
  mkSt [client0] M0 None false [] (fun _ => 5) (fun _ => []) sc [] None false [].

(* total version used by the theorems: a disabled item is a no-op *)
Definition step' (s : st) (i : item) : st := match step s i with Some s' => s' | None => s end.
Fixpoint run (s : st) (l : list item) : st := match l with [] => s | i :: l' => run (step' s i) l' end.
