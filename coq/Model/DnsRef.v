(* Model/DnsRef.v -- an independent RFC 1035 section 4 reference decoder (not a model of
   mitmproxy code).  ref_canon decodes a message, following compression pointers in owner
   names, question names and in exactly those RDATA positions that are domain names for the
   record type, and returns the canonical meaning of the message: the same message written
   without compression, labels lower-cased (DNS names compare case-insensitively), RDLENGTH
   recomputed.  None = not a well-formed message (truncated, pointer loop, RDATA that does
   not parse for its type, trailing bytes).  Two byte strings mean the same iff their
   ref_canon values are equal.  Executable definitions only.
   The same decoder is written independently in Python in harness/props/C26.py; the two
   are compared on every generated message. *)
From Coq Require Import List Bool Arith NArith Lia.
From MV Require Import Base.Bytes Model.DnsNames.
Import ListNotations.

(* canonical wire form of the name at off, and the number of bytes it occupies at off *)
Fixpoint ref_name (fuel : nat) (buf : bytes) (off : nat) : option (bytes * nat) :=
  match fuel with
  | O => None
  | S f =>
      match byte_at buf off with
      | None => None
      | Some b =>
          let n := bN b in
          if (n =? 0)%N then Some ([x00], 1)
          else if (192 <=? n)%N then
            match byte_at buf (off + 1) with
            | None => None
            | Some b2 =>
                match ref_name f buf (N.to_nat ((n - 192) * 256 + bN b2)) with
                | Some (w, _) => Some (w, 2)
                | None => None
                end
            end
          else if (64 <=? n)%N then None
          else
            let k := N.to_nat n in
            let lab := firstn k (skipn (off + 1) buf) in
            if length lab <? k then None
            else match ref_name f buf (off + 1 + k) with
                 | Some (w, c) => Some (b :: lower lab ++ w, 1 + k + c)
                 | None => None
                 end
      end
  end.

Definition rname (buf : bytes) (off : nat) : option (bytes * nat) :=
  ref_name (S (length buf)) buf off.

(* RDATA grammar: number of raw bytes before the names, number of names, raw bytes after *)
Definition rdata_shape (t : N) : option (nat * nat * nat) :=
  if existsb (N.eqb t) [2; 3; 4; 5; 7; 8; 9; 12]%N then Some (0, 1, 0)
  else if existsb (N.eqb t) [14; 17]%N then Some (0, 2, 0)
  else if existsb (N.eqb t) [15; 18; 21]%N then Some (2, 1, 0)
  else if (t =? 26)%N then Some (2, 2, 0)
  else if (t =? 6)%N then Some (0, 2, 20)
  else if (t =? 33)%N then Some (6, 1, 0)
  else None.

Fixpoint rnames (count : nat) (buf : bytes) (off : nat) : option (bytes * nat) :=
  match count with
  | O => Some ([], 0)
  | S k =>
      match rname buf off with
      | None => None
      | Some (w, c) =>
          match rnames k buf (off + c) with
          | Some (w2, c2) => Some (w ++ w2, c + c2)
          | None => None
          end
      end
  end.

Definition slice (buf : bytes) (off len : nat) : bytes := firstn len (skipn off buf).

(* canonical RDATA for the window [off, off+len), which lies inside buf *)
Definition ref_rdata (t : N) (buf : bytes) (off len : nat) : option bytes :=
  match rdata_shape t with
  | None => Some (slice buf off len)
  | Some (pre, names, post) =>
      if len <? pre then None
      else match rnames names buf (off + pre) with
           | None => None
           | Some (w, c) =>
               if pre + c + post =? len
               then Some (slice buf off pre ++ w ++ slice buf (off + pre + c) post)
               else None
           end
  end.

Fixpoint ref_questions (count : nat) (buf : bytes) (off : nat) : option (bytes * nat) :=
  match count with
  | O => Some ([], off)
  | S k =>
      match rname buf off with
      | None => None
      | Some (w, c) =>
          let tc := slice buf (off + c) 4 in
          if length tc <? 4 then None
          else match ref_questions k buf (off + c + 4) with
               | Some (ws, o) => Some (w ++ tc ++ ws, o)
               | None => None
               end
      end
  end.

Fixpoint ref_rrs (count : nat) (buf : bytes) (off : nat) : option (bytes * nat) :=
  match count with
  | O => Some ([], off)
  | S k =>
      match rname buf off with
      | None => None
      | Some (w, c) =>
          match skipn (off + c) buf with
          | t1 :: t2 :: c1 :: c2 :: l1 :: l2 :: l3 :: l4 :: d1 :: d2 :: _ =>
              let len := N.to_nat (u16be d1 d2) in
              let doff := off + c + 10 in
              if length buf <? doff + len then None
              else match ref_rdata (u16be t1 t2) buf doff len with
                   | None => None
                   | Some rd =>
                       match ref_rrs k buf (doff + len) with
                       | Some (ws, o) =>
                           Some (w ++ [t1; t2; c1; c2; l1; l2; l3; l4]
                                   ++ put_u16be (N.of_nat (length rd) mod 65536) ++ rd ++ ws, o)
                       | None => None
                       end
                   end
          | _ => None
          end
      end
  end.

Definition ref_canon (buf : bytes) : option bytes :=
  match buf with
  | i1 :: i2 :: f1 :: f2 :: q1 :: q2 :: a1 :: a2 :: n1 :: n2 :: x1 :: x2 :: _ =>
      match ref_questions (N.to_nat (u16be q1 q2)) buf 12 with
      | None => None
      | Some (qs, o1) =>
          let nrr := N.to_nat (u16be a1 a2) + N.to_nat (u16be n1 n2) + N.to_nat (u16be x1 x2) in
          match ref_rrs nrr buf o1 with
          | None => None
          | Some (rs, o2) =>
              if o2 =? length buf
              then Some ([i1; i2; f1; f2; q1; q2; a1; a2; n1; n2; x1; x2] ++ qs ++ rs)
              else None
          end
      end
  | _ => None
  end.
