(* Model/ContentviewsDns.v -- mitmproxy/contentviews/_view_dns.py (DNSContentview.prettify /
   reencode / render_priority, _is_dns_tcp) over mitmproxy/dns.py (DNSMessage / Question /
   ResourceRecord .to_json / .from_json, _data_json) and net/dns/{op_codes,response_codes,types,
   classes}.py (to_str / from_str; tables translated into Gen/DnsEnums.v).
   The wire codec (DNSMessage.unpack, packed, pack_message, domain_names.pack / unpack) is the
   model of C25 (Model/DnsMessage.v, Model/DnsNames.v).  A Python str is carried as its UTF-8
   bytes.  Abstract (Section variables): ruamel YAML dump / load, and the three library record
   codecs behind _data_json / from_json for A, AAAA (ipaddress) and HTTPS (https_records).
   Executable definitions only. *)
From Coq Require Import List Bool NArith ZArith.
From MV Require Import Base.Bytes Model.Strutils Model.WsUtf8 Model.DnsNames Model.DnsMessage
  Gen.DnsEnums Model.Contentviews.
Import ListNotations.
Local Open Scope N_scope.

(* ---------- net/dns/*.py: to_str / from_str ---------- *)
Fixpoint tbl_get (t : list (N * bytes)) (n : N) : option bytes :=
  match t with
  | [] => None
  | (k, s) :: r => if k =? n then Some s else tbl_get r n
  end.
Fixpoint tbl_rev (t : list (N * bytes)) (s : bytes) : option N :=
  match t with
  | [] => None
  | (k, s') :: r => if bytes_eqb s' s then Some k else tbl_rev r s
  end.

Definition removeprefix (p s : bytes) : bytes := if starts_with p s then skipn (length p) s else s.
Definition removesuffix (p s : bytes) : bytes := rev (removeprefix (rev p) (rev s)).

(* int(s) for a str of plain ASCII decimal digits; None = ValueError.  (Python int() also
   accepts signs, blanks, underscores and non-ASCII digits: never produced by to_str.) *)
Definition dec_value (ds : bytes) : N := fold_left (fun acc d => (acc * 10 + (bN d - 48))%N) ds 0%N.
Definition parse_dec (s : bytes) : option N :=
  match s with
  | [] => None
  | _ => if forallb is_digit s then Some (dec_value s) else None
  end.

Definition enum_to_str (pre : bytes) (t : list (N * bytes)) (n : N) : bytes :=
  match tbl_get t n with
  | Some s => s
  | None => pre ++ dec_of_N n ++ [x29]
  end.
Definition enum_from_str (pre : bytes) (t : list (N * bytes)) (s : bytes) : option N :=
  match tbl_rev t s with
  | Some n => Some n
  | None => parse_dec (removesuffix [x29] (removeprefix pre s))
  end.

Definition op_to_str := enum_to_str op_codes_prefix op_codes_strings.
Definition op_from_str := enum_from_str op_codes_prefix op_codes_strings.
Definition rc_to_str := enum_to_str response_codes_prefix response_codes_strings.
Definition rc_from_str := enum_from_str response_codes_prefix response_codes_strings.
Definition ty_to_str := enum_to_str types_prefix types_strings.
Definition ty_from_str := enum_from_str types_prefix types_strings.
Definition cl_to_str := enum_to_str classes_prefix classes_strings.
Definition cl_from_str := enum_from_str classes_prefix classes_strings.

(* ---------- bytes.hex() / bytes.fromhex() ---------- *)
Definition hex_of (d : bytes) : bytes :=
  flat_map (fun b => [hexdigit (bN b / 16); hexdigit (bN b mod 16)]) d.
(* fromhex on a str without blanks (Python skips ASCII whitespace between pairs; the only
   blank of the strings produced by _data_json is cut off by partition first) *)
Fixpoint fromhex (s : bytes) : option bytes :=
  match s with
  | [] => Some []
  | a :: b :: r =>
      match hexval a, hexval b, fromhex r with
      | Some x, Some y, Some l => Some (Nb (x * 16 + y) :: l)
      | _, _, _ => None
      end
  | [_] => None
  end.

(* d.partition(" (")[0] *)
Fixpoint before_sp_paren (s : bytes) : bytes :=
  match s with
  | [] => []
  | a :: r =>
      match r with
      | b :: _ => if byte_eqb a x20 && byte_eqb b x28 then [] else a :: before_sp_paren r
      | [] => [a]
      end
  end.

Definition ZEROX : bytes := [x30; x78].
(*  (invalid  *)
Definition INVALID_OPEN : bytes := [x20; x28; x69; x6e; x76; x61; x6c; x69; x64; x20].
(*  data)  *)
Definition INVALID_CLOSE : bytes := [x20; x64; x61; x74; x61; x29].

Definition hex_str (d : bytes) : bytes := ZEROX ++ hex_of d.
Definition invalid_str (t : N) (d : bytes) : bytes :=
  hex_str d ++ INVALID_OPEN ++ ty_to_str t ++ INVALID_CLOSE.

(* the except-branch of ResourceRecord.from_json; None = ValueError from fromhex *)
Definition hex_fallback (s : bytes) : option bytes :=
  fromhex (before_sp_paren (removeprefix ZEROX s)).

(* ---------- JSON shapes ---------- *)
(* the data field: a str, or (HTTPS) a dict, opaque here *)
Inductive djson := DStr (s : bytes) | DOpaque (tok : bytes).

Record qjson := mkQJ { qj_name : name; qj_type : bytes; qj_class : bytes }.
Record rjson := mkRJ { rj_name : name; rj_type : bytes; rj_class : bytes; rj_ttl : N; rj_data : djson }.
Record mjson := mkMJ {
  j_id : N; j_query : bool; j_op_code : bytes; j_aa : bool; j_tc : bool; j_rd : bool; j_ra : bool;
  j_rcode : bytes;
  j_questions : list qjson; j_answers : list rjson; j_authorities : list rjson;
  j_additionals : list rjson; j_size : N }.

Definition is_lib_type (t : N) : bool := (t =? T_A) || (t =? T_AAAA) || (t =? T_HTTPS).
Definition is_name_type (t : N) : bool := (t =? T_NS) || (t =? T_CNAME) || (t =? T_PTR).

(* _is_dns_tcp(metadata); http_counts = whether the live function also counts http_message *)
Definition is_dns_tcp (http_counts has_tcp has_http : bool) : bool :=
  has_tcp || (http_counts && has_http).

(* DNSContentview.render_priority: float(bool) *)
Definition APP_DNS : bytes :=
  [x61; x70; x70; x6c; x69; x63; x61; x74; x69; x6f; x6e; x2f; x64; x6e; x73; x2d; x6d; x65; x73; x73; x61; x67; x65].
Definition dns_render_priority (content_type : option bytes) (server_port : option N) : Z :=
  if (match content_type with Some c => bytes_eqb c APP_DNS | None => false end)
     || (match server_port with Some p => (p =? 53) || (p =? 5353) | None => false end)
  then 1%Z else 0%Z.

Section DnsJson.
(* library codecs: str(IPv4Address(data)) / str(IPv6Address(data)) / https_records.unpack(data).to_json()
   and their inverses IPv4Address(d).packed / IPv6Address(d).packed /
   https_records.pack(HTTPSRecord.from_json(d)); None = raises *)
Variable lib_enc : N -> bytes -> option djson.
Variable lib_dec : N -> djson -> option bytes.

(* ResourceRecord._data_json *)
Definition data_json (t : N) (d : bytes) : djson :=
  if is_lib_type t then
    match lib_enc t d with Some j => j | None => DStr (invalid_str t d) end
  else if is_name_type t then
    match DnsNames.unpack d with Ok n => DStr n | Err _ => DStr (invalid_str t d) end
  else if t =? T_TXT then
    (if utf8_valid d then DStr d else DStr (invalid_str t d))
  else DStr (hex_str d).

(* the match statement of ResourceRecord.from_json; None = an exception (caught there) *)
Definition data_attempt (t : N) (j : djson) : option bytes :=
  if is_lib_type t then lib_dec t j
  else if is_name_type t then
    match j with
    | DStr s => match DnsNames.pack s with Ok b => Some b | Err _ => None end
    | DOpaque _ => None
    end
  else if t =? T_TXT then
    match j with DStr s => Some s | DOpaque _ => None end
  else None.

(* None = from_json raises *)
Definition data_from_json (t : N) (j : djson) : option bytes :=
  match data_attempt t j with
  | Some b => Some b
  | None => match j with DStr s => hex_fallback s | DOpaque _ => None end
  end.

Definition q_to_json (q : question) : qjson :=
  mkQJ (q_name q) (ty_to_str (q_type q)) (cl_to_str (q_class q)).
Definition q_from_json (j : qjson) : option question :=
  match ty_from_str (qj_type j), cl_from_str (qj_class j) with
  | Some t, Some c => Some (mkQ (qj_name j) t c)
  | _, _ => None
  end.

Definition rr_to_json (r : rr) : rjson :=
  mkRJ (r_name r) (ty_to_str (r_type r)) (cl_to_str (r_class r)) (r_ttl r)
       (data_json (r_type r) (r_data r)).
Definition rr_from_json (j : rjson) : option rr :=
  match ty_from_str (rj_type j), cl_from_str (rj_class j) with
  | Some t, Some c =>
      match data_from_json t (rj_data j) with
      | Some d => Some (mkRR (rj_name j) t c (rj_ttl j) d)
      | None => None
      end
  | _, _ => None
  end.

Fixpoint map_opt {A B} (f : A -> option B) (l : list A) : option (list B) :=
  match l with
  | [] => Some []
  | a :: r => match f a, map_opt f r with Some b, Some t => Some (b :: t) | _, _ => None end
  end.

(* the keys status_code and timestamp, which the view deletes right away and from_json never
   reads, are left out *)
Definition m_to_json (size : N) (m : message) : mjson :=
  mkMJ (m_id m) (m_query m) (op_to_str (m_op_code m)) (m_aa m) (m_tc m) (m_rd m) (m_ra m)
       (rc_to_str (m_rcode m))
       (map q_to_json (m_questions m)) (map rr_to_json (m_answers m))
       (map rr_to_json (m_authorities m)) (map rr_to_json (m_additionals m)) size.

(* DNSMessage.from_json: reserved=0; size and status_code are not read *)
Definition m_from_json (j : mjson) : option message :=
  match op_from_str (j_op_code j), rc_from_str (j_rcode j),
        map_opt q_from_json (j_questions j), map_opt rr_from_json (j_answers j),
        map_opt rr_from_json (j_authorities j), map_opt rr_from_json (j_additionals j) with
  | Some op, Some rc, Some qs, Some an, Some au, Some ad =>
      Some (mkMsg (j_id j) (j_query j) op (j_aa j) (j_tc j) (j_rd j) (j_ra j) 0 rc qs an au ad)
  | _, _, _, _, _, _ => None
  end.

(* ruamel round-trip dump / safe load *)
Variable yaml_dumps : mjson -> text.
Variable yaml_loads : text -> option mjson.

(* the size property of DNSMessage: sum of the record data lengths *)
Definition msg_size (m : message) : N :=
  N.of_nat (fold_right (fun r acc => (length (r_data r) + acc)%nat) 0%nat
              (m_answers m ++ m_authorities m ++ m_additionals m)).

(* DNSContentview.prettify; inr = raises *)
Definition dns_prettify (tcp : bool) (data : bytes) : text + pyexc :=
  let data' := if tcp then skipn 2 data else data in
  match DnsMessage.unpack data' with
  | Ok m => inl (yaml_dumps (m_to_json (msg_size m) m))
  | Err e => inr e
  end.

(* DNSContentview.reencode; None = raises *)
Definition dns_reencode (tcp : bool) (prettified : text) : option bytes :=
  match yaml_loads prettified with
  | None => None
  | Some j =>
      match m_from_json j with
      | None => None
      | Some m => match pack_message m tcp with Ok b => Some b | Err _ => None end
      end
  end.

End DnsJson.
