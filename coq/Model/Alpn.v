(* Model/Alpn.v — hand model of the two pieces of TlsConfig that surround the translated
   callback (Gen/AlpnSelect.v): the AppData that tls_start_client attaches to the connection
   and the upstream ALPN offer list that tls_start_server derives.  Executable only. *)
From Coq Require Import List Bool Arith.
From MV Require Import Base.Bytes Model.AlpnPrelude Gen.AlpnSelect.
Import ListNotations.

(* the two literals that occur in tlsconfig.py itself (not the proxy_tls constants) *)
Definition lit_http11 : bytes := [x68;x74;x74;x70;x2f;x31;x2e;x31].  (* http/1.1 *)
Definition lit_h2 : bytes := [x68;x32].                               (* h2 *)

(* tls_start_client:
     if len(tls_start.context.layers) == 2 and isinstance(tls_start.context.layers[0], modes.HttpProxy):
         client_alpn = the literal http/1.1
     else:
         client_alpn = client.alpn
     AppData(client_alpn=client_alpn, server_alpn=server.alpn, http2=ctx.options.http2)
   nlayers = len(context.layers); layer0_http_proxy = isinstance(layers[0], HttpProxy)
   (only evaluated when nlayers == 2, so any value may be passed otherwise). *)
Definition tls_start_client_app_data (nlayers : nat) (layer0_http_proxy : bool)
    (client_alpn_attr server_alpn_attr : option bytes) (http2_option : bool) : AppData :=
  let client_alpn_v :=
    if (nlayers =? 2) && layer0_http_proxy then Some lit_http11 else client_alpn_attr in
  {| client_alpn := client_alpn_v; server_alpn := server_alpn_attr; http2 := http2_option |}.

(* truthiness of server.alpn_offers / client.alpn_offers (None, empty tuple, empty list are falsy) *)
Definition py_truthy_offers (o : option (list bytes)) : bool :=
  match o with Some (_ :: _) => true | _ => false end.

(* tls_start_server: the value of server.alpn_offers after the hook.
     if not server.alpn_offers:
         if client.alpn_offers:
             if ctx.options.http2: server.alpn_offers = tuple(client.alpn_offers)
             else: server.alpn_offers = tuple(x for x in client.alpn_offers if x != the literal h2)
         else: server.alpn_offers = []                                                        *)
Definition tls_start_server_offers (server_offers : option (list bytes)) (client_offers : list bytes)
    (http2_option : bool) : list bytes :=
  if negb (py_truthy_offers server_offers) then
    if py_truthy_offers (Some client_offers) then
      if http2_option then client_offers
      else filter (fun x => negb (bytes_eqb x lit_h2)) client_offers
    else []
  else match server_offers with Some l => l | None => [] end.

(* What the client ends up with after the handshake, as mitmproxy records it
   (conn.alpn = get_alpn_proto_negotiated(), the empty string when nothing was negotiated).
   OpenSSL does not invoke the callback when the ClientHello has no ALPN extension;
   pyOpenSSL maps NO_OVERLAPPING_PROTOCOLS to SSL_TLSEXT_ERR_NOACK (handshake continues
   without ALPN).  None = the handshake cannot complete (callback raised / returned None). *)
Definition negotiated_with_client (ad : AppData) (offers : list bytes) : option bytes :=
  match offers with
  | [] => Some []
  | _ => match alpn_select_callback ad offers with
         | Sel p => Some p
         | NO_OVERLAPPING_PROTOCOLS => Some []
         | RetNone => None
         end
  end.
