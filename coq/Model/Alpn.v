(* Model/Alpn.v — hand model of the two pieces of TlsConfig that surround the translated
   callback (Gen/AlpnSelect.v): the AppData that tls_start_client attaches to the connection
   and the upstream ALPN offer list that tls_start_server derives, and the TLS-over-TLS reset in ClientTLSLayer.__init__ (its attribute
   list is generated: Gen/ClientTlsReset.v).  Executable only. *)
From Coq Require Import List Bool Arith.
From MV Require Import Base.Bytes Model.AlpnPrelude Gen.AlpnSelect Gen.ClientTlsReset.
Import ListNotations.

(* the two literals that occur in tlsconfig.py itself (not the proxy_tls constants) *)
Definition lit_http11 : bytes := [x68;x74;x74;x70;x2f;x31;x2e;x31].  (* http/1.1 *)
Definition lit_h2 : bytes := [x68;x32].                               (* h2 *)

(* what the entries of context.layers are, as far as tls_start_client looks at them *)
Inductive layer_kind := LHttpProxy | LClientTLS | LOther.
Definition is_http_proxy (k : layer_kind) : bool := match k with LHttpProxy => true | _ => false end.
Definition is_client_tls (k : layer_kind) : bool := match k with LClientTLS => true | _ => false end.

(* tls_start_client, the secure-web-proxy test.  Two variants of the SAME hook:
   current code:    len(layers) == 2 and isinstance(layers[0], modes.HttpProxy)
   repaired code (fixes/C18-secure-web-proxy-real-stack.diff):
                    len(layers) >= 2 and isinstance(layers[0], modes.HttpProxy)
                    and not any(isinstance(x, ClientTLSLayer) for x in layers[2:])
   The harness tells which one the tree under test contains (Corr case field fixed). *)
Definition is_outer_orig (layers : list layer_kind) : bool :=
  (length layers =? 2) && match layers with k :: _ => is_http_proxy k | [] => false end.
Definition is_outer_fixed (layers : list layer_kind) : bool :=
  match layers with
  | k :: _ :: rest => is_http_proxy k && negb (existsb is_client_tls rest)
  | _ => false
  end.
Definition is_outer (fixed : bool) (layers : list layer_kind) : bool :=
  if fixed then is_outer_fixed layers else is_outer_orig layers.

(* tls_start_client:
     if <secure web proxy test>: client_alpn = the literal http/1.1
     else:                       client_alpn = client.alpn
     AppData(client_alpn=client_alpn, server_alpn=server.alpn, http2=ctx.options.http2) *)
Definition tls_start_client_app_data (fixed : bool) (layers : list layer_kind)
    (client_alpn_attr server_alpn_attr : option bytes) (http2_option : bool) : AppData :=
  let client_alpn_v :=
    if is_outer fixed layers then Some lit_http11 else client_alpn_attr in
  {| client_alpn := client_alpn_v; server_alpn := server_alpn_attr; http2 := http2_option |}.

(* The ALPN-relevant part of connection.Client, and ClientTLSLayer.__init__ acting on it:
     if context.client.tls: <the generated CLIENT_TLS_RESET list of attribute resets>
     super().__init__(...)   which sets conn.tls = True (TLSLayer.__init__) *)
Record client_tls_state := { c_tls : bool; c_alpn : option bytes; c_alpn_offers : list bytes }.

Definition attr_alpn : bytes := [x61;x6c;x70;x6e].                                   (* alpn *)
Definition attr_alpn_offers : bytes := [x61;x6c;x70;x6e;x5f;x6f;x66;x66;x65;x72;x73]. (* alpn_offers *)

Definition client_tls_layer_init (st : client_tls_state) : client_tls_state :=
  let alpn_v :=
    if c_tls st then match reset_lookup attr_alpn CLIENT_TLS_RESET with Some _ => None | None => c_alpn st end
    else c_alpn st in
  let offers_v :=
    if c_tls st then match reset_lookup attr_alpn_offers CLIENT_TLS_RESET with Some _ => [] | None => c_alpn_offers st end
    else c_alpn_offers st in
  {| c_tls := true; c_alpn := alpn_v; c_alpn_offers := offers_v |}.

(* truthiness of server.alpn_offers / client.alpn_offers (None, empty tuple, empty list are falsy) *)
Definition py_truthy_offers (o : option (list bytes)) : bool :=
  match o with Some (_ :: _) => true | _ => false end.

(* tls_start_server: the value of server.alpn_offers after the hook.
     if not server.alpn_offers:
         if client.alpn_offers:
             if ctx.options.http2: server.alpn_offers = tuple(client.alpn_offers)
             else: server.alpn_offers = tuple(x for x in client.alpn_offers if x != the literal h2)
         else: server.alpn_offers = []                                                        *)
Definition tls_start_server_offers (server_offers : option (list bytes)) (client_offers : list bytes)
    (http2_option : bool) : list bytes :=
  if negb (py_truthy_offers server_offers) then
    if py_truthy_offers (Some client_offers) then
      if http2_option then client_offers
      else filter (fun x => negb (bytes_eqb x lit_h2)) client_offers
    else []
  else match server_offers with Some l => l | None => [] end.

(* What the client ends up with after the handshake, as mitmproxy records it
   (conn.alpn = get_alpn_proto_negotiated(), the empty string when nothing was negotiated).
   OpenSSL does not invoke the callback when the ClientHello has no ALPN extension;
   pyOpenSSL maps NO_OVERLAPPING_PROTOCOLS to SSL_TLSEXT_ERR_NOACK (handshake continues
   without ALPN).  None = the handshake cannot complete (callback raised / returned None). *)
Definition negotiated_with_client (ad : AppData) (offers : list bytes) : option bytes :=
  match offers with
  | [] => Some []
  | _ => match alpn_select_callback ad offers with
         | Sel p => Some p
         | NO_OVERLAPPING_PROTOCOLS => Some []
         | RetNone => None
         end
  end.
