(* Model/Tnet.v -- executable model of mitmproxy/io/tnetstring.py (dumps/_rdumpq, load, parse,
   split, pop, loads) and of the exception mapping of FlowReader.stream in mitmproxy/io/io.py.
   Definitions only; proofs are in Proofs/Tnet*.v.

   Python values are the tree [tv]. A str is carried as its UTF-8 bytes, a float as the token
   repr(x). float() is a parameter [pyfloat] (CPython float parsing is not modelled): it maps
   a literal to None (ValueError) or to the canonical repr of the parsed float together with
   its exact integer value when the float is integral (needed for dict key equality 1 == 1.0).
   The Python call stack is explicit: [depth] is the number of further nested pop() calls the
   interpreter allows before raising RecursionError. *)
From Coq Require Import List Bool Arith NArith ZArith Decimal.
From MV Require Import Base.Bytes.
Import ListNotations.

Inductive pyexc := ValueError | TypeError | IndexError | RecursionError | KeyError
                 | AttributeError | AssertionError | OtherExc.

Definition pyexc_eqb (a b : pyexc) : bool :=
  match a, b with
  | ValueError, ValueError | TypeError, TypeError | IndexError, IndexError
  | RecursionError, RecursionError | KeyError, KeyError | AttributeError, AttributeError
  | AssertionError, AssertionError | OtherExc, OtherExc => true
  | _, _ => false
  end.

Inductive tv :=
| TNull | TBool (b : bool) | TInt (z : Z) | TFloat (tok : bytes) | TBytes (b : bytes)
| TStr (utf8 : bytes) | TList (l : list tv) | TDict (kv : list (tv * tv)).

Inductive res (A : Type) := Ok (a : A) | Exc (e : pyexc) | OutOfFuel.
Arguments Ok {A} a. Arguments Exc {A} e. Arguments OutOfFuel {A}.

Definition blen (b : bytes) : N := N.of_nat (length b).

(* ---- str(int).encode() and int(bytes-like) ---- *)
Fixpoint bytes_of_uint (u : uint) : bytes :=
  match u with
  | Nil => []
  | D0 u => x30 :: bytes_of_uint u | D1 u => x31 :: bytes_of_uint u | D2 u => x32 :: bytes_of_uint u
  | D3 u => x33 :: bytes_of_uint u | D4 u => x34 :: bytes_of_uint u | D5 u => x35 :: bytes_of_uint u
  | D6 u => x36 :: bytes_of_uint u | D7 u => x37 :: bytes_of_uint u | D8 u => x38 :: bytes_of_uint u
  | D9 u => x39 :: bytes_of_uint u
  end.
Definition dec_N (n : N) : bytes := bytes_of_uint (N.to_uint n).
Definition dec_Z (z : Z) : bytes :=
  match z with Zneg p => x2d :: dec_N (Npos p) | _ => dec_N (Z.to_N z) end.

Fixpoint uint_of_digits (s : bytes) : uint :=
  match s with
  | [] => Nil
  | c :: r =>
      let u := uint_of_digits r in
      match c with
      | x30 => D0 u | x31 => D1 u | x32 => D2 u | x33 => D3 u | x34 => D4 u
      | x35 => D5 u | x36 => D6 u | x37 => D7 u | x38 => D8 u | x39 => D9 u
      | _ => D0 u
      end
  end.
Definition digits_val (ds : bytes) : N := N.of_uint (uint_of_digits ds).

(* Py_ISSPACE *)
Definition is_space (b : byte) : bool :=
  match b with x09 | x0a | x0b | x0c | x0d | x20 => true | _ => false end.
Fixpoint lstrip (s : bytes) : bytes :=
  match s with
  | c :: r => if is_space c then lstrip r else s
  | [] => []
  end.

(* digits with single underscores between them; None = doubled or trailing underscore *)
Fixpoint scan_int (s : bytes) (prev_us : bool) : option (bytes * bytes) :=
  match s with
  | [] => if prev_us then None else Some ([], [])
  | c :: r =>
      if is_digit c then
        match scan_int r false with Some (ds, rest) => Some (c :: ds, rest) | None => None end
      else if byte_eqb c x5f then (if prev_us then None else scan_int r true)
      else if prev_us then None else Some ([], s)
  end.

(* int(x) for a bytes-like x, base 10 (PyLong_FromString); None = ValueError.
   More than 4300 digits: ValueError (sys.int_info.default_max_str_digits). *)
Definition py_int (s : bytes) : option Z :=
  let s1 := lstrip s in
  let '(neg, s2) := match s1 with
                    | c :: r => if byte_eqb c x2d then (true, r)
                                else if byte_eqb c x2b then (false, r) else (false, s1)
                    | [] => (false, s1)
                    end in
  if starts_with [x5f] s2 then None          (* may not start with an underscore *)
  else
    match scan_int s2 false with
    | None => None
    | Some (ds, rest) =>
        match ds with
        | [] => None
        | _ :: _ =>
            if (4300 <? blen ds)%N then None
            else match lstrip rest with
                 | [] => let n := Z.of_N (digits_val ds) in Some (if neg then Z.opp n else n)
                 | _ :: _ => None
                 end
        end
    end.

(* ---- str(data, 'utf8') succeeds (strict decoder: no overlongs, no surrogates, <= U+10FFFF) ---- *)
Definition in_range (lo hi : N) (b : byte) : bool := (lo <=? bN b)%N && (bN b <=? hi)%N.
Definition cont (b : byte) : bool := in_range 128 191 b.
Fixpoint utf8_valid (s : bytes) : bool :=
  match s with
  | [] => true
  | b0 :: r =>
      if (bN b0 <? 128)%N then utf8_valid r
      else if in_range 194 223 b0 then
        match r with b1 :: r' => cont b1 && utf8_valid r' | _ => false end
      else if in_range 224 239 b0 then
        match r with
        | b1 :: b2 :: r' =>
            (if (bN b0 =? 224)%N then in_range 160 191 b1
             else if (bN b0 =? 237)%N then in_range 128 159 b1 else cont b1)
            && cont b2 && utf8_valid r'
        | _ => false
        end
      else if in_range 240 244 b0 then
        match r with
        | b1 :: b2 :: b3 :: r' =>
            (if (bN b0 =? 240)%N then in_range 144 191 b1
             else if (bN b0 =? 244)%N then in_range 128 143 b1 else cont b1)
            && cont b2 && cont b3 && utf8_valid r'
        | _ => false
        end
      else false
  end.

(* ---- dumps: literal model of _rdumpq (deque of chunks, appendleft = cons; running size) ---- *)
Definition st := (list bytes * N)%type.

Definition dump_scalar (q : list bytes) (size : N) (data : bytes) (ty : byte) : st :=
  (* write(b'%s:%s#' % (span, data)) as one chunk *)
  let ldata := blen data in
  let span := dec_N ldata in
  ((span ++ [x3a] ++ data ++ [ty]) :: q, (size + 2 + blen span + ldata)%N).

Definition dump_blob (q : list bytes) (size : N) (data : bytes) (ty : byte) : st :=
  (* write(ty); write(data); write(b':'); write(span) *)
  let ldata := blen data in
  let span := dec_N ldata in
  (span :: [x3a] :: data :: [ty] :: q, (size + 2 + blen span + ldata)%N).

Fixpoint rdumpq (q : list bytes) (size : N) (value : tv) : st :=
  match value with
  | TNull => ([x30; x3a; x7e] :: q, (size + 3)%N)
  | TBool true => ([x34; x3a; x74; x72; x75; x65; x21] :: q, (size + 7)%N)
  | TBool false => ([x35; x3a; x66; x61; x6c; x73; x65; x21] :: q, (size + 8)%N)
  | TInt z => dump_scalar q size (dec_Z z) x23
  | TFloat tok => dump_scalar q size tok x5e
  | TBytes data => dump_blob q size data x2c
  | TStr data => dump_blob q size data x3b
  | TList l =>
      let init_size := (size + 1)%N in
      (* for item in reversed(value): size = _rdumpq(q, size, item) *)
      let s2 := fold_right (fun item (s : st) => rdumpq (fst s) (snd s) item) ([x5d] :: q, init_size) l in
      let span := dec_N (snd s2 - init_size) in
      (span :: [x3a] :: fst s2, (snd s2 + 1 + blen span)%N)
  | TDict kv =>
      let init_size := (size + 1)%N in
      (* for k, v in value.items(): size = _rdumpq(q, size, v); size = _rdumpq(q, size, k) *)
      let s2 := fold_left (fun (s : st) (p : tv * tv) =>
                             let s1 := rdumpq (fst s) (snd s) (snd p) in
                             rdumpq (fst s1) (snd s1) (fst p))
                          kv ([x7d] :: q, init_size) in
      let span := dec_N (snd s2 - init_size) in
      (span :: [x3a] :: fst s2, (snd s2 + 1 + blen span)%N)
  end.

Definition dumps (value : tv) : bytes := concat (fst (rdumpq [] 0%N value)).

(* ---- reading ---- *)
Definition takeN (n : N) (l : bytes) : bytes := firstn (N.to_nat (N.min n (blen l))) l.
Definition dropN (n : N) (l : bytes) : bytes := skipn (N.to_nat (N.min n (blen l))) l.

Definition s_true : bytes := [x74; x72; x75; x65].
Definition s_false : bytes := [x66; x61; x6c; x73; x65].
Definition s_nan : bytes := [x6e; x61; x6e].

Definition hashable (v : tv) : bool :=
  match v with TList _ | TDict _ => false | _ => true end.
Definition is_dict (v : tv) : bool := match v with TDict _ => true | _ => false end.

Inductive numkey := NK_Z (z : Z) | NK_F (tok : bytes) | NK_none.

(* data[i] for i = position of the first ':' ; None = IndexError *)
Fixpoint find_colon (data : bytes) : option (bytes * bytes) :=
  match data with
  | [] => None
  | c :: r =>
      if byte_eqb c x3a then Some ([], r)
      else match find_colon r with Some (a, b) => Some (c :: a, b) | None => None end
  end.

(* split(data, b':') ; None = the ValueError raised for IndexError/ValueError *)
Definition split (data : bytes) : option (Z * bytes) :=
  match find_colon data with
  | None => None
  | Some (pre, rest) =>
      match py_int pre with None => None | Some z => Some (z, rest) end
  end.

(* data[:length], data[length], data[length + 1:] with Python index semantics
   (length may be negative: int() accepts a sign). None = IndexError from data[length]. *)
Definition pop_slices (length : Z) (data : bytes) : option (bytes * byte * bytes) :=
  let n := Z.of_nat (List.length data) in
  let idx := if (length <? 0)%Z then (n + length)%Z else length in
  if (idx <? 0)%Z || (n <=? idx)%Z then None
  else
    let i := Z.to_nat idx in
    match skipn i data with
    | ty :: _ =>
        (* data[length+1:]: for length = -1 the start index is 0, the whole view *)
        Some (firstn i data, ty, if (length =? -1)%Z then data else skipn (S i) data)
    | [] => None
    end.

(* first 1..12 ASCII digits up to ':' as load() reads them one byte at a time *)
Fixpoint read_len (file : bytes) (cnt : nat) : option (bytes * bytes) :=
  match file with
  | [] => None
  | c :: r =>
      if is_digit c then
        if (12 <? S cnt)%nat then None
        else match read_len r (S cnt) with Some (ds, rest) => Some (c :: ds, rest) | None => None end
      else if byte_eqb c x3a then Some ([], r)
      else None
  end.

Inductive load_result := LValue (v : tv) (rest : bytes) | LEof | LExc (e : pyexc) | LFuel.
Inductive final := Clean | ReadError | Other (e : pyexc) | HarBranch | Fuel.

Definition final_eqb (a b : final) : bool :=
  match a, b with
  | Clean, Clean | ReadError, ReadError | HarBranch, HarBranch | Fuel, Fuel => true
  | Other x, Other y => pyexc_eqb x y
  | _, _ => false
  end.

Section Tnet.
  (* float(data): None = ValueError; Some (repr, Some z) when the float is integral with value z *)
  Variable pyfloat : bytes -> option (bytes * option Z).

  Definition key_num (v : tv) : numkey :=
    match v with
    | TBool b => NK_Z (if b then 1 else 0)
    | TInt z => NK_Z z
    | TFloat tok => match pyfloat tok with Some (_, Some z) => NK_Z z | _ => NK_F tok end
    | _ => NK_none
    end.

  (* existing_key == new_key for hashable values (True == 1 == 1.0; nan != nan) *)
  Definition key_eqb (a b : tv) : bool :=
    match a, b with
    | TNull, TNull => true
    | TBytes x, TBytes y => bytes_eqb x y
    | TStr x, TStr y => bytes_eqb x y
    | _, _ =>
        match key_num a, key_num b with
        | NK_Z x, NK_Z y => Z.eqb x y
        | NK_F x, NK_F y => bytes_eqb x y && negb (bytes_eqb x s_nan)
        | _, _ => false
        end
    end.

  Fixpoint dict_replace (d : list (tv * tv)) (key val : tv) : option (list (tv * tv)) :=
    match d with
    | [] => None
    | (k, v) :: r =>
        if key_eqb k key then Some ((k, val) :: r)
        else match dict_replace r key val with Some r' => Some ((k, v) :: r') | None => None end
    end.

  (* d[key] = val ; unhashable key: TypeError *)
  Definition dict_set (d : list (tv * tv)) (key val : tv) : res (list (tv * tv)) :=
    if hashable key then
      Ok (match dict_replace d key val with Some d' => d' | None => d ++ [(key, val)] end)
    else Exc TypeError.

  (* while data: item, data = pop(data); lst.append(item) *)
  Fixpoint list_loop (popf : bytes -> res (tv * bytes)) (n : nat) (data : bytes) : res (list tv) :=
    match data with
    | [] => Ok []
    | _ :: _ =>
        match n with
        | O => OutOfFuel
        | S n' =>
            match popf data with
            | Ok (item, rest) =>
                match list_loop popf n' rest with
                | Ok l => Ok (item :: l) | Exc e => Exc e | OutOfFuel => OutOfFuel
                end
            | Exc e => Exc e
            | OutOfFuel => OutOfFuel
            end
        end
    end.

  (* while data: key, data = pop(data); val, data = pop(data); d[key] = val *)
  Fixpoint dict_loop (popf : bytes -> res (tv * bytes)) (n : nat) (data : bytes)
           (d : list (tv * tv)) : res (list (tv * tv)) :=
    match data with
    | [] => Ok d
    | _ :: _ =>
        match n with
        | O => OutOfFuel
        | S n' =>
            match popf data with
            | Ok (key, data1) =>
                match popf data1 with
                | Ok (val, data2) =>
                    match dict_set d key val with
                    | Ok d' => dict_loop popf n' data2 d'
                    | Exc e => Exc e
                    | OutOfFuel => OutOfFuel
                    end
                | Exc e => Exc e
                | OutOfFuel => OutOfFuel
                end
            | Exc e => Exc e
            | OutOfFuel => OutOfFuel
            end
        end
    end.

  (* parse(data_type, data) with the recursive pop passed in; same branch order as the code.
     UnicodeDecodeError is a ValueError. *)
  Definition parse_with (popf : bytes -> res (tv * bytes)) (data_type : byte) (data : bytes) : res tv :=
    if byte_eqb data_type x2c then Ok (TBytes data)
    else if byte_eqb data_type x3b then (if utf8_valid data then Ok (TStr data) else Exc ValueError)
    else if byte_eqb data_type x23 then
      match py_int data with Some z => Ok (TInt z) | None => Exc ValueError end
    else if byte_eqb data_type x5e then
      match pyfloat data with Some (r, _) => Ok (TFloat r) | None => Exc ValueError end
    else if byte_eqb data_type x21 then
      (if bytes_eqb data s_true then Ok (TBool true)
       else if bytes_eqb data s_false then Ok (TBool false) else Exc ValueError)
    else if byte_eqb data_type x7e then
      match data with [] => Ok TNull | _ => Exc ValueError end
    else if byte_eqb data_type x5d then
      match list_loop popf (length data) data with
      | Ok l => Ok (TList l) | Exc e => Exc e | OutOfFuel => OutOfFuel
      end
    else if byte_eqb data_type x7d then
      match dict_loop popf (length data) data [] with
      | Ok d => Ok (TDict d) | Exc e => Exc e | OutOfFuel => OutOfFuel
      end
    else Exc ValueError.

  (* pop(data); depth = number of nested pop frames Python still allows *)
  Fixpoint pop (depth : nat) (data : bytes) : res (tv * bytes) :=
    match depth with
    | O => Exc RecursionError
    | S d =>
        match split data with
        | None => Exc ValueError
        | Some (len, data1) =>
            match pop_slices len data1 with
            | None => Exc ValueError
            | Some (payload, ty, remain) =>
                match parse_with (pop d) ty payload with
                | Ok v => Ok (v, remain) | Exc e => Exc e | OutOfFuel => OutOfFuel
                end
            end
        end
    end.

  Definition parse (depth : nat) := parse_with (pop depth).

  Definition loads (depth : nat) (s : bytes) : res tv :=
    match pop depth s with Ok (v, _) => Ok v | Exc e => Exc e | OutOfFuel => OutOfFuel end.

  (* load(file_handle) on the remaining file content; LEof = ValueError(empty file) *)
  Definition load (depth : nat) (file : bytes) : load_result :=
    match file with
    | [] => LEof
    | _ :: _ =>
        match read_len file 0 with
        | None => LExc ValueError
        | Some (ds, rest) =>
            match ds with
            | [] => LExc ValueError      (* int(b'') *)
            | _ :: _ =>
                let n := digits_val ds in
                let data := takeN n rest in          (* file_handle.read(n): may be short *)
                match dropN n rest with
                | [] => LExc IndexError              (* file_handle.read(1)[0] at EOF *)
                | ty :: rest2 =>
                    match parse depth ty data with
                    | Ok v => LValue v rest2 | Exc e => LExc e | OutOfFuel => LFuel
                    end
                end
            end
        end
    end.

  (* ---- FlowReader.stream: exception mapping. [outer]/[inner] = classes named by the two
     except clauses; from_state v = exception class escaping
     Flow.from_state(compat.migrate_flow(v)) (None: a flow is produced). *)
  Variables outer inner : pyexc -> bool.
  Variable from_state : tv -> option pyexc.

  Definition handle_inner (e : pyexc) : final :=
    if inner e then ReadError else if outer e then ReadError else Other e.

  Fixpoint stream_loop (depth n : nat) (file : bytes) : list tv * final :=
    match n with
    | O => ([], Fuel)
    | S n' =>
        match load depth file with
        | LEof => ([], Clean)
        | LFuel => ([], Fuel)
        | LExc e => ([], if outer e then ReadError else Other e)
        | LValue v rest =>
            if is_dict v then
              match from_state v with
              | None => let r := stream_loop depth n' rest in (v :: fst r, snd r)
              | Some e => ([], handle_inner e)
              end
            else ([], handle_inner ValueError)
        end
    end.

  Definition bom_brace : bytes := [xef; xbb; xbf; x7b].

  (* values handed to from_state for which a flow was yielded, and how the generator ended *)
  Definition stream (depth : nat) (file : bytes) : list tv * final :=
    if starts_with bom_brace file || starts_with [x7b] file then ([], HarBranch)
    else stream_loop depth (S (length file)) file.
End Tnet.

(* the except clauses as written in io.py at the time of modelling *)
Definition outer_current (e : pyexc) : bool :=
  match e with ValueError | TypeError | IndexError => true | _ => false end.
Definition inner_current (e : pyexc) : bool :=
  match e with ValueError => true | _ => false end.

(* boolean equality on value trees (correspondence glue and float tables) *)
Fixpoint tv_eqb (a b : tv) : bool :=
  match a, b with
  | TNull, TNull => true
  | TBool x, TBool y => Bool.eqb x y
  | TInt x, TInt y => Z.eqb x y
  | TFloat x, TFloat y => bytes_eqb x y
  | TBytes x, TBytes y => bytes_eqb x y
  | TStr x, TStr y => bytes_eqb x y
  | TList x, TList y =>
      (fix go (x y : list tv) : bool :=
         match x, y with
         | [], [] => true
         | a :: x', b :: y' => tv_eqb a b && go x' y'
         | _, _ => false
         end) x y
  | TDict x, TDict y =>
      (fix go (x y : list (tv * tv)) : bool :=
         match x, y with
         | [], [] => true
         | (k1, v1) :: x', (k2, v2) :: y' => tv_eqb k1 k2 && tv_eqb v1 v2 && go x' y'
         | _, _ => false
         end) x y
  | _, _ => false
  end.
