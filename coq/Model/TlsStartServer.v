(* Model/TlsStartServer.v -- executable model of the verification-relevant part of
   mitmproxy/addons/tlsconfig.py TlsConfig.tls_start_server (after the early return for a
   connection object supplied by another addon), of ipaddress.ip_address (CPython 3.12) and of the
   ASCII fast path of the idna codec.  str values are their UTF-8 bytes.  Executable definitions only. *)
From Coq Require Import List Bool NArith ZArith.
From MV Require Import Base.Bytes Model.X509Verify.
Import ListNotations.
Open Scope N_scope.

Definition nonempty {A} (l : list A) : bool := match l with [] => false | _ => true end.
Definition has (b : byte) (s : bytes) : bool := existsb (byte_eqb b) s.

Fixpoint map_opt {A B} (f : A -> option B) (l : list A) : option (list B) :=
  match l with
  | [] => Some []
  | a :: r => match f a, map_opt f r with Some b, Some bs => Some (b :: bs) | _, _ => None end
  end.

(* ---------- ipaddress.IPv4Address(str) ---------- *)

Definition dec_val (s : bytes) : N := fold_left (fun acc b => acc * 10 + (bN b - 48)) s 0.

(* _BaseV4._parse_octet *)
Definition parse_octet (o : bytes) : option N :=
  if negb (nonempty o) then None
  else if negb (forallb is_digit o) then None
  else if (3 <? length o)%nat then None
  else if negb (bytes_eqb o [x30]) && byte_eqb (hd x00 o) x30 then None
  else if 255 <? dec_val o then None
  else Some (dec_val o).

Definition ipv4_of_string (s : bytes) : option (list N) :=
  if has x2f s then None
  else let octets := split_on x2e s in
       if (length octets =? 4)%nat then map_opt parse_octet octets else None.

(* ---------- ipaddress.IPv6Address(str) ---------- *)

Definition is_hex (b : byte) : bool :=
  is_digit b || ((65 <=? bN b) && (bN b <=? 70)) || ((97 <=? bN b) && (bN b <=? 102)).

Definition hex_digit (b : byte) : N :=
  if is_digit b then bN b - 48 else if bN b <=? 70 then bN b - 55 else bN b - 87.

Definition hex_val (s : bytes) : N := fold_left (fun acc b => acc * 16 + hex_digit b) s 0.

(* a colon-separated part: empty, or the value of _parse_hextet (None: it raises) *)
Inductive part := PEmpty | PVal (v : option N).

Definition parse_part (h : bytes) : part :=
  match h with
  | [] => PEmpty
  | _ => PVal (if forallb is_hex h && (length h <=? 4)%nat then Some (hex_val h) else None)
  end.

Definition part_empty (p : part) : bool := match p with PEmpty => true | _ => false end.
Definition part_val (p : part) : option N := match p with PEmpty => None | PVal v => v end.

(* str.partition for a single byte separator: (before, found, after) *)
Fixpoint partition_on (sep : byte) (s : bytes) : bytes * bool * bytes :=
  match s with
  | [] => ([], false, [])
  | c :: r => if byte_eqb c sep then ([], true, r)
              else let '(a, f, b) := partition_on sep r in (c :: a, f, b)
  end.

(* indices i with 1 <= i <= len-2 whose part is empty *)
Fixpoint middle_empties (i : nat) (l : list part) : list nat :=
  match l with
  | [] => []
  | [_] => []
  | p :: r => (if (1 <=? i)%nat && part_empty p then [i] else []) ++ middle_empties (S i) r
  end.

Definition repeat_zero (n : nat) : list N := repeat 0 n.

(* _BaseV6._ip_int_from_string, result as the eight hextets *)
Definition ip6_hextets (ip_str : bytes) : option (list N) :=
  if negb (nonempty ip_str) then None else
  let strs := split_on x3a ip_str in
  if (length strs <? 3)%nat then None else
  let lastp := last strs [] in
  let parts0 : option (list part) :=
    if has x2e lastp then
      match ipv4_of_string lastp with
      | Some [a; b; c; d] => Some (map parse_part (removelast strs)
                                     ++ [PVal (Some (a * 256 + b)); PVal (Some (c * 256 + d))])
      | _ => None
      end
    else Some (map parse_part strs) in
  match parts0 with
  | None => None
  | Some parts =>
      let n := length parts in
      if (9 <? n)%nat then None else
      match middle_empties 0 parts with
      | _ :: _ :: _ => None
      | [k] =>
          let hi0 := k in
          let lo0 := (n - k - 1)%nat in
          let first_empty := part_empty (hd PEmpty parts) in
          let last_empty := part_empty (last parts PEmpty) in
          let hi := if first_empty then (hi0 - 1)%nat else hi0 in
          let lo := if last_empty then (lo0 - 1)%nat else lo0 in
          if first_empty && negb (hi =? 0)%nat then None
          else if last_empty && negb (lo =? 0)%nat then None
          else if (8 <=? hi + lo)%nat then None
          else match map_opt part_val (firstn hi parts), map_opt part_val (skipn (n - lo) parts) with
               | Some h, Some l => Some (h ++ repeat_zero (8 - (hi + lo))%nat ++ l)
               | _, _ => None
               end
      | [] =>
          if negb (n =? 8)%nat then None
          else map_opt part_val parts
      end
  end.

Definition ipv6_of_string (s : bytes) : option (list N) :=
  if has x2f s then None else
  let '(addr, found, scope) := partition_on x25 s in
  if found && (negb (nonempty scope) || has x25 scope) then None
  else ip6_hextets addr.

(* ipaddress.ip_address(s).packed; None = ValueError *)
Definition ip_address (s : bytes) : option bytes :=
  match ipv4_of_string s with
  | Some o => Some (map Nb o)
  | None =>
      match ipv6_of_string s with
      | Some hs => Some (flat_map (fun h => [Nb (h / 256); Nb (h mod 256)]) hs)
      | None => None
      end
  end.

(* ---------- str.encode(idna) ---------- *)

Definition is_ascii (s : bytes) : bool := forallb (fun b => bN b <? 128) s.

(* the ASCII fast path of encodings.idna.Codec.encode: None = UnicodeError *)
Definition idna_ascii (s : bytes) : option bytes :=
  match s with
  | [] => Some []
  | _ =>
      let labels := split_on x2e s in
      if forallb (fun l => nonempty l && (length l <? 64)%nat) (removelast labels)
         && (length (last labels []) <? 64)%nat
      then Some s else None
  end.

(* non-ASCII names: nameprep and punycode are not modelled; the result of the codec is an input *)
Definition encode_idna (hint : option bytes) (s : bytes) : option bytes :=
  if is_ascii s then idna_ascii s else hint.

(* ---------- tls_start_server ---------- *)

(* X509_VERIFY_PARAM_set1_host of the linked OpenSSL refuses names that are not host names
   (the hook then fails in SSL._openssl_assert): at least two bytes; labels of 1..63 letters, digits,
   hyphens and underscores with no hyphen at either end; one leading dot allowed, no trailing dot.
   Contract about OpenSSL, tied by the Hostok correspondence cases. *)
Definition host_label_ok (l : bytes) : bool :=
  match l with
  | [] => false
  | f :: _ => (length l <=? 63)%nat
              && forallb (fun b => is_ldh b || byte_eqb b x5f) l
              && negb (byte_eqb f x2d) && negb (byte_eqb (last l x00) x2d)
  end.

Definition host_syntax_ok (h : bytes) : bool :=
  (2 <=? length h)%nat
  && forallb host_label_ok
       (match split_on x2e h with
        | [] :: ((_ :: _) as r) => r
        | ls => ls
        end).

Inductive exn := ValueError | UnicodeError | TypeError | SslError.
Inductive verify := VERIFY_NONE | VERIFY_PEER.

Record ts_in := mkIn {
  ssl_insecure : bool;
  preset_sni : option bytes;      (* server.sni before the hook: None, empty, or a name *)
  client_sni : option bytes;      (* client.sni *)
  address_host : bytes;           (* server.address[0] *)
  idna_hint : option bytes        (* what the idna codec yields for a non-ASCII effective SNI *)
}.

Record ts_conf := mkConf {
  cf_verify : verify;             (* Verify mode of the context *)
  cf_target : option target;      (* X509_VERIFY_PARAM_set1_host / set1_ip, with DEFAULT_HOSTFLAGS *)
  cf_sni_ext : option bytes       (* set_tlsext_host_name *)
}.

Record ts_out := mkOut {
  o_sni : bytes;                  (* server.sni after the hook *)
  o_res : exn + ts_conf           (* inl: the hook raised and tls_start.ssl_conn stays None *)
}.

(* Python: x or y for Optional[str] *)
Definition py_or (x : option bytes) (y : bytes) : bytes :=
  match x with Some v => if nonempty v then v else y | None => y end.

Definition tls_start_server (i : ts_in) : ts_out :=
  let vfy := if ssl_insecure i then VERIFY_NONE else VERIFY_PEER in
  let sni := match preset_sni i with
             | Some s => s
             | None => py_or (client_sni i) (address_host i)
             end in
  mkOut sni
    (if nonempty sni then
       match ip_address sni with
       | Some ip => inr (mkConf vfy (Some (TIp ip)) None)
       | None =>
           match encode_idna (idna_hint i) sni with
           | None => inl UnicodeError
           | Some h => if has x00 h then inl TypeError   (* set_tlsext_host_name refuses NUL *)
                       else if negb (host_syntax_ok h) then inl SslError   (* set1_host returns 0 *)
                       else inr (mkConf vfy (Some (THost h)) (Some h))
           end
       end
     else match vfy with
          | VERIFY_NONE => inr (mkConf VERIFY_NONE None None)
          | VERIFY_PEER => inl ValueError
          end).

(* ---------- net/tls.py create_proxy_server_context: which trust stores are loaded ----------
   if ca_path is None and ca_pemfile is None: ca_pemfile = certifi.where()
   context.load_verify_locations(ca_pemfile, ca_path)
   The bundled default file is used only when neither option is set. *)
Record trust_cfg := mkTc {
  tc_file : option (list cert);     (* ssl_verify_upstream_trusted_ca: certificates in that PEM file *)
  tc_dir : option (list cert);      (* ssl_verify_upstream_trusted_confdir: certificates in that hashed directory *)
  tc_default : list cert            (* certificates in certifi.where() *)
}.

Definition opt_list {A} (o : option (list A)) : list A := match o with Some l => l | None => [] end.

Definition loaded_trust (tc : trust_cfg) : list cert :=
  match tc_file tc, tc_dir tc with
  | None, None => tc_default tc
  | f, d => opt_list f ++ opt_list d
  end.

(* What OpenSSL is asked to do with the peer chain (the contract side): with VERIFY_NONE nothing
   fails the handshake; with VERIFY_PEER the chain must verify for the configured target. *)
Definition peer_acceptable (cf : ts_conf) (trust chain : list cert) (now : Z) : bool :=
  match cf_verify cf with
  | VERIFY_NONE => true
  | VERIFY_PEER =>
      match cf_target cf with
      | Some t => x509_ok trust chain now t
      | None => false
      end
  end.
