(* Model/CurlRef.v -- reference reading of a curl argument vector, restricted to the options export.py emits, written
   from curl(1): -H LINE, -X METHOD, -d DATA, --resolve SPEC take the next argument as their value whatever it
   looks like; --compressed is a flag; any other argument of two or more bytes that starts with a dash is an
   option this reference does not know (None); everything else is a URL.  The request method curl uses is the -X value,
   else POST when there is data, else GET.  Specification only (used by the theorems and mirrored by the oracle). *)
From Coq Require Import List Bool NArith.
From MV Require Import Base.Bytes Model.Http1Msg Model.Export.
Import ListNotations.

Record curl_seen := mkSeen {
  s_resolve : list bytes; s_headers : list bytes; s_compressed : N;
  s_method : option bytes; s_urls : list bytes; s_data : list bytes }.

Definition seen0 : curl_seen := mkSeen [] [] 0 None [] [].

Definition POST : bytes := [x50; x4f; x53; x54].

Definition starts_dash (a : bytes) : bool :=
  match a with c :: _ :: _ => byte_eqb c x2d | _ => false end.

Definition with_value (a v : bytes) (s : curl_seen) : option curl_seen :=
  if bytes_eqb a OPT_H then Some (mkSeen (s_resolve s) (s_headers s ++ [v]) (s_compressed s) (s_method s) (s_urls s) (s_data s))
  else if bytes_eqb a OPT_X then Some (mkSeen (s_resolve s) (s_headers s) (s_compressed s) (Some v) (s_urls s) (s_data s))
  else if bytes_eqb a OPT_D then Some (mkSeen (s_resolve s) (s_headers s) (s_compressed s) (s_method s) (s_urls s) (s_data s ++ [v]))
  else if bytes_eqb a OPT_RESOLVE then Some (mkSeen (s_resolve s ++ [v]) (s_headers s) (s_compressed s) (s_method s) (s_urls s) (s_data s))
  else None.

Definition takes_value (a : bytes) : bool :=
  bytes_eqb a OPT_H || bytes_eqb a OPT_X || bytes_eqb a OPT_D || bytes_eqb a OPT_RESOLVE.

Fixpoint curl_read (args : list bytes) (s : curl_seen) : option curl_seen :=
  match args with
  | [] => Some s
  | a :: r =>
      if bytes_eqb a OPT_COMPRESSED
      then curl_read r (mkSeen (s_resolve s) (s_headers s) (s_compressed s + 1) (s_method s) (s_urls s) (s_data s))
      else if takes_value a then
        match r with
        | v :: r' => match with_value a v s with Some s' => curl_read r' s' | None => None end
        | [] => None
        end
      else if starts_dash a then None
      else curl_read r (mkSeen (s_resolve s) (s_headers s) (s_compressed s) (s_method s) (s_urls s ++ [a]) (s_data s))
  end.

Definition curl_method (s : curl_seen) : bytes :=
  match s_method s with
  | Some m => m
  | None => match s_data s with [] => GET | _ => POST end
  end.

(* a header line as the recipient reads it: name up to the first colon, value after it without one leading space *)
Fixpoint cut_colon (s : bytes) : option (bytes * bytes) :=
  match s with
  | [] => None
  | c :: r => if byte_eqb c x3a then Some ([], r)
              else match cut_colon r with Some (k, v) => Some (c :: k, v) | None => None end
  end.
Definition read_header_line (l : bytes) : option (bytes * bytes) :=
  match cut_colon l with
  | Some (k, x20 :: v) => Some (k, v)
  | Some (k, v) => Some (k, v)
  | None => None
  end.
