(* Model/DnsNames.v -- mitmproxy/net/dns/domain_names.py.
   Executable definitions only.  A Python str domain name is modelled as the list of its
   code points restricted to ASCII, carried as bytes; offsets and sizes are nat, field
   values are N.  Python exceptions are an explicit enum.

   IDNA is abstract: the model decodes a label exactly when the CPython idna codec takes
   its ASCII fast path (the lower-cased label does not contain the ACE prefix xn--);
   for any label containing the ACE prefix the model stops with [EAce], meaning
   outcome not modelled (punycode / nameprep).  Names containing a non-ASCII code point
   are likewise [EAce] when packed.

   The while-True loop shared by unpack_from and unpack_from_with_compression is
   [scan_labels]; a compression pointer always ends that loop, so the recursive call of
   unpack_from_with_compression is made once, after the scan.  Fuel: the label scan
   consumes at least one byte per iteration; the pointer recursion marks a fresh offset
   in the cache before every call (Proofs/DnsFuel.v shows the fuel is never exhausted). *)
From Coq Require Import List Bool Arith NArith ZArith Lia.
From MV Require Import Base.Bytes.
Import ListNotations.

Inductive pyexc := EStruct | EValue | EUnicode | EIndex | EAce | EFuel | EOther.
Inductive result (A : Type) := Ok (a : A) | Err (e : pyexc).
Arguments Ok {A} a.
Arguments Err {A} e.

Definition pyexc_eqb (a b : pyexc) : bool :=
  match a, b with
  | EStruct, EStruct | EValue, EValue | EUnicode, EUnicode | EIndex, EIndex
  | EAce, EAce | EFuel, EFuel | EOther, EOther => true
  | _, _ => false
  end.

Definition name := bytes.
Definition cache := list (nat * option (name * nat)).

Definition DOT : byte := x2e.
Definition ace_prefix : bytes := [x78; x6e; x2d; x2d].

Fixpoint contains (p s : bytes) : bool :=
  starts_with p s || match s with [] => false | _ :: s' => contains p s' end.

Definition has_ace (l : bytes) : bool := contains ace_prefix (lower l).
Definition is_ascii (b : byte) : bool := (bN b <? 128)%N.
Definition is_ptr (b : byte) : bool := (192 <=? bN b)%N.   (* size & 0b11000000 == 0b11000000 *)

(* bytes.decode(idna) of one wire label, with the except UnicodeDecodeError -> struct.error *)
Definition idna_decode (l : bytes) : result name :=
  if has_ace l then Err EAce
  else if forallb is_ascii l then Ok l
  else Err EStruct.

(* str.encode(idna) of one dot-free part *)
Definition idna_encode (p : name) : result bytes :=
  match p with
  | [] => Ok []
  | _ => if negb (forallb is_ascii p) then Err EAce
         else if 64 <=? length p then Err EUnicode
         else Ok p
  end.

(* Python str.join / str.split on the dot *)
Fixpoint join_dot (l : list name) : name :=
  match l with
  | [] => []
  | [x] => x
  | x :: r => x ++ DOT :: join_dot r
  end.

Fixpoint split_dot (s : name) : list name :=
  match s with
  | [] => [[]]
  | c :: r => if byte_eqb c DOT then [] :: split_dot r
              else match split_dot r with
                   | h :: t => (c :: h) :: t
                   | [] => [[c]]
                   end
  end.

(* struct readers: None = struct.error (buffer too short) *)
Definition byte_at (buf : bytes) (off : nat) : option byte :=
  match skipn off buf with b :: _ => Some b | [] => None end.
Definition u16_at (buf : bytes) (off : nat) : option N :=
  match skipn off buf with h :: l :: _ => Some (u16be h l) | _ => None end.

(* _unpack_label_into: returns the extended label list and the consumed size *)
Definition unpack_label_into (labels : list name) (buf : bytes) (off : nat)
  : result (list name * nat) :=
  match byte_at buf off with
  | None => Err EStruct
  | Some sz =>
      let size := N.to_nat (bN sz) in
      if 64 <=? size then Err EStruct
      else if size =? 0 then Ok (labels, 1)
      else
        let off1 := off + 1 in
        let end_label := off1 + size in
        if length buf <? end_label then Err EStruct
        else match idna_decode (firstn size (skipn off1 buf)) with
             | Ok s => Ok (labels ++ [s], 1 + size)
             | Err e => Err e
             end
  end.

Inductive scan_res :=
| SErr (e : pyexc)
| SEnd (labels : list name) (off : nat)      (* zero label read; off is past it *)
| SPtr (labels : list name) (off : nat).     (* pointer byte found at off *)

Fixpoint scan_labels (fuel : nat) (buf : bytes) (off : nat) (labels : list name) : scan_res :=
  match fuel with
  | O => SErr EFuel
  | S f =>
      match byte_at buf off with
      | None => SErr EStruct
      | Some sz =>
          if is_ptr sz then SPtr labels off
          else match unpack_label_into labels buf off with
               | Err e => SErr e
               | Ok (labels', n) =>
                   if (bN sz =? 0)%N then SEnd labels' (off + n)
                   else scan_labels f buf (off + n) labels'
               end
      end
  end.

Fixpoint lookup (off : nat) (c : cache) : option (option (name * nat)) :=
  match c with
  | [] => None
  | (k, v) :: c' => if k =? off then Some v else lookup off c'
  end.

(* pointer & ~(_POINTER_INDICATOR << 8) *)
Definition ptr_target (p : N) : nat := N.to_nat (N.ldiff p 49152).

Fixpoint unpack_from_with_compression (fuel : nat) (buf : bytes) (off : nat) (c : cache)
  : result (name * nat) * cache :=
  match fuel with
  | O => (Err EFuel, c)
  | S f =>
      match lookup off c with
      | Some (Some r) => (Ok r, c)
      | Some None => (Err EStruct, c)          (* domain name loop *)
      | None =>
          let c1 := (off, None) :: c in
          match scan_labels (S (length buf)) buf off [] with
          | SErr e => (Err e, c1)
          | SEnd labels off' =>
              let r := (join_dot labels, off' - off) in (Ok r, (off, Some r) :: c1)
          | SPtr labels poff =>
              match u16_at buf poff with
              | None => (Err EStruct, c1)
              | Some p =>
                  match unpack_from_with_compression f buf (ptr_target p) c1 with
                  | (Err e, c2) => (Err e, c2)
                  | (Ok (label, _), c2) =>
                      let r := (join_dot (labels ++ [label]), poff + 2 - off) in
                      (Ok r, (off, Some r) :: c2)
                  end
              end
          end
      end
  end.

(* top-level entry: enough fuel for every buffer (Proofs/DnsFuel.v) *)
Definition unpack_fwc (buf : bytes) (off : nat) (c : cache) : result (name * nat) * cache :=
  unpack_from_with_compression (S (S (length buf))) buf off c.

(* unpack_from: no pointers allowed; returns the END OFFSET (not the size) *)
Definition unpack_from (buf : bytes) (off : nat) : result (name * nat) :=
  match scan_labels (S (length buf)) buf off [] with
  | SErr e => Err e
  | SPtr _ _ => Err EStruct
  | SEnd labels off' => Ok (join_dot labels, off')
  end.

Definition unpack (buf : bytes) : result name :=
  match unpack_from buf 0 with
  | Err e => Err e
  | Ok (n, len) => if len =? length buf then Ok n else Err EStruct
  end.

Fixpoint pack_parts (parts : list name) : result bytes :=
  match parts with
  | [] => Ok [x00]
  | p :: r =>
      match idna_encode p with
      | Err e => Err e
      | Ok label =>
          let size := length label in
          if size =? 0 then Err EValue
          else if 64 <=? size then Err EValue
          else match pack_parts r with
               | Ok b => Ok (Nb (N.of_nat size) :: label ++ b)
               | Err e => Err e
               end
      end
  end.

Definition pack (n : name) : result bytes :=
  match n with
  | [] => Ok [x00]
  | _ => pack_parts (split_dot n)
  end.

(* a process packs many names one after the other: there is no state, every result depends on its
   own argument only (the correspondence check runs whole histories against this) *)
Definition pack_history (names : list name) : list (result bytes) := map pack names.

Definition compressible_types : list N :=
  [5; 13; 7; 3; 4; 8; 14; 9; 15; 2; 12; 6; 16; 17; 18; 21; 24; 26; 30; 35; 33]%N.

Definition record_data_can_have_compression (t : N) : bool :=
  existsb (N.eqb t) compressible_types.

(* bytearray slice assignment data[a:b] = v for a <= b (Python clamps a and b to len) *)
Definition slice_assign (data : bytes) (a b : nat) (v : bytes) : bytes :=
  firstn a data ++ v ++ skipn b data.

Fixpoint decompress_loop (fuel : nat) (buf : bytes) (off end_data : nat) (c : cache)
         (data : bytes) (data_offset : nat) (decompress_size : Z) : result bytes * cache :=
  match fuel with
  | O => (Err EFuel, c)
  | S f =>
      if data_offset <? end_data - off then
        match byte_at buf (off + data_offset) with
        | None => (Err EIndex, c)
        | Some b =>
            if is_ptr b then
              match unpack_fwc buf (off + data_offset) c with
              | (Ok (rr_name, rr_name_len), c') =>
                  match pack rr_name with
                  | Err e => (Err e, c')
                  | Ok pk =>
                      (* decompress_size can be negative (root name: 1 byte replaces 2); the index is not *)
                      let a := Z.to_nat (Z.of_nat data_offset + decompress_size) in
                      decompress_loop f buf off end_data c'
                        (slice_assign data a (a + rr_name_len) pk)
                        (data_offset + rr_name_len)
                        (decompress_size + Z.of_nat (length pk) - Z.of_nat rr_name_len)
                  end
              | (Err EStruct, c') =>
                  decompress_loop f buf off end_data c' data (data_offset + 1) decompress_size
              | (Err e, c') => (Err e, c')
              end
            else decompress_loop f buf off end_data c data (data_offset + 1) decompress_size
        end
      else (Ok data, c)
  end.

Definition decompress_from_record_data (buf : bytes) (off end_data : nat) (c : cache)
  : result bytes * cache :=
  decompress_loop (S (length buf)) buf off end_data c
    (firstn (end_data - off) (skipn off buf)) 0 0%Z.
