(* Model/MsgText.v -- executable model of Message.set_text / get_text (mitmproxy/http.py),
   infer_content_encoding / parse_content_type / assemble_content_type
   (mitmproxy/net/http/headers.py), the name resolution of encoding.encode/decode
   (mitmproxy/net/encoding.py + CPython codec lookup) and the text codecs ASCII, Latin-1,
   UTF-8 (strict and surrogateescape), UTF-8-sig, UTF-16/32 (LE, BE, BOM-sniffing).
   Python str values that are header material (content types, charset names) are bytes
   (UTF-8 with surrogateescape, as Headers stores them); message text is a list of code points.
   Every other codec name is abstract: its result is supplied by a [codecs] record.
   No proofs in this file. *)
From Coq Require Import String.
From Coq Require Import List Bool NArith.
From MV Require Import Base.Bytes.
Import ListNotations.
Local Open Scope N_scope.

Definition B (s : String.string) : bytes := String.list_byte_of_string s.
Arguments B _%string_scope.

Definition text := list N.

(* ---------- str helpers (Python semantics on ASCII) ---------- *)

(* s.split(c, 1) -> (head, Some tail) when c occurs, (s, None) otherwise *)
Fixpoint split1 (c : byte) (s : bytes) : bytes * option bytes :=
  match s with
  | [] => ([], None)
  | x :: s' => if byte_eqb x c then ([], Some s')
               else let '(a, b) := split1 c s' in (x :: a, b)
  end.

(* s.split(c) *)
Fixpoint split_on (c : byte) (s : bytes) : list bytes :=
  match s with
  | [] => [[]]
  | x :: s' => if byte_eqb x c then [] :: split_on c s'
               else match split_on c s' with
                    | h :: t => (x :: h) :: t
                    | [] => [[x]]
                    end
  end.

(* str.isspace on the ASCII range: TAB LF VT FF CR, FS GS RS US, SPACE *)
Definition is_ws (b : byte) : bool :=
  let n := bN b in ((9 <=? n) && (n <=? 13)) || ((28 <=? n) && (n <=? 32)).

Fixpoint lstrip (s : bytes) : bytes :=
  match s with
  | [] => []
  | x :: s' => if is_ws x then lstrip s' else s
  end.

Fixpoint rstrip (s : bytes) : bytes :=
  match s with
  | [] => []
  | x :: s' => match rstrip s' with
               | [] => if is_ws x then [] else [x]
               | r => x :: r
               end
  end.

Definition strip (s : bytes) : bytes := rstrip (lstrip s).

(* sub in s *)
Fixpoint contains (sub s : bytes) : bool :=
  starts_with sub s || match s with [] => false | _ :: s' => contains sub s' end.

(* case-insensitive (ASCII) prefix test; [p] is given in lower case *)
Fixpoint ci_prefix (p s : bytes) : bool :=
  match p, s with
  | [], _ => true
  | x :: p', y :: s' => byte_eqb x (to_lower y) && ci_prefix p' s'
  | _ :: _, [] => false
  end.

Fixpoint take_while (f : byte -> bool) (s : bytes) : bytes :=
  match s with
  | x :: s' => if f x then x :: take_while f s' else []
  | [] => []
  end.

Fixpoint drop_while (f : byte -> bool) (s : bytes) : bytes :=
  match s with
  | x :: s' => if f x then drop_while f s' else s
  | [] => []
  end.

Fixpoint join (sep : bytes) (l : list bytes) : bytes :=
  match l with
  | [] => []
  | [x] => x
  | x :: l' => x ++ sep ++ join sep l'
  end.

Definition mem_bytes (x : bytes) (l : list bytes) : bool := existsb (bytes_eqb x) l.

(* ---------- ordered dict of str -> str ---------- *)
Definition dict := list (bytes * bytes).

Fixpoint dict_get (d : dict) (k : bytes) : option bytes :=
  match d with
  | [] => None
  | (k', v) :: d' => if bytes_eqb k' k then Some v else dict_get d' k
  end.

(* d[k] = v : replaces in place, else appends *)
Fixpoint dict_set (d : dict) (k v : bytes) : dict :=
  match d with
  | [] => [(k, v)]
  | (k', v') :: d' => if bytes_eqb k' k then (k', v) :: d' else (k', v') :: dict_set d' k v
  end.

(* ---------- parse_content_type / assemble_content_type ---------- *)
Definition semi : byte := x3b.
Definition slash : byte := x2f.
Definition eqs : byte := x3d.

Definition add_clause (d : dict) (i : bytes) : dict :=
  match split1 eqs i with
  | (k, Some v) => dict_set d (strip k) (strip v)
  | (_, None) => d
  end.

Definition parse_content_type (c : bytes) : option (bytes * bytes * dict) :=
  let '(p0, rest) := split1 semi c in
  match split1 slash p0 with
  | (_, None) => None
  | (t, Some st) =>
      let d := match rest with
               | None => []
               | Some r => fold_left add_clause (split_on semi r) []
               end in
      Some (lower t, lower st, d)
  end.

Definition kv (p : bytes * bytes) : bytes := fst p ++ [eqs] ++ snd p.

Definition assemble_content_type (t st : bytes) (d : dict) : bytes :=
  match d with
  | [] => t ++ [slash] ++ st
  | _ => t ++ [slash] ++ st ++ B "; " ++ join (B "; ") (map kv d)
  end.

(* ---------- the three in-body declaration scanners ---------- *)
Definition dq : byte := x22.
Definition sq : byte := x27.
Definition gt : byte := x3e.
Definition qm : byte := x3f.
Definition is_quote (b : byte) : bool := byte_eqb b dq || byte_eqb b sq.

(* value at the right-most suffix of [s] on which [f] succeeds *)
Fixpoint last_match {A} (f : bytes -> option A) (s : bytes) : option A :=
  match s with
  | [] => f []
  | _ :: s' => match last_match f s' with
               | Some g => Some g
               | None => f s
               end
  end.

(* key= optional-quote group, resp. key= quote group, tried at one position *)
Definition try_decl (key : bytes) (quote_required : bool) (gstop : byte -> bool) (suf : bytes)
  : option bytes :=
  if ci_prefix key suf then
    let a := skipn (length key) suf in
    let oa := match a with
              | q :: a' => if is_quote q then Some a' else if quote_required then None else Some a
              | [] => if quote_required then None else Some a
              end in
    match oa with
    | None => None
    | Some a' => match take_while (fun b => negb (gstop b)) a' with
                 | [] => None
                 | g => Some g
                 end
    end
  else None.

(* after the tag: [^stop]+ (greedy, backtracking) then the declaration *)
Definition decl_tail (stop : byte -> bool) (key : bytes) (qr : bool) (r : bytes) : option bytes :=
  match take_while (fun b => negb (stop b)) r with
  | [] => None
  | _ :: run' => last_match (try_decl key qr (fun b => stop b || is_quote b)) run'
  end.

(* re.search: left-most tag position that admits a match *)
Fixpoint decl_search (tag : bytes) (stop : byte -> bool) (key : bytes) (qr : bool) (s : bytes)
  : option bytes :=
  match s with
  | [] => None
  | _ :: s' =>
      if ci_prefix tag s then
        match decl_tail stop key qr (skipn (length tag) s) with
        | Some g => Some g
        | None => decl_search tag stop key qr s'
        end
      else decl_search tag stop key qr s'
  end.

Definition meta_search (content : bytes) : option bytes :=
  decl_search (B "<meta") (fun b => byte_eqb b gt) (B "charset=") false content.

Definition xml_search (content : bytes) : option bytes :=
  decl_search (B "<?xml") (fun b => byte_eqb b gt || byte_eqb b qm) (B "encoding=") true content.

(* re.match of the at-charset rule at offset 0: quoted non-empty name, quote, semicolon *)
Definition css_match (content : bytes) : option bytes :=
  if ci_prefix (B "@charset """) content then
    let a := skipn 10 content in
    match take_while (fun b => negb (byte_eqb b dq)) a with
    | [] => None
    | g => if starts_with [dq; semi] (skipn (length g) a) then Some g else None
    end
  else None.

(* bytes.decode(ascii, ignore) *)
Definition ascii_ignore (g : bytes) : bytes := filter (fun b => bN b <? 128) g.

(* ---------- infer_content_encoding ---------- *)
Definition bom_encoding (content : bytes) : option bytes :=
  if starts_with [x00; x00; xfe; xff] content then Some (B "utf-32be")
  else if starts_with [xff; xfe; x00; x00] content then Some (B "utf-32le")
  else if starts_with [xfe; xff] content then Some (B "utf-16be")
  else if starts_with [xff; xfe] content then Some (B "utf-16le")
  else if starts_with [xef; xbb; xbf] content then Some (B "utf-8-sig")
  else None.

Definition header_charset (content_type : bytes) : option bytes :=
  match parse_content_type content_type with
  | Some (_, _, d) => dict_get d (B "charset")
  | None => None
  end.

(* Python: not enc *)
Definition falsy (e : option bytes) : bool :=
  match e with None => true | Some [] => true | Some _ => false end.

Definition or_decl (found : option bytes) : option bytes :=
  match found with
  | Some g => Some (ascii_ignore g)
  | None => Some (B "utf8")
  end.

Definition infer_content_encoding (content_type content : bytes) : bytes :=
  let enc := match bom_encoding content with
             | Some e => Some e
             | None => header_charset content_type
             end in
  let enc := if falsy enc && contains (B "json") content_type then Some (B "utf8") else enc in
  let enc := if falsy enc && contains (B "html") content_type then or_decl (meta_search content) else enc in
  let enc := if falsy enc && contains (B "xml") content_type then or_decl (xml_search content) else enc in
  let enc := if falsy enc && (contains (B "javascript") content_type || contains (B "ecmascript") content_type)
             then Some (B "utf8") else enc in
  let enc := if falsy enc && contains (B "text/css") content_type then or_decl (css_match content) else enc in
  let enc := match enc with
             | None => B "latin-1"
             | Some [] => B "latin-1"
             | Some e => e
             end in
  if mem_bytes (lower enc) [B "gb2312"; B "gbk"] then B "gb18030" else enc.

(* ---------- codec name resolution ---------- *)
Inductive codec :=
| CAscii | CLatin1 | CUtf8 | CUtf8Sig
| CUtf16 | CUtf16LE | CUtf16BE | CUtf32 | CUtf32LE | CUtf32BE
| COther (name : bytes).

Definition is_alnum_dot (b : byte) : bool := is_digit b || is_alpha b || byte_eqb b x2e.

(* _Py_normalize_encoding: lower case, runs of other characters become one underscore,
   none at the start or the end *)
Fixpoint normalize_from (punct started : bool) (s : bytes) : bytes :=
  match s with
  | [] => []
  | c :: s' =>
      if is_alnum_dot c then
        (if punct && started then [x5f] else []) ++ to_lower c :: normalize_from false true s'
      else normalize_from true started s'
  end.
Definition normalize_encoding (s : bytes) : bytes := normalize_from false false s.

Definition names_ascii : list bytes :=
  [B "ascii"; B "646"; B "ansi_x3.4_1968"; B "ansi_x3.4_1986"; B "ansi_x3_4_1968"; B "cp367";
   B "csascii"; B "ibm367"; B "iso646_us"; B "iso_646.irv_1991"; B "iso_ir_6"; B "us"; B "us_ascii"].
Definition names_latin1 : list bytes :=
  [B "latin_1"; B "8859"; B "cp819"; B "csisolatin1"; B "ibm819"; B "iso8859"; B "iso8859_1";
   B "iso_8859_1"; B "iso_8859_1_1987"; B "iso_ir_100"; B "l1"; B "latin"; B "latin1"].
Definition names_utf8 : list bytes :=
  [B "utf_8"; B "cp65001"; B "u8"; B "utf"; B "utf8"; B "utf8_ucs2"; B "utf8_ucs4"].

(* names handled by mitmproxy.net.encoding itself (content codings) *)
Definition custom_names : list bytes :=
  [B "none"; B "identity"; B "gzip"; B "deflate"; B "deflateraw"; B "br"; B "zstd"].

(* [name] is already lower-cased by encoding.encode/decode *)
Definition resolve (name : bytes) : codec :=
  if mem_bytes name custom_names then COther name
  else if existsb (fun b => byte_eqb b x00 || (128 <=? bN b)) name then COther name
  else
    let n := normalize_encoding name in
    if mem_bytes n names_ascii then CAscii
    else if mem_bytes n names_latin1 then CLatin1
    else if mem_bytes n names_utf8 then CUtf8
    else if bytes_eqb n (B "utf_8_sig") then CUtf8Sig
    else if mem_bytes n [B "utf_16"; B "u16"; B "utf16"] then CUtf16
    else if mem_bytes n [B "utf_16_le"; B "unicodelittleunmarked"; B "utf_16le"] then CUtf16LE
    else if mem_bytes n [B "utf_16_be"; B "unicodebigunmarked"; B "utf_16be"] then CUtf16BE
    else if mem_bytes n [B "utf_32"; B "u32"; B "utf32"] then CUtf32
    else if mem_bytes n [B "utf_32_le"; B "utf_32le"] then CUtf32LE
    else if mem_bytes n [B "utf_32_be"; B "utf_32be"] then CUtf32BE
    else COther name.

(* ---------- exact text codecs ---------- *)
Definition is_surrogate (c : N) : bool := (55296 <=? c) && (c <=? 57343).
Definition is_scalar (c : N) : bool := negb (is_surrogate c) && (c <=? 1114111).
(* code points produced by surrogateescape for the bytes 0x80..0xff *)
Definition is_escaped_byte (c : N) : bool := (56448 <=? c) && (c <=? 56575).

Fixpoint map_opt {A X} (f : A -> option X) (l : list A) : option (list X) :=
  match l with
  | [] => Some []
  | a :: l' => match f a, map_opt f l' with
               | Some b, Some r => Some (b :: r)
               | _, _ => None
               end
  end.

Fixpoint concat_opt {A} (f : A -> option bytes) (l : list A) : option bytes :=
  match l with
  | [] => Some []
  | a :: l' => match f a, concat_opt f l' with
               | Some b, Some r => Some (b ++ r)
               | _, _ => None
               end
  end.

Definition narrow_encode (limit : N) (s : text) : option bytes :=
  map_opt (fun c => if c <? limit then Some (Nb c) else None) s.
Definition narrow_decode (limit : N) (b : bytes) : option text :=
  map_opt (fun x => if bN x <? limit then Some (bN x) else None) b.

(* UTF-8 *)
Definition utf8_cp (c : N) : bytes :=
  if c <? 128 then [Nb c]
  else if c <? 2048 then [Nb (192 + c / 64); Nb (128 + c mod 64)]
  else if c <? 65536 then [Nb (224 + c / 4096); Nb (128 + (c / 64) mod 64); Nb (128 + c mod 64)]
  else [Nb (240 + c / 262144); Nb (128 + (c / 4096) mod 64); Nb (128 + (c / 64) mod 64); Nb (128 + c mod 64)].

Definition utf8_cp_strict (c : N) : option bytes :=
  if is_scalar c then Some (utf8_cp c) else None.
(* errors=surrogateescape *)
Definition utf8_cp_se (c : N) : option bytes :=
  if is_escaped_byte c then Some [Nb (c - 56320)]
  else utf8_cp_strict c.

Definition utf8_encode (s : text) : option bytes := concat_opt utf8_cp_strict s.
Definition utf8_encode_se (s : text) : option bytes := concat_opt utf8_cp_se s.

Definition is_cont (b : byte) : bool := (128 <=? bN b) && (bN b <=? 191).
(* admissible second byte after lead b0 (no overlong forms, no surrogates, <= U+10FFFF) *)
Definition second_ok (b0 b1 : byte) : bool :=
  let n0 := bN b0 in let n1 := bN b1 in
  if n0 =? 224 then (160 <=? n1) && (n1 <=? 191)
  else if n0 =? 237 then (128 <=? n1) && (n1 <=? 159)
  else if n0 =? 240 then (144 <=? n1) && (n1 <=? 191)
  else if n0 =? 244 then (128 <=? n1) && (n1 <=? 143)
  else is_cont b1.

Inductive u8step := U8End | U8Ok (c : N) (rest : bytes) | U8Bad (b : byte) (rest : bytes).

Definition utf8_step (s : bytes) : u8step :=
  match s with
  | [] => U8End
  | b0 :: r =>
      let n0 := bN b0 in
      if n0 <? 128 then U8Ok n0 r
      else if (194 <=? n0) && (n0 <? 224) then
        match r with
        | b1 :: r1 => if is_cont b1 then U8Ok ((n0 - 192) * 64 + (bN b1 - 128)) r1 else U8Bad b0 r
        | _ => U8Bad b0 r
        end
      else if (224 <=? n0) && (n0 <? 240) then
        match r with
        | b1 :: b2 :: r2 =>
            if second_ok b0 b1 && is_cont b2
            then U8Ok ((n0 - 224) * 4096 + (bN b1 - 128) * 64 + (bN b2 - 128)) r2
            else U8Bad b0 r
        | _ => U8Bad b0 r
        end
      else if (240 <=? n0) && (n0 <? 245) then
        match r with
        | b1 :: b2 :: b3 :: r3 =>
            if second_ok b0 b1 && is_cont b2 && is_cont b3
            then U8Ok ((n0 - 240) * 262144 + (bN b1 - 128) * 4096 + (bN b2 - 128) * 64 + (bN b3 - 128)) r3
            else U8Bad b0 r
        | _ => U8Bad b0 r
        end
      else U8Bad b0 r
  end.

(* [se] = errors=surrogateescape; fuel = length of the input suffices *)
Fixpoint utf8_decode_fuel (se : bool) (fuel : nat) (s : bytes) : option text :=
  match fuel with
  | O => match s with [] => Some [] | _ => None end
  | S f =>
      match utf8_step s with
      | U8End => Some []
      | U8Ok c r => match utf8_decode_fuel se f r with Some t => Some (c :: t) | None => None end
      | U8Bad b r => if se then
                       match utf8_decode_fuel se f r with Some t => Some ((56320 + bN b) :: t) | None => None end
                     else None
      end
  end.
Definition utf8_decode (s : bytes) : option text := utf8_decode_fuel false (length s) s.
Definition utf8_decode_se (s : bytes) : text :=
  match utf8_decode_fuel true (length s) s with Some t => t | None => [] end.

Definition bom8 : bytes := [xef; xbb; xbf].
Definition utf8sig_encode (s : text) : option bytes :=
  match utf8_encode s with Some b => Some (bom8 ++ b) | None => None end.
Definition utf8sig_decode (b : bytes) : option text :=
  if starts_with bom8 b then utf8_decode (skipn 3 b) else utf8_decode b.

(* UTF-16 *)
Definition put16 (be : bool) (u : N) : bytes :=
  if be then [Nb (u / 256); Nb (u mod 256)] else [Nb (u mod 256); Nb (u / 256)].
Definition utf16_cp (be : bool) (c : N) : option bytes :=
  if negb (is_scalar c) then None
  else if c <? 65536 then Some (put16 be c)
  else let v := c - 65536 in Some (put16 be (55296 + v / 1024) ++ put16 be (56320 + v mod 1024)).
Definition utf16_encode (be : bool) (s : text) : option bytes := concat_opt (utf16_cp be) s.

Fixpoint units16 (be : bool) (fuel : nat) (b : bytes) : option (list N) :=
  match fuel with
  | O => match b with [] => Some [] | _ => None end
  | S f =>
      match b with
      | [] => Some []
      | [_] => None
      | x :: y :: r =>
          match units16 be f r with
          | Some t => Some ((if be then bN x * 256 + bN y else bN y * 256 + bN x) :: t)
          | None => None
          end
      end
  end.

Fixpoint pair16 (fuel : nat) (u : list N) : option text :=
  match fuel with
  | O => match u with [] => Some [] | _ => None end
  | S f =>
      match u with
      | [] => Some []
      | a :: r =>
          if (55296 <=? a) && (a <=? 56319) then
            match r with
            | c :: r' => if (56320 <=? c) && (c <=? 57343) then
                           match pair16 f r' with
                           | Some t => Some ((65536 + (a - 55296) * 1024 + (c - 56320)) :: t)
                           | None => None
                           end
                         else None
            | [] => None
            end
          else if (56320 <=? a) && (a <=? 57343) then None
          else match pair16 f r with Some t => Some (a :: t) | None => None end
      end
  end.

Definition utf16_decode (be : bool) (b : bytes) : option text :=
  match units16 be (length b) b with
  | Some u => pair16 (length u) u
  | None => None
  end.

(* codec utf-16: little-endian with BOM on encode; BOM sniffing on decode *)
Definition utf16bom_encode (s : text) : option bytes :=
  match utf16_encode false s with Some b => Some ([xff; xfe] ++ b) | None => None end.
Definition utf16bom_decode (b : bytes) : option text :=
  if starts_with [xff; xfe] b then utf16_decode false (skipn 2 b)
  else if starts_with [xfe; xff] b then utf16_decode true (skipn 2 b)
  else utf16_decode false b.

(* UTF-32 *)
Definition put32 (be : bool) (c : N) : bytes :=
  let b0 := Nb (c mod 256) in let b1 := Nb ((c / 256) mod 256) in
  let b2 := Nb ((c / 65536) mod 256) in let b3 := Nb (c / 16777216) in
  if be then [b3; b2; b1; b0] else [b0; b1; b2; b3].
Definition utf32_cp (be : bool) (c : N) : option bytes :=
  if is_scalar c then Some (put32 be c) else None.
Definition utf32_encode (be : bool) (s : text) : option bytes := concat_opt (utf32_cp be) s.

Fixpoint utf32_decode_fuel (be : bool) (fuel : nat) (b : bytes) : option text :=
  match fuel with
  | O => match b with [] => Some [] | _ => None end
  | S f =>
      match b with
      | [] => Some []
      | w :: x :: y :: z :: r =>
          let c := if be then ((bN w * 256 + bN x) * 256 + bN y) * 256 + bN z
                   else ((bN z * 256 + bN y) * 256 + bN x) * 256 + bN w in
          if is_scalar c then
            match utf32_decode_fuel be f r with Some t => Some (c :: t) | None => None end
          else None
      | _ => None
      end
  end.
Definition utf32_decode (be : bool) (b : bytes) : option text := utf32_decode_fuel be (length b) b.

Definition utf32bom_encode (s : text) : option bytes :=
  match utf32_encode false s with Some b => Some ([xff; xfe; x00; x00] ++ b) | None => None end.
Definition utf32bom_decode (b : bytes) : option text :=
  if starts_with [xff; xfe; x00; x00] b then utf32_decode false (skipn 4 b)
  else if starts_with [x00; x00; xfe; xff] b then utf32_decode true (skipn 4 b)
  else utf32_decode false b.

(* ---------- encoding.encode / encoding.decode for a str / bytes argument ---------- *)
(* outcome of encoding.encode(text, enc): bytes, a str (identity), ValueError (every wrapped
   exception), TypeError (re-raised); EMissing = the abstract codec has no entry *)
Inductive eres := EBytes (b : bytes) | EStr | EValueErr | ETypeErr | EMissing.
Inductive dres := DStr (s : text) | DBytes (b : bytes) | DValueErr | DTypeErr | DMissing.

Record codecs := { oenc : bytes -> text -> eres; odec : bytes -> bytes -> dres }.

Definition exact_encode (c : codec) (s : text) : option bytes :=
  match c with
  | CAscii => narrow_encode 128 s
  | CLatin1 => narrow_encode 256 s
  | CUtf8 => utf8_encode s
  | CUtf8Sig => utf8sig_encode s
  | CUtf16 => utf16bom_encode s
  | CUtf16LE => utf16_encode false s
  | CUtf16BE => utf16_encode true s
  | CUtf32 => utf32bom_encode s
  | CUtf32LE => utf32_encode false s
  | CUtf32BE => utf32_encode true s
  | COther _ => None
  end.

Definition exact_decode (c : codec) (b : bytes) : option text :=
  match c with
  | CAscii => narrow_decode 128 b
  | CLatin1 => narrow_decode 256 b
  | CUtf8 => utf8_decode b
  | CUtf8Sig => utf8sig_decode b
  | CUtf16 => utf16bom_decode b
  | CUtf16LE => utf16_decode false b
  | CUtf16BE => utf16_decode true b
  | CUtf32 => utf32bom_decode b
  | CUtf32LE => utf32_decode false b
  | CUtf32BE => utf32_decode true b
  | COther _ => None
  end.

Definition encode (C : codecs) (enc : bytes) (s : text) : eres :=
  let name := lower enc in
  match resolve name with
  | COther n => oenc C n s
  | c => match exact_encode c s with Some b => EBytes b | None => EValueErr end
  end.

Definition decode (C : codecs) (enc : bytes) (b : bytes) : dres :=
  let name := lower enc in
  match resolve name with
  | COther n => odec C n b
  | c => match exact_decode c b with Some s => DStr s | None => DValueErr end
  end.

(* ---------- Message.set_text / get_text ---------- *)
(* the message as far as text is concerned; no Content-Encoding header (that is C31) *)
Record msg := { ctype : option bytes; content : option bytes }.

Definition ctype_str (m : msg) : bytes := match ctype m with Some c => c | None => [] end.

Inductive setres :=
| SetOk (m : msg)
| SetTypeErr            (* TypeError: codec not str -> bytes *)
| SetUnicodeErr         (* UnicodeEncodeError from the UTF-8 fallback (lone surrogate) *)
| SetMissing.

Definition fallback_ctype (ct : bytes) : bytes :=
  match parse_content_type ct with
  | Some (t, st, d) => assemble_content_type t st (dict_set d (B "charset") (B "utf-8"))
  | None => assemble_content_type (B "text") (B "plain") (dict_set [] (B "charset") (B "utf-8"))
  end.

Definition set_text (C : codecs) (m : msg) (t : option text) : setres :=
  match t with
  | None => SetOk {| ctype := ctype m; content := None |}
  | Some s =>
      let enc := infer_content_encoding (ctype_str m) [] in
      match encode C enc s with
      | EBytes b => SetOk {| ctype := ctype m; content := Some b |}
      | EStr => SetTypeErr
      | ETypeErr => SetTypeErr
      | EMissing => SetMissing
      | EValueErr =>
          match utf8_encode_se s with
          | Some b => SetOk {| ctype := Some (fallback_ctype (ctype_str m)); content := Some b |}
          | None => SetUnicodeErr
          end
      end
  end.

Inductive getres :=
| GNone | GStr (s : text) | GBytes (b : bytes) | GValueErr | GTypeErr | GMissing.

Definition get_text (C : codecs) (m : msg) (strict : bool) : getres :=
  match content m with
  | None => GNone
  | Some b =>
      let enc := infer_content_encoding (ctype_str m) b in
      match decode C enc b with
      | DStr s => GStr s
      | DBytes r => GBytes r
      | DTypeErr => GTypeErr
      | DMissing => GMissing
      | DValueErr => if strict then GValueErr else GStr (utf8_decode_se b)
      end
  end.
