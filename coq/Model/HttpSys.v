(* Model/HttpSys.v -- executable model of the HTTP/1 connection layers (_http1.py Http1Server /
   Http1Client over a token view of the byte stream), of HttpLayer routing (event_to_child,
   get_connection, register_connection, make_stream) and of the driver that plays proxy/server.py
   (commands executed in order, completions of blocking commands queued FIFO, deferred completions
   released by an explicit operation).  Definitions only, no proofs. *)
From Coq Require Import List Bool NArith.
From MV Require Import Base.Bytes Model.HttpStream.
Import ListNotations.
Local Open Scope N_scope.

(* one unit of the byte stream of a peer, as the HTTP/1 reader will see it *)
Inductive tok :=
| TH (h : head)      (* complete, parseable head *)
| THB                (* complete head that does not parse (no request object) *)
| THR (h : head)     (* head that parses but whose framing headers are invalid *)
| TP                 (* incomplete head / incomplete chunk header: never completes *)
| TD (d : bytes)     (* body bytes (one chunk when the body is chunked) *)
| TE                 (* terminating chunk *)
| TX.                (* malformed chunk header *)

Inductive h1state := HStart | HReadHeaders | HReadBody | HWait | HDone | HPipe.
(* RChunkedEnd: the chunked reader after its terminating chunk (h11 keeps waiting for trailer lines) *)
Inductive reader := RLen (n : N) | RChunked | RChunkedEnd | REof.
Record h1conn := mkConn { c_state : h1state; c_sid : option N; c_req : option head; c_resp : option head;
                          c_reqdone : bool; c_respdone : bool; c_reader : reader; c_buf : list tok }.
Definition set_c_state (v : h1state) (s : h1conn) : h1conn := {| c_state := v; c_sid := c_sid s; c_req := c_req s; c_resp := c_resp s; c_reqdone := c_reqdone s; c_respdone := c_respdone s; c_reader := c_reader s; c_buf := c_buf s |}.
Definition set_c_sid (v : option N) (s : h1conn) : h1conn := {| c_state := c_state s; c_sid := v; c_req := c_req s; c_resp := c_resp s; c_reqdone := c_reqdone s; c_respdone := c_respdone s; c_reader := c_reader s; c_buf := c_buf s |}.
Definition set_c_req (v : option head) (s : h1conn) : h1conn := {| c_state := c_state s; c_sid := c_sid s; c_req := v; c_resp := c_resp s; c_reqdone := c_reqdone s; c_respdone := c_respdone s; c_reader := c_reader s; c_buf := c_buf s |}.
Definition set_c_resp (v : option head) (s : h1conn) : h1conn := {| c_state := c_state s; c_sid := c_sid s; c_req := c_req s; c_resp := v; c_reqdone := c_reqdone s; c_respdone := c_respdone s; c_reader := c_reader s; c_buf := c_buf s |}.
Definition set_c_reqdone (v : bool) (s : h1conn) : h1conn := {| c_state := c_state s; c_sid := c_sid s; c_req := c_req s; c_resp := c_resp s; c_reqdone := v; c_respdone := c_respdone s; c_reader := c_reader s; c_buf := c_buf s |}.
Definition set_c_respdone (v : bool) (s : h1conn) : h1conn := {| c_state := c_state s; c_sid := c_sid s; c_req := c_req s; c_resp := c_resp s; c_reqdone := c_reqdone s; c_respdone := v; c_reader := c_reader s; c_buf := c_buf s |}.
Definition set_c_reader (v : reader) (s : h1conn) : h1conn := {| c_state := c_state s; c_sid := c_sid s; c_req := c_req s; c_resp := c_resp s; c_reqdone := c_reqdone s; c_respdone := c_respdone s; c_reader := v; c_buf := c_buf s |}.
Definition set_c_buf (v : list tok) (s : h1conn) : h1conn := {| c_state := c_state s; c_sid := c_sid s; c_req := c_req s; c_resp := c_resp s; c_reqdone := c_reqdone s; c_respdone := c_respdone s; c_reader := c_reader s; c_buf := v |}.
Inductive kcmd := KSend (b : bytes) | KErrPage (st : N) | KClose (half : bool) | KRecv (sid : N) (e : hev) | KCrash | KNoFuel.
Definition kres := (h1conn * list kcmd)%type.

Definition make_reader (e : esz) : reader := match e with EChunked => RChunked | EEof => REof | ESz n => RLen n end.
Definition is_zero (e : esz) : bool := match e with ESz 0 => true | _ => false end.
Definition is_eof (e : esz) : bool := match e with EEof => true | _ => false end.
Definition sid_of (c : h1conn) : N := match c_sid c with Some i => i | None => 0 end.
Definition kcons (k : list kcmd) (r : kres) : kres := (fst r, k ++ snd r).

Definition hexdigit (n : N) : byte := if n <? 10 then Nb (48 + n) else Nb (87 + n).
Fixpoint hex_digits (fuel : nat) (n : N) (acc : bytes) : bytes :=
  match fuel with
  | O => acc
  | S f => let acc' := hexdigit (n mod 16) :: acc in if n / 16 =? 0 then acc' else hex_digits f (n / 16) acc'
  end.
Definition hex_of_N (n : N) : bytes := hex_digits 16 n [].
Definition crlf : bytes := [x0d; x0a].
Definition chunk_enc (d : bytes) : bytes := hex_of_N (len d) ++ crlf ++ d ++ crlf.
Definition chunk_end : bytes := [x30; x0d; x0a; x0d; x0a].

Definition should_make_pipe (rq rs : head) : bool :=
  (h_status rs =? 101) || ((h_status rs =? 200) && meth_eqb (h_meth rq) MConnect).

(* Http1Connection.mark_done (+ the Http1Server and Http1Client overrides); rd = the state function applied to DataReceived *)
Definition mark_done_with (rd : h1conn -> kres) (server isreq : bool) (c : h1conn) : kres :=
  let c := if isreq then set_c_reqdone true c else set_c_respdone true c in
  let r :=
    if c_reqdone c && c_respdone c then
      match c_req c, c_resp c with
      | Some rq, Some rs =>
          if should_make_pipe rq rs then
            (set_c_buf [] (set_c_state HPipe c),
             if isnil (c_buf c) then [] else [KRecv (sid_of c) (if server then EReqData [x00] else ERespData [x00])])
          else if is_eof (resp_expected rq rs) || h_close rq || h_close rs
          then (set_c_state HDone c, [KClose false])
          else
            let c1 := set_c_state HReadHeaders
                        (set_c_sid (if server then Some (sid_of c + 2) else None)
                           (set_c_req None (set_c_resp None (set_c_reqdone false (set_c_respdone false c))))) in
            if isnil (c_buf c1) then (c1, []) else rd c1
      | _, _ => (c, [KCrash])
      end
    else (c, []) in
  let c2 := fst r in
  if server && c_reqdone c2 && negb (c_respdone c2) then (set_c_state HWait c2, snd r)
  else if negb server && c_respdone c2 && negb (c_reqdone c2) then (set_c_state HWait c2, snd r)
  else r.

Definition recv_err (server : bool) (c : h1conn) : kcmd :=
  KRecv (sid_of c) (if server then EReqErr (Some 400) else ERespErr (Some 502)).
Definition recv_data (server : bool) (c : h1conn) (d : bytes) : list kcmd :=
  if isnil d then [] else [KRecv (sid_of c) (if server then EReqData d else ERespData d)].
Definition is_connect_req (c : h1conn) : bool :=
  match c_req c with Some h => meth_eqb (h_meth h) MConnect | None => false end.
Definition eom_with (rd : h1conn -> kres) (server : bool) (c : h1conn) : kres :=
  match c_req c with
  | None => (c, [KCrash])
  | Some _ =>
      kcons (if is_connect_req c then [] else [KRecv (sid_of c) (if server then EReqEOM else ERespEOM)])
            (mark_done_with rd server server c)
  end.

(* bytes at a head position that do not start a head: they stay in the buffer until some later token brings the
   blank line that completes a (garbage) head; body pieces, malformed chunk headers and partial heads have none *)
Fixpoint scan_junk (b : list tok) : option (list tok) :=
  match b with
  | [] => None
  | (TD _ | TX | TP) :: r => scan_junk r
  | (TH _ | THR _ | THB | TE) :: r => Some r
  end.

Fixpoint take_data (b : list tok) : bytes * list tok :=
  match b with
  | TD d :: r => let '(d2, r2) := take_data r in (d ++ d2, r2)
  | _ => ([], b)
  end.

(* state(DataReceived): read_headers / read_body / wait / done over the token buffer *)
Fixpoint h1_read (fuel : nat) (server : bool) (c : h1conn) : kres :=
  match fuel with
  | O => (c, [KNoFuel])
  | S f =>
      let rd := h1_read f server in
      match c_state c with
      | HReadHeaders =>
          if server then
            match c_buf c with
            | TH h :: rest =>
                let ex := req_expected h in
                let c1 := set_c_state HReadBody (set_c_reader (make_reader ex) (set_c_buf rest (set_c_req (Some h) c))) in
                kcons [KRecv (sid_of c) (EReqHeaders h (is_zero ex))] (rd c1)
            | THB :: rest => (set_c_state HDone (set_c_buf rest c), [KErrPage 400; KClose false])
            | THR h :: rest =>
                (set_c_state HDone (set_c_buf rest (set_c_req (Some h) c)),
                 [KErrPage 400; KClose false; KRecv (sid_of c) (EReqHeaders h false); KRecv (sid_of c) (EReqErr (Some 400))])
            | b => match scan_junk b with
                   | Some rest => (set_c_state HDone (set_c_buf rest c), [KErrPage 400; KClose false])
                   | None => (c, [])
                   end
            end
          else
            match c_req c with
            | None => (c, [KClose false])
            | Some rq =>
                match c_buf c with
                | TH h :: rest =>
                    let ex := resp_expected rq h in
                    let c1 := set_c_state HReadBody (set_c_reader (make_reader ex) (set_c_buf rest (set_c_resp (Some h) c))) in
                    kcons [KRecv (sid_of c) (ERespHeaders h (is_zero ex))] (rd c1)
                | THB :: rest | THR _ :: rest => (set_c_buf rest c, [KClose false; recv_err server c])
                | b => match scan_junk b with
                       | Some rest => (set_c_buf rest c, [KClose false; recv_err server c])
                       | None => (c, [])
                       end
                end
            end
      | HReadBody =>
          match c_reader c, c_buf c with
          | RLen 0, _ => eom_with rd server c
          | RLen n, TD d0 :: rest0 =>
              (* ContentLengthReader takes all bytes that are available, across token boundaries *)
              let '(d, rest) := take_data (c_buf c) in
              if len d <=? n
              then kcons (recv_data server c d) (rd (set_c_reader (RLen (n - len d)) (set_c_buf rest c)))
              else kcons (recv_data server c (firstn (N.to_nat n) d))
                         (rd (set_c_reader (RLen 0) (set_c_buf (TD (skipn (N.to_nat n) d) :: rest) c)))
          | RChunked, TD d :: rest => kcons (recv_data server c d) (rd (set_c_buf rest c))
          | RChunked, TE :: rest => eom_with rd server (set_c_reader RChunkedEnd (set_c_buf rest c))
          | RChunkedEnd, b =>
              (* reached only when the state stays read_body after the end of message (response complete before the
                 request): the next complete block of lines is taken for trailers and does not parse as header lines *)
              match scan_junk b with
              | Some rest => (set_c_buf rest c, [KClose false; recv_err server c])
              | None => (c, [])
              end
          | RChunked, TX :: rest => (set_c_buf rest c, [KClose false; recv_err server c])
          | REof, TD d0 :: rest0 =>
              let '(d, rest) := take_data (c_buf c) in kcons (recv_data server c d) (rd (set_c_buf rest c))
          | _, _ => (c, [])
          end
      | _ => (c, [])
      end
  end.

Definition read_fuel (c : h1conn) : nat := 2 * length (c_buf c) + 6.

(* state(ConnectionClosed); r w = connection flags after the peer's close was recorded *)
Definition h1_closed (server : bool) (w : bool) (c : h1conn) : kres :=
  match c_state c with
  | HReadHeaders =>
      if server then (c, [KClose false])
      else (c, (if w then [KClose false] else []) ++ (if is_some (c_sid c) then [recv_err server c] else []))
  | HReadBody =>
      match c_reader c with
      | REof => eom_with (h1_read (read_fuel c) server) server c
      | _ => (c, [KClose false; recv_err server c])
      end
  | HWait => (c, (if w then [KClose false] else []) ++ [KRecv (sid_of c) (if server then EReqErr None else ERespErr None)])
  | HPipe => (c, [KRecv (sid_of c) (if server then EReqEOM else ERespEOM)])
  | _ => (c, [])
  end.

(* Http1Server.send *)
Definition h1s_send (w : bool) (from : N) (e : hev) (c : h1conn) : kres :=
  if negb (N.eqb (sid_of c) from) then (c, [KCrash]) else
  match e with
  | ERespHeaders h _ => (set_c_resp (Some h) c, [KSend (h_fwd h)])
  | ERespData d =>
      match c_resp c with
      | None => (c, [KCrash])
      | Some h => let raw := if is_chunked h then chunk_enc d else d in (c, if isnil raw then [] else [KSend raw])
      end
  | ERespEOM =>
      match c_req c, c_resp c with
      | Some rq, Some rs =>
          kcons (if negb (meth_eqb (h_meth rq) MHead) && is_chunked rs then [KSend chunk_end] else [])
                (mark_done_with (h1_read (read_fuel c) true) true false c)
      | _, _ => (c, [KCrash])
      end
  | ERespErr code =>
      if negb w then (c, [])
      else (c, match c_resp c, code with None, Some st => [KErrPage st] | _, _ => [] end ++ [KClose false])
  | _ => (c, [KCrash])
  end.

(* Http1Client.send *)
Definition h1c_send (from : N) (e : hev) (c : h1conn) : kres :=
  match e with
  | EReqErr _ => (c, [KClose false])
  | _ =>
      let oc := match c_sid c with
                | Some _ => Some c
                | None => match e with EReqHeaders h _ => Some (set_c_req (Some h) (set_c_sid (Some from) c)) | _ => None end
                end in
      match oc with
      | None => (c, [KCrash])
      | Some c1 =>
          if negb (N.eqb (sid_of c1) from) then (c1, [KCrash]) else
          match e with
          | EReqHeaders h _ => (c1, [KSend (h_fwd h)])
          | EReqData d =>
              match c_req c1 with
              | None => (c1, [KCrash])
              | Some h => let raw := if is_chunked h then chunk_enc d else d in (c1, if isnil raw then [] else [KSend raw])
              end
          | EReqEOM =>
              match c_req c1 with
              | None => (c1, [KCrash])
              | Some rq =>
                  kcons (if is_chunked rq then [KSend chunk_end]
                         else match c_resp c1 with
                              | Some rs => if is_eof (resp_expected rq rs) then [KClose true] else []
                              | None => [] end)
                        (mark_done_with (h1_read (read_fuel c1) false) false true c1)
              end
          | _ => (c1, [KCrash])
          end
      end
  end.

(* ---------- HttpLayer + driver *)
Inductive pending := PHook (sid : N) | POpen (k : N) (ok : bool).
Inductive ocmd := OHook (h : hook) (ord : N) | OOpen (k : N) | OSend (k : N) (b : bytes) | OErrPage (k st : N)
                | OClose (k : N) (half : bool) | OCrash.
Inductive connres := COk | CFail | CDefer.
Record env := mkEnv { e_opts : opts; e_pol : N -> hook -> act; e_defer : N -> hook -> bool; e_conn : N -> connres }.

Record srvc := mkSrv { v_host : N; v_pending : bool; v_err : bool; v_waiting : list N; v_conn : h1conn; v_r : bool; v_w : bool }.
Definition set_v_host (v : N) (s : srvc) : srvc := {| v_host := v; v_pending := v_pending s; v_err := v_err s; v_waiting := v_waiting s; v_conn := v_conn s; v_r := v_r s; v_w := v_w s |}.
Definition set_v_pending (v : bool) (s : srvc) : srvc := {| v_host := v_host s; v_pending := v; v_err := v_err s; v_waiting := v_waiting s; v_conn := v_conn s; v_r := v_r s; v_w := v_w s |}.
Definition set_v_err (v : bool) (s : srvc) : srvc := {| v_host := v_host s; v_pending := v_pending s; v_err := v; v_waiting := v_waiting s; v_conn := v_conn s; v_r := v_r s; v_w := v_w s |}.
Definition set_v_waiting (v : list N) (s : srvc) : srvc := {| v_host := v_host s; v_pending := v_pending s; v_err := v_err s; v_waiting := v; v_conn := v_conn s; v_r := v_r s; v_w := v_w s |}.
Definition set_v_conn (v : h1conn) (s : srvc) : srvc := {| v_host := v_host s; v_pending := v_pending s; v_err := v_err s; v_waiting := v_waiting s; v_conn := v; v_r := v_r s; v_w := v_w s |}.
Definition set_v_r (v : bool) (s : srvc) : srvc := {| v_host := v_host s; v_pending := v_pending s; v_err := v_err s; v_waiting := v_waiting s; v_conn := v_conn s; v_r := v; v_w := v_w s |}.
Definition set_v_w (v : bool) (s : srvc) : srvc := {| v_host := v_host s; v_pending := v_pending s; v_err := v_err s; v_waiting := v_waiting s; v_conn := v_conn s; v_r := v_r s; v_w := v |}.
Record sys := mkSys { cl : h1conn; cl_r : bool; cl_w : bool; srvs : list srvc; streams : list (stream * bool);
                      next_ord : N; ords : list (N * N); deferred : list pending; pendq : list pending;
                      trace : list ocmd; ended : bool; crashedS : bool; nofuel : bool }.
Definition sy_cl (v : h1conn) (s : sys) : sys := {| cl := v; cl_r := cl_r s; cl_w := cl_w s; srvs := srvs s; streams := streams s; next_ord := next_ord s; ords := ords s; deferred := deferred s; pendq := pendq s; trace := trace s; ended := ended s; crashedS := crashedS s; nofuel := nofuel s |}.
Definition sy_cl_r (v : bool) (s : sys) : sys := {| cl := cl s; cl_r := v; cl_w := cl_w s; srvs := srvs s; streams := streams s; next_ord := next_ord s; ords := ords s; deferred := deferred s; pendq := pendq s; trace := trace s; ended := ended s; crashedS := crashedS s; nofuel := nofuel s |}.
Definition sy_cl_w (v : bool) (s : sys) : sys := {| cl := cl s; cl_r := cl_r s; cl_w := v; srvs := srvs s; streams := streams s; next_ord := next_ord s; ords := ords s; deferred := deferred s; pendq := pendq s; trace := trace s; ended := ended s; crashedS := crashedS s; nofuel := nofuel s |}.
Definition sy_srvs (v : list srvc) (s : sys) : sys := {| cl := cl s; cl_r := cl_r s; cl_w := cl_w s; srvs := v; streams := streams s; next_ord := next_ord s; ords := ords s; deferred := deferred s; pendq := pendq s; trace := trace s; ended := ended s; crashedS := crashedS s; nofuel := nofuel s |}.
Definition sy_streams (v : list (stream * bool)) (s : sys) : sys := {| cl := cl s; cl_r := cl_r s; cl_w := cl_w s; srvs := srvs s; streams := v; next_ord := next_ord s; ords := ords s; deferred := deferred s; pendq := pendq s; trace := trace s; ended := ended s; crashedS := crashedS s; nofuel := nofuel s |}.
Definition sy_next_ord (v : N) (s : sys) : sys := {| cl := cl s; cl_r := cl_r s; cl_w := cl_w s; srvs := srvs s; streams := streams s; next_ord := v; ords := ords s; deferred := deferred s; pendq := pendq s; trace := trace s; ended := ended s; crashedS := crashedS s; nofuel := nofuel s |}.
Definition sy_ords (v : list (N * N)) (s : sys) : sys := {| cl := cl s; cl_r := cl_r s; cl_w := cl_w s; srvs := srvs s; streams := streams s; next_ord := next_ord s; ords := v; deferred := deferred s; pendq := pendq s; trace := trace s; ended := ended s; crashedS := crashedS s; nofuel := nofuel s |}.
Definition sy_deferred (v : list pending) (s : sys) : sys := {| cl := cl s; cl_r := cl_r s; cl_w := cl_w s; srvs := srvs s; streams := streams s; next_ord := next_ord s; ords := ords s; deferred := v; pendq := pendq s; trace := trace s; ended := ended s; crashedS := crashedS s; nofuel := nofuel s |}.
Definition sy_pendq (v : list pending) (s : sys) : sys := {| cl := cl s; cl_r := cl_r s; cl_w := cl_w s; srvs := srvs s; streams := streams s; next_ord := next_ord s; ords := ords s; deferred := deferred s; pendq := v; trace := trace s; ended := ended s; crashedS := crashedS s; nofuel := nofuel s |}.
Definition sy_trace (v : list ocmd) (s : sys) : sys := {| cl := cl s; cl_r := cl_r s; cl_w := cl_w s; srvs := srvs s; streams := streams s; next_ord := next_ord s; ords := ords s; deferred := deferred s; pendq := pendq s; trace := v; ended := ended s; crashedS := crashedS s; nofuel := nofuel s |}.
Definition sy_ended (v : bool) (s : sys) : sys := {| cl := cl s; cl_r := cl_r s; cl_w := cl_w s; srvs := srvs s; streams := streams s; next_ord := next_ord s; ords := ords s; deferred := deferred s; pendq := pendq s; trace := trace s; ended := v; crashedS := crashedS s; nofuel := nofuel s |}.
Definition sy_crashedS (v : bool) (s : sys) : sys := {| cl := cl s; cl_r := cl_r s; cl_w := cl_w s; srvs := srvs s; streams := streams s; next_ord := next_ord s; ords := ords s; deferred := deferred s; pendq := pendq s; trace := trace s; ended := ended s; crashedS := v; nofuel := nofuel s |}.
Definition sy_nofuel (v : bool) (s : sys) : sys := {| cl := cl s; cl_r := cl_r s; cl_w := cl_w s; srvs := srvs s; streams := streams s; next_ord := next_ord s; ords := ords s; deferred := deferred s; pendq := pendq s; trace := trace s; ended := ended s; crashedS := crashedS s; nofuel := v |}.
Inductive work := WIn (sid : N) (inp : sinput) | WS (sid : N) (c : scmd) | WK (cid : N) (c : kcmd).

Definition fresh_conn (st : h1state) (sid0 : option N) : h1conn := mkConn st sid0 None None false false (RLen 0) [].
Definition init_sys : sys :=
  mkSys (fresh_conn HReadHeaders (Some 1)) true true [] [] 0 [] [] [] [] false false false.
Definition halted (y : sys) : bool := ended y || crashedS y || nofuel y.

Fixpoint find_stream (id : N) (l : list (stream * bool)) : option (stream * bool) :=
  match l with [] => None | (s, d) :: r => if N.eqb (sid s) id then Some (s, d) else find_stream id r end.
Fixpoint put_stream (id : N) (v : stream * bool) (l : list (stream * bool)) : list (stream * bool) :=
  match l with [] => [] | (s, d) :: r => if N.eqb (sid s) id then v :: r else (s, d) :: put_stream id v r end.
Fixpoint assoc (id : N) (l : list (N * N)) : option N :=
  match l with [] => None | (a, b) :: r => if N.eqb a id then Some b else assoc id r end.
Definition nth_srv (k : N) (l : list srvc) : option srvc := nth_error l (N.to_nat (k - 1)).
Fixpoint put_nth {A} (n : nat) (v : A) (l : list A) : list A :=
  match l, n with [], _ => [] | _ :: r, O => v :: r | a :: r, S m => a :: put_nth m v r end.
Definition put_srv (k : N) (v : srvc) (l : list srvc) : list srvc := put_nth (N.to_nat (k - 1)) v l.
Definition add_trace (c : ocmd) (y : sys) : sys := sy_trace (trace y ++ [c]) y.
Definition do_crash (y : sys) : sys := sy_crashedS true (add_trace OCrash y).

Inductive found := FWaiting (k : N) | FErr | FConnected (k : N).
Fixpoint find_conn (host : N) (l : list srvc) (k : N) : option found :=
  match l with
  | [] => None
  | v :: r =>
      if N.eqb (v_host v) host then
        if v_pending v then Some (FWaiting k)
        else if v_err v then Some FErr
        else if v_r v && v_w v then Some (FConnected k)
        else find_conn host r (k + 1)
      else find_conn host r (k + 1)
  end.

(* HttpLayer.get_connection *)
Definition get_connection (e : env) (id host : N) (y : sys) : sys * list work :=
  match find_conn host (srvs y) 1 with
  | Some (FWaiting k) =>
      match nth_srv k (srvs y) with
      | Some v => (sy_srvs (put_srv k (set_v_waiting (v_waiting v ++ [id]) v) (srvs y)) y, [])
      | None => (y, [])
      end
  | Some FErr => (y, [WIn id (IConnDone None)])
  | Some (FConnected k) => (y, [WIn id (IConnDone (Some k))])
  | None =>
      let k := N.of_nat (length (srvs y)) + 1 in
      let v := mkSrv host true false [id] (fresh_conn HStart None) false false in
      let y1 := add_trace (OOpen k) (sy_srvs (srvs y ++ [v]) y) in
      match e_conn e k with
      | COk => (sy_pendq (pendq y1 ++ [POpen k true]) y1, [])
      | CFail => (sy_pendq (pendq y1 ++ [POpen k false]) (sy_srvs (srvs y ++ [set_v_err true v]) y1), [])
      | CDefer => (sy_deferred (deferred y1 ++ [POpen k true]) y1, [])
      end
  end.

Definition is_reqheaders (e : hev) : bool := match e with EReqHeaders _ _ => true | _ => false end.

(* one command / input is routed; returns the work it produces (processed before everything else: generator nesting) *)
Definition step (e : env) (y : sys) (w : work) : sys * list work :=
  match w with
  | WIn id inp =>
      match find_stream id (streams y) with
      | None => (y, [])
      | Some (s, d) =>
          let '(s1, cmds) := stream_handle (e_opts e) s inp in
          (sy_streams (put_stream id (s1, d) (streams y)) y, map (WS id) cmds)
      end
  | WS id c =>
      match find_stream id (streams y) with
      | None => (y, [])
      | Some (s, d) =>
          match c with
          | CHook h =>
              let '(o, y1) := match assoc id (ords y) with
                              | Some o => (o, y)
                              | None => (next_ord y, sy_next_ord (next_ord y + 1) (sy_ords (ords y ++ [(id, next_ord y)]) y))
                              end in
              let y2 := add_trace (OHook h o) y1 in
              let y3 := sy_streams (put_stream id (apply_act h (e_pol e o h) s, d) (streams y2)) y2 in
              if e_defer e o h then (sy_deferred (deferred y3 ++ [PHook id]) y3, [])
              else (sy_pendq (pendq y3 ++ [PHook id]) y3, [])
          | CSend TClient ev =>
              let '(c1, ks) := h1s_send (cl_w y) id ev (cl y) in (sy_cl c1 y, map (WK 0) ks)
          | CSend TServer ev =>
              match srv s with
              | None => (do_crash y, [])
              | Some k =>
                  match nth_srv k (srvs y) with
                  | None => (do_crash y, [])
                  | Some v => let '(c1, ks) := h1c_send id ev (v_conn v) in
                              (sy_srvs (put_srv k (set_v_conn c1 v) (srvs y)) y, map (WK k) ks)
                  end
              end
          | CGetConn host => get_connection e id host y
          | CDrop => (sy_streams (put_stream id (s, true) (streams y)) y, [])
          | CCloseServer =>
              match srv s with
              | None => (do_crash y, [])
              | Some k => (y, [WK k (KClose false)])
              end
          | CTunnel => (sy_ended true y, [])
          | CCrash => (do_crash y, [])
          end
      end
  | WK k c =>
      match c with
      | KSend b => (add_trace (OSend k b) y, [])
      | KErrPage st => (add_trace (OErrPage k st) y, [])
      | KClose half =>
          let y1 := add_trace (OClose k half) y in
          if N.eqb k 0 then
            ((if half then sy_cl_w false y1 else sy_cl_w false (sy_cl_r false y1)), [])
          else match nth_srv k (srvs y1) with
               | None => (y1, [])
               | Some v => (sy_srvs (put_srv k (if half then set_v_w false v else set_v_w false (set_v_r false v)) (srvs y1)) y1, [])
               end
      | KRecv id ev =>
          let y1 := if is_reqheaders ev then sy_streams (streams y ++ [(new_stream id, false)]) y else y in
          match find_stream id (streams y1) with
          | Some (_, false) => (y1, [WIn id (IEvent ev)])
          | _ => (y1, [])
          end
      | KCrash => (do_crash y, [])
      | KNoFuel => (sy_nofuel true y, [])
      end
  end.

Fixpoint run (fuel : nat) (e : env) (y : sys) (stack : list work) : sys :=
  match stack with
  | [] => y
  | w :: rest =>
      if halted y then y else
      match fuel with
      | O => sy_nofuel true y
      | S f => let '(y1, new) := step e y w in run f e y1 (new ++ rest)
      end
  end.
Definition RUN_FUEL : nat := 600.

(* completion of a blocking command (HookCompleted / OpenConnectionCompleted) *)
Definition complete (y : sys) (p : pending) : sys * list work :=
  match p with
  | PHook id => (y, [WIn id IHookDone])
  | POpen k ok =>
      match nth_srv k (srvs y) with
      | None => (y, [])
      | Some v =>
          let v1 := set_v_waiting [] (set_v_pending false v) in
          let v2 := if ok then set_v_r true (set_v_w true (set_v_conn (set_c_state HReadHeaders (v_conn v1)) v1)) else v1 in
          (sy_srvs (put_srv k v2 (srvs y)) y,
           map (fun id => WIn id (IConnDone (if ok then Some k else None))) (v_waiting v))
      end
  end.

(* the driver event loop: completions that were not deferred are delivered FIFO after the current event *)
Fixpoint pump (n : nat) (e : env) (y : sys) : sys :=
  match pendq y with
  | [] => y
  | p :: q =>
      if halted y then y else
      match n with
      | O => sy_nofuel true y
      | S n' => let '(y1, ws) := complete (sy_pendq q y) p in pump n' e (run RUN_FUEL e y1 ws)
      end
  end.
Definition PUMP_FUEL : nat := 60.
Definition settle (e : env) (y : sys) (ws : list work) : sys := pump PUMP_FUEL e (run RUN_FUEL e y ws).

Inductive op := ODataC (t : list tok) | ODataS (k : N) (t : list tok) | OCloseC | OCloseS (k : N) | OResume.

Definition feed (server : bool) (t : list tok) (c : h1conn) : kres :=
  match c_state c with
  | HPipe => (c, [KRecv (sid_of c) (if server then EReqData [x00] else ERespData [x00])])
  | _ => let c1 := set_c_buf (c_buf c ++ t) c in h1_read (read_fuel c1) server c1
  end.

Definition do_op (e : env) (y : sys) (o : op) : sys :=
  if halted y then y else
  match o with
  | ODataC t =>
      if cl_r y then let '(c1, ks) := feed true t (cl y) in settle e (sy_cl c1 y) (map (WK 0) ks) else y
  | ODataS k t =>
      match nth_srv k (srvs y) with
      | Some v => if v_r v && negb (N.eqb k 0)
                  then let '(c1, ks) := feed false t (v_conn v) in
                       settle e (sy_srvs (put_srv k (set_v_conn c1 v) (srvs y)) y) (map (WK k) ks)
                  else y
      | None => y
      end
  | OCloseC =>
      if cl_r y then let '(c1, ks) := h1_closed true (cl_w y) (cl y) in
                     settle e (sy_cl c1 (sy_cl_r false y)) (map (WK 0) ks) else y
  | OCloseS k =>
      match nth_srv k (srvs y) with
      | Some v => if v_r v && negb (N.eqb k 0)
                  then let '(c1, ks) := h1_closed false (v_w v) (v_conn v) in
                       settle e (sy_srvs (put_srv k (set_v_conn c1 (set_v_r false v)) (srvs y)) y) (map (WK k) ks)
                  else y
      | None => y
      end
  | OResume =>
      match deferred y with
      | [] => y
      | p :: r => let '(y1, ws) := complete (sy_deferred r y) p in settle e y1 ws
      end
  end.

Fixpoint resume_all (n : nat) (e : env) (y : sys) : sys :=
  match n with
  | O => y
  | S n' => match deferred y with [] => y | _ => if halted y then y else resume_all n' e (do_op e y OResume) end
  end.
Definition close_all (e : env) (y : sys) : sys :=
  fold_left (fun y k => do_op e y (OCloseS k)) (map N.of_nat (seq 1 (length (srvs y)))) (do_op e y OCloseC).
Fixpoint finish (rounds : nat) (e : env) (y : sys) : sys :=
  match rounds with O => y | S r => finish r e (close_all e (resume_all 40 e y)) end.
Definition ROUNDS : nat := 3.

Definition run_ops (e : env) (ops : list op) : sys := finish ROUNDS e (fold_left (do_op e) ops init_sys).

(* ---------- observations compared with the implementation *)
Record flowobs := mkFlowObs { fo_live : bool; fo_resp : bool; fo_err : bool; fo_connect : bool; fo_101 : bool }.
Definition obs_stream (s : stream) : flowobs :=
  mkFlowObs (live s) (is_some (fresp s)) (is_some (ferr s))
            (match req s with Some h => meth_eqb (h_meth h) MConnect | None => false end)
            (match fresp s with Some r => h_status (r_head r) =? 101 | None => false end).
Definition obs_flows (y : sys) : list flowobs :=
  flat_map (fun p => match find_stream (fst p) (streams y) with Some (s, _) => [obs_stream s] | None => [] end) (ords y).
Definition obs_conns (y : sys) : list (bool * bool) := (cl_r y, cl_w y) :: map (fun v => (v_r v, v_w v)) (srvs y).
Definition settled (y : sys) : bool :=
  isnil (deferred y) && negb (cl_r y) && forallb (fun v => negb (v_r v)) (srvs y).
