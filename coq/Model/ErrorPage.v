(* Model/ErrorPage.v — mitmproxy/proxy/layers/http/_base.py format_error and
   _http1.py make_error_response (html.escape, textwrap.dedent, str.strip, utf-8 encoding with
   errors=replace, Response.make + assemble_response).  Text = list of code points (N).
   Executable definitions only. *)
From Coq Require Import List Bool NArith Ascii String.
From MV Require Import Base.Bytes.
Import ListNotations.
Local Open Scope N_scope.

Definition text := list N.
Definition lit (s : string) : text := map N_of_ascii (list_ascii_of_string s).

Definition AMP := 38. Definition LT := 60. Definition GT := 62. Definition DQUOTE := 34. Definition SQUOTE := 39.
Definition NL := 10. Definition SP := 32. Definition TAB := 9.

(* html.escape(s, quote=True): ampersand first, then lt, gt, double and single quote *)
Definition esc_char (c : N) : text :=
  if c =? AMP then lit "&amp;"
  else if c =? LT then lit "&lt;"
  else if c =? GT then lit "&gt;"
  else if c =? DQUOTE then lit "&quot;"
  else if c =? SQUOTE then lit "&#x27;"
  else [c].
Definition html_escape (s : text) : text := flat_map esc_char s.

(* ---- textwrap.dedent ---- *)
Definition is_sp (c : N) : bool := (c =? SP) || (c =? TAB).

Fixpoint split_nl (t : text) (cur : text) : list text :=
  match t with
  | [] => [rev cur]
  | c :: t' => if c =? NL then rev cur :: split_nl t' [] else split_nl t' (c :: cur)
  end.
Fixpoint join_nl (ls : list text) : text :=
  match ls with
  | [] => []
  | [l] => l
  | l :: ls' => l ++ NL :: join_nl ls'
  end.

(* _whitespace_only_re: a line made only of spaces and tabs becomes empty *)
Definition blank_ws (l : text) : text := if forallb is_sp l then [] else l.

Fixpoint leading_ws (l : text) : text :=
  match l with
  | c :: l' => if is_sp c then c :: leading_ws l' else []
  | [] => []
  end.
(* _leading_whitespace_re: lines with some non-whitespace content contribute their indent *)
Definition indent_of (l : text) : option text := match l with [] => None | _ => Some (leading_ws l) end.

Fixpoint text_starts (p s : text) : bool :=
  match p, s with
  | [], _ => true
  | x :: p', y :: s' => (x =? y) && text_starts p' s'
  | _ :: _, [] => false
  end.
Fixpoint common_prefix (a b : text) : text :=
  match a, b with
  | x :: a', y :: b' => if x =? y then x :: common_prefix a' b' else []
  | _, _ => []
  end.
Definition margin_step (margin : option text) (indent : text) : option text :=
  match margin with
  | None => Some indent
  | Some m =>
    if text_starts m indent then Some m
    else if text_starts indent m then Some indent
    else Some (common_prefix m indent)
  end.
Fixpoint margin_of (lines : list text) (margin : option text) : option text :=
  match lines with
  | [] => margin
  | l :: ls => margin_of ls (match indent_of l with Some i => margin_step margin i | None => margin end)
  end.
Definition remove_margin (m : text) (l : text) : text :=
  if text_starts m l then skipn (List.length m) l else l.

Definition dedent (t : text) : text :=
  let lines := map blank_ws (split_nl t []) in
  match margin_of lines None with
  | Some (c :: m) => join_nl (map (remove_margin (c :: m)) lines)
  | _ => join_nl lines
  end.

(* str.strip() restricted to the whitespace that can occur at the ends of the page *)
Definition is_ws (c : N) : bool := (c =? SP) || (c =? TAB) || (c =? NL).
Fixpoint lstrip (t : text) : text :=
  match t with c :: t' => if is_ws c then lstrip t' else t | [] => [] end.
Definition strip (t : text) : text := rev (lstrip (rev (lstrip t))).

(* ---- the page ---- *)
Definition dec_text (n : N) : text := map bN (dec_of_N n).

Definition pre0 (code : N) (reason : text) : text :=
  lit "
    <html>
    <head>
        <title>" ++ dec_text code ++ [SP] ++ reason ++ lit "</title>
    </head>
    <body>
        <h1>" ++ dec_text code ++ [SP] ++ reason ++ lit "</h1>
        <p>".
Definition post0 : text := lit "</p>
    </body>
    </html>
    ".
Definition template (code : N) (reason : text) (escaped : text) : text :=
  pre0 code reason ++ escaped ++ post0.

Definition format_error_text (code : N) (reason message : text) : text :=
  strip (dedent (template code reason (html_escape message))).

(* str.encode("utf8", "replace"): lone surrogates become a question mark *)
Definition utf8_cp (c : N) : bytes :=
  if c <? 128 then [Nb c]
  else if c <? 2048 then [Nb (192 + c / 64); Nb (128 + c mod 64)]
  else if (55296 <=? c) && (c <=? 57343) then [x3f]
  else if c <? 65536 then [Nb (224 + c / 4096); Nb (128 + (c / 64) mod 64); Nb (128 + c mod 64)]
  else [Nb (240 + c / 262144); Nb (128 + (c / 4096) mod 64); Nb (128 + (c / 64) mod 64); Nb (128 + c mod 64)].
Definition utf8_replace (t : text) : bytes := flat_map utf8_cp t.

Definition format_error (code : N) (reason message : text) : bytes :=
  utf8_replace (format_error_text code reason message).

(* ---- make_error_response: Response.make + assemble_response ---- *)
Definition CRLF : bytes := [x0d; x0a].
Definition blit (s : string) : bytes := map (fun a => Nb (N_of_ascii a)) (list_ascii_of_string s).

Definition make_error_response (code : N) (reason : bytes) (server_ver : bytes) (body : bytes) : bytes :=
  blit "HTTP/1.1 " ++ dec_of_N code ++ [x20] ++ reason ++ CRLF
  ++ blit "Server: " ++ server_ver ++ CRLF
  ++ blit "Connection: close" ++ CRLF
  ++ blit "Content-Type: text/html" ++ CRLF
  ++ blit "content-length: " ++ dec_of_N (N.of_nat (List.length body)) ++ CRLF
  ++ CRLF ++ body.

(* ---- an independent, minimal HTTP/1 response reader used as the reference ----
   status line, field lines up to the empty line, Content-Length delimited body *)
Fixpoint take_line (s : bytes) (acc : bytes) : option (bytes * bytes) :=
  match s with
  | [] => None
  | c :: s' =>
    if byte_eqb c x0d then
      match s' with
      | d :: s'' => if byte_eqb d x0a then Some (rev acc, s'') else take_line s' (c :: acc)
      | [] => None
      end
    else take_line s' (c :: acc)
  end.

Fixpoint read_fields (fuel : nat) (s : bytes) (acc : list bytes) : option (list bytes * bytes) :=
  match fuel with
  | O => None
  | S f =>
    match take_line s [] with
    | None => None
    | Some ([], rest) => Some (rev acc, rest)
    | Some (l, rest) => read_fields f rest (l :: acc)
    end
  end.

Fixpoint parse_dec (s : bytes) (acc : N) : option N :=
  match s with
  | [] => Some acc
  | c :: s' => if is_digit c then parse_dec s' (acc * 10 + (bN c - 48)) else None
  end.

Definition field_value (name : bytes) (l : bytes) : option bytes :=
  (* name ":" SP value, name compared case-insensitively *)
  let n := List.length name in
  if bytes_eqb (lower (firstn n l)) (lower name) then
    match skipn n l with
    | c1 :: c2 :: v => if byte_eqb c1 x3a && byte_eqb c2 x20 then Some v else None
    | _ => None
    end
  else None.
Fixpoint find_field (name : bytes) (fields : list bytes) : option bytes :=
  match fields with
  | [] => None
  | l :: ls => match field_value name l with Some v => Some v | None => find_field name ls end
  end.

Record ref_response := mkRef { r_status_line : bytes; r_fields : list bytes; r_body : bytes; r_rest : bytes }.

Definition ref_read_response (s : bytes) : option ref_response :=
  match take_line s [] with
  | None => None
  | Some (status, rest) =>
    match read_fields (S (List.length rest)) rest [] with
    | None => None
    | Some (fields, rest2) =>
      match find_field (blit "content-length") fields with
      | None => None
      | Some v =>
        match v with
        | [] => None
        | _ => match parse_dec v 0 with
               | None => None
               | Some n =>
                 let k := N.to_nat n in
                 if Nat.leb k (List.length rest2)
                 then Some (mkRef status fields (firstn k rest2) (skipn k rest2))
                 else None
               end
        end
      end
    end
  end.
