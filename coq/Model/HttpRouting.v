(* Model/HttpRouting.v -- executable model of the upstream-connection bookkeeping of
   mitmproxy/proxy/layers/http/__init__.py (HttpLayer.get_connection, HttpLayer.register_connection,
   the OpenConnection registration of event_to_child, HttpClient) and of the Server.__setattr__ guard of
   mitmproxy/connection.py.  The reuse predicate connection_spec_matches is NOT written here: it is
   regenerated from the source into Gen/ConnSpec.v on every run.  No proofs in this file.

   Objects are numbered in order of creation (0 = client, 1 = context.server, then every Server that
   get_connection creates: the logical connection first, its upstream-proxy carrier second).
   l_conns is the dict HttpLayer.connections in insertion order: key -> handler, the handler being named by
   the logical connection whose layer stack it is (stack[0] of get_connection); a key whose handler differs
   from itself is a tunnel carrier registered when the OpenConnection of the stack passed through event_to_child. *)
From Coq Require Import NArith List Bool.
From MV Require Import Base.Bytes Model.HttpRoutingBase Gen.ConnSpec.
Import ListNotations.
Open Scope N_scope.

(* ---------- object store ---------- *)
Definition heap := list (N * conn).
Definition no_conn : conn := mkConn false None false None TCP Closed false false.

Fixpoint hget (h : heap) (c : N) : conn :=
  match h with
  | [] => no_conn
  | (c', k) :: r => if N.eqb c c' then k else hget r c
  end.

Fixpoint hset (h : heap) (c : N) (k : conn) : heap :=
  match h with
  | [] => [(c, k)]
  | (c', k') :: r => if N.eqb c c' then (c, k) :: r else (c', k') :: hset r c k
  end.

(* ---------- layer state ---------- *)
(* shape of the layer stack get_connection built for a logical connection:
   carrier = the Server object of the upstream proxy (HttpUpstreamProxy.make), connect = send_connect,
   tls = a ServerTLSLayer / ServerQuicLayer sits directly under HttpClient *)
Record stackinfo := mkStack { sk_carrier : option N; sk_connect : bool; sk_tls : bool }.

Definition waiter := (N * get_cmd)%type.     (* GetHttpConnection command: request ordinal, spec *)

Record lstate := mkL {
  l_conns : list (N * N);                    (* HttpLayer.connections: key -> handler, insertion order *)
  l_waiting : list (N * list waiter);        (* HttpLayer.waiting_for_establishment, insertion order *)
  l_heap : heap;
  l_next : N;                                (* next fresh object number *)
  l_stacks : list (N * stackinfo) }.

Record cfg := mkCfg {
  ctx_server : N;                            (* self.context.server *)
  client_h2 : bool;                          (* self.context.client.alpn is the bytes h2 *)
  upstream_mode : bool }.                    (* self.mode == HTTPMode.upstream *)

Fixpoint has_key {A} (l : list (N * A)) (c : N) : bool :=
  match l with [] => false | (c', _) :: r => N.eqb c c' || has_key r c end.

(* self.connections[c]; a missing key is a KeyError in Python and cannot occur for a replied connection *)
Fixpoint handler_of (l : list (N * N)) (c : N) : N :=
  match l with [] => c | (c', h) :: r => if N.eqb c c' then h else handler_of r c end.

(* d[c] = h on a dict: an existing key keeps its position *)
Fixpoint dict_set (l : list (N * N)) (c h : N) : list (N * N) :=
  match l with
  | [] => [(c, h)]
  | (c', h') :: r => if N.eqb c c' then (c, h) :: r else (c', h') :: dict_set r c h
  end.

(* waiting_for_establishment[c].append(w) on the defaultdict *)
Fixpoint waiting_add (w : list (N * list waiter)) (c : N) (x : waiter) : list (N * list waiter) :=
  match w with
  | [] => [(c, [x])]
  | (c', ws) :: r => if N.eqb c c' then (c', ws ++ [x]) :: r else (c', ws) :: waiting_add r c x
  end.

(* waiting_for_establishment.pop(c): None = KeyError *)
Fixpoint waiting_pop (w : list (N * list waiter)) (c : N) : option (list waiter * list (N * list waiter)) :=
  match w with
  | [] => None
  | (c', ws) :: r =>
      if N.eqb c c' then Some (ws, r)
      else match waiting_pop r c with
           | Some (x, r') => Some (x, (c', ws) :: r')
           | None => None
           end
  end.

(* ---------- observable results ---------- *)
Inductive out :=
| OReply (rid : N) (g : get_cmd) (r : option (N * conn * N))
    (* GetHttpConnectionCompleted for request rid: Some (connection, its attributes at that moment,
       handler self.connections[connection] that the request head is dispatched to) / None = (None, error) *)
| OSet (ok : bool)            (* attribute assignment: accepted / RuntimeError of Server.__setattr__ *)
| OKeyError                   (* waiting_for_establishment.pop of an absent connection *)
| OFuel.                      (* nesting deeper than the fuel (never observed) *)

Definition reply_conn (s : lstate) (w : waiter) (l : N) : out :=
  OReply (fst w) (snd w) (Some (l, hget (l_heap s) l, handler_of (l_conns s) l)).
Definition reply_err (w : waiter) : out := OReply (fst w) (snd w) None.

(* ---------- Server(address=event.address, transport_protocol=...) + via + TLS layer ---------- *)
Definition new_server (g : get_cmd) : conn :=
  mkConn true (Some (g_address g)) (g_tls g) (g_via g) (g_tp g) Closed false false.
(* HttpUpstreamProxy.make: Server(address=via address); an https proxy gets a ServerTLSLayer (tls = True) *)
Definition new_carrier (v : bytes * addr) : conn :=
  mkConn true (Some (snd v)) (bytes_eqb (fst v) https_scheme) None TCP Closed false false.

(* ---------- the reuse loop of get_connection ---------- *)
Inductive loop_res := LQueue (c : N) | LErr (c : N) | LReuse (c : N) | LFall.

Fixpoint reuse_loop (cf : cfg) (s : lstate) (g : get_cmd) (keys : list (N * N)) : loop_res :=
  match keys with
  | [] => LFall
  | (c, _) :: rest =>
      let k := hget (l_heap s) c in
      if connection_spec_matches g k then
        if has_key (l_waiting s) c then LQueue c
        else if c_error k then LErr c
        else if connected k then
          (* h2_to_h1: client speaks HTTP/2, this server does not *)
          if client_h2 cf && negb (c_h2 k) then reuse_loop cf s g rest else LReuse c
        else reuse_loop cf s g rest   (* at least half-closed: we want a new one *)
      else reuse_loop cf s g rest
  end.

Definition set_waiting (s : lstate) (w : list (N * list waiter)) : lstate :=
  mkL (l_conns s) w (l_heap s) (l_next s) (l_stacks s).

(* get_connection and register_connection call each other (HttpClient registers at once when the context
   connection is already open; register_connection re-issues get_connection(reuse=False) for HTTP/2 -> HTTP/1).
   The nesting is bounded; fuel makes the recursion structural. *)
Fixpoint get_connection (fuel : nat) (cf : cfg) (s : lstate) (w : waiter) (reuse : bool) {struct fuel}
  : lstate * list out :=
  match fuel with
  | O => (s, [OFuel])
  | S f =>
    let g := snd w in
    match (if reuse then reuse_loop cf s g (l_conns s) else LFall) with
    | LQueue c => (set_waiting s (waiting_add (l_waiting s) c w), [])
    | LErr c => (s, [reply_err w])
    | LReuse c => (s, [reply_conn s w c])
    | LFall =>
      let ctx := ctx_server cf in
      let kc := hget (l_heap s) ctx in
      let ctx_matches := negb (has_key (l_conns s) ctx) && connection_spec_matches g kc in
      let can_use := ctx_matches && connected kc in
      if ctx_matches && c_error kc then (s, [reply_err w])
      else if can_use then
        (* stack = [HttpClient(context)]; already connected -> RegisterHttpConnection(context.server, None) at once *)
        let s1 := mkL (dict_set (l_conns s) ctx ctx) (waiting_add (l_waiting s) ctx w) (l_heap s) (l_next s)
                      (l_stacks s ++ [(ctx, mkStack None false false)]) in
        register_connection f cf s1 ctx false
      else
        let l := l_next s in
        match g_via g with
        | Some v =>
            let p := l + 1 in
            (mkL (dict_set (dict_set (l_conns s) l l) p l)
                 (waiting_add (l_waiting s) l w)
                 (hset (hset (l_heap s) l (new_server g)) p (new_carrier v))
                 (l + 2)
                 (l_stacks s ++ [(l, mkStack (Some p) (g_tls g || negb (upstream_mode cf)) (g_tls g))]), [])
        | None =>
            (mkL (dict_set (l_conns s) l l)
                 (waiting_add (l_waiting s) l w)
                 (hset (l_heap s) l (new_server g))
                 (l + 1)
                 (l_stacks s ++ [(l, mkStack None false (g_tls g))]), [])
        end
    end
  end

with register_connection (fuel : nat) (cf : cfg) (s : lstate) (l : N) (err : bool) {struct fuel}
  : lstate * list out :=
  match fuel with
  | O => (s, [OFuel])
  | S f =>
    match waiting_pop (l_waiting s) l with
    | None => (s, [OKeyError])
    | Some (ws, w') =>
      let s1 := set_waiting s w' in
      if err then (s1, map reply_err ws)
      else if client_h2 cf && negb (c_h2 (hget (l_heap s1) l)) then
        (* tricky multiplexing edge case: the first waiter gets the connection, every other one a new connection *)
        match ws with
        | [] => (s1, [])
        | w0 :: rest =>
            fold_left (fun (acc : lstate * list out) (w : waiter) =>
                         let (st', o') := get_connection f cf (fst acc) w false in (st', snd acc ++ o'))
                      rest (s1, [reply_conn s1 w0 l])
        end
      else (s1, map (fun w => reply_conn s1 w l) ws)
    end
  end.

(* ---------- Server.__setattr__ ---------- *)
Inductive field :=
| FAddress (a : option addr) | FVia (v : via_t) | FTls (b : bool) | FTp (t : transport)
| FState (st : cstate) | FError (b : bool) | FH2 (b : bool).

Definition with_field (k : conn) (f : field) : conn :=
  match f with
  | FAddress a => mkConn (c_server k) a (c_tls k) (c_via k) (c_tp k) (c_state k) (c_error k) (c_h2 k)
  | FVia v => mkConn (c_server k) (c_address k) (c_tls k) v (c_tp k) (c_state k) (c_error k) (c_h2 k)
  | FTls b => mkConn (c_server k) (c_address k) b (c_via k) (c_tp k) (c_state k) (c_error k) (c_h2 k)
  | FTp t => mkConn (c_server k) (c_address k) (c_tls k) (c_via k) t (c_state k) (c_error k) (c_h2 k)
  | FState st => mkConn (c_server k) (c_address k) (c_tls k) (c_via k) (c_tp k) st (c_error k) (c_h2 k)
  | FError b => mkConn (c_server k) (c_address k) (c_tls k) (c_via k) (c_tp k) (c_state k) b (c_h2 k)
  | FH2 b => mkConn (c_server k) (c_address k) (c_tls k) (c_via k) (c_tp k) (c_state k) (c_error k) b
  end.

(* None = RuntimeError: Cannot change server.<name> on open connection *)
Definition server_setattr (k : conn) (f : field) : option conn :=
  match f with
  | FAddress a =>
      if c_server k && connected k && negb (option_eqb addr_eqb (c_address k) a) then None else Some (with_field k f)
  | FVia v =>
      if c_server k && connected k && negb (via_eqb (c_via k) v) then None else Some (with_field k f)
  | _ => Some (with_field k f)
  end.

(* ---------- histories ---------- *)
Inductive step :=
| SGet (rid : N) (g : get_cmd)          (* a stream yields GetHttpConnection (HttpStream.make_server_connection) *)
| SRegister (l : N) (err : bool)        (* the stack of l yields RegisterHttpConnection(l, err) *)
| SSet (c : N) (f : field).             (* somebody (proxy server, tunnel layer, addon) assigns an attribute of object c *)

Definition nest_fuel : nat := 4.

Definition step_fn (cf : cfg) (s : lstate) (e : step) : lstate * list out :=
  match e with
  | SGet rid g => get_connection nest_fuel cf s (rid, g) true
  | SRegister l err => register_connection nest_fuel cf s l err
  | SSet c f =>
      match server_setattr (hget (l_heap s) c) f with
      | Some k' => (mkL (l_conns s) (l_waiting s) (hset (l_heap s) c k') (l_next s) (l_stacks s), [OSet true])
      | None => (s, [OSet false])
      end
  end.

Fixpoint run (cf : cfg) (s : lstate) (hist : list step) : lstate * list (list out) :=
  match hist with
  | [] => (s, [])
  | e :: r => let (s1, o) := step_fn cf s e in
              let (s2, os) := run cf s1 r in (s2, o :: os)
  end.

(* initial state: connections = {client: Http1Server/Http2Server}; objects 0 (client) and 1 (context.server) *)
Definition client_conn : conn := mkConn false None false None TCP Open false false.
Definition init_state (ctx : conn) : lstate :=
  mkL [(0, 0)] [] [(0, client_conn); (1, ctx)] 2 [].

(* ---------- contracts along a history (boolean, so that the correspondence check evaluates them on every
   observed history and the theorems take them as hypotheses) ---------- *)
Definition spec_field (f : field) : bool :=
  match f with FAddress _ | FVia _ | FTls _ | FTp _ => true | _ => false end.

(* environment contract: (1) HttpClient / the tunnel layers issue RegisterHttpConnection(l, None) only for an
   open connection without error; (2) nobody assigns address / via / tls / transport_protocol of a connection
   that requests are waiting on *)
Definition step_ok (s : lstate) (e : step) : bool :=
  match e with
  | SGet _ _ => true
  | SRegister l err => err || (connected (hget (l_heap s) l) && negb (c_error (hget (l_heap s) l)))
  | SSet c f => negb (spec_field f && has_key (l_waiting s) c)
  end.

Fixpoint env_ok (cf : cfg) (s : lstate) (hist : list step) : bool :=
  match hist with
  | [] => true
  | e :: r => step_ok s e && env_ok cf (fst (step_fn cf s e)) r
  end.

(* complement of the finding carrier-reused-as-origin: no request asks for a destination that matches a
   registered connection whose handler is the layer stack of another connection (a tunnel carrier) *)
Definition no_foreign_match (s : lstate) (e : step) : bool :=
  match e with
  | SGet _ g => forallb (fun x => negb (connection_spec_matches g (hget (l_heap s) (fst x)))
                                  || N.eqb (handler_of (l_conns s) (fst x)) (fst x)) (l_conns s)
  | _ => true
  end.

Fixpoint guard_ok (cf : cfg) (s : lstate) (hist : list step) : bool :=
  match hist with
  | [] => true
  | e :: r => no_foreign_match s e && guard_ok cf (fst (step_fn cf s e)) r
  end.
