(* Model/Compat.v -- executable model of compat.migrate_flow (mitmproxy/io/compat.py). No proofs.

   A flow state is abstracted to what the driver and the version effect of the converters touch:
   the entry under the bytes key (bver), the entry under the str key (sver), None = key absent,
   and an opaque remainder (rest). Converter bodies are a parameter [body]: None = the body
   raised; Some s1 = the state it returns before the version assignment is accounted for (the
   assignment is the translated effect, applied by [convert]). Nothing in a converter reads a
   version entry, so the position of the assignment inside the body does not matter.

   Python                                          model
   flow_data.get(bkey, flow_data.get(skey))        get_version
   isinstance int / tuple(v)[:2]                   normalise (None = tuple raised TypeError)
   flow_version == FLOW_FORMAT_VERSION             is_current
   flow_version in converters                      unhashable (TypeError), then lookup
   and flow_version != previous_version            only when [guard] (the proposed repair)
   converters[flow_version](flow_data)             convert; costs one unit of fuel
   raise ValueError(... should_upgrade ...)        Rejected hint
   The loop has no bound in Python; fuel counts converter calls and OutOfFuel is distinct. *)
From Coq Require Import ZArith List Bool.
From MV Require Import Model.CompatPrelude.
Import ListNotations.

Definition velt_eqb (a b : velt) : bool :=
  match a, b with
  | EInt x, EInt y => Z.eqb x y
  | _, _ => false
  end.

Fixpoint velts_eqb (a b : list velt) : bool :=
  match a, b with
  | [], [] => true
  | x :: a', y :: b' => velt_eqb x y && velts_eqb a' b'
  | _, _ => false
  end.

(* Python == / dict-key equality between a normalised flow_version and a converter key. Keys hold
   ints only, so a tuple with an EOther element equals no key. *)
Definition fver_eqb (a b : fver) : bool :=
  match a, b with
  | FInt x, FInt y => Z.eqb x y
  | FTup x, FTup y => velts_eqb x y
  | _, _ => false
  end.

Definition normalise (v : verval) : option fver :=
  match v with
  | VInt z => Some (FInt z)
  | VSeq l => Some (FTup (firstn 2 l))
  | VNotIterable => None
  end.

Definition is_unhashable_elt (e : velt) : bool :=
  match e with EUnhashable => true | _ => false end.

Definition unhashable (fv : fver) : bool :=
  match fv with FInt _ => false | FTup l => existsb is_unhashable_elt l end.

Fixpoint lookup (fv : fver) (c : chain_t) : option (effect * verval) :=
  match c with
  | [] => None
  | (k, et) :: tl => if fver_eqb fv k then Some et else lookup fv tl
  end.

Definition is_current (current : Z) (fv : fver) : bool :=
  match fv with FInt z => Z.eqb z current | FTup _ => false end.

Definition should_upgrade (current : Z) (fv : fver) : bool :=
  match fv with FInt z => Z.ltb current z | FTup _ => false end.

Definition prev_eqb (prev : option fver) (fv : fver) : bool :=
  match prev with Some p => fver_eqb fv p | None => false end.

Section Driver.
  Variable R : Type.

  Record state := mk_state { bver : option verval; sver : option verval; rest : R }.

  Definition get_version (s : state) : verval :=
    match bver s with
    | Some v => v
    | None => match sver s with Some v => v | None => VNotIterable end
    end.

  Definition apply_effect (e : effect) (t : verval) (s : state) : state :=
    match e with
    | WB => mk_state (Some t) (sver s) (rest s)
    | WS => mk_state (bver s) (Some t) (rest s)
    | US => mk_state None (Some t) (rest s)
    end.

  Variable body : fver -> state -> option state.
  Variable chain : chain_t.
  Variable current : Z.
  Variable guard : bool.

  Definition convert (k : fver) (et : effect * verval) (s : state) : option state :=
    match body k s with
    | None => None
    | Some s1 => Some (apply_effect (fst et) (snd et) s1)
    end.

  Inductive result :=
  | Migrated (s : state)
  | Rejected (hint : bool)
  | TupleTypeError
  | UnhashableTypeError
  | ConverterRaised (k : fver)
  | OutOfFuel.

  (* one entry per converter call: its key and, if it returned, both version entries afterwards *)
  Definition call := (fver * option (option verval * option verval))%type.

  Fixpoint migrate_flow (fuel : nat) (prev : option fver) (s : state) : list call * result :=
    match normalise (get_version s) with
    | None => ([], TupleTypeError)
    | Some fv =>
        if is_current current fv then ([], Migrated s)
        else if unhashable fv then ([], UnhashableTypeError)
        else match lookup fv chain with
             | None => ([], Rejected (should_upgrade current fv))
             | Some et =>
                 if guard && prev_eqb prev fv then ([], Rejected (should_upgrade current fv))
                 else match fuel with
                      | O => ([], OutOfFuel)
                      | S f =>
                          match convert fv et s with
                          | None => ([(fv, None)], ConverterRaised fv)
                          | Some s' =>
                              let tr := migrate_flow f (Some fv) s' in
                              ((fv, Some (bver s', sver s')) :: fst tr, snd tr)
                          end
                      end
             end
    end.
End Driver.

Arguments mk_state {R}.
Arguments bver {R}.
Arguments sver {R}.
Arguments rest {R}.
Arguments get_version {R}.
Arguments apply_effect {R}.
Arguments convert {R}.
Arguments migrate_flow {R}.
Arguments Migrated {R}.
Arguments Rejected {R}.
Arguments TupleTypeError {R}.
Arguments UnhashableTypeError {R}.
Arguments ConverterRaised {R}.
Arguments OutOfFuel {R}.

(* ---- well-formedness of a converter table, decidable; evaluated on the translated table ---- *)
Definition ints_only (fv : fver) : bool :=
  match fv with
  | FInt _ => true
  | FTup l => forallb (fun e => match e with EInt _ => true | _ => false end) l
  end.

Definition opt_fver_eqb (a : option fver) (b : fver) : bool :=
  match a with Some x => fver_eqb x b | None => false end.

(* every converter writes the key of the next table entry; the last one writes the current version *)
Fixpoint linked (current : Z) (c : chain_t) : bool :=
  match c with
  | [] => true
  | (_, (_, t)) :: tl =>
      match tl with
      | [] => opt_fver_eqb (normalise t) (FInt current)
      | (k', _) :: _ => opt_fver_eqb (normalise t) k'
      end && linked current tl
  end.

Fixpoint nodup_keys (c : chain_t) : bool :=
  match c with
  | [] => true
  | (k, _) :: tl => negb (existsb (fun e => fver_eqb k (fst e)) tl) && nodup_keys tl
  end.

Definition effect_is_WS (e : effect) : bool := match e with WS => true | _ => false end.
Definition effect_is_WB (e : effect) : bool := match e with WB => true | _ => false end.

(* a converter that writes the bytes key is followed by one that does not rely on the str key *)
Fixpoint era_ok (c : chain_t) : bool :=
  match c with
  | [] => true
  | (_, (e, _)) :: tl =>
      match tl with
      | [] => negb (effect_is_WB e)
      | (_, (e', _)) :: _ => negb (effect_is_WB e && effect_is_WS e')
      end && era_ok tl
  end.

Definition keys_ok (current : Z) (c : chain_t) : bool :=
  forallb (fun e => ints_only (fst e) && negb (is_current current (fst e))
                    && negb (should_upgrade current (fst e))
                    && match fst e with FInt _ => true | FTup l => Nat.leb (length l) 2 end) c.

Definition chain_ok (current : Z) (c : chain_t) : bool :=
  keys_ok current c && nodup_keys c && linked current c && era_ok c.
