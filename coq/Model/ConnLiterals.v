(* Model/ConnLiterals.v -- the typed-field check of coretypes/serializable._process for
   Literal[...] and Literal[...] | None attributes (Connection.tls_version, transport_protocol),
   and the INDEPENDENT domains these fields take in operation, pinned as literals:
   what OpenSSL SSL_get_version() and aioquic report, and the two transports. Definitions only. *)
From Coq Require Import List Bool.
From MV Require Import Base.Bytes.
Import ListNotations.

(* attr_val in typing.get_args(attr_type); false = ValueError from get_state / set_state *)
Definition literal_ok (dom : list bytes) (v : bytes) : bool := existsb (bytes_eqb v) dom.
(* Literal[...] | None *)
Definition opt_literal_ok (dom : list bytes) (v : option bytes) : bool :=
  match v with None => true | Some x => literal_ok dom x end.

(* SSLv3 TLSv1 TLSv1.1 TLSv1.2 TLSv1.3 DTLSv0.9 DTLSv1 DTLSv1.2 QUICv1 *)
Definition reported_tls_versions : list bytes :=
  [[x53;x53;x4c;x76;x33];
   [x54;x4c;x53;x76;x31];
   [x54;x4c;x53;x76;x31;x2e;x31];
   [x54;x4c;x53;x76;x31;x2e;x32];
   [x54;x4c;x53;x76;x31;x2e;x33];
   [x44;x54;x4c;x53;x76;x30;x2e;x39];
   [x44;x54;x4c;x53;x76;x31];
   [x44;x54;x4c;x53;x76;x31;x2e;x32];
   [x51;x55;x49;x43;x76;x31]].
(* tcp udp *)
Definition reported_transports : list bytes :=
  [[x74;x63;x70]; [x75;x64;x70]].
