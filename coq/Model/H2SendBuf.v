(* Model/H2SendBuf.v -- executable model of mitmproxy's HTTP/2 send buffering
   (mitmproxy/proxy/layers/http/_http_h2.py, BufferedH2Connection: send_data, end_stream, stream_window_updated,
   connection_window_updated and the WindowUpdated dispatch of receive_data), used by C07 for bodies relayed over an
   HTTP/2 leg.  hyper-h2 itself is reduced to what the buffer needs: super().send_data writes one DATA frame and
   lowers the stream and the connection window by its length; local_flow_control_window is the smaller of the two.
   stream_buffers is an insertion-ordered dict: an association list in dict order.
   Not modelled: trailers, reset_stream / StreamReset / ConnectionTerminated (buffers dropped), padding. *)
From Coq Require Import List Bool NArith ZArith.
From MV Require Import Base.Bytes.
Import ListNotations.
Open Scope Z_scope.

Definition chunk := (bytes * bool)%type.            (* SendH2Data(data, end_stream) *)
Definition smap (A : Type) := list (N * A).

Fixpoint get {A} (k : N) (m : smap A) : option A :=
  match m with
  | [] => None
  | (k', v) :: r => if N.eqb k k' then Some v else get k r
  end.
Definition remove {A} (k : N) (m : smap A) : smap A := filter (fun e => negb (N.eqb k (fst e))) m.
Fixpoint update {A} (k : N) (v : A) (m : smap A) : smap A :=
  match m with
  | [] => []
  | (k', v') :: r => if N.eqb k k' then (k', v) :: r else (k', v') :: update k v r
  end.

Inductive frame := Frame (sid : N) (data : bytes) (end_stream : bool).

Record sb := mkSb {
  bufs : smap (list chunk);      (* stream_buffers, in dict order *)
  swin : smap Z;                 (* outbound flow-control window of every stream *)
  cwin : Z;                      (* outbound_flow_control_window of the connection *)
  maxf : Z                       (* max_outbound_frame_size *)
}.

Definition zlen (d : bytes) : Z := Z.of_nat (length d).
Definition buf_of (sid : N) (s : sb) : list chunk := match get sid (bufs s) with Some q => q | None => [] end.
Definition win_of (sid : N) (s : sb) : Z := match get sid (swin s) with Some w => w | None => 0 end.
(* H2Connection.local_flow_control_window *)
Definition local_flow_control_window (sid : N) (s : sb) : Z := Z.min (cwin s) (win_of sid s).

(* super().send_data(stream_id, data, end_stream) *)
Definition super_send (sid : N) (d : bytes) (es : bool) (s : sb) : sb * list frame :=
  (mkSb (bufs s) (update sid (win_of sid s - zlen d) (swin s)) (cwin s - zlen d) (maxf s), [Frame sid d es]).

(* self.stream_buffers[stream_id].append(c) *)
Definition append_chunk (sid : N) (c : chunk) (m : smap (list chunk)) : smap (list chunk) :=
  match get sid m with
  | Some q => update sid (q ++ [c]) m
  | None => m ++ [(sid, [c])]
  end.
Definition set_bufs (s : sb) (m : smap (list chunk)) : sb := mkSb m (swin s) (cwin s) (maxf s).

(* send_data for a frame that fits max_outbound_frame_size *)
Definition send_one (sid : N) (d : bytes) (es : bool) (s : sb) : sb * list frame :=
  match get sid (bufs s) with
  | Some (_ :: _) => (set_bufs s (append_chunk sid (d, es) (bufs s)), [])
  | _ =>
      let aw := local_flow_control_window sid s in
      if zlen d <=? aw then super_send sid d es s
      else
        let '(s1, f1, d1) :=
          if 0 <? aw then
            let '(s1, f1) := super_send sid (firstn (Z.to_nat aw) d) false s in (s1, f1, skipn (Z.to_nat aw) d)
          else (s, [], d) in
        (set_bufs s1 (append_chunk sid (d1, es) (bufs s1)), f1)
  end.

(* data[start : start + max_outbound_frame_size] for start in range(0, len, max) *)
Fixpoint pieces (fuel : nat) (m : nat) (d : bytes) : list bytes :=
  match fuel with
  | O => []
  | S f => match d with
           | [] => []
           | _ => firstn m d :: pieces f m (skipn m d)
           end
  end.

Fixpoint send_all (sid : N) (ds : list bytes) (s : sb) : sb * list frame :=
  match ds with
  | [] => (s, [])
  | d :: r => let '(s1, f1) := send_one sid d false s in
              let '(s2, f2) := send_all sid r s1 in (s2, f1 ++ f2)
  end.

(* BufferedH2Connection.send_data: an over-long frame is cut up, every piece sent with end_stream=False
   (the end_stream flag of the call is not passed on) *)
Definition send_data (sid : N) (d : bytes) (es : bool) (s : sb) : sb * list frame :=
  if (maxf s <? zlen d) && (0 <? maxf s) then send_all sid (pieces (length d) (Z.to_nat (maxf s)) d) s
  else send_one sid d es s.

(* the while loop of stream_window_updated over the buffer of one stream: frames to write, chunks left *)
Fixpoint drain (aw : Z) (q : list chunk) : list chunk * list chunk :=
  match q with
  | [] => ([], [])
  | (d, es) :: r =>
      if aw <=? 0 then ([], q)
      else if aw <? zlen d then
        ([(firstn (Z.to_nat aw) d, false)], (skipn (Z.to_nat aw) d, es) :: r)
      else let '(e, rest) := drain (aw - zlen d) r in ((d, es) :: e, rest)
  end.

Fixpoint total (e : list chunk) : Z := match e with [] => 0 | (d, _) :: r => zlen d + total r end.

(* stream_window_updated(stream_id) -> sent_any_data; the stream is open *)
Definition stream_window_updated (sid : N) (s : sb) : sb * list frame * bool :=
  match get sid (bufs s) with
  | None => (s, [], false)
  | Some q =>
      let '(e, rest) := drain (local_flow_control_window sid s) q in
      match e with
      | [] => (s, [], false)
      | _ =>
          let m := match rest with [] => remove sid (bufs s) | _ => update sid rest (bufs s) end in
          (mkSb m (update sid (win_of sid s - total e) (swin s)) (cwin s - total e) (maxf s),
           map (fun c => Frame sid (fst c) (snd c)) e, true)
      end
  end.

(* self.stream_buffers[stream_id] = self.stream_buffers.pop(stream_id): move to the end of the dict *)
Definition move_to_end (sid : N) (m : smap (list chunk)) : smap (list chunk) :=
  match get sid m with
  | Some q => remove sid m ++ [(sid, q)]
  | None => m
  end.

(* one pass of the for loop of connection_window_updated over list(self.stream_buffers):
   result: state, frames, sent_any_data, returned early (connection window exhausted) *)
Fixpoint cwu_pass (keys : list N) (s : sb) : sb * list frame * bool * bool :=
  match keys with
  | [] => (s, [], false, false)
  | k :: r =>
      let s0 := set_bufs s (move_to_end k (bufs s)) in
      let '(s1, f1, sent) := stream_window_updated k s0 in
      if sent && (cwin s1 =? 0) then (s1, f1, true, true)
      else let '(s2, f2, sent2, ret) := cwu_pass r s1 in (s2, f1 ++ f2, sent || sent2, ret)
  end.

(* connection_window_updated: passes until nothing was sent; None = out of fuel (does not happen, each pass that
   sends shrinks the buffers) *)
Fixpoint connection_window_updated (fuel : nat) (s : sb) : option (sb * list frame) :=
  match fuel with
  | O => None
  | S f =>
      let '(s1, f1, sent, ret) := cwu_pass (map fst (bufs s)) s in
      if ret || negb sent then Some (s1, f1)
      else match connection_window_updated f s1 with
           | Some (s2, f2) => Some (s2, f1 ++ f2)
           | None => None
           end
  end.

Inductive op :=
| OSend (sid : N) (d : bytes) (es : bool)       (* send_data *)
| OEnd (sid : N)                                (* end_stream: send_data(stream_id, b"", end_stream=True) *)
| OWinS (sid : N) (n : Z)                       (* WINDOW_UPDATE for a stream received *)
| OWinC (n : Z).                                (* WINDOW_UPDATE for the connection received *)

Definition buffered_size (s : sb) : nat :=
  fold_right (fun e acc => (length (snd e) + Z.to_nat (total (snd e)) + acc)%nat) O (bufs s).

Definition apply_op (o : op) (s : sb) : option (sb * list frame) :=
  match o with
  | OSend sid d es => Some (send_data sid d es s)
  | OEnd sid => Some (send_data sid [] true s)
  | OWinS sid n =>
      let s1 := mkSb (bufs s) (update sid (win_of sid s + n) (swin s)) (cwin s) (maxf s) in
      let '(s2, f, _) := stream_window_updated sid s1 in Some (s2, f)
  | OWinC n =>
      let s1 := mkSb (bufs s) (swin s) (cwin s + n) (maxf s) in
      connection_window_updated (S (buffered_size s1)) s1
  end.

(* run a list of operations; per operation the frames written.  None = out of fuel *)
Fixpoint run_ops (ops : list op) (s : sb) : option (sb * list (list frame)) :=
  match ops with
  | [] => Some (s, [])
  | o :: r =>
      match apply_op o s with
      | None => None
      | Some (s1, f1) =>
          match run_ops r s1 with
          | Some (s2, fs) => Some (s2, f1 :: fs)
          | None => None
          end
      end
  end.

Definition init_sb (sids : list N) (w0 c0 mf : Z) : sb := mkSb [] (map (fun k => (k, w0)) sids) c0 mf.
