(* Model/QuicDemux.v -- executable model of RawQuicLayer (mitmproxy/proxy/layers/quic/_raw_layers.py):
   the stream maps and counters, stream registration in _handle_event, event_to_child command
   translation, close_stream_layer, the reset wrapper and the connection-close sweep.
   Stream-id arithmetic comes from the translated Gen/QuicIds.v.

   The per-stream child layer (TCPLayer / NextLayer stack behind QuicStreamLayer) is a PARAMETER:
   a function from its own state, the current states of the two virtual stream connections and
   the event to (new state, commands).  Re-entrant calls (OpenConnectionCompleted delivered while
   the child sits at its OpenConnection yield; ConnectionClosed delivered from close_stream_layer
   while the child is mid-list) see the new state.  Commands are processed depth first, exactly as
   the nested Python generators do.  Python AssertionErrors are explicit errk values; after an
   error nothing else runs.  No proofs here. *)
From Coq Require Import NArith List Bool.
From MV Require Import Base.Bytes Model.QuicIdsPrelude Gen.QuicIds.
Import ListNotations.
Open Scope N_scope.

Inductive side := Cl | Sv.
Definition other (s : side) : side := match s with Cl => Sv | Sv => Cl end.
Definition is_cl (s : side) : bool := match s with Cl => true | Sv => false end.

(* connection.ConnectionState flags + the two timestamps that the layer tests against None *)
Record connst := mkConn { can_read : bool; can_write : bool; ts_start : bool; ts_end : bool }.
Definition set_read (b : bool) (c : connst) := mkConn b (can_write c) (ts_start c) (ts_end c).
Definition set_write (b : bool) (c : connst) := mkConn (can_read c) b (ts_start c) (ts_end c).
Definition set_end (b : bool) (c : connst) := mkConn (can_read c) (can_write c) (ts_start c) b.
Definition closed_conn : connst := mkConn false false false false.

(* events delivered to a stream child / commands it may yield for its own two connections *)
Inductive cevent := EvStart | EvData (s : side) (d : bytes) | EvClosed (s : side) | EvOpenDone.
Inductive ccmd :=
| CSend (s : side) (d : bytes)          (* commands.SendData(conn, d) *)
| CClose (s : side) (half : bool)       (* CloseTcpConnection(conn, half_close=True) if half, else CloseConnection(conn) *)
| COpen (s : side)                      (* commands.OpenConnection(conn) *)
| CPass (n : N).                        (* any non-blocking command that is not for a stream connection *)

Inductive errk :=
| AssertInitiator | UnexpectedStreamEvent | AssertStreamId | AssertOpenClient | AssertOpenTwice
| AssertTsStart | CounterIndex | Internal | OutOfFuel | OtherExc.

(* commands leaving RawQuicLayer; L is a ghost tag: the index of the stream layer whose child
   caused the command (not observable, erased by the correspondence check) *)
Inductive out :=
| OSend (L : nat) (to : side) (id : N) (d : bytes) (fin : bool)
| OReset (L : nat) (to : side) (id : N) (code : N)
| OStop (L : nat) (to : side) (id : N) (code : N)
| OPass (L : nat) (n : N)
| OCloseConn (to : side) (code : N).

(* which filter the commands of the running generator pass through before leaving _handle_event *)
Inductive wrap := WNone | WReset (from : side) (code : N) | WConnClose.

Inductive skind := KData (d : bytes) (fin : bool) | KReset (code : N) | KStop (code : N).
Inductive sevent :=
| SStream (from : side) (id : N) (k : skind)   (* QuicStreamDataReceived / QuicStreamReset / QuicStreamStopSending *)
| SConnClosed (from : side) (code : N).        (* QuicConnectionClosed; the root connection of that side is closed first *)

Fixpoint dict_get (k : N) (d : list (N * nat)) : option nat :=
  match d with [] => None | (k', v) :: t => if k =? k' then Some v else dict_get k t end.
(* Python dict assignment: overwrite in place or append *)
Fixpoint dict_set (k : N) (v : nat) (d : list (N * nat)) : list (N * nat) :=
  match d with
  | [] => [(k, v)]
  | (k', v') :: t => if k =? k' then (k, v) :: t else (k', v') :: dict_set k v t
  end.

Definition is_empty (d : bytes) : bool := match d with [] => true | _ => false end.
Definition FUEL : nat := 6%nat.

(* a sequence of allocator calls (is_client, is_unidirectional) on the counters nx *)
Fixpoint alloc_seq (nx : list N) (calls : list (bool * bool)) : option (list N * list N) :=
  match calls with
  | [] => Some ([], nx)
  | (c, u) :: t =>
    match get_next_available_stream_id nx c u with
    | None => None
    | Some (id, nx') => match alloc_seq nx' t with Some (ids, f) => Some (id :: ids, f) | None => None end
    end
  end.

Section Demux.
Variable C : Type.
Variable child_step : C -> connst * connst -> cevent -> C * list ccmd.
Variable new_child : nat -> C.    (* child of the n-th stream layer created *)

Record slayer := mkLayer { cid : N; sid : option N; cconn : connst; sconn : connst; cst : C }.
Record state := mkState {
  layers : list slayer;            (* all QuicStreamLayers, in creation order *)
  client_ids : list (N * nat);     (* RawQuicLayer.client_stream_ids : id -> layer index *)
  server_ids : list (N * nat);     (* RawQuicLayer.server_stream_ids *)
  next_ids : list N;               (* RawQuicLayer.next_stream_id *)
  root_c : bool; root_s : bool;    (* context.client.connected / context.server.connected *)
  done : bool;                     (* _handle_event = self.done *)
  outs : list out;                 (* commands yielded so far, newest first *)
  err : option errk }.

Definition init_state : state := mkState [] [] [] NEXT_STREAM_ID_INIT true true false [] None.

Definition stream_id (l : slayer) (s : side) : option N := match s with Cl => Some (cid l) | Sv => sid l end.
Definition conn_of (s : side) (l : slayer) : connst := match s with Cl => cconn l | Sv => sconn l end.
Definition set_conn (s : side) (f : connst -> connst) (l : slayer) : slayer :=
  match s with
  | Cl => mkLayer (cid l) (sid l) (f (cconn l)) (sconn l) (cst l)
  | Sv => mkLayer (cid l) (sid l) (cconn l) (f (sconn l)) (cst l)
  end.
Definition set_cst (c : C) (l : slayer) : slayer := mkLayer (cid l) (sid l) (cconn l) (sconn l) c.

Fixpoint upd_nth (L : nat) (f : slayer -> slayer) (ls : list slayer) : list slayer :=
  match ls, L with
  | [], _ => []
  | l :: t, O => f l :: t
  | l :: t, S n => l :: upd_nth n f t
  end.
Definition with_layers (ls : list slayer) (st : state) : state :=
  mkState ls (client_ids st) (server_ids st) (next_ids st) (root_c st) (root_s st) (done st) (outs st) (err st).
Definition upd_layer (L : nat) (f : slayer -> slayer) (st : state) : state := with_layers (upd_nth L f (layers st)) st.
Definition with_client_ids d st :=
  mkState (layers st) d (server_ids st) (next_ids st) (root_c st) (root_s st) (done st) (outs st) (err st).
Definition with_server_ids d st :=
  mkState (layers st) (client_ids st) d (next_ids st) (root_c st) (root_s st) (done st) (outs st) (err st).
Definition with_next n st :=
  mkState (layers st) (client_ids st) (server_ids st) n (root_c st) (root_s st) (done st) (outs st) (err st).
Definition with_roots c s d st :=
  mkState (layers st) (client_ids st) (server_ids st) (next_ids st) c s d (outs st) (err st).
Definition push (o : out) (st : state) : state :=
  mkState (layers st) (client_ids st) (server_ids st) (next_ids st) (root_c st) (root_s st) (done st) (o :: outs st) (err st).
Definition fail (e : errk) (st : state) : state :=
  mkState (layers st) (client_ids st) (server_ids st) (next_ids st) (root_c st) (root_s st) (done st) (outs st)
          (match err st with Some x => Some x | None => Some e end).

(* a command is yielded by the generator chain rooted at layer L under filter w.
   WReset: `isinstance(command, SendQuicStreamData) and command.stream_id == stream_layer.stream_id(not from_client)
            and command.end_stream and not command.data` -> ResetQuicStream (the connection is NOT compared);
   WConnClose: `not isinstance(command, SendQuicStreamData) or command.data`. Evaluated lazily = at yield time. *)
Definition emit (w : wrap) (L : nat) (o : out) (st : state) : state :=
  match w, o with
  | WReset from code, OSend L' to id d true =>
      match nth_error (layers st) L with
      | Some l => if option_eqb N.eqb (Some id) (stream_id l (other from)) && is_empty d
                  then push (OReset L' to id code) st else push o st
      | None => push o st
      end
  | WConnClose, OSend _ _ _ d _ => if is_empty d then st else push o st
  | _, _ => push o st
  end.

(* QuicStreamLayer.open_server_stream *)
Definition open_state (id : N) : connst -> connst := fun c =>
  if stream_is_unidirectional id
  then (if stream_is_client_initiated id then mkConn false true true (ts_end c) else mkConn true false true (ts_end c))
  else mkConn true true true (ts_end c).
Definition open_server_stream (L : nat) (id : N) (st : state) : state :=
  upd_layer L (fun l => mkLayer (cid l) (Some id) (cconn l) (open_state id (sconn l)) (cst l)) st.

(* QuicStreamLayer.__init__: the virtual client connection *)
Definition init_cconn (id : N) : connst :=
  if stream_is_unidirectional id
  then (if stream_is_client_initiated id then mkConn true false true false else mkConn false true true false)
  else mkConn true true true false.

(* RawQuicLayer.close_stream_layer, with the recursive event_to_child passed in *)
Definition close_stream_layer_with (rec : wrap -> nat -> cevent -> state -> state)
           (w : wrap) (L : nat) (s : side) (st : state) : state :=
  match nth_error (layers st) L with
  | None => fail Internal st
  | Some l =>
    let st1 := upd_layer L (set_conn s (set_read false)) st in
    if negb (ts_start (conn_of s l)) then fail AssertTsStart st1
    else if ts_end (conn_of s l) then st1
    else rec w L (EvClosed s) (upd_layer L (set_conn s (set_end true)) st1)
  end.

(* one command of the child inside RawQuicLayer.event_to_child *)
Definition do_cmd (rec : wrap -> nat -> cevent -> state -> state)
           (w : wrap) (L : nat) (cmd : ccmd) (st : state) : state :=
  match nth_error (layers st) L with
  | None => fail Internal st
  | Some l =>
    match cmd with
    | CPass n => emit w L (OPass L n) st
    | CSend s d =>
      match stream_id l s with
      | None => fail AssertStreamId st
      | Some id => if can_write (conn_of s l) then emit w L (OSend L s id d false) st else st
      end
    | CClose s half =>
      match stream_id l s with
      | None => fail AssertStreamId st
      | Some id =>
        let st1 := if can_write (conn_of s l)
                   then emit w L (OSend L s id [] true) (upd_layer L (set_conn s (set_write false)) st)
                   else st in
        if half then st1 else
        let st2 := if Bool.eqb (stream_is_client_initiated id) (is_cl s) || negb (stream_is_unidirectional id)
                   then emit w L (OStop L s id 0) st1 else st1 in
        close_stream_layer_with rec w L s st2
      end
    | COpen s =>
      match s with
      | Cl => fail AssertOpenClient st
      | Sv =>
        match sid l with
        | Some _ => fail AssertOpenTwice st
        | None =>
          match get_next_available_stream_id (next_ids st) true (stream_is_unidirectional (cid l)) with
          | None => fail CounterIndex st
          | Some (id, nx) =>
            let st1 := open_server_stream L id (with_next nx st) in
            rec w L EvOpenDone (with_server_ids (dict_set id L (server_ids st1)) st1)
          end
        end
      end
    end
  end.

(* the `for command in child_layer.handle_event(event)` loop; an exception ends it *)
Fixpoint run_cmds (rec : wrap -> nat -> cevent -> state -> state)
         (w : wrap) (L : nat) (cmds : list ccmd) (st : state) {struct cmds} : state :=
  match cmds with
  | [] => st
  | cmd :: rest => match err st with Some _ => st | None => run_cmds rec w L rest (do_cmd rec w L cmd st) end
  end.

(* RawQuicLayer.event_to_child for a QuicStreamLayer child *)
Fixpoint etc (fuel : nat) (w : wrap) (L : nat) (ev : cevent) (st : state) {struct fuel} : state :=
  match fuel with
  | O => fail OutOfFuel st
  | S f =>
    match nth_error (layers st) L with
    | None => fail Internal st
    | Some l =>
      let '(c', cmds) := child_step (cst l) (cconn l, sconn l) ev in
      run_cmds (etc f) w L cmds (upd_layer L (set_cst c') st)
    end
  end.

Definition close_stream_layer := close_stream_layer_with (etc FUEL).

(* the tail of the QuicStreamEvent branch: forward data and close events *)
Definition post (from : side) (k : skind) (L : nat) (st : state) : state :=
  match err st with Some _ => st | None =>
  match k with
  | KData d fin =>
    let st1 := if is_empty d then st else etc FUEL WNone L (EvData from d) st in
    match err st1 with Some _ => st1 | None => if fin then close_stream_layer WNone L from st1 else st1 end
  | KReset code => close_stream_layer (WReset from code) L from st
  | KStop _ => fail UnexpectedStreamEvent st
  end end.

(* a new QuicStreamLayer is created and registered: Some (its index, new state); None = IndexError in the allocator *)
Definition create_layer (from : side) (id : N) (st : state) : option (nat * state) :=
  let alloc := match from with
               | Cl => Some (id, None, st)
               | Sv => match get_next_available_stream_id (next_ids st) false (stream_is_unidirectional id) with
                       | None => None
                       | Some (c, nx) => Some (c, Some id, with_next nx st)
                       end
               end in
  match alloc with
  | None => None
  | Some (c, so, st0) =>
    let L := length (layers st0) in
    let st1 := with_client_ids (dict_set c L (client_ids st0))
                 (with_layers (layers st0 ++ [mkLayer c None (init_cconn c) closed_conn (new_child L)]) st0) in
    Some (L, match so with
             | Some s => let st' := open_server_stream L s st1 in with_server_ids (dict_set s L (server_ids st')) st'
             | None => st1
             end)
  end.

Definition handle_stream (from : side) (id : N) (k : skind) (st : state) : state :=
  match dict_get id (match from with Cl => client_ids st | Sv => server_ids st end) with
  | Some L => post from k L st
  | None =>
    if negb (Bool.eqb (stream_is_client_initiated id) (is_cl from)) then fail AssertInitiator st else
    match create_layer from id st with
    | None => fail CounterIndex st
    | Some (L, st2) => post from k L (etc FUEL WNone L EvStart st2)
    end
  end.

(* QuicConnectionClosed for one of the two root connections (datagram layer not observed) *)
Definition handle_conn_closed (from : side) (code : N) (st : state) : state :=
  let st1 := match from with Cl => with_roots false (root_s st) (done st) st | Sv => with_roots (root_c st) false (done st) st end in
  let other_open := match from with Cl => root_s st1 | Sv => root_c st1 end in
  let st2 := if other_open then push (OCloseConn (other from) code) st1 else with_roots (root_c st1) (root_s st1) true st1 in
  fold_left (fun st L => match err st with Some _ => st | None =>
                           close_stream_layer WConnClose L from (upd_layer L (set_conn from (set_write false)) st) end)
            (seq 0 (length (layers st2))) st2.

Definition step (st : state) (ev : sevent) : state :=
  match err st with Some _ => st | None =>
  if done st then st else
  match ev with
  | SStream from id k => handle_stream from id k st
  | SConnClosed from code => handle_conn_closed from code st
  end end.

Definition run (evs : list sevent) : state := fold_left step evs init_state.

End Demux.

Arguments mkLayer {C}. Arguments cid {C}. Arguments sid {C}. Arguments cconn {C}. Arguments sconn {C}. Arguments cst {C}.
Arguments layers {C}. Arguments client_ids {C}. Arguments server_ids {C}. Arguments next_ids {C}.
Arguments root_c {C}. Arguments root_s {C}. Arguments done {C}. Arguments outs {C}. Arguments err {C}.
Arguments stream_id {C}. Arguments conn_of {C}. Arguments init_state {C}.

(* ---------------------------------------------------------------- concrete children *)

(* TCPLayer(ignore=True): start / relay_messages / done.  TWait = paused at `yield OpenConnection`. *)
Inductive tcpst := TStart | TWait | TRelay | TDone.
Definition conn_closed (c : connst) : bool := negb (can_read c) && negb (can_write c).
Definition tcp_step (s : tcpst) (v : connst * connst) (ev : cevent) : tcpst * list ccmd :=
  let '(cc, sc) := v in
  match s, ev with
  | TStart, EvStart => if ts_start sc then (TRelay, []) else (TWait, [COpen Sv])
  | TWait, EvOpenDone => (TRelay, [])
  | TRelay, EvData from d => (TRelay, [CSend (other from) d])
  | TRelay, EvClosed from =>
      if negb (can_read cc || can_read sc)
      then (TDone, (if conn_closed sc then [] else [CClose Sv false]) ++ (if conn_closed cc then [] else [CClose Cl false]))
      else (TRelay, [CClose (other from) true])
  | _, _ => (s, [])
  end.

(* scripted child used by the correspondence check: the i-th event it sees yields the i-th list *)
Inductive kchild := KTcp (t : tcpst) | KScript (tbl : list (list ccmd)).
Definition kstep (c : kchild) (v : connst * connst) (ev : cevent) : kchild * list ccmd :=
  match c with
  | KTcp t => let '(t', cmds) := tcp_step t v ev in (KTcp t', cmds)
  | KScript [] => (KScript [], [])
  | KScript (x :: t) => (KScript t, x)
  end.
Definition spawn (kinds : list kchild) (n : nat) : kchild := nth n kinds (KTcp TStart).
