(* Model/BlockDiff.v -- C22 vocabulary shared by the theorems and the correspondence check:
   the refusal observable, the model and registry classes as interval expressions, and the COMPUTED
   difference between the CPython tables (Gen/Block.v) and the registry (Model/Iana.v).
   Definitions only. *)
From Coq Require Import NArith List Bool String.
From MV Require Import Model.Ipaddr Model.Iana Gen.Block Model.Pexp.
Import ListNotations.
Open Scope N_scope.

Definition is_some {A : Type} (o : option A) : bool := match o with Some _ => true | None => false end.

Definition spec_local (m : proxy_mode) : bool := match m with LocalMode => true | _ => false end.

(* ---- model predicates as interval expressions *)
Definition M_loop4 := PIn IPv4_loopback_network.
Definition M_priv4 := por_tbl IPv4_private_networks.
Definition M_glob4 := PAnd (PNot (PIn IPv4_public_network)) (PNot M_priv4).
Definition M_loop6 := PIn (1, 1).
Definition M_priv6 := por_tbl IPv6_private_networks.
Definition M_glob6 := PNot M_priv6.

(* ---- specification predicates as interval expressions *)
Fixpoint reach_pexp (t : list entry) (acc : pexp) : pexp :=
  match t with
  | [] => acc
  | e :: r => reach_pexp r (POr (PAnd (PIn (fst e)) (if snd e then PT else PF)) (PAnd (PNot (PIn (fst e))) acc))
  end.

Definition S_loop4 := PIn loopback_v4.
Definition S_glob4 := reach_pexp iana_v4 PT.
Definition S_priv4 := PAnd (PNot S_glob4) (PNot (PIn shared_space_v4)).
Definition S_loop6 := PIn loopback_v6.
Definition S_glob6 := reach_pexp iana_v6 PT.
Definition S_priv6 := PNot S_glob6.

(* ---- where do model and registry disagree?  For a non-local mode the decision differs for some
   option setting iff one of the two guarded classes differs. *)
Definition Bad (Ml Mp Mg Sl Sp Sg : pexp) : pexp :=
  POr (PXor (PAnd (PNot Ml) Mp) (PAnd (PNot Sl) Sp)) (PXor (PAnd (PNot Ml) Mg) (PAnd (PNot Sl) Sg)).

Definition dom4 := PIn (0, max_v4).
Definition Bad4 := PAnd dom4 (Bad M_loop4 M_priv4 M_glob4 S_loop4 S_priv4 S_glob4).
Definition dom6 := PAnd (PIn (0, max_v6)) (PNot (PIn mapped_range)).    (* unmapped IPv6 *)
Definition Bad6 := PAnd dom6 (Bad M_loop6 M_priv6 M_glob6 S_loop6 S_priv6 S_glob6).

(* the set difference of the two tables, COMPUTED; its correctness is checked just below *)
Definition diff4 : list net := true_intervals Bad4 max_v4.
Definition diff6 : list net := true_intervals Bad6 max_v6.

(* ---- all notations at once: an address is in the difference iff the peer it denotes is *)
Definition in_diff (a : ip) : bool :=
  match effective a with IPv4 n => in_nets n diff4 | IPv6 n => in_nets n diff6 end.

Definition refused (bp bg : bool) (m : proxy_mode) (a : ip) : bool := is_some (client_connected bp bg m a).


(* ---- histories: one addon instance serving a sequence of connections, the options possibly
   changing in between (each connection carries the option values current when it arrives) *)
Record conn := { c_bp : bool; c_bg : bool; c_mode : proxy_mode; c_addr : ip }.

Fixpoint run_history (st : addon_state) (h : list conn) : list (option string) :=
  match h with
  | [] => []
  | c :: r =>
      let '(st', e) := hook_step st (c_bp c) (c_bg c) (c_mode c) (c_addr c) in
      e :: run_history st' r
  end.
